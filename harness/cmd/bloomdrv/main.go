// bloomdrv binds spec/addons/Bloom.tla (C35 Bloom filter, C36 counting Bloom filter, C37 sliding-window Bloom
// filter) to the real rueidisprob package: real constructors and methods, a real rueidis client, the real Lua
// script texts executed by luamini inside fakeredis, the server clock driven by the scenario.
//
//	-mode induce  for every requested configuration build the real filter and report what the constructor decided
//	              (accepted?, size, hashIterations) and the indexes the filter itself computes for candidate item
//	              strings; the check turns that into the constant hash function H of the TLC generation run, so the
//	              specification's predictions are exact (false positives included)
//	-mode sweep   configuration classes enumerated by TLC (BloomCfg.tla) are concretised to numbers; every accepted
//	              configuration is observed (size, hashIterations through the verif export, Add-then-Exists
//	              behaviour); the observations are written to -obs for TLC to check the interface obligation
//	              Obligation(K, Size) of Bloom.tla
//	-mode big     large batches (more than 32768 indexes in one AddMulti/ExistsMulti call) with the per-position answers
//	              the specification predicts
//	-mode replay  TLC-generated histories (each step carrying the specification's predicted answers, obligations
//	              and post-state) are applied to the real filters; verdicts follow DESIGN.md 2.3: property-level
//	              contradictions are violations, other mismatches with the exact prediction are divergences
package main

import (
	"bufio"
	"context"
	"encoding/json"
	"errors"
	"flag"
	"fmt"
	"math"
	"os"
	"sort"
	"strconv"
	"strings"
	"time"

	"github.com/redis/rueidis"
	"github.com/redis/rueidis/rueidisprob"
	"verifharness/fakeredis"
	"verifharness/vh"
)

var (
	mode  = flag.String("mode", "replay", "induce | sweep | replay | big")
	inF   = flag.String("in", "", "input file (json for induce/sweep, ndjson of histories for replay)")
	obsF  = flag.String("obs", "", "sweep: ndjson file receiving one observation per concrete configuration")
	prop  = flag.String("prop", "", "C35 | C36 | C37 (selects which kinds a sweep covers)")
	resF  = flag.String("res", "", "induce: result file")
	limit = flag.Int("limit", 0, "replay: stop after this many histories (0 = all)")
)

const addr = "127.0.0.1:6379"

type env struct {
	srv    *fakeredis.Server
	clock  *fakeredis.VirtualClock
	client rueidis.Client
	ctx    context.Context
	seq    int

	timeouts []string
}

func newEnv(readOnlyScripts bool) *env {
	clock := fakeredis.NewVirtualClock(time.Unix(1_700_000_000, 0))
	srv := fakeredis.NewServer("n1", fakeredis.Options{Clock: clock})
	nw := fakeredis.NewNetwork()
	nw.Add(addr, srv)
	c, err := rueidis.NewClient(rueidis.ClientOption{InitAddress: []string{addr}, DialCtxFn: nw.DialCtxFn(),
		ForceSingleClient: true, DisableRetry: true})
	if err != nil {
		panic(err)
	}
	return &env{srv: srv, clock: clock, client: c, ctx: context.Background()}
}

func (e *env) close() { e.client.Close(); e.srv.Close() }

func (e *env) name(prefix string) string { e.seq++; return prefix + strconv.Itoa(e.seq) }

func (e *env) cctx() (context.Context, context.CancelFunc) {
	return context.WithTimeout(e.ctx, 60*time.Second)
}

// ---------------------------------------------------------------------------------------------- filters

// filter is the union of the three public interfaces.
type filter struct {
	kind string
	bf   rueidisprob.BloomFilter         // bloom, sliding
	cbf  rueidisprob.CountingBloomFilter // counting
	raw  any
	keys []string
}

type config struct {
	Kind     string  `json:"kind"`
	N        uint    `json:"n"`
	Rate     float64 `json:"rate"`
	WindowMs int64   `json:"window_ms"`
	ReadOnly bool    `json:"ro"`
}

func (e *env) build(c config, name string) (*filter, error) {
	f := &filter{kind: c.Kind}
	var err error
	switch c.Kind {
	case "bloom":
		f.bf, err = rueidisprob.NewBloomFilter(e.client, name, c.N, c.Rate, rueidisprob.WithEnableReadOperation(c.ReadOnly))
		f.raw = f.bf
	case "counting":
		f.cbf, err = rueidisprob.NewCountingBloomFilter(e.client, name, c.N, c.Rate)
		f.raw = f.cbf
	case "sliding":
		f.bf, err = rueidisprob.NewSlidingBloomFilter(e.client, name, c.N, c.Rate, time.Duration(c.WindowMs)*time.Millisecond,
			rueidisprob.WithReadOnlyExists(c.ReadOnly))
		f.raw = f.bf
	default:
		panic("kind " + c.Kind)
	}
	if err != nil {
		return nil, err
	}
	f.keys = rueidisprob.VerifKeys(f.raw)
	return f, nil
}

func (f *filter) addMulti(ctx context.Context, keys []string, single bool) error {
	if f.cbf != nil {
		if single && len(keys) == 1 {
			return f.cbf.Add(ctx, keys[0])
		}
		return f.cbf.AddMulti(ctx, keys)
	}
	if single && len(keys) == 1 {
		return f.bf.Add(ctx, keys[0])
	}
	return f.bf.AddMulti(ctx, keys)
}

func (f *filter) existsMulti(ctx context.Context, keys []string, single bool) ([]bool, error) {
	if single && len(keys) == 1 {
		var b bool
		var err error
		if f.cbf != nil {
			b, err = f.cbf.Exists(ctx, keys[0])
		} else {
			b, err = f.bf.Exists(ctx, keys[0])
		}
		return []bool{b}, err
	}
	if f.cbf != nil {
		return f.cbf.ExistsMulti(ctx, keys)
	}
	return f.bf.ExistsMulti(ctx, keys)
}

func (f *filter) count(ctx context.Context) (uint64, error) {
	if f.cbf != nil {
		return f.cbf.Count(ctx)
	}
	return f.bf.Count(ctx)
}

func (f *filter) del(ctx context.Context) error {
	if f.cbf != nil {
		return f.cbf.Delete(ctx)
	}
	return f.bf.Delete(ctx)
}

// ---------------------------------------------------------------------------------------------- induce

type induceReq struct {
	Configs []config `json:"configs"`
	Items   []string `json:"items"`
}

type induceRes struct {
	Config   config              `json:"config"`
	Accepted bool                `json:"accepted"`
	Err      string              `json:"err"`
	Size     uint                `json:"size"`
	K        uint                `json:"k"`
	Idx      map[string][]uint64 `json:"idx"`
}

func induce(rep *vh.Report) {
	var req induceReq
	mustJSON(*inF, &req)
	e := newEnv(false)
	defer e.close()
	var out []induceRes
	for _, c := range req.Configs {
		r := induceRes{Config: c, Idx: map[string][]uint64{}}
		f, err := e.build(c, e.name("ind"))
		if err != nil {
			r.Err = err.Error()
			out = append(out, r)
			continue
		}
		r.Accepted = true
		r.Size, r.K, _ = rueidisprob.VerifSizing(f.raw)
		for _, it := range req.Items {
			ss, _ := rueidisprob.VerifIndexes(f.raw, []string{it})
			v := make([]uint64, len(ss))
			for i, s := range ss {
				v[i], _ = strconv.ParseUint(s, 10, 64)
			}
			r.Idx[it] = v
		}
		out = append(out, r)
		rep.Evaluations++
	}
	b, _ := json.Marshal(out)
	if err := os.WriteFile(*resF, b, 0o644); err != nil {
		panic(err)
	}
}

// ---------------------------------------------------------------------------------------------- sweep

type class struct {
	Kind string `json:"kind"`
	NCls string `json:"ncls"`
	RCls string `json:"rcls"`
}

// observation of one concrete configuration (all records carry the same field set: TLC reads them)
type observation struct {
	Kind     string  `json:"kind"`
	NCls     string  `json:"ncls"`
	RCls     string  `json:"rcls"`
	N        int64   `json:"n"`
	Rate     string  `json:"rate"`
	Accepted bool    `json:"accepted"`
	Size     int64   `json:"size"` // capped at 2e9: TLC integers are 32 bit, the obligation only asks for >= 1
	SizeS    string  `json:"size_s"`
	K        int64   `json:"k"`
	AddOK    bool    `json:"add_ok"`
	Present  bool    `json:"present"`
	Behaved  bool    `json:"behaved"` // the behavioural part was run (size small enough for the fake server)
	rate     float64 `json:"-"`
}

// concretisation of the classes TLC enumerates (BloomCfg.tla documents the classes; the numbers are test inputs)
func nValues(cls string, rng func(int64) int64) []uint {
	pick := func(lo, hi int64, fixed ...int64) []uint {
		var v []uint
		for _, f := range fixed {
			v = append(v, uint(f))
		}
		for i := 0; i < 3; i++ {
			v = append(v, uint(lo+rng(hi-lo+1)))
		}
		return v
	}
	switch cls {
	case "zero":
		return []uint{0}
	case "one":
		return []uint{1}
	case "tiny": // 2..9
		return pick(2, 9, 2, 5, 9)
	case "small": // 10..99
		return pick(10, 99, 10, 50)
	case "medium": // 100..9999
		return pick(100, 9999, 100, 1000)
	case "large": // 10^4..10^6
		return pick(10_000, 1_000_000, 1_000_000)
	case "huge": // 10^9..10^10
		return []uint{1_000_000_000, 10_000_000_000}
	}
	panic("n class " + cls)
}

func rValues(cls string, rnd func() float64) []float64 {
	pick := func(lo, hi float64, fixed ...float64) []float64 {
		v := append([]float64(nil), fixed...)
		for i := 0; i < 3; i++ {
			v = append(v, lo+(hi-lo)*rnd())
		}
		return v
	}
	switch cls {
	case "nonpositive":
		return []float64{0, -0.5}
	case "minute": // 1e-12 .. 1e-6
		return []float64{1e-12, 1e-9, 1e-6}
	case "low": // 0.0001 .. 0.05
		return pick(0.0001, 0.05, 0.001, 0.01)
	case "mid": // 0.05 .. 0.5
		return pick(0.05, 0.5, 0.1, 0.3, 0.5)
	case "high": // 0.5 .. 0.9
		return pick(0.5, 0.9, 0.6, 0.8, 0.9)
	case "near1": // 0.9 .. 1 exclusive
		return pick(0.9, 0.999999, 0.95, 0.99, 0.999, 0.999999, math.Nextafter(1, 0))
	case "one":
		return []float64{1}
	case "above1":
		return []float64{1.0000001, 2}
	}
	panic("rate class " + cls)
}

const maxBehaveBits = 1 << 20 // 128 KiB of bitmap in the fake server (larger bitmaps make it slow, not wrong)

func sweep(rep *vh.Report) {
	var classes []class
	mustJSON(*inF, &classes)
	e := newEnv(false)
	defer e.close()
	rng := vh.Rng(35)
	var obs []observation
	type agg struct {
		n       int
		samples []string
	}
	bad := map[string]*agg{}
	note := func(sig, sample string) {
		a := bad[sig]
		if a == nil {
			a = &agg{}
			bad[sig] = a
		}
		a.n++
		if len(a.samples) < 12 {
			a.samples = append(a.samples, sample)
		}
	}
	classesSeen := map[string]bool{}
	for _, cl := range classes {
		for _, n := range nValues(cl.NCls, func(m int64) int64 { return rng.Int63n(m) }) {
			for _, r := range rValues(cl.RCls, rng.Float64) {
				o := observation{Kind: cl.Kind, NCls: cl.NCls, RCls: cl.RCls, N: int64(n), Rate: strconv.FormatFloat(r, 'g', -1, 64), rate: r}
				c := config{Kind: cl.Kind, N: n, Rate: r, WindowMs: 2000}
				f, err := e.build(c, e.name("sw"))
				rep.Evaluations++
				if err == nil {
					o.Accepted = true
					size, k, _ := rueidisprob.VerifSizing(f.raw)
					o.Size, o.K, o.SizeS = int64(min(uint64(size), 2_000_000_000)), int64(min(uint64(k), 2_000_000_000)), strconv.FormatUint(uint64(size), 10)
					classesSeen[cl.Kind+"/"+cl.NCls+"/"+cl.RCls] = true
					if cl.Kind == "counting" || size <= maxBehaveBits {
						o.Behaved = true
						e.behave(f, &o, note)
					}
					ctx, cancel := e.cctx()
					_ = f.del(ctx)
					cancel()
				}
				obs = append(obs, o)
			}
		}
	}
	if len(e.timeouts) > 0 {
		rep.Inconcl("%d sweep configuration(s) timed out on the fake server, e.g. %s", len(e.timeouts), e.timeouts[0])
	}
	for sig, a := range bad {
		rep.Violate(sig, fmt.Sprintf("%d accepted configuration(s), e.g. %s", a.n, strings.Join(a.samples, "; ")), a.samples)
	}
	rep.DistinctNontrivial = len(classesSeen)
	rep.Rule = "sweep: (kind, expected-items class, rate class) triples with at least one configuration the constructor accepted"
	for i := 0; i < len(obs) && i < 3; i++ {
		rep.Sample(obs[len(obs)*i/3])
	}
	w, err := os.Create(*obsF)
	if err != nil {
		panic(err)
	}
	bw := bufio.NewWriter(w)
	for _, o := range obs {
		b, _ := json.Marshal(o)
		bw.Write(b)
		bw.WriteByte('\n')
	}
	bw.Flush()
	w.Close()
}

// behave: on an accepted configuration, items that were added successfully must be reported present
// (no Reset/Delete, same clock instant, fewer items than anything could evict).
func (e *env) behave(f *filter, o *observation, note0 func(sig, sample string)) {
	ctx, cancel := e.cctx()
	defer cancel()
	desc := fmt.Sprintf("%s(n=%d, rate=%s) size=%s hashIterations=%d", o.Kind, o.N, o.Rate, o.SizeS, o.K)
	note := func(sig, sample string) {
		if strings.Contains(sample, context.DeadlineExceeded.Error()) {
			e.timeouts = append(e.timeouts, sample) // the fake server was too slow: never a verdict
			return
		}
		note0(sig, sample)
	}
	if err := f.addMulti(ctx, []string{"x"}, true); err != nil {
		note(fmt.Sprintf("%s:config-sweep:add-fails:hashIterations=%s", o.Kind, kcls(o.K)), desc+": Add: "+err.Error())
		return
	}
	if err := f.addMulti(ctx, []string{"y", "z"}, false); err != nil {
		note(fmt.Sprintf("%s:config-sweep:add-fails:hashIterations=%s", o.Kind, kcls(o.K)), desc+": AddMulti: "+err.Error())
		return
	}
	o.AddOK = true
	one, err := f.existsMulti(ctx, []string{"x"}, true)
	if err != nil {
		note(fmt.Sprintf("%s:config-sweep:exists-errors-after-add:hashIterations=%s", o.Kind, kcls(o.K)), desc+": Exists: "+err.Error())
		return
	}
	multi, err := f.existsMulti(ctx, []string{"z", "x", "y"}, false)
	if err != nil {
		note(fmt.Sprintf("%s:config-sweep:exists-errors-after-add:hashIterations=%s", o.Kind, kcls(o.K)), desc+": ExistsMulti: "+err.Error())
		return
	}
	o.Present = one[0] && len(multi) == 3 && multi[0] && multi[1] && multi[2]
	if !o.Present {
		note(fmt.Sprintf("%s:config-sweep:false-negative:hashIterations=%s", o.Kind, kcls(o.K)),
			fmt.Sprintf("%s: Add x, AddMulti [y z] succeeded; Exists(x)=%v ExistsMulti([z x y])=%v", desc, one[0], multi))
		return
	}
	if f.cbf != nil {
		m, err := f.cbf.ItemMinCount(ctx, "x")
		if err != nil || m < 1 {
			note(fmt.Sprintf("counting:config-sweep:mincount-below-net:hashIterations=%s", kcls(o.K)),
				fmt.Sprintf("%s: ItemMinCount(x)=%d err=%v after one Add", desc, m, err))
		}
	}
}

func kcls(k int64) string {
	if k == 0 {
		return "0"
	}
	return ">=1"
}

// ---------------------------------------------------------------------------------------------- replay

type step struct {
	Op      string     `json:"op"`
	Keys    []string   `json:"keys"`
	Ans     []bool     `json:"ans"`
	Removed []bool     `json:"removed"`
	Err     bool       `json:"err"`
	Cls     string     `json:"cls"` // reply class of the script call: ok | errreply | lostbefore | lostafter
	Now     int64      `json:"now"`
	Count   int64      `json:"count"`
	Present []bool     `json:"present"` // over Q
	MinCnt  []int64    `json:"mincnt"`  // over Q (counting): ItemMinCount of each item
	QAns    []bool     `json:"qans"`    // ExistsMulti(Q) as the script loop + Go loop compute it for the whole batch
	QMins   []int64    `json:"qmins"`   // ItemMinCountMulti(Q) likewise (counting)
	Must    []bool     `json:"must"`    // over Q: the property obliges the item to be reported present now
	NetQ    []int64    `json:"netq"`    // over Q: lower bound the property puts on ItemMinCount (counting)
	MustAns []bool     `json:"mustans"` // over Keys (Exists steps): obligation for each queried key
	Cnt     [][2]int64 `json:"cnt"`     // counting: non-zero counters
	QsAns   [][]bool   `json:"qsans"`   // per batch of QS: ExistsMulti(QS[i]) as one call
	QsMins  [][]int64  `json:"qsmins"`  // per batch of QS: ItemMinCountMulti(QS[i]) (counting)
	QsMust  [][]bool   `json:"qsmust"`  // per batch and position: obligation
	QsNet   [][]int64  `json:"qsnet"`   // per batch and position: net multiplicity (counting)
}

type history struct {
	ID     string            `json:"id"`
	Config config            `json:"config"`
	TickMs int64             `json:"tick_ms"`
	Size   uint              `json:"size"`
	K      uint              `json:"k"`
	Items  map[string]string `json:"items"`
	Q      []string          `json:"q"`
	QS     [][]string        `json:"qs"`
	Steps  []step            `json:"steps"`
	Src    string            `json:"src"`
}

type replayer struct {
	e        *env
	rep      *vh.Report
	diverged map[string]int
	shapes   map[string]bool
	loose    bool   // current history: the real state left the exact prediction; only property obligations are judged from here on
	tag      string // current history: input class appended to answer signatures (fractional-second window, second handle)
	nfault   int
}

func (r *replayer) real(h *history, ks []string) []string {
	out := make([]string, len(ks))
	for i, k := range ks {
		out[i] = h.Items[k]
	}
	return out
}

// diverge: the real code differs from the exact prediction in a way no property forbids.  The history goes on in
// "loose" mode: the obligations of the specification (must / net multiplicity) depend only on which calls returned
// nil and which removals succeeded, so they stay valid as long as those premises are observed to hold.
func (r *replayer) diverge(sig, what string) {
	r.loose = true
	r.diverged[sig]++
	if r.diverged[sig] == 1 {
		r.rep.Inconcl("divergence %s: %s", sig, what)
	}
}

func brief(h *history, upto int) string {
	var sb strings.Builder
	fmt.Fprintf(&sb, "%s(n=%d,rate=%g", h.Config.Kind, h.Config.N, h.Config.Rate)
	if h.Config.Kind == "sliding" {
		fmt.Fprintf(&sb, ",window=%dms,ro=%v", h.Config.WindowMs, h.Config.ReadOnly)
	}
	fmt.Fprintf(&sb, ") size=%d K=%d items=%v:", h.Size, h.K, h.Items)
	for i := 0; i <= upto && i < len(h.Steps); i++ {
		s := h.Steps[i]
		switch {
		case s.Op == "Tick":
			fmt.Fprintf(&sb, " Tick(+%dms)", h.TickMs)
		case s.Op == "NewHandle":
			sb.WriteString(" NewHandle")
		case s.Cls != "" && s.Cls != "ok":
			fmt.Fprintf(&sb, " %s%v/%s", s.Op, s.Keys, s.Cls)
		default:
			fmt.Fprintf(&sb, " %s%v", s.Op, s.Keys)
		}
	}
	return sb.String()
}

var errReplies = []string{
	"OOM command not allowed when used memory > 'maxmemory'.",
	"READONLY You can't write against a read only replica.",
	"MISCONF Redis is configured to save RDB snapshots, but it's currently unable to persist to disk.",
}

// arm installs a one-shot intercept on the next script call (EVALSHA or EVAL).
func (r *replayer) arm(cls string) *bool {
	fired := new(bool)
	if cls == "" || cls == "ok" {
		*fired = true
		return fired
	}
	r.nfault++
	text := errReplies[r.nfault%len(errReplies)]
	r.e.srv.SetIntercept(func(c *fakeredis.Conn, argv []string) (fakeredis.Value, fakeredis.Action) {
		if *fired || len(argv) == 0 {
			return fakeredis.Value{}, fakeredis.Pass
		}
		if cmd := strings.ToUpper(argv[0]); cmd != "EVALSHA" && cmd != "EVAL" {
			return fakeredis.Value{}, fakeredis.Pass
		}
		*fired = true
		switch cls {
		case "errreply":
			return fakeredis.Err(text), fakeredis.Reply
		case "lostbefore":
			return fakeredis.Value{}, fakeredis.CutNow
		case "lostafter":
			return fakeredis.Value{}, fakeredis.ExecThenCut
		}
		panic("cls " + cls)
	})
	return fired
}

// disarm removes the intercept and, after a cut, waits until the client has a working connection again.
func (r *replayer) disarm(cls string) bool {
	r.e.srv.SetIntercept(nil)
	if cls != "lostbefore" && cls != "lostafter" {
		return true
	}
	deadline := time.Now().Add(60 * time.Second)
	for time.Now().Before(deadline) {
		ctx, cancel := context.WithTimeout(r.e.ctx, 5*time.Second)
		err := r.e.client.Do(ctx, r.e.client.B().Ping().Build()).Error()
		cancel()
		if err == nil {
			return true
		}
		time.Sleep(5 * time.Millisecond)
	}
	return false
}

func (r *replayer) run(h *history) {
	e := r.e
	r.loose = false
	r.tag = ""
	if h.Config.Kind == "sliding" && h.Config.WindowMs%1000 != 0 {
		r.tag = ":fractional-second-window"
	}
	name := e.name("h")
	f, err := e.build(h.Config, name)
	if err != nil {
		r.diverge("constructor-rejects", fmt.Sprintf("%v: %v", h.Config, err))
		return
	}
	handles := []*filter{f}
	size, k, _ := rueidisprob.VerifSizing(f.raw)
	if size != h.Size || k != h.K {
		r.diverge("sizing-changed", fmt.Sprintf("%v: model generated for size=%d K=%d, constructor now gives size=%d K=%d", h.Config, h.Size, h.K, size, k))
		return
	}
	kind := h.Config.Kind
	pure := kind != "sliding"
	prevCount := int64(0)
	shape := kind
	for i := range h.Steps {
		s := &h.Steps[i]
		ctx, cancel := e.cctx()
		single := (i+len(h.ID))%2 == 0
		where := func() string { return brief(h, i) }
		f = handles[(i+len(h.ID))%len(handles)]
		cls := s.Cls
		if cls == "" {
			cls = "ok"
		}
		if cls != "ok" {
			shape += "+" + cls
		}
		switch s.Op {
		case "Tick":
			e.clock.Advance(time.Duration(h.TickMs) * time.Millisecond)
			e.srv.ExpireNow()
		case "NewHandle":
			// another process constructs a handle for the same filter name; both handles are used from here on
			f2, err := e.build(h.Config, name)
			if err != nil {
				r.diverge(kind+":second-constructor-fails", fmt.Sprintf("%s: %v", where(), err))
				cancel()
				return
			}
			handles = append(handles, f2)
			shape += "+newhandle"
			if !strings.Contains(r.tag, ":after-second-handle") {
				r.tag += ":after-second-handle"
			}
		case "AddMulti":
			fired := r.arm(cls)
			err := f.addMulti(ctx, r.real(h, s.Keys), single)
			ok := r.disarm(cls)
			if !*fired || !ok {
				r.rep.Inconcl("%s: fault %s could not be injected / the client did not reconnect", where(), cls)
				cancel()
				return
			}
			if (err != nil) != s.Err {
				if err == nil {
					// the call returned nil although the specification says the caller is told an error: the caller now relies on
					// the items being in the filter (AddNilMeansPresent)
					got, xerr := f.existsMulti(ctx, r.real(h, s.Keys), false)
					absent := -1
					for j := range got {
						if !got[j] {
							absent = j
							break
						}
					}
					if xerr == nil && absent >= 0 && cls != "ok" {
						r.rep.Violate(kind+":add-returns-nil-but-item-absent:"+cls,
							fmt.Sprintf("%s: %s returned nil although the script call was answered with %s; immediately afterwards ExistsMulti(%v) = %v: key #%d is absent (an Add that returns nil must have added the item)",
								where(), opName("Add", s, single), cls, s.Keys, got, absent+1), h)
						cancel()
						return
					}
				}
				r.diverge(kind+":add-error-mismatch:"+cls, fmt.Sprintf("%s: real err=%v, specification err=%v", where(), err, s.Err))
				if err != nil { // fewer items were added than the obligations assume: nothing can be judged any more
					cancel()
					return
				}
			}
		case "RemoveMulti":
			before := r.snapshot(f)
			beforeCount, _ := f.count(ctx)
			var err error
			fired := r.arm(cls)
			if single && len(s.Keys) == 1 {
				err = f.cbf.Remove(ctx, h.Items[s.Keys[0]])
			} else {
				err = f.cbf.RemoveMulti(ctx, r.real(h, s.Keys))
			}
			ok := r.disarm(cls)
			if !*fired || !ok {
				r.rep.Inconcl("%s: fault %s could not be injected / the client did not reconnect", where(), cls)
				cancel()
				return
			}
			if (err != nil) != s.Err {
				r.diverge(kind+":remove-error-mismatch:"+cls, fmt.Sprintf("%s: real err=%v, specification err=%v", where(), err, s.Err))
			}
			after := r.snapshot(f)
			want := fmtCnt(s.Cnt, s.Count)
			anyFailed, allFailed, nOK := false, true, int64(0)
			for _, ok := range s.Removed {
				if !ok {
					anyFailed = true
				} else {
					allFailed = false
					nOK++
				}
			}
			if r.loose {
				// the counters already differ from the prediction.  The obligations stay valid only if the removals the
				// specification counts are the ones that happened: all succeeded or all were refused, as the item counter shows
				afterCount, cerr := f.count(ctx)
				if cerr != nil || (anyFailed && !allFailed) || int64(beforeCount)-int64(afterCount) != nOK {
					cancel()
					return
				}
			} else if after != want {
				switch {
				case allFailed && after != before:
					r.rep.Violate("counting:failed-remove-changes-state:"+opArity(s),
						fmt.Sprintf("%s: the specification predicts every removal of this call to fail (a counter would go negative, or the call was not executed), yet the server state changed: before %s after %s", where(), before, after), h)
					cancel()
					return
				case anyFailed:
					r.rep.Violate("counting:failed-remove-affects-batch:"+opArity(s),
						fmt.Sprintf("%s: removal outcome predicted %v (failed removals change nothing, the others are applied); state after: real %s, specification %s", where(), s.Removed, after, want), h)
					cancel()
					return
				default:
					r.diverge(kind+":remove-state-mismatch", fmt.Sprintf("%s: real %s, specification %s", where(), after, want))
					cancel()
					return
				}
			}
			if anyFailed {
				shape += "+failedremove"
			}
		case "ExistsMulti":
			fired := r.arm(cls)
			got, err := f.existsMulti(ctx, r.real(h, s.Keys), single)
			ok := r.disarm(cls)
			if !*fired || !ok {
				r.rep.Inconcl("%s: fault %s could not be injected / the client did not reconnect", where(), cls)
				cancel()
				return
			}
			if (err != nil) != s.Err {
				r.diverge(kind+":exists-error-mismatch:"+cls, fmt.Sprintf("%s: real err=%v, specification err=%v", where(), err, s.Err))
			} else if err == nil && !r.compareAnswers(h, kind, opName("Exists", s, single), s.Keys, got, s.Ans, s.MustAns, where) {
				cancel()
				return
			}
		case "Reset":
			err := f.bf.Reset(ctx)
			if kind == "sliding" && rueidis.IsRedisNil(err) {
				// slidingBloomFilterResetScript has no return statement: on success the method reports the Redis-nil
				// error (slidingbloomfilter_test.go tolerates exactly that). Not part of C37; taken as success.
				err = nil
			}
			if (err != nil) != s.Err {
				r.diverge(kind+":reset-error-mismatch", fmt.Sprintf("%s: real err=%v, specification err=%v", where(), err, s.Err))
				if err != nil {
					cancel()
					return
				}
			}
		case "Delete":
			if err := f.del(ctx); err != nil {
				r.diverge(kind+":delete-error", fmt.Sprintf("%s: %v", where(), err))
				cancel()
				return
			}
		default:
			panic("op " + s.Op)
		}
		// ---- observation battery after the step
		cnt, err := f.count(ctx)
		if err != nil {
			if kind == "counting" {
				r.rep.Violate("counting:count-unreadable", fmt.Sprintf("%s: Count: %v (negative or malformed item counter)", where(), err), h)
			} else {
				r.diverge(kind+":count-error", fmt.Sprintf("%s: %v", where(), err))
			}
			cancel()
			return
		}
		if kind == "bloom" && int64(cnt) < prevCount && s.Op != "Reset" && s.Op != "Delete" {
			r.rep.Violate("bloom:count-decreased:"+s.Op, fmt.Sprintf("%s: Count went from %d to %d without Reset/Delete", where(), prevCount, cnt), h)
			cancel()
			return
		}
		prevCount = int64(cnt)
		// property-level observations first; differences from the exact prediction that are no property violation afterwards
		if pure {
			if !r.battery(h, f, s, kind, where) {
				cancel()
				return
			}
		}
		if !r.loose && int64(cnt) != s.Count {
			r.diverge(kind+":count-mismatch", fmt.Sprintf("%s: Count real %d, specification %d", where(), cnt, s.Count))
		}
		cancel()
	}
	_ = f.del(e.ctx)
	if r.loose {
		return
	}
	r.rep.Traces++
	for _, s := range h.Steps {
		if len(s.Keys) > 1 {
			shape += "+multi"
			break
		}
	}
	r.shapes[shape+"/"+histShape(h)] = true
}

func histShape(h *history) string {
	var sb strings.Builder
	for _, s := range h.Steps {
		sb.WriteString(s.Op[:2])
		sb.WriteString(strconv.Itoa(len(s.Keys)))
	}
	return fmt.Sprintf("s%dk%d:%s", h.Size, h.K, sb.String())
}

func opArity(s *step) string {
	if len(s.Keys) == 1 {
		return "single"
	}
	return "batch"
}

func opName(base string, s *step, single bool) string {
	if single && len(s.Keys) == 1 {
		return base
	}
	return base + "Multi"
}

// repeatTag: ":repeated-key" when a key occurs for the second time at or before position upto (0-based; -1 = anywhere):
// the input class "batch with a repeated key" is named only when the repetition can have to do with the failing position.
func repeatTag(keys []string, upto int) string {
	seen := map[string]bool{}
	for i, k := range keys {
		if upto >= 0 && i > upto {
			break
		}
		if seen[k] {
			return ":repeated-key"
		}
		seen[k] = true
	}
	return ""
}

// compareAnswers classifies differences between real answers and the specification's exact prediction.
func (r *replayer) compareAnswers(h *history, kind, op string, keys []string, got, pred, must []bool, where func() string) bool {
	tag := op + r.tag
	if len(got) != len(keys) {
		r.rep.Violate(kind+":answers-not-per-key:"+tag+repeatTag(keys, -1), fmt.Sprintf("%s: %s(%v) returned %d answers for %d keys", where(), op, keys, len(got), len(keys)), h)
		return false
	}
	for i := range keys {
		if !got[i] && must[i] {
			r.rep.Violate(kind+":false-negative:"+tag+repeatTag(keys, i),
				fmt.Sprintf("%s: then %s(%v) = %v; the specification obliges key #%d (%s) to be reported present (predicted answers %v)", where(), op, keys, got, i+1, keys[i], pred), h)
			return false
		}
	}
	if r.loose {
		return true
	}
	for i := range keys {
		if got[i] == pred[i] {
			continue
		}
		r.diverge(kind+":answer-mismatch:"+op, fmt.Sprintf("%s: then %s(%v) = %v, specification %v (not a property obligation)", where(), op, keys, got, pred))
		return true
	}
	return true
}

// battery: the pure queries after every step of a bloom/counting history.
func (r *replayer) battery(h *history, f *filter, s *step, kind string, where func() string) bool {
	ctx, cancel := r.e.cctx()
	defer cancel()
	q := r.real(h, h.Q)
	singles := make([]bool, len(q))
	single := map[string]bool{}
	for i, it := range q {
		b, err := f.existsMulti(ctx, []string{it}, true)
		if err != nil {
			if kind == "counting" && strings.Contains(err.Error(), "strconv") {
				r.rep.Violate("counting:negative-counter", fmt.Sprintf("%s: Exists(%s): %v (a counter of the hash is negative); server %s", where(), h.Q[i], err, r.snapshot(f)), h)
				return false
			}
			r.diverge(kind+":exists-error", fmt.Sprintf("%s: Exists(%s): %v", where(), h.Q[i], err))
			return false
		}
		singles[i] = b[0]
		single[h.Q[i]] = b[0]
	}
	if !r.compareAnswers(h, kind, "Exists", h.Q, singles, s.Present, s.Must, where) {
		return false
	}
	// batches: Q itself, then every batch of QS (repeated keys, absent keys before present ones ...)
	batches := append([][]string{h.Q}, h.QS...)
	for bi, keys := range batches {
		must, pred := s.Must, s.QAns
		if bi > 0 {
			if bi-1 >= len(s.QsAns) || bi-1 >= len(s.QsMust) {
				break
			}
			must, pred = s.QsMust[bi-1], s.QsAns[bi-1]
		}
		tag := "ExistsMulti"
		multi, err := f.existsMulti(ctx, r.real(h, keys), false)
		if err != nil {
			r.diverge(kind+":exists-error", fmt.Sprintf("%s: ExistsMulti(%v): %v", where(), keys, err))
			return false
		}
		if len(multi) != len(keys) {
			r.rep.Violate(kind+":answers-not-per-key:"+tag+repeatTag(keys, -1), fmt.Sprintf("%s: ExistsMulti(%v) returned %d answers", where(), keys, len(multi)), h)
			return false
		}
		for i := range keys {
			if multi[i] == single[keys[i]] && (r.loose || multi[i] == pred[i]) {
				continue
			}
			if !multi[i] && must[i] {
				r.rep.Violate(kind+":false-negative:"+tag+repeatTag(keys, i),
					fmt.Sprintf("%s: then ExistsMulti(%v) = %v although key #%d (%s) must be present (Exists on each item of %v: %v)", where(), keys, multi, i+1, keys[i], h.Q, singles), h)
			} else if multi[i] != single[keys[i]] {
				r.rep.Violate(kind+":answers-not-per-key:"+tag+repeatTag(keys, i),
					fmt.Sprintf("%s: then ExistsMulti(%v) = %v but Exists on each item of %v in the same state gives %v", where(), keys, multi, h.Q, singles), h)
			} else {
				r.diverge(kind+":answer-mismatch:ExistsMulti", fmt.Sprintf("%s: then ExistsMulti(%v) = %v, specification %v", where(), keys, multi, pred))
				break
			}
			return false
		}
	}
	if kind != "counting" {
		return true
	}
	// counting: ItemMinCount single and multi, raw counters
	mins := make([]uint64, len(q))
	minOf := map[string]uint64{}
	for i, it := range q {
		m, err := f.cbf.ItemMinCount(ctx, it)
		if err != nil {
			r.rep.Violate("counting:mincount-unreadable", fmt.Sprintf("%s: ItemMinCount(%s): %v", where(), h.Q[i], err), h)
			return false
		}
		mins[i] = m
		minOf[h.Q[i]] = m
		if int64(m) < s.NetQ[i] {
			r.rep.Violate("counting:mincount-below-net:ItemMinCount",
				fmt.Sprintf("%s: then ItemMinCount(%s) = %d, net multiplicity %d", where(), h.Q[i], m, s.NetQ[i]), h)
			return false
		}
		if !r.loose && int64(m) != s.MinCnt[i] {
			r.diverge("counting:mincount-mismatch", fmt.Sprintf("%s: ItemMinCount(%s) = %d, specification %d", where(), h.Q[i], m, s.MinCnt[i]))
		}
	}
	for bi, keys := range batches {
		net, pred := s.NetQ, s.QMins
		if bi > 0 {
			if bi-1 >= len(s.QsMins) || bi-1 >= len(s.QsNet) {
				break
			}
			net, pred = s.QsNet[bi-1], s.QsMins[bi-1]
		}
		mm, err := f.cbf.ItemMinCountMulti(ctx, r.real(h, keys))
		if err != nil || len(mm) != len(keys) {
			r.rep.Violate("counting:answers-not-per-key:ItemMinCountMulti", fmt.Sprintf("%s: ItemMinCountMulti(%v) = %v err=%v", where(), keys, mm, err), h)
			return false
		}
		for i := range keys {
			if mm[i] == minOf[keys[i]] && (r.loose || int64(mm[i]) == pred[i]) {
				continue
			}
			if int64(mm[i]) < net[i] {
				r.rep.Violate("counting:mincount-below-net:ItemMinCountMulti",
					fmt.Sprintf("%s: then ItemMinCountMulti(%v) = %v, net multiplicity of key #%d is %d", where(), keys, mm, i+1, net[i]), h)
			} else if mm[i] != minOf[keys[i]] {
				r.rep.Violate("counting:answers-not-per-key:ItemMinCountMulti",
					fmt.Sprintf("%s: then ItemMinCountMulti(%v) = %v but ItemMinCount on each item of %v gives %v", where(), keys, mm, h.Q, mins), h)
			} else {
				r.diverge("counting:mincount-mismatch:ItemMinCountMulti", fmt.Sprintf("%s: ItemMinCountMulti(%v) = %v, specification %v", where(), keys, mm, pred))
				break
			}
			return false
		}
	}
	snap := r.snapshot(f)
	if strings.Contains(snap, ":-") {
		r.rep.Violate("counting:negative-counter", fmt.Sprintf("%s: server counters %s", where(), snap), h)
		return false
	}
	if want := fmtCnt(s.Cnt, s.Count); !r.loose && snap != want {
		r.diverge("counting:state-mismatch", fmt.Sprintf("%s: server %s, specification %s", where(), snap, want))
	}
	return true
}

// snapshot renders the counting filter's server state: non-zero counters sorted by index, then the item counter.
func (r *replayer) snapshot(f *filter) string {
	v := r.e.srv.Do("HGETALL", f.keys[0])
	type kv struct {
		i uint64
		c string
	}
	var kvs []kv
	for i := 0; i+1 < len(v.Arr); i += 2 {
		if v.Arr[i+1].Str == "0" {
			continue
		}
		n, _ := strconv.ParseUint(v.Arr[i].Str, 10, 64)
		kvs = append(kvs, kv{n, v.Arr[i+1].Str})
	}
	sort.Slice(kvs, func(a, b int) bool { return kvs[a].i < kvs[b].i })
	var sb strings.Builder
	for _, e := range kvs {
		fmt.Fprintf(&sb, "%d:%s ", e.i, e.c)
	}
	c := r.e.srv.Do("GET", f.keys[1])
	cs := c.Str
	if c.IsNull() {
		cs = "0"
	}
	return sb.String() + "#" + cs
}

func fmtCnt(cnt [][2]int64, count int64) string {
	c := append([][2]int64(nil), cnt...)
	sort.Slice(c, func(a, b int) bool { return c[a][0] < c[b][0] })
	var sb strings.Builder
	for _, e := range c {
		fmt.Fprintf(&sb, "%d:%d ", e[0], e[1])
	}
	return sb.String() + "#" + strconv.FormatInt(count, 10)
}

func replay(rep *vh.Report) {
	fh, err := os.Open(*inF)
	if err != nil {
		panic(err)
	}
	defer fh.Close()
	r := &replayer{e: newEnv(false), rep: rep, diverged: map[string]int{}, shapes: map[string]bool{}}
	defer r.e.close()
	r.e.warmUp()
	sc := bufio.NewScanner(fh)
	sc.Buffer(make([]byte, 1<<20), 1<<28)
	n := 0
	for sc.Scan() {
		var h history
		if err := json.Unmarshal(sc.Bytes(), &h); err != nil {
			rep.Inconcl("bad history line: %v", err)
			return
		}
		nv := len(rep.Violations)
		r.run(&h)
		rep.Evaluations++
		if len(rep.Violations) == nv && n%997 == 0 {
			rep.Sample(map[string]any{"history": brief(&h, len(h.Steps)), "src": h.Src, "last_step": h.Steps[len(h.Steps)-1]})
		}
		n++
		if len(rep.Violations) > 40 || (*limit > 0 && n >= *limit) {
			break
		}
	}
	for sig, c := range r.diverged {
		if c > 1 {
			rep.Inconcl("divergence %s: %d histories in total", sig, c)
		}
	}
	rep.DistinctNontrivial = len(r.shapes)
	rep.Rule = "replay: distinct (filter kind, size, K, sequence of operation kinds with batch sizes) among the histories replayed to completion"
}

// warmUp runs every script once so that all of them are in the server's script cache: a fault injected on a later
// EVALSHA then hits a call that would have executed the script (not one that would have answered NOSCRIPT).
func (e *env) warmUp() {
	for _, c := range []config{{Kind: "bloom", N: 10, Rate: 0.1}, {Kind: "bloom", N: 10, Rate: 0.1, ReadOnly: true}, {Kind: "counting", N: 10, Rate: 0.1},
		{Kind: "sliding", N: 10, Rate: 0.1, WindowMs: 2000}, {Kind: "sliding", N: 10, Rate: 0.1, WindowMs: 2000, ReadOnly: true}} {
		f, err := e.build(c, e.name("warm"))
		if err != nil {
			panic(err)
		}
		ctx, cancel := e.cctx()
		_ = f.addMulti(ctx, []string{"w"}, false)
		_, _ = f.existsMulti(ctx, []string{"w"}, false)
		if f.cbf != nil {
			_ = f.cbf.RemoveMulti(ctx, []string{"w"})
		}
		_ = f.del(ctx)
		cancel()
	}
}

// ---------------------------------------------------------------------------------------------- big batches

// bigCase: one AddMulti of thousands of keys and ExistsMulti batches over thousands of keys, each as ONE call, with
// the answers and obligations the specification (Bloom.tla, Big = TRUE, H = the real index function) predicts per position.
type bigCase struct {
	ID      string   `json:"id"`
	Config  config   `json:"config"`
	Size    uint     `json:"size"`
	K       uint     `json:"k"`
	Items   []string `json:"items"`   // item number i (1-based) is Items[i-1]
	Add     []int    `json:"add"`     // the AddMulti batch
	Queries [][]int  `json:"queries"` // the ExistsMulti batches
	QsAns   [][]bool `json:"qsans"`
	QsMust  [][]bool `json:"qsmust"`
}

func big(rep *vh.Report) {
	var cases []bigCase
	mustJSON(*inF, &cases)
	e := newEnv(false)
	defer e.close()
	classes := map[string]bool{}
	for _, c := range cases {
		rep.Evaluations++
		desc := fmt.Sprintf("bloom(n=%d,rate=%g,ro=%v) size=%d K=%d", c.Config.N, c.Config.Rate, c.Config.ReadOnly, c.Size, c.K)
		f, err := e.build(c.Config, e.name("big"))
		if err != nil {
			rep.Inconcl("divergence constructor-rejects: %s: %v", desc, err)
			continue
		}
		size, k, _ := rueidisprob.VerifSizing(f.raw)
		if size != c.Size || k != c.K {
			rep.Inconcl("divergence sizing-changed: %s: constructor now gives size=%d K=%d", desc, size, k)
			continue
		}
		names := func(ns []int) []string {
			out := make([]string, len(ns))
			for i, n := range ns {
				out[i] = c.Items[n-1]
			}
			return out
		}
		ctx, cancel := context.WithTimeout(e.ctx, 15*time.Minute)
		if err := f.bf.AddMulti(ctx, names(c.Add)); err != nil {
			cancel()
			if errors.Is(err, context.DeadlineExceeded) {
				rep.Inconcl("%s: AddMulti of %d keys timed out on the fake server", desc, len(c.Add))
			} else {
				rep.Inconcl("divergence bloom:add-error:large-batch: %s: AddMulti of %d keys: %v", desc, len(c.Add), err)
			}
			continue
		}
		bad := false
		for qi, q := range c.Queries {
			keys := names(q)
			got, err := f.bf.ExistsMulti(ctx, keys)
			if err != nil {
				if errors.Is(err, context.DeadlineExceeded) {
					rep.Inconcl("%s: ExistsMulti of %d keys timed out on the fake server", desc, len(q))
				} else {
					rep.Inconcl("divergence bloom:exists-error:large-batch: %s: ExistsMulti of %d keys: %v", desc, len(q), err)
				}
				bad = true
				break
			}
			what := fmt.Sprintf("%s: AddMulti of %d keys in one call, then ExistsMulti of %d keys (%d indexes) in one call", desc, len(c.Add), len(q), len(q)*int(c.K))
			if len(got) != len(q) {
				rep.Violate("bloom:answers-not-per-key:ExistsMulti:large-batch", fmt.Sprintf("%s returned %d answers", what, len(got)), nil)
				bad = true
				break
			}
			fn, first, mism, firstM := 0, -1, 0, -1
			for i := range q {
				if !got[i] && c.QsMust[qi][i] {
					if fn == 0 {
						first = i
					}
					fn++
				}
				if got[i] != c.QsAns[qi][i] {
					if mism == 0 {
						firstM = i
					}
					mism++
				}
			}
			if fn > 0 {
				one, _ := f.bf.Exists(ctx, keys[first])
				rep.Violate("bloom:false-negative:ExistsMulti:large-batch",
					fmt.Sprintf("%s reports %d added keys as absent, the first at position %d (%s; Exists of that key alone = %v)", what, fn, first, keys[first], one), nil)
				bad = true
				break
			}
			if mism > 0 {
				one, _ := f.bf.Exists(ctx, keys[firstM])
				if one != got[firstM] {
					rep.Violate("bloom:answers-not-per-key:ExistsMulti:large-batch",
						fmt.Sprintf("%s differs from the per-key answers at %d positions, the first at position %d (%s: batch %v, Exists alone %v)", what, mism, firstM, keys[firstM], got[firstM], one), nil)
				} else {
					rep.Inconcl("divergence bloom:answer-mismatch:ExistsMulti:large-batch: %s: %d positions differ from the specification, first %d", what, mism, firstM)
				}
				bad = true
				break
			}
		}
		_ = f.del(ctx)
		cancel()
		if !bad {
			rep.Traces++
			classes[fmt.Sprintf("K=%d/%d keys", c.K, len(c.Queries[0]))] = true
			rep.Sample(map[string]any{"config": desc, "added": len(c.Add), "queried": len(c.Queries[0])})
		}
	}
	rep.DistinctNontrivial = len(classes)
	rep.Rule = "big: distinct (hashIterations, batch length) pairs whose large AddMulti/ExistsMulti calls were compared position by position"
}

func mustJSON(path string, v any) {
	b, err := os.ReadFile(path)
	if err != nil {
		panic(err)
	}
	if err := json.Unmarshal(b, v); err != nil {
		panic(err)
	}
}

func main() {
	flag.Parse()
	rep := &vh.Report{}
	switch *mode {
	case "induce":
		induce(rep)
	case "sweep":
		sweep(rep)
	case "replay":
		replay(rep)
	case "big":
		big(rep)
	default:
		panic("mode")
	}
	rep.Assumptions = append(rep.Assumptions,
		"fakeredis + luamini stand for a Redis server executing the real script texts (BITFIELD, HINCRBY, HMGET, RENAME, SET PX NX, TIME)",
		"murmur3 and the float sizing formulas are given functions: their outputs are observed through rueidisprob/verif_export.go, not verified")
	rep.Write(*vh.Out)
}
