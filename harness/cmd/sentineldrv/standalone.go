package main

import (
	"context"
	"fmt"
	"sort"
	"strings"
	"sync"
	"time"

	"github.com/redis/rueidis"
	"verifharness/fakeredis"
	"verifharness/vh"
)

// Case is one record printed by Standalone.tla (GenRoute), SentinelRoute.tla (GenSRoute) or StandaloneRedirect.tla
// (GenRedir): the inputs and the outcome the specification predicts.
type Case struct {
	Kind      string      `json:"kind"`   // route | redirect
	Client    string      `json:"client"` // standalone | sentinel
	Nrep      int         `json:"nrep"`
	Redirect  bool        `json:"redirect"`
	Pred      bool        `json:"pred"`
	Sel       string      `json:"sel"`
	Az        bool        `json:"az"`
	Api       string      `json:"api"`
	Flags     []bool      `json:"flags"`
	Construct string      `json:"construct"`
	OptedIn   bool        `json:"optedin"`
	Target    []string    `json:"target"`
	Mode      string      `json:"mode"`
	Steps     []RedirStep `json:"steps"`
	// round 2 (SentinelRoute.tla): ConnLifetime set; what happens to the first transmission of the call; every
	// transmission of the call the specification predicts, with its class
	Lft   bool   `json:"lft"`
	Fault string `json:"fault"`
	After int    `json:"after"`
	Sends []struct {
		From int    `json:"from"`
		Cls  string `json:"cls"`
	} `json:"sends"`
}

type RedirStep struct {
	Op     string   `json:"op"`
	X      string   `json:"x"`
	Api    string   `json:"api"`
	Recv   []string `json:"recv"`
	Result string   `json:"result"`
	After  string   `json:"after"`
}

// ---------------------------------------------------------------------------------------------- a tiny deployment

type sworld struct {
	net   *fakeredis.Network
	nodes map[string]*fakeredis.Server
	addr  map[string]string
	mu    sync.Mutex
	recv  map[int][]string  // call id -> nodes that received (SRecv) one of its commands, in order
	exec  map[int][]string  // call id -> nodes that executed one (not answered by the intercept)
	redir map[string]string // node -> address it redirects to
	next  int
}

var sworldSeq int

func newSWorld(names []string, roles map[string]string) *sworld {
	sworldSeq++
	w := &sworld{net: fakeredis.NewNetwork(), nodes: map[string]*fakeredis.Server{}, addr: map[string]string{},
		recv: map[int][]string{}, exec: map[int][]string{}, redir: map[string]string{}}
	for i, name := range names {
		name := name
		addr := fmt.Sprintf("10.200.%d.%d:6379", sworldSeq%250, i+1)
		srv := fakeredis.NewServer(name, fakeredis.Options{Role: roles[name], AZ: "az-" + name})
		w.nodes[name], w.addr[name] = srv, addr
		w.net.Add(addr, srv)
		srv.SetEventSink(func(e fakeredis.Event) {
			if (e.Kind == fakeredis.SRecv || e.Kind == fakeredis.SExec) && e.Conn != 0 {
				if id, ok := tagOf(e.Argv); ok {
					w.mu.Lock()
					if e.Kind == fakeredis.SRecv {
						w.recv[id] = append(w.recv[id], name)
					} else {
						w.exec[id] = append(w.exec[id], name)
					}
					w.mu.Unlock()
				}
			}
		})
		srv.SetIntercept(func(c *fakeredis.Conn, argv []string) (fakeredis.Value, fakeredis.Action) {
			w.mu.Lock()
			to := w.redir[name]
			w.mu.Unlock()
			if to == "" {
				return fakeredis.Value{}, fakeredis.Pass
			}
			switch strings.ToUpper(argv[0]) {
			case "GET", "SET", "MULTI", "EXEC", "PTTL", "MGET", "INCR":
				return fakeredis.Err("REDIRECT " + to), fakeredis.Reply
			}
			return fakeredis.Value{}, fakeredis.Pass
		})
	}
	return w
}

func (w *sworld) close() {
	for _, s := range w.nodes {
		s.Close()
	}
}

func (w *sworld) seen(id int) (recv, exec []string) {
	w.mu.Lock()
	defer w.mu.Unlock()
	return append([]string(nil), w.recv[id]...), append([]string(nil), w.exec[id]...)
}

// doCall issues one tagged call through the public API; flags[i] decides the key prefix the predicate looks at.
func doCall(c rueidis.Client, id int, api string, flags []bool, timeout time.Duration, arrived func() bool) (err error, panicked string) {
	defer func() {
		if p := recover(); p != nil {
			panicked = fmt.Sprint(p)
		}
	}()
	ctx, cancel := context.WithTimeout(context.Background(), timeout)
	defer cancel()
	first := func(rs []rueidis.RedisResult) error {
		for _, r := range rs {
			if e := r.Error(); e != nil && !rueidis.IsRedisNil(e) {
				return e
			}
		}
		return nil
	}
	switch api {
	case "Do":
		err = c.Do(ctx, c.B().Get().Key(key(flags[0], id, 0)).Build()).Error()
	case "DoMulti":
		var cs rueidis.Commands
		for i, f := range flags {
			cs = append(cs, c.B().Get().Key(key(f, id, i)).Build())
		}
		err = first(c.DoMulti(ctx, cs...))
	case "DoCache":
		err = c.DoCache(ctx, c.B().Get().Key(key(flags[0], id, 0)).Cache(), time.Minute).Error()
	case "DoMultiCache":
		var cs []rueidis.CacheableTTL
		for i, f := range flags {
			cs = append(cs, rueidis.CT(c.B().Get().Key(key(f, id, i)).Cache(), time.Minute))
		}
		err = first(c.DoMultiCache(ctx, cs...))
	case "DoStream":
		s := c.DoStream(ctx, c.B().Get().Key(key(flags[0], id, 0)).Build())
		for s.HasNext() {
			if _, e := s.WriteTo(discard{}); e != nil {
				err = e
				break
			}
		}
	case "DoMultiStream":
		var cs rueidis.Commands
		for i, f := range flags {
			cs = append(cs, c.B().Get().Key(key(f, id, i)).Build())
		}
		s := c.DoMultiStream(ctx, cs...)
		for s.HasNext() {
			if _, e := s.WriteTo(discard{}); e != nil {
				err = e
				break
			}
		}
	case "Receive":
		// Receive blocks until its context ends: end it as soon as the SUBSCRIBE has reached a node
		rctx, rcancel := context.WithCancel(ctx)
		go func() {
			for i := 0; i < 5000 && !arrived() && rctx.Err() == nil; i++ {
				time.Sleep(time.Millisecond)
			}
			time.Sleep(2 * time.Millisecond)
			rcancel()
		}()
		c.Receive(rctx, c.B().Subscribe().Channel(key(flags[0], id, 0)).Build(), func(rueidis.PubSubMessage) {})
		rcancel()
	case "Dedicated":
		c.Dedicated(func(dc rueidis.DedicatedClient) error {
			err = dc.Do(ctx, dc.B().Get().Key(key(flags[0], id, 0)).Build()).Error()
			return nil
		})
	}
	if rueidis.IsRedisNil(err) {
		err = nil
	}
	return
}

type discard struct{}

func (discard) Write(p []byte) (int, error) { return len(p), nil }

// ---------------------------------------------------------------------------------------------- route cases

func cfgKey(c Case) string {
	return fmt.Sprintf("%s nrep=%d redirect=%v pred=%v sel=%s az=%v mode=%s lft=%v", c.Client, c.Nrep, c.Redirect, c.Pred, c.Sel, c.Az, c.Mode, c.Lft)
}

func classOfCase(c Case) string {
	n := "single"
	if len(c.Flags) > 1 {
		n = "batch-some"
		all, none := true, true
		for _, f := range c.Flags {
			all, none = all && f, none && !f
		}
		if all {
			n = "batch-all"
		} else if none {
			n = "batch-none"
		}
	} else if c.Flags[0] {
		n = "single-optin"
	}
	return n
}

func standaloneMode(rep *vh.Report) {
	cases, err := readNDJSON[Case](*caseFile)
	if err != nil {
		rep.Inconcl("cannot read cases: %v", err)
		return
	}
	groups := map[string][]Case{}
	var order []string
	for _, c := range cases {
		if c.Kind == "redirect" {
			runRedirect(rep, c)
			continue
		}
		k := cfgKey(c)
		if _, ok := groups[k]; !ok {
			order = append(order, k)
		}
		groups[k] = append(groups[k], c)
	}
	sort.Strings(order)
	distinct := map[string]bool{}
	// the cases with ConnLifetime mostly wait (for connections to reach their lifetime): they run beside the others
	unit := timeUnit()
	var lwg sync.WaitGroup
	lft := map[string]func(*vh.Report, map[string]bool){}
	var lmu sync.Mutex
	for _, k := range order {
		if cs := groups[k]; cs[0].Client == "sentinel" && cs[0].Lft {
			lwg.Add(1)
			go func() {
				defer lwg.Done()
				f := runSentinelLifetimeRoutes(cs, unit)
				lmu.Lock()
				lft[k] = f
				lmu.Unlock()
			}()
		}
	}
	for _, k := range order {
		cs := groups[k]
		if cs[0].Client == "sentinel" && cs[0].Lft {
			continue
		} else if cs[0].Client == "sentinel" {
			runSentinelRoutes(rep, cs, distinct)
		} else {
			runStandaloneRoutes(rep, cs, distinct)
		}
	}
	lwg.Wait()
	for _, k := range order {
		if f := lft[k]; f != nil {
			f(rep, distinct)
		}
	}
	rep.DistinctNontrivial += len(distinct)
	rep.Rule = "route cases: distinct (client kind, topology, predicate set, selector result class, API, opted-in pattern of the call) in which the predicate is set or a selector is configured; redirect cases: behaviours containing a followed redirect"
	rep.Assumptions = append(rep.Assumptions,
		"fakeredis nodes stand for the primary and the replicas; the node that logs SRecv for a tagged command is the node the client routed it to",
		"ReadNodeSelector stubs return the constant the case names; SendToReplicas looks at the key prefix the case chose per command")
}

func srouteMode(rep *vh.Report) { standaloneMode(rep) }

func runStandaloneRoutes(rep *vh.Report, cs []Case, distinct map[string]bool) {
	c0 := cs[0]
	names := []string{"p", "r1", "r2"}[:1+c0.Nrep]
	w := newSWorld(names, map[string]string{"p": "master", "r1": "slave", "r2": "slave"})
	defer w.close()
	opt := rueidis.ClientOption{InitAddress: []string{w.addr["p"]}, DialCtxFn: w.net.DialCtxFn(), EnableReplicaAZInfo: c0.Az}
	for _, r := range names[1:] {
		opt.Standalone.ReplicaAddress = append(opt.Standalone.ReplicaAddress, w.addr[r])
	}
	opt.Standalone.EnableRedirect = c0.Redirect
	if c0.Pred {
		opt.SendToReplicas = optedIn
	}
	if c0.Sel != "none" {
		var v int
		fmt.Sscanf(c0.Sel, "%d", &v)
		opt.ReadNodeSelector = func(uint16, []rueidis.NodeInfo) int { return v }
	}
	client, err := rueidis.NewClient(opt)
	if c0.Construct != "ok" {
		rep.Evaluations++
		if err == nil {
			client.Close()
			rep.Violate("standalone-config-accepted "+c0.Construct, fmt.Sprintf("NewClient accepted a configuration the specification rejects (%s): %s", c0.Construct, cfgKey(c0)), c0)
		}
		return
	}
	if err != nil {
		rep.Inconcl("NewClient failed for %s: %v", cfgKey(c0), err)
		return
	}
	defer client.Close()
	if client.Mode() != rueidis.ClientModeStandalone {
		rep.Inconcl("not a standalone client for %s: %s", cfgKey(c0), client.Mode())
		return
	}
	for _, c := range cs {
		w.next++
		id := w.next
		err, panicked := doCall(client, id, c.Api, c.Flags, 20*time.Second, func() bool { r, _ := w.seen(id); return len(r) > 0 })
		recv, _ := w.seen(id)
		judgeRoute(rep, c, recv, err, panicked, func(n string) bool { return n != "p" }, distinct)
	}
}

// judgeRoute compares the nodes that received the call with the targets the specification admits.
func judgeRoute(rep *vh.Report, c Case, recv []string, err error, panicked string, isReplica func(string) bool, distinct map[string]bool) {
	rep.Evaluations++
	selClass := c.Sel
	if c.Sel != "none" && c.Sel != "-1" && c.Sel != "0" {
		var v int
		fmt.Sscanf(c.Sel, "%d", &v)
		if v <= c.Nrep {
			selClass = "replica-index"
		} else {
			selClass = "beyond"
		}
	}
	sigTail := fmt.Sprintf("client=%s%s api=%s call=%s nrep=%d selector=%s az=%v redirect=%v", c.Client, c.Mode, c.Api, classOfCase(c), c.Nrep, selClass, c.Az, c.Redirect)
	if c.Lft {
		sigTail += " lifetime"
		if c.Fault != "none" {
			sigTail += fmt.Sprintf(" fault=%s after=%d of %d", c.Fault, c.After, len(c.Flags))
		}
	}
	if c.Pred || c.Sel != "none" || c.Mode != "" {
		distinct[sigTail] = true
	}
	if rep.Evaluations%97 == 1 {
		rep.Sample(map[string]any{"case": c, "received_by": recv})
	}
	if panicked != "" {
		rep.Violate("route-panic "+sigTail, fmt.Sprintf("the call panicked (%s); the specification sends it to %v", panicked, c.Target), c)
		return
	}
	if len(recv) == 0 {
		rep.Inconcl("no node received the call of case %s (err=%v)", sigTail, err)
		return
	}
	admitted := map[string]bool{}
	for _, t := range c.Target {
		admitted[t] = true
	}
	for _, n := range recv {
		if admitted[n] {
			continue
		}
		if isReplica(n) && !c.OptedIn {
			rep.Violate("replica-without-optin "+sigTail, fmt.Sprintf("a command of a call that did not opt in (SendToReplicas values %v) reached %s; the specification admits %v", c.Flags, n, c.Target), c)
		} else if isReplica(n) && len(c.Target) == 1 && !isReplica(c.Target[0]) {
			rep.Violate("no-fallback-to-primary "+sigTail, fmt.Sprintf("selector result %s is outside the node list, the call reached %s instead of the primary", c.Sel, n), c)
		} else {
			rep.Inconcl("divergence: case %s reached %s, the specification predicts %v (no property broken)", sigTail, n, c.Target)
		}
		return
	}
}

func runSentinelRoutes(rep *vh.Report, cs []Case, distinct map[string]bool) {
	mode := cs[0].Mode
	w := NewWorld(mode, 3, 2)
	defer w.Close()
	r := &runner{w: w, scale: time.Millisecond}
	client, err := rueidis.NewClient(r.options())
	if err != nil {
		rep.Inconcl("sentinel NewClient failed (mode %s): %v", mode, err)
		return
	}
	defer client.Close()
	for _, c := range cs {
		w.mu.Lock()
		w.recvNode = map[int][]string{}
		w.mu.Unlock()
		id := int(r.nextID.Add(1))
		err, panicked := doCall(client, id, c.Api, c.Flags, 20*time.Second, func() bool {
			w.mu.Lock()
			defer w.mu.Unlock()
			return len(w.recvNode[id]) > 0
		})
		w.mu.Lock()
		nodes := append([]string(nil), w.recvNode[id]...)
		w.mu.Unlock()
		// class "m" = the node verified as master (n1), class "r" = a verified replica (n2, n3)
		var recv []string
		for _, n := range nodes {
			if n == "n1" {
				recv = append(recv, "m")
			} else {
				recv = append(recv, "r")
			}
		}
		judgeRoute(rep, c, recv, err, panicked, func(n string) bool { return n == "r" }, distinct)
	}
}

// ---------------------------------------------------------------------------------------------- redirect behaviours

func dedupe(xs []string) []string {
	var out []string
	for _, x := range xs {
		if len(out) == 0 || out[len(out)-1] != x {
			out = append(out, x)
		}
	}
	return out
}

func runRedirect(rep *vh.Report, c Case) {
	rep.Evaluations++
	rep.Traces++
	w := newSWorld([]string{"p0", "p1"}, map[string]string{"p0": "master", "p1": "master"})
	defer w.close()
	opt := rueidis.ClientOption{InitAddress: []string{w.addr["p0"]}, DialCtxFn: w.net.DialCtxFn()}
	opt.Standalone.EnableRedirect = true
	client, err := rueidis.NewClient(opt)
	if err != nil {
		rep.Inconcl("NewClient with EnableRedirect failed: %v", err)
		return
	}
	defer client.Close()
	var shape []string
	for _, s := range c.Steps {
		shape = append(shape, s.Op+s.Api+s.Result)
	}
	hist := strings.Join(shape, ",")
	if rep.Traces%60 == 1 {
		rep.Sample(map[string]any{"redirect_behaviour": c.Steps})
	}
	other := func(x string) string {
		if x == "p0" {
			return "p1"
		}
		return "p0"
	}
	for i, s := range c.Steps {
		switch s.Op {
		case "demote":
			w.mu.Lock()
			w.redir[s.X] = w.addr[other(s.X)]
			w.mu.Unlock()
		case "promote":
			w.mu.Lock()
			delete(w.redir, s.X)
			w.mu.Unlock()
		case "down":
			w.net.Remove(w.addr[s.X])
			for _, cn := range w.nodes[s.X].Conns() {
				cn.Cut()
			}
		case "up":
			w.net.Add(w.addr[s.X], w.nodes[s.X])
		case "call":
			w.next++
			id := w.next
			flags := []bool{false}
			if s.Api == "DoMulti" || s.Api == "DoMultiCache" {
				flags = []bool{false, false}
			}
			timeout := 20 * time.Second
			if s.Result == "redirect-error" {
				timeout = 150 * time.Millisecond // the client retries until the deadline of the call
			}
			err, panicked := doCall(client, id, s.Api, flags, timeout, func() bool { return true })
			recv, exec := w.seen(id)
			recv, exec = dedupe(recv), dedupe(exec)
			sig := fmt.Sprintf("api=%s predicted=%s", s.Api, s.Result)
			replay := map[string]any{"behaviour": c.Steps, "step": i, "received_by": recv, "executed_by": exec, "error": fmt.Sprint(err)}
			if panicked != "" {
				rep.Violate("redirect-panic "+sig, "the call panicked: "+panicked+" in "+hist, replay)
				return
			}
			_, isRedirErr := func() (string, bool) {
				if re, ok := rueidis.IsRedisErr(err); ok {
					return re.IsRedirect()
				}
				return "", false
			}()
			if s.Result == "served" {
				if isRedirErr {
					rep.Violate("redirect-returned-to-caller "+sig, fmt.Sprintf("the caller got %v although the named primary is reachable (received by %v)", err, recv), replay)
					return
				}
				if err != nil {
					rep.Inconcl("redirect behaviour %s step %d: call failed with %v", hist, i, err)
					return
				}
				want := s.Recv[len(s.Recv)-1]
				if len(exec) == 0 || exec[len(exec)-1] != want {
					rep.Violate("redirect-not-followed "+sig, fmt.Sprintf("the call was served by %v, the specification predicts %s (received by %v)", exec, want, recv), replay)
					return
				}
				if strings.Join(recv, ",") != strings.Join(s.Recv, ",") {
					rep.Inconcl("divergence: redirect behaviour %s step %d: received by %v, predicted %v", hist, i, recv, s.Recv)
					return
				}
			} else {
				if err == nil {
					rep.Violate("redirect-unreachable-but-served "+sig, fmt.Sprintf("the call succeeded although the named primary is unreachable (received by %v, executed by %v)", recv, exec), replay)
					return
				}
				if len(exec) > 0 {
					rep.Violate("redirect-unreachable-but-executed "+sig, fmt.Sprintf("executed by %v", exec), replay)
					return
				}
			}
		}
	}
}
