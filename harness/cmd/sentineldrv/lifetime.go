package main

import (
	"fmt"
	"os"
	"strings"
	"sync"
	"time"

	"github.com/redis/rueidis"
	"verifharness/fakeredis"
	"verifharness/vh"
)

// Round 2 (C21): calls whose connection reaches ClientOption.ConnLifetime, or fails, while they are in flight.
// SentinelRoute.tla lists the transmissions of such a call (`sends`) with the class every one of them must go to; the
// data nodes of the World provoke the fault on the first transmission of one tagged call:
//
//	expire  the node holds back the replies from command `after` on (the earlier ones are delivered) until the
//	        client's lifetime timer has fired -- pipe.Close() announces itself with a PING on that very connection --
//	        and then cuts the connection: the rest of the call comes back as errConnExpired and the recovery path of
//	        sentinel.go sends it again
//	cut     the node executes command `after` and cuts the connection instead of answering: a transport error, the
//	        retry handler sends the (read-only) call again
type faultPlan struct {
	id    int
	kind  string
	after int
	state int // 0 armed, 1 holding replies (expire), 2 done
	conn  *fakeredis.Conn
	since time.Time
}

func tagIndex(argv []string) int {
	parts := strings.Split(argv[1], ":")
	var i int
	fmt.Sscanf(parts[2], "%d", &i)
	return i
}

// faultIntercept runs inside the intercept of a data node (under its dispatcher mutex).
func (w *World) faultIntercept(c *fakeredis.Conn, argv []string) (fakeredis.Action, bool) {
	w.mu.Lock()
	defer w.mu.Unlock()
	p := w.fault
	if p == nil {
		return 0, false
	}
	if p.state == 1 && c == p.conn && len(argv) == 1 && strings.EqualFold(argv[0], "PING") {
		p.state = 2
		return fakeredis.CutNow, true
	}
	if p.state != 0 {
		return 0, false
	}
	id, ok := tagOf(argv)
	if !ok || id != p.id || tagIndex(argv) != p.after {
		return 0, false
	}
	p.conn, p.since = c, time.Now()
	if p.kind == "cut" {
		p.state = 2
		return fakeredis.ExecThenCut, true
	}
	p.state = 1
	c.HoldReplies(true)
	return fakeredis.Pass, true
}

func (w *World) setFault(p *faultPlan) {
	w.mu.Lock()
	w.fault = p
	w.mu.Unlock()
}

// endFault disarms the plan; replies that are still held (the lifetime never ended the connection) are let go.
func (w *World) endFault() {
	w.mu.Lock()
	p := w.fault
	w.fault = nil
	w.mu.Unlock()
	if p != nil && p.state == 1 && p.conn != nil {
		p.conn.HoldReplies(false)
	}
}

// manifested: did the first transmission fail where the case says, and was the call sent again as the case says?
// per[i] = how often command i of the call was received by some node
func manifested(c Case, per []int) bool {
	switch c.Fault {
	case "expire":
		for i, n := range per {
			if i < c.After && n != 1 && (c.Api == "Do" || c.Api == "DoMulti") {
				return false // the whole call was sent again: another recovery path (retry after a transport error)
			}
			if i >= c.After && n < 2 {
				return false
			}
		}
	case "cut":
		return per[c.After] >= 2
	}
	return true
}

type lftStats struct {
	mu                              sync.Mutex
	cases, faults, shown, attempts  int
	expireInside, expireInsideShown int
	results                         []lftResult
	inconcl                         []string
}

type lftResult struct {
	c        Case
	recv     []string
	err      error
	panicked string
}

// runSentinelLifetimeRoutes: the cases with ConnLifetime of one client mode, spread over a few deployments that run at
// the same time (every expire case has to wait for a connection to reach its lifetime).
// It returns the function that enters the observations into the report (to be called by the goroutine that owns it).
func runSentinelLifetimeRoutes(cs []Case, unit time.Duration) func(rep *vh.Report, distinct map[string]bool) {
	const chunk = 20
	var wg sync.WaitGroup
	st := &lftStats{}
	for lo := 0; lo < len(cs); lo += chunk {
		hi := min(lo+chunk, len(cs))
		wg.Add(1)
		go func(part []Case) {
			defer wg.Done()
			runLifetimeChunk(part, st, unit)
		}(cs[lo:hi])
	}
	wg.Wait()
	return func(rep *vh.Report, distinct map[string]bool) { st.report(rep, cs, distinct) }
}

func (st *lftStats) report(rep *vh.Report, cs []Case, distinct map[string]bool) {
	for _, m := range st.inconcl {
		rep.Inconcl("%s", m)
	}
	for _, x := range st.results {
		judgeRoute(rep, x.c, x.recv, x.err, x.panicked, func(n string) bool { return n == "r" }, distinct)
	}
	if rep.Extra == nil {
		rep.Extra = map[string]any{}
	}
	rep.Extra["lifetime_cases_mode_"+cs[0].Mode] = map[string]any{"cases": st.cases, "with_fault": st.faults, "fault_observed_as_predicted": st.shown,
		"attempts": st.attempts, "expiry_inside_batch": st.expireInside, "expiry_inside_batch_observed": st.expireInsideShown}
	if st.expireInside > 0 && 2*st.expireInsideShown < st.expireInside {
		rep.Inconcl("sentinel mode %s: a connection lifetime ending inside a batch could be provoked for only %d of %d cases", cs[0].Mode, st.expireInsideShown, st.expireInside)
	}
}

func runLifetimeChunk(cs []Case, st *lftStats, unit time.Duration) {
	mode := cs[0].Mode
	w := NewWorld(mode, 3, 2)
	defer w.Close()
	r := &runner{w: w, scale: unit}
	opt := r.options()
	opt.ConnLifetime = 80 * unit
	opt.PipelineMultiplex = -1 // one pipelined connection per node: every command of a call travels on it
	// Only a connection whose background reader runs can deliver the first replies of a batch and fail the rest with
	// errConnExpired (the synchronous path fails a batch as a whole, with the read error); the reader runs once calls
	// have overlapped or a DoCache was made, or from the start with AlwaysPipelining.
	opt.AlwaysPipelining = true
	client, err := rueidis.NewClient(opt)
	// on a loaded machine the set-up of the first connections can take longer than the (short) lifetime: try again
	for try := 0; err != nil && try < 20; try++ {
		time.Sleep(50 * time.Millisecond)
		client, err = rueidis.NewClient(opt)
	}
	if err != nil {
		st.mu.Lock()
		st.inconcl = append(st.inconcl, fmt.Sprintf("sentinel NewClient with ConnLifetime failed (mode %s): %v", mode, err))
		st.mu.Unlock()
		return
	}
	// The sentinel connections have the same lifetime; every time one ends the client refreshes, and a refresh that
	// finds the master connection expired replaces it and closes the old one under the calls in flight.  From now on the
	// sentinels answer so slowly that no refresh completes while the cases run.
	w.sentDelay.Store(int64(3 * time.Second))
	defer func() {
		w.sentDelay.Store(0)
		client.Close()
	}()
	for _, c := range cs {
		var recv []string
		var callErr error
		var panicked string
		shown := false
		tries := 0
		for try := 0; try < 6 && !shown; try++ {
			tries++
			w.mu.Lock()
			w.recvNode = map[int][]string{}
			w.recvIdx = map[int][]int{}
			w.mu.Unlock()
			id := int(r.nextID.Add(1))
			if c.Fault != "none" {
				w.setFault(&faultPlan{id: id, kind: c.Fault, after: c.After})
			}
			callErr, panicked = doCall(client, id, c.Api, c.Flags, 8*time.Second, func() bool { return true })
			w.endFault()
			w.mu.Lock()
			nodes := append([]string(nil), w.recvNode[id]...)
			idxs := append([]int(nil), w.recvIdx[id]...)
			w.mu.Unlock()
			recv = recv[:0]
			per := make([]int, len(c.Flags))
			bad := false
			for j, n := range nodes {
				cls := "r"
				if n == "n1" {
					cls = "m"
				}
				recv = append(recv, cls)
				if j < len(idxs) && idxs[j] < len(per) {
					per[idxs[j]]++
				}
				if cls != c.Target[0] {
					bad = true
				}
			}
			shown = bad || panicked != "" || (callErr == nil && manifested(c, per))
			if os.Getenv("VERIF_DEBUG") != "" {
				fmt.Fprintf(os.Stderr, "lft mode=%s api=%s flags=%v fault=%s after=%d try=%d nodes=%v idx=%v err=%v shown=%v\n", mode, c.Api, c.Flags, c.Fault, c.After, try, nodes, idxs, callErr, shown)
			}
		}
		st.mu.Lock()
		st.cases++
		st.attempts += tries
		if c.Fault != "none" {
			st.faults++
			if shown {
				st.shown++
			}
		}
		if c.Fault == "expire" && c.After > 0 {
			st.expireInside++
			if shown {
				st.expireInsideShown++
			}
		}
		st.results = append(st.results, lftResult{c, append([]string(nil), recv...), callErr, panicked})
		st.mu.Unlock()
	}
}
