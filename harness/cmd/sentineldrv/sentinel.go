package main

import (
	"context"
	"fmt"
	"io"
	"math/rand"
	"os"
	"runtime"
	"strings"
	"sync"
	"sync/atomic"
	"time"

	"github.com/redis/rueidis"
)

// Step is one environment action of a scenario (Sentinel.tla: Rec(op, x, y, z) with the anchor at/an).
type Step struct {
	Op  string   `json:"op"` // role crash restart scrash srestart sview pub | driver-only: sfail settle
	X   string   `json:"x"`
	Y   string   `json:"y"`
	Z   string   `json:"z"`
	Set []string `json:"set"` // pub: parts of the master-set name the event is about (empty: the client's own)
	At  string   `json:"at"`  // role answer swapbegin idle now
	An  string   `json:"an"`
}

type Scenario struct {
	Name  string `json:"name"`
	Mode  string `json:"mode"`
	Steps []Step `json:"steps"`
	Final string `json:"final"` // node that ends as the master ("" = chosen from the seed)
}

type runner struct {
	w       *World
	sc      Scenario
	rng     *rand.Rand
	rngMu   sync.Mutex
	client  atomic.Pointer[clientBox]
	stop    atomic.Bool
	pause   atomic.Bool // background traffic rests while the final expectation is evaluated
	nextID  atomic.Int64
	wg      sync.WaitGroup
	panics  atomic.Int64
	lastErr atomic.Value
	scale   time.Duration // time unit (raised when the machine is slow)
}

type clientBox struct{ c rueidis.Client }

func (r *runner) rnd(n int) int {
	r.rngMu.Lock()
	defer r.rngMu.Unlock()
	return r.rng.Intn(n)
}

func optedIn(cmd rueidis.Completed) bool {
	cs := cmd.Commands()
	return len(cs) > 1 && strings.HasPrefix(cs[1], "r:")
}

func (r *runner) options() rueidis.ClientOption {
	opt := rueidis.ClientOption{
		InitAddress: r.w.sentinelAddrs(),
		Sentinel:    rueidis.SentinelOption{MasterSet: masterSet},
		DialCtxFn:   r.w.net.DialCtxFn(),
	}
	switch r.w.mode {
	case "r":
		opt.ReplicaOnly = true
	case "b":
		opt.SendToReplicas = optedIn
	}
	return opt
}

// create keeps calling NewClient until the first refresh succeeds (the model starts with want = TRUE).
func (r *runner) create() {
	defer r.wg.Done()
	for !r.stop.Load() {
		c, err := rueidis.NewClient(r.options())
		if err == nil {
			r.client.Store(&clientBox{c})
			return
		}
		r.lastErr.Store(err.Error())
		time.Sleep(r.scale)
	}
}

func key(flag bool, id, i int) string {
	if flag {
		return fmt.Sprintf("r:%d:%d", id, i)
	}
	return fmt.Sprintf("p:%d:%d", id, i)
}

var apiNames = []string{"Do", "Do", "DoMulti", "DoCache", "DoMultiCache", "DoStream", "DoMultiStream", "Dedicated", "Receive"}

// one user call: api 0 Do(GET) 1 Do(SET) 2 DoMulti 3 DoCache 4 DoMultiCache 5 DoStream 6 DoMultiStream 7 Dedicated
func (r *runner) call(c rueidis.Client, api int, flags []bool) (id int, nodes []string) {
	id = int(r.nextID.Add(1))
	defer func() {
		if p := recover(); p != nil {
			r.panics.Add(1)
			r.lastErr.Store(fmt.Sprintf("panic in api %d: %v", api, p))
		}
		r.w.ev("Ret", "id", id)
		r.w.mu.Lock()
		nodes = append([]string(nil), r.w.recvNode[id]...)
		r.w.mu.Unlock()
	}()
	r.w.ev("Call", "id", id, "flags", flags, "ch", apiNames[api])
	ctx, cancel := context.WithTimeout(context.Background(), 400*r.scale)
	defer cancel()
	switch api {
	case 0:
		c.Do(ctx, c.B().Get().Key(key(flags[0], id, 0)).Build())
	case 1:
		c.Do(ctx, c.B().Set().Key(key(flags[0], id, 0)).Value("v").Build())
	case 2:
		var cs rueidis.Commands
		for i, f := range flags {
			if i%2 == 0 {
				cs = append(cs, c.B().Get().Key(key(f, id, i)).Build())
			} else {
				cs = append(cs, c.B().Set().Key(key(f, id, i)).Value("v").Build())
			}
		}
		c.DoMulti(ctx, cs...)
	case 3:
		c.DoCache(ctx, c.B().Get().Key(key(flags[0], id, 0)).Cache(), time.Minute)
	case 4:
		var cs []rueidis.CacheableTTL
		for i, f := range flags {
			cs = append(cs, rueidis.CT(c.B().Get().Key(key(f, id, i)).Cache(), time.Minute))
		}
		c.DoMultiCache(ctx, cs...)
	case 5:
		s := c.DoStream(ctx, c.B().Get().Key(key(flags[0], id, 0)).Build())
		for s.HasNext() {
			if _, err := s.WriteTo(io.Discard); err != nil {
				break
			}
		}
	case 6:
		var cs rueidis.Commands
		for i, f := range flags {
			cs = append(cs, c.B().Get().Key(key(f, id, i)).Build())
		}
		s := c.DoMultiStream(ctx, cs...)
		for s.HasNext() {
			if _, err := s.WriteTo(io.Discard); err != nil {
				break
			}
		}
	case 7:
		c.Dedicated(func(dc rueidis.DedicatedClient) error {
			dc.Do(ctx, dc.B().Get().Key(key(flags[0], id, 0)).Build())
			return nil
		})
	case 8: // the channel name carries the tag; Receive ends when the context does
		rctx, rcancel := context.WithTimeout(ctx, 15*r.scale)
		c.Receive(rctx, c.B().Subscribe().Channel(key(flags[0], id, 0)).Build(), func(rueidis.PubSubMessage) {})
		rcancel()
	}
	return
}

func (r *runner) randomCall(c rueidis.Client) {
	api := []int{0, 0, 1, 2, 2, 3, 4, 5, 6, 7}[r.rnd(10)]
	n := 1
	if api == 2 || api == 4 || api == 6 {
		n = 2 + r.rnd(2)
	}
	flags := make([]bool, n)
	for i := range flags {
		flags[i] = r.rnd(2) == 0
	}
	if n > 1 && r.rnd(3) == 0 {
		for i := range flags {
			flags[i] = true
		}
	}
	r.call(c, api, flags)
}

func (r *runner) traffic() {
	defer r.wg.Done()
	for !r.stop.Load() {
		b := r.client.Load()
		if b == nil || r.pause.Load() {
			time.Sleep(r.scale / 2)
			continue
		}
		r.randomCall(b.c)
		time.Sleep(time.Duration(1+r.rnd(3)) * r.scale)
	}
}

// apply performs one environment action.
func (r *runner) apply(s Step) {
	w := r.w
	w.ev("Env", "ch", s.Op, "s", s.X, "a", s.Y, "ans", s.Z, "set", strings.Join(s.Set, ""))
	switch s.Op {
	case "role":
		w.nodes[s.X].srv.SetRole(s.Y)
	case "crash", "scrash":
		w.crash(s.X)
	case "restart", "srestart":
		w.restart(s.X)
	case "sview":
		w.setView(s.X, s.Y, s.Z)
	case "sfail":
		w.setFail(s.X, s.Y)
	case "pub":
		w.publish(s.X, s.Y, s.Z, strings.Join(s.Set, ""))
	case "settle":
		w.waitQuiet(6*r.scale, 150*r.scale)
	case "slowconn": // from now on connection setup to node X takes Y time units
		var u int
		fmt.Sscanf(s.Y, "%d", &u)
		w.nodes[s.X].slow.Store(int64(time.Duration(u) * r.scale))
	case "slowrole": // from now on the ROLE answers of node X take Y time units to reach the client
		var u int
		fmt.Sscanf(s.Y, "%d", &u)
		w.nodes[s.X].slowRole.Store(int64(time.Duration(u) * r.scale))
	case "storm": // a burst of replica events, as a failover with many replicas produces
		for i := 0; i < 24; i++ {
			w.publish(s.X, []string{"sdown", "slave", "-sdown", "reboots"}[i%4], fmt.Sprintf("n%d", 2+i%2), "")
		}
	}
}

func (r *runner) step(s Step) {
	w := r.w
	switch s.At {
	case "role", "answer", "swapbegin":
		t := w.arm(s.At, s.An, func() { r.apply(s) })
		select {
		case <-t.fired:
		case <-time.After(60 * r.scale):
			if w.disarm(t) {
				r.apply(s)
			} else {
				<-t.fired
			}
		}
	case "idle":
		// (the model is at rest only after the first refresh, i.e. when NewClient has returned; on a loaded machine
		// that can take a while)
		deadline := time.Now().Add(1000 * r.scale)
		for r.client.Load() == nil && time.Now().Before(deadline) {
			time.Sleep(r.scale)
		}
		w.waitQuiet(6*r.scale, 150*r.scale)
		r.apply(s)
	default:
		r.apply(s)
	}
}

// heal ends every scenario like a completed failover: everything reachable, `final` the only master, every sentinel
// reports it; then +switch-master is published by every sentinel (antecedent of Sentinel!FollowsSwitch).
func (r *runner) heal(final string) (ok bool, detail string) {
	w := r.w
	w.ev("Env", "ch", "heal", "a", final)
	for name := range w.nodes {
		w.restart(name)
	}
	for name, s := range w.sents {
		w.restart(name)
		w.setFail(s.name, "")
	}
	for name, n := range w.nodes {
		if name == final {
			n.srv.SetRole("master")
		} else {
			n.srv.SetRole("slave")
		}
	}
	// the client must exist and be at rest before the event is published; a client that could not be created so far
	// needs sentinels that know the master
	if r.client.Load() == nil {
		for name := range w.sents {
			w.setView(name, final, "others")
		}
	}
	deadline := time.Now().Add(4000 * r.scale)
	for r.client.Load() == nil && time.Now().Before(deadline) {
		time.Sleep(r.scale)
	}
	b := r.client.Load()
	if b == nil {
		return false, fmt.Sprintf("NewClient did not succeed although every node and sentinel is healthy (last error: %v)", r.lastErr.Load())
	}
	w.waitQuiet(12*r.scale, 1000*r.scale)
	deaf := true
	for name := range w.sents {
		if w.subscribed(name) {
			deaf = false
		}
	}
	moved := false
	for round := 0; round < 2; round++ {
		for i := 1; i <= len(w.sents); i++ {
			name := fmt.Sprintf("s%d", i)
			// the sentinel's own view changes before it announces the switch, as in Redis Sentinel
			w.mu.Lock()
			oldm := w.sents[name].master
			w.mu.Unlock()
			ip, port := hostPort(w.addrOf(final))
			oip, oport := hostPort(w.addrOf(oldm))
			w.setView(name, final, "others")
			w.ev("Env", "ch", "pub", "s", name, "a", "switch", "ans", final)
			w.ev("Push", "s", name, "ch", "switch", "a", final, "set", masterSet)
			w.sents[name].srv.Do("PUBLISH", "+switch-master", fmt.Sprintf("%s %s %s %s %s", masterSet, oip, oport, ip, port))
			if w.mode != "m" {
				for n := range w.nodes {
					if n != final {
						w.publish(name, "slave", n, "")
					}
				}
			}
		}
		// probe with primary traffic until it reaches the new master
		if w.mode == "r" {
			w.waitQuiet(20*r.scale, 1000*r.scale)
			return true, ""
		}
		deadline = time.Now().Add(1500 * r.scale)
		for time.Now().Before(deadline) {
			_, nodes := r.call(b.c, 0, []bool{false})
			if len(nodes) > 0 && nodes[len(nodes)-1] == final {
				// primary traffic has reached the new master; the observable state is compared when the client is at
				// rest (user calls that run into their deadline kill a connection and make the client refresh again)
				r.pause.Store(true)
				if w.waitQuiet(6*r.scale, 300*r.scale) {
					if _, nodes = r.call(b.c, 0, []bool{false}); len(nodes) > 0 && nodes[len(nodes)-1] == final && w.quietFor(0) {
						w.ev("Expect", "k", "m", "list", []string{final}, "ans", "moved")
						return true, ""
					}
				}
				r.pause.Store(false)
				moved = true
			}
			time.Sleep(5 * r.scale)
		}
	}
	if moved { // traffic follows the new master, but the client never came to rest: nothing to compare
		return true, "followed, never at rest"
	}
	ans := "stuck"
	if deaf {
		ans = "deaf"
	}
	w.ev("Expect", "k", "m", "list", []string{final}, "ans", ans)
	return false, fmt.Sprintf("primary traffic did not reach %s within %v after +switch-master was published twice by every sentinel (%s)", final, 3000*r.scale, ans)
}

type runResult struct {
	events  []map[string]any
	healed  bool
	detail  string
	panics  int
	over    bool
	hung    string
	lastErr string
}

func runScenario(sc Scenario, seed int64, scale time.Duration) runResult {
	w := NewWorld(sc.Mode, 3, 2)
	r := &runner{w: w, sc: sc, rng: rand.New(rand.NewSource(seed)), scale: scale}
	w.ev("RESET", "ch", sc.Name)
	r.wg.Add(2)
	// steps anchored inside the first refresh must be armed before the client starts: the creator waits a moment
	go func() {
		time.Sleep(scale / 2)
		r.create()
	}()
	go r.traffic()
	for _, s := range sc.Steps {
		r.step(s)
	}
	final := sc.Final
	if final == "" {
		final = fmt.Sprintf("n%d", 1+r.rnd(3))
	}
	var res runResult
	w.waitQuiet(6*scale, 300*scale)
	res.healed, res.detail = r.heal(final)
	r.stop.Store(true)
	done := make(chan struct{})
	go func() {
		r.wg.Wait()
		if b := r.client.Load(); b != nil {
			b.c.Close()
		}
		close(done)
	}()
	select {
	case <-done:
	case <-time.After(10 * time.Second):
		res.hung = "client.Close() or a user call did not return within 10 s after the scenario"
		if os.Getenv("VERIF_DUMP") != "" {
			buf := make([]byte, 1<<20)
			os.Stderr.Write(buf[:runtime.Stack(buf, true)])
		}
	}
	res.events = w.Events()
	res.panics = int(r.panics.Load())
	w.mu.Lock()
	res.over = w.slotOver
	w.mu.Unlock()
	if v := r.lastErr.Load(); v != nil {
		res.lastErr = v.(string)
	}
	w.Close()
	return res
}

// ---------------------------------------------------------------------------------------------- scenario sources

// canonical scenarios: the situations C23 names, written with the vocabulary of Sentinel.tla
func canonical() []Scenario {
	sw := func(to string) []Step { // failover n1 -> to, learnt by both sentinels, announced by both
		return []Step{{Op: "role", X: "n1", Y: "slave", At: "idle"}, {Op: "role", X: to, Y: "master"},
			{Op: "sview", X: "s1", Y: to, Z: "others"}, {Op: "pub", X: "s1", Y: "switch", Z: to},
			{Op: "sview", X: "s2", Y: to, Z: "others"}, {Op: "pub", X: "s2", Y: "switch", Z: to}}
	}
	// events of the other master sets the same sentinels monitor (names of SentinelMC.tla: NamesAll \ {Own}), each
	// naming a node that honestly answers ROLE master and that no sentinel reported as master of the client's set
	foreign := func() []Step {
		st := []Step{{Op: "role", X: "n3", Y: "master", At: "idle"}}
		for _, name := range foreignSets {
			st = append(st, Step{Op: "pub", X: "s1", Y: "switch", Z: "n3", Set: name}, Step{Op: "pub", X: "s2", Y: "switch", Z: "n3", Set: name})
		}
		st = append(st, Step{Op: "settle"}, Step{Op: "role", X: "n2", Y: "master", At: "idle"})
		for _, name := range foreignSets {
			st = append(st, Step{Op: "pub", X: "s1", Y: "rebootm", Z: "n2", Set: name}, Step{Op: "pub", X: "s2", Y: "rebootm", Z: "n2", Set: name})
		}
		return append(st, Step{Op: "settle"})
	}
	var out []Scenario
	for _, m := range []string{"m", "r", "b"} {
		out = append(out,
			Scenario{Name: "foreign-master-sets", Mode: m, Steps: foreign(), Final: "n1"},
			Scenario{Name: "failover", Mode: m, Steps: sw("n2"), Final: "n3"},
			Scenario{Name: "stale-first-sentinel", Mode: m, Steps: []Step{{Op: "sview", X: "s1", Y: "n2", Z: "others"}}, Final: "n1"},
			Scenario{Name: "both-sentinels-stale-then-learn", Mode: m, Steps: []Step{{Op: "sview", X: "s1", Y: "n2", Z: "others"},
				{Op: "sview", X: "s2", Y: "n3", Z: "others"}, {Op: "settle"}, {Op: "sview", X: "s2", Y: "n1", Z: "others"}}, Final: "n2"},
			Scenario{Name: "flip-between-answer-and-role", Mode: m, Steps: []Step{{Op: "role", X: "n1", Y: "slave", At: "answer", An: "s1"},
				{Op: "role", X: "n2", Y: "master"}, {Op: "sview", X: "s2", Y: "n2", Z: "others"}}, Final: "n2"},
			Scenario{Name: "flip-after-role", Mode: m, Steps: []Step{{Op: "role", X: "n1", Y: "slave", At: "role", An: "n1"},
				{Op: "role", X: "n3", Y: "master"}}, Final: "n3"},
			Scenario{Name: "flip-at-swap", Mode: m, Steps: []Step{{Op: "role", X: "n1", Y: "slave", At: "swapbegin", An: "n1"}}, Final: "n2"},
			Scenario{Name: "switch-event-to-node-that-is-still-slave", Mode: m, Steps: []Step{{Op: "slowrole", X: "n2", Y: "15"}, {Op: "pub", X: "s1", Y: "switch", Z: "n2", At: "idle"},
				{Op: "pub", X: "s2", Y: "switch", Z: "n2"}, {Op: "settle"}}, Final: "n2"},
			Scenario{Name: "reboot-of-demoted-master", Mode: m, Steps: []Step{{Op: "slowconn", X: "n1", Y: "30"}, {Op: "role", X: "n1", Y: "slave", At: "idle"},
				{Op: "pub", X: "s1", Y: "rebootm", Z: "n1"}, {Op: "pub", X: "s2", Y: "rebootm", Z: "n1"}, {Op: "settle"},
				{Op: "role", X: "n2", Y: "master"}, {Op: "sview", X: "s1", Y: "n2", Z: "others"}, {Op: "sview", X: "s2", Y: "n2", Z: "others"}}, Final: "n2"},
			Scenario{Name: "reboot-of-demoted-master-slow10", Mode: m, Steps: []Step{{Op: "slowconn", X: "n1", Y: "10"}, {Op: "role", X: "n1", Y: "slave", At: "idle"},
				{Op: "pub", X: "s1", Y: "rebootm", Z: "n1"}, {Op: "pub", X: "s2", Y: "rebootm", Z: "n1"}, {Op: "settle"},
				{Op: "role", X: "n2", Y: "master"}, {Op: "sview", X: "s1", Y: "n2", Z: "others"}, {Op: "sview", X: "s2", Y: "n2", Z: "others"}}, Final: "n2"},
			Scenario{Name: "reboot-of-demoted-master-slow80", Mode: m, Steps: []Step{{Op: "slowconn", X: "n1", Y: "80"}, {Op: "role", X: "n1", Y: "slave", At: "idle"},
				{Op: "pub", X: "s1", Y: "rebootm", Z: "n1"}, {Op: "pub", X: "s2", Y: "rebootm", Z: "n1"}, {Op: "settle"},
				{Op: "role", X: "n2", Y: "master"}, {Op: "sview", X: "s1", Y: "n2", Z: "others"}, {Op: "sview", X: "s2", Y: "n2", Z: "others"}}, Final: "n2"},
			Scenario{Name: "reboot-of-promoted-replica", Mode: m, Steps: []Step{{Op: "slowconn", X: "n2", Y: "30"}, {Op: "sview", X: "s1", Y: "n1", Z: "n2"},
				{Op: "sview", X: "s2", Y: "n1", Z: "n2"}, {Op: "role", X: "n2", Y: "master", At: "idle"}, {Op: "pub", X: "s1", Y: "reboots", Z: "n2"},
				{Op: "pub", X: "s2", Y: "reboots", Z: "n2"}, {Op: "settle"}, {Op: "settle"}}, Final: "n1"},
			Scenario{Name: "sentinel-errors", Mode: m, Steps: []Step{{Op: "sfail", X: "s1", Y: "err"}, {Op: "settle"}, {Op: "sfail", X: "s2", Y: "cut", At: "idle"},
				{Op: "scrash", X: "s2"}, {Op: "sfail", X: "s1", Y: ""}, {Op: "settle"}}, Final: "n1"},
			Scenario{Name: "sentinel-knows-no-master", Mode: m, Steps: []Step{{Op: "sview", X: "s1", Y: "", Z: "none"}}, Final: "n1"},
			Scenario{Name: "sentinel-names-dead-address", Mode: m, Steps: []Step{{Op: "sview", X: "s1", Y: "n0", Z: "others"}}, Final: "n3"},
			Scenario{Name: "master-crash-and-failover", Mode: m, Steps: []Step{{Op: "crash", X: "n1", At: "idle"}, {Op: "role", X: "n2", Y: "master"},
				{Op: "sview", X: "s1", Y: "n2", Z: "others"}, {Op: "pub", X: "s1", Y: "switch", Z: "n2"}, {Op: "sview", X: "s2", Y: "n2", Z: "others"},
				{Op: "pub", X: "s2", Y: "switch", Z: "n2"}, {Op: "settle"}, {Op: "role", X: "n1", Y: "slave"}, {Op: "restart", X: "n1"}}, Final: "n2"},
			Scenario{Name: "sentinel-crash-while-switching", Mode: m, Steps: []Step{{Op: "scrash", X: "s1", At: "role", An: "n1"}, {Op: "settle"},
				{Op: "srestart", X: "s1"}}, Final: "n2"},
			Scenario{Name: "replica-events", Mode: m, Steps: []Step{{Op: "pub", X: "s1", Y: "sdown", Z: "n2", At: "idle"}, {Op: "pub", X: "s2", Y: "sdown", Z: "n2"},
				{Op: "sview", X: "s1", Y: "n1", Z: "none"}, {Op: "pub", X: "s1", Y: "-sdown", Z: "n3"}, {Op: "pub", X: "s2", Y: "reboots", Z: "n3"},
				{Op: "settle"}, {Op: "sview", X: "s1", Y: "n1", Z: "all"}, {Op: "pub", X: "s1", Y: "slave", Z: "n1"}, {Op: "pub", X: "s2", Y: "slave", Z: "n1"},
				{Op: "pub", X: "s1", Y: "othermaster", Z: "n3"}, {Op: "pub", X: "s2", Y: "sentinel", Z: "n3"}, {Op: "settle"}}, Final: "n1"},
			Scenario{Name: "reverify-after-failed-dial", Mode: m, Steps: []Step{{Op: "sview", X: "s1", Y: "n1", Z: "n2"}, {Op: "sview", X: "s2", Y: "n1", Z: "n2"},
				{Op: "crash", X: "n2", At: "idle"}, {Op: "crash", X: "n1"}, {Op: "settle"}, {Op: "restart", X: "n2"}, {Op: "restart", X: "n1"}, {Op: "settle"},
				{Op: "role", X: "n2", Y: "master"}, {Op: "role", X: "n1", Y: "slave"}, {Op: "pub", X: "s1", Y: "reboots", Z: "n2"}, {Op: "pub", X: "s2", Y: "reboots", Z: "n2"},
				{Op: "pub", X: "s1", Y: "rebootm", Z: "n1"}, {Op: "pub", X: "s2", Y: "rebootm", Z: "n1"}, {Op: "settle"}}, Final: "n1"},
			Scenario{Name: "replica-event-storm", Mode: m, Steps: []Step{{Op: "storm", X: "s1", At: "idle"}, {Op: "storm", X: "s2"}, {Op: "settle"}}, Final: "n2"},
		)
	}
	return out
}

// master-set names other than the client's ("mymaster"), as sequences of name parts (SentinelMC.tla)
var foreignSets = [][]string{{"my", "master", "-sessions"}, {"my"}, {"x-", "my", "master"}, {"MY", "MASTER"}, {"other", "master"}}

// randomScenario draws steps from the vocabulary of Sentinel.tla plus what the model abstracts away
// (sentinel failure modes, other events), with anchors.
func randomScenario(rng *rand.Rand, mode string, i int) Scenario {
	nodes := []string{"n1", "n2", "n3"}
	sents := []string{"s1", "s2"}
	n := 2 + rng.Intn(5)
	var steps []Step
	for len(steps) < n {
		var s Step
		switch rng.Intn(12) {
		case 0, 1:
			s = Step{Op: "role", X: nodes[rng.Intn(3)], Y: []string{"master", "slave"}[rng.Intn(2)]}
		case 2:
			s = Step{Op: "crash", X: nodes[rng.Intn(3)]}
		case 3:
			s = Step{Op: "restart", X: nodes[rng.Intn(3)]}
		case 4:
			s = Step{Op: "scrash", X: sents[rng.Intn(2)]}
		case 5:
			s = Step{Op: "srestart", X: sents[rng.Intn(2)]}
		case 6, 7:
			s = Step{Op: "sview", X: sents[rng.Intn(2)], Y: append(nodes, "n0", "")[rng.Intn(5)], Z: []string{"others", "others", "none", "all"}[rng.Intn(4)]}
		case 8, 9:
			s = Step{Op: "pub", X: sents[rng.Intn(2)], Y: []string{"switch", "switch", "rebootm", "slave", "sdown", "-sdown", "reboots", "sentinel", "othermaster"}[rng.Intn(9)], Z: nodes[rng.Intn(3)]}
			if rng.Intn(4) == 0 {
				s.Set = foreignSets[rng.Intn(len(foreignSets))]
			}
		case 10:
			s = Step{Op: "sfail", X: sents[rng.Intn(2)], Y: []string{"", "err", "cut"}[rng.Intn(3)]}
		case 11:
			s = Step{Op: "settle"}
			if rng.Intn(2) == 0 {
				s = Step{Op: []string{"slowconn", "slowrole"}[rng.Intn(2)], X: nodes[rng.Intn(3)], Y: []string{"0", "10", "30"}[rng.Intn(3)]}
			}
		}
		switch rng.Intn(6) {
		case 0:
			s.At, s.An = "role", nodes[rng.Intn(3)]
		case 1:
			s.At, s.An = "answer", sents[rng.Intn(2)]
		case 2:
			s.At, s.An = "swapbegin", nodes[rng.Intn(3)]
		case 3:
			s.At = "idle"
		}
		steps = append(steps, s)
	}
	return Scenario{Name: fmt.Sprintf("random-%d", i), Mode: mode, Steps: steps}
}
