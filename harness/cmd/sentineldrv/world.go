package main

import (
	"fmt"
	"net"
	"strings"
	"sync"
	"sync/atomic"
	"time"

	"github.com/redis/rueidis"
	"verifharness/fakeredis"
	"verifharness/vh"
)

const masterSet = "mymaster"

// World is one sentinel deployment made of fakeredis servers on one Network with one shared event sequence:
// data nodes n1..n3 (role, reachable or not), sentinels s1..s2 (view, reachable or not, failure mode), plus the
// trace of everything the servers and the verif hooks of sentinel.go saw, in one total order.
type World struct {
	id     int
	mode   string // "m" default, "r" ReplicaOnly, "b" SendToReplicas
	net    *fakeredis.Network
	seq    atomic.Int64
	nodes  map[string]*Node
	sents  map[string]*Sent
	byAddr map[string]string // address -> name ("n0" for addresses nobody listens on)

	mu        sync.Mutex // scenario state: views, triggers, slots
	events    []map[string]any
	closed    bool
	lastAct   time.Time     // last client-side activity other than user traffic
	slots     map[int64]int // goroutine inside _switchTarget -> slot
	slotOver  bool          // more concurrent _switchTarget calls than the trace specification has slots
	armed     *trigger
	recvNode  map[int][]string // call id -> nodes that received one of its commands
	recvIdx   map[int][]int    // call id -> index (inside the call) of each of those commands
	fault     *faultPlan       // lifetime.go: what the data nodes do to the first transmission of one call
	sentDelay atomic.Int64     // nanoseconds the sentinels take to answer SENTINEL SENTINELS (lifetime.go)
}

const maxSlots = 16

type trigger struct {
	at, an string
	fn     func()
	fired  chan struct{}
}

type Node struct {
	name, addr string
	srv        *fakeredis.Server
	slow       atomic.Int64 // nanoseconds the handshake (HELLO) of every new connection is held back
	slowRole   atomic.Int64 // nanoseconds a ROLE answer is held back (the node answers, the reply travels slowly)
}

type Sent struct {
	name, addr string
	srv        *fakeredis.Server
	master     string          // node name the sentinel reports as master ("" = unknown: null reply)
	reps       []string        // node names listed by SENTINEL REPLICAS
	sdown      map[string]bool // listed replicas flagged s_down
	fail       string          // "" | "err" (error replies) | "cut" (connection cut on SENTINEL ...)
}

var (
	worldsMu sync.Mutex
	worlds   = map[string]*World{} // address -> world, for the process-wide verif hook
	worldSeq atomic.Int64
)

func nodeAddr(id, i int) string { return fmt.Sprintf("10.%d.%d.%d:6379", id/250, id%250, i) }
func sentAddr(id, i int) string { return fmt.Sprintf("10.%d.%d.%d:26379", id/250, id%250, 100+i) }

func NewWorld(mode string, nNodes, nSents int) *World {
	w := &World{id: int(worldSeq.Add(1)), mode: mode, net: fakeredis.NewNetwork(), nodes: map[string]*Node{},
		sents: map[string]*Sent{}, byAddr: map[string]string{}, slots: map[int64]int{}, recvNode: map[int][]string{},
		lastAct: time.Now()}
	for i := 1; i <= nNodes; i++ {
		n := &Node{name: fmt.Sprintf("n%d", i), addr: nodeAddr(w.id, i)}
		role := "slave"
		if i == 1 {
			role = "master"
		}
		n.srv = fakeredis.NewServer(n.name, fakeredis.Options{Role: role, Seq: &w.seq})
		w.nodes[n.name] = n
		w.byAddr[n.addr] = n.name
		w.net.Add(n.addr, n.srv)
		w.wireNode(n)
	}
	w.byAddr[nodeAddr(w.id, 99)] = "n0"
	for i := 1; i <= nSents; i++ {
		s := &Sent{name: fmt.Sprintf("s%d", i), addr: sentAddr(w.id, i), master: "n1", sdown: map[string]bool{}}
		for j := 2; j <= nNodes; j++ {
			s.reps = append(s.reps, fmt.Sprintf("n%d", j))
		}
		s.srv = fakeredis.NewServer(s.name, fakeredis.Options{Seq: &w.seq})
		w.sents[s.name] = s
		w.byAddr[s.addr] = s.name
		w.net.Add(s.addr, s.srv)
		w.wireSentinel(s)
	}
	worldsMu.Lock()
	for a := range w.byAddr {
		worlds[a] = w
	}
	worldsMu.Unlock()
	return w
}

func (w *World) Close() {
	w.mu.Lock()
	w.closed = true
	w.mu.Unlock()
	for _, n := range w.nodes {
		n.srv.Close()
	}
	for _, s := range w.sents {
		s.srv.Close()
	}
	worldsMu.Lock()
	for a := range w.byAddr {
		delete(worlds, a)
	}
	worldsMu.Unlock()
}

func (w *World) addrOf(name string) string {
	if n, ok := w.nodes[name]; ok {
		return n.addr
	}
	if s, ok := w.sents[name]; ok {
		return s.addr
	}
	return nodeAddr(w.id, 99)
}

func (w *World) nameOf(addr string) string {
	if n, ok := w.byAddr[addr]; ok {
		return n
	}
	return "n0"
}

func (w *World) sentinelAddrs() []string {
	var out []string
	for i := 1; i <= len(w.sents); i++ {
		out = append(out, w.sents[fmt.Sprintf("s%d", i)].addr)
	}
	return out
}

// ---------------------------------------------------------------------------------------------- trace

// ev appends one record; all records carry the same fields (TLC rejects access to a missing field).
func (w *World) ev(kind string, kv ...any) {
	m := map[string]any{"ev": kind, "slot": 0, "k": "", "a": "", "ans": "", "id": 0, "flags": []bool{}, "list": []string{}, "s": "", "ch": "", "set": ""}
	for i := 0; i+1 < len(kv); i += 2 {
		m[kv[i].(string)] = kv[i+1]
	}
	w.mu.Lock()
	w.evLocked(m)
	w.mu.Unlock()
}

func (w *World) evLocked(m map[string]any) {
	if w.closed {
		return
	}
	m["seq"] = len(w.events) + 1
	w.events = append(w.events, m)
	switch m["ev"] {
	case "Call", "Recv", "Ret", "Env", "Expect":
	default:
		w.lastAct = time.Now()
	}
}

func (w *World) Events() []map[string]any {
	w.mu.Lock()
	defer w.mu.Unlock()
	return append([]map[string]any(nil), w.events...)
}

// quiet: no refresh / switch / sentinel activity for d and nobody inside _switchTarget
func (w *World) quietFor(d time.Duration) bool {
	w.mu.Lock()
	defer w.mu.Unlock()
	return len(w.slots) == 0 && time.Since(w.lastAct) >= d
}

func (w *World) waitQuiet(d, max time.Duration) bool {
	deadline := time.Now().Add(max)
	for time.Now().Before(deadline) {
		if w.quietFor(d) {
			return true
		}
		time.Sleep(d / 4)
	}
	return false
}

// ---------------------------------------------------------------------------------------------- triggers

// arm installs fn to run synchronously at the next client-visible point (at, an):
//
//	"answer", s    inside sentinel s, right after it computed the last reply of a listWatch round
//	"role", n      inside node n, right after it computed a ROLE reply
//	"swapbegin", n in the client goroutine at the sentinel.swap.begin hook for address n
func (w *World) arm(at, an string, fn func()) *trigger {
	t := &trigger{at: at, an: an, fn: fn, fired: make(chan struct{})}
	w.mu.Lock()
	w.armed = t
	w.mu.Unlock()
	return t
}

// disarm returns true when the trigger had not fired (the caller then applies the step itself).
func (w *World) disarm(t *trigger) bool {
	w.mu.Lock()
	defer w.mu.Unlock()
	if w.armed == t {
		w.armed = nil
		return true
	}
	return false
}

func (w *World) fire(at, an string) {
	w.mu.Lock()
	t := w.armed
	if t == nil || t.at != at || t.an != an {
		w.mu.Unlock()
		return
	}
	w.armed = nil
	w.mu.Unlock()
	t.fn()
	close(t.fired)
}

// ---------------------------------------------------------------------------------------------- data nodes

func tagOf(argv []string) (id int, ok bool) {
	if len(argv) < 2 {
		return 0, false
	}
	switch strings.ToUpper(argv[0]) {
	case "GET", "SET", "SUBSCRIBE", "INCR":
	default:
		return 0, false
	}
	// key = <p|r>:<call id>:<index>
	parts := strings.Split(argv[1], ":")
	if len(parts) != 3 || (parts[0] != "p" && parts[0] != "r") {
		return 0, false
	}
	if _, err := fmt.Sscanf(parts[1], "%d", &id); err != nil {
		return 0, false
	}
	return id, true
}

func (w *World) wireNode(n *Node) {
	n.srv.SetEventSink(func(e fakeredis.Event) {
		if e.Kind == fakeredis.SConn || e.Kind == fakeredis.SClose || e.Kind == fakeredis.SCut {
			w.ev("Env", "ch", e.Kind, "s", n.name, "id", e.Conn)
		}
		if e.Kind == fakeredis.SRecv && e.Conn != 0 {
			if id, ok := tagOf(e.Argv); ok {
				w.mu.Lock()
				w.recvNode[id] = append(w.recvNode[id], n.name)
				if w.recvIdx != nil {
					w.recvIdx[id] = append(w.recvIdx[id], tagIndex(e.Argv))
				}
				w.evLocked(map[string]any{"ev": "Recv", "slot": e.Conn, "k": "", "a": n.name, "ans": n.srv.Role(), "id": id,
					"flags": []bool{}, "list": []string{}, "s": "", "ch": strings.ToUpper(e.Argv[0]), "set": ""})
				w.mu.Unlock()
			}
		}
	})
	n.srv.SetIntercept(func(c *fakeredis.Conn, argv []string) (fakeredis.Value, fakeredis.Action) {
		if act, ok := w.faultIntercept(c, argv); ok {
			return fakeredis.Value{}, act
		}
		if d := n.slow.Load(); d > 0 && strings.EqualFold(argv[0], "HELLO") {
			// a slow connection setup: the client is still dialing this wire while other things happen
			go func() {
				time.Sleep(time.Duration(d))
				c.UnparkExec()
			}()
			return fakeredis.Value{}, fakeredis.Park
		}
		if len(argv) == 1 && strings.EqualFold(argv[0], "ROLE") {
			role := n.srv.Role()
			var reply fakeredis.Value
			if role == "slave" {
				reply = fakeredis.Array(fakeredis.Bulk("slave"), fakeredis.Bulk("10.0.0.1"), fakeredis.Int(6379), fakeredis.Bulk("connected"), fakeredis.Int(0))
			} else {
				reply = fakeredis.Array(fakeredis.Bulk(role), fakeredis.Int(0), fakeredis.Array())
			}
			ans := role
			if ans != "master" && ans != "slave" {
				ans = "other"
			}
			w.ev("Role", "a", n.name, "ans", ans)
			w.fire("role", n.name)
			if d := n.slowRole.Load(); d > 0 {
				// the answer is decided; it reaches the client late, commands already on their way to this node overtake it
				go func() {
					time.Sleep(time.Duration(d))
					c.Unpark(reply)
				}()
				return fakeredis.Value{}, fakeredis.Park
			}
			return reply, fakeredis.Reply
		}
		return fakeredis.Value{}, fakeredis.Pass
	})
}

func (w *World) crash(name string) {
	var srv *fakeredis.Server
	var addr string
	if n, ok := w.nodes[name]; ok {
		srv, addr = n.srv, n.addr
	} else if s, ok := w.sents[name]; ok {
		srv, addr = s.srv, s.addr
	} else {
		return
	}
	w.net.Remove(addr)
	for _, c := range srv.Conns() {
		c.Cut()
	}
}

func (w *World) restart(name string) {
	if n, ok := w.nodes[name]; ok {
		w.net.Add(n.addr, n.srv)
	} else if s, ok := w.sents[name]; ok {
		w.net.Add(s.addr, s.srv)
	}
}

func (w *World) isUp(name string) bool { return w.net.Server(w.addrOf(name)) != nil }

// ---------------------------------------------------------------------------------------------- sentinels

func hostPort(addr string) (string, string) {
	h, p, _ := net.SplitHostPort(addr)
	return h, p
}

func kvMap(kv ...string) fakeredis.Value {
	var vs []fakeredis.Value
	for _, s := range kv {
		vs = append(vs, fakeredis.Bulk(s))
	}
	return fakeredis.Map(vs...)
}

// replies shaped as Redis Sentinel sends them (maps under RESP3, flat arrays under RESP2 through the codec's downgrade)
func (w *World) wireSentinel(s *Sent) {
	s.srv.SetIntercept(func(c *fakeredis.Conn, argv []string) (fakeredis.Value, fakeredis.Action) {
		if len(argv) < 2 || !strings.EqualFold(argv[0], "SENTINEL") {
			return fakeredis.Value{}, fakeredis.Pass
		}
		w.mu.Lock()
		fail, master := s.fail, s.master
		reps := append([]string(nil), s.reps...)
		sdown := map[string]bool{}
		for k, v := range s.sdown {
			sdown[k] = v
		}
		w.mu.Unlock()
		if fail == "cut" {
			return fakeredis.Value{}, fakeredis.CutNow
		}
		if fail == "err" {
			return fakeredis.Err("ERR sentinel is in TILT mode"), fakeredis.Reply
		}
		sub := strings.ToUpper(argv[1])
		last := "GET-MASTER-ADDR-BY-NAME"
		if w.mode != "m" {
			last = "REPLICAS"
		}
		var reply fakeredis.Value
		switch sub {
		case "SENTINELS":
			var arr []fakeredis.Value
			for name, o := range w.sents {
				if name == s.name {
					continue
				}
				ip, port := hostPort(o.addr)
				arr = append(arr, kvMap("name", o.addr, "ip", ip, "port", port, "runid", strings.Repeat("a", 40), "flags", "sentinel",
					"link-pending-commands", "0", "link-refcount", "1", "last-ping-sent", "0", "last-ok-ping-reply", "100",
					"last-ping-reply", "100", "down-after-milliseconds", "5000", "last-hello-message", "100", "voted-leader", "?",
					"voted-leader-epoch", "0"))
			}
			reply = fakeredis.Array(arr...)
		case "GET-MASTER-ADDR-BY-NAME":
			if master == "" {
				reply = fakeredis.NullArray()
			} else {
				ip, port := hostPort(w.addrOf(master))
				reply = fakeredis.BulkArray(ip, port)
				w.ev("Master", "s", s.name, "a", master)
			}
		case "REPLICAS", "SLAVES":
			var arr []fakeredis.Value
			var live []string
			mip, mport := hostPort(w.addrOf(master))
			for _, r := range reps {
				ip, port := hostPort(w.addrOf(r))
				kv := []string{"name", net.JoinHostPort(ip, port), "ip", ip, "port", port, "runid", strings.Repeat("b", 40)}
				if sdown[r] {
					kv = append(kv, "flags", "s_down,slave,disconnected")
				} else {
					kv = append(kv, "flags", "slave")
					live = append(live, r)
				}
				kv = append(kv, "link-pending-commands", "0", "link-refcount", "1", "last-ping-sent", "0",
					"last-ok-ping-reply", "100", "last-ping-reply", "100")
				if sdown[r] {
					kv = append(kv, "s-down-time", "12000")
				}
				kv = append(kv, "down-after-milliseconds", "5000", "info-refresh", "500", "role-reported", "slave",
					"role-reported-time", "100000", "master-link-down-time", "0", "master-link-status", "ok",
					"master-host", mip, "master-port", mport, "slave-priority", "100", "slave-repl-offset", "1000", "replica-announced", "1")
				arr = append(arr, kvMap(kv...))
			}
			reply = fakeredis.Array(arr...)
			if live == nil {
				live = []string{}
			}
			w.ev("Replicas", "s", s.name, "list", live)
		default:
			return fakeredis.Err("ERR unknown sentinel subcommand"), fakeredis.Reply
		}
		if sub == last {
			w.fire("answer", s.name)
		}
		if d := w.sentDelay.Load(); d > 0 && sub == "SENTINELS" {
			go func() {
				t0 := time.Now()
				for time.Since(t0) < time.Duration(w.sentDelay.Load()) {
					time.Sleep(2 * time.Millisecond)
				}
				c.Unpark(reply)
			}()
			return fakeredis.Value{}, fakeredis.Park
		}
		return reply, fakeredis.Reply
	})
}

// setView: code "others": every other node is a healthy replica; "none": they are all s_down;
// "all": every node including the master is listed as a healthy replica; "n<i>": only that node is not s_down
func (w *World) setView(sname, master, code string) {
	s := w.sents[sname]
	w.mu.Lock()
	defer w.mu.Unlock()
	s.master = master
	s.reps = nil
	s.sdown = map[string]bool{}
	for i := 1; i <= len(w.nodes); i++ {
		n := fmt.Sprintf("n%d", i)
		if n == master && code != "all" {
			continue
		}
		s.reps = append(s.reps, n)
		if code == "none" || (strings.HasPrefix(code, "n") && code != "none" && n != code) {
			s.sdown[n] = true
		}
	}
}

func (w *World) setFail(sname, fail string) {
	w.mu.Lock()
	w.sents[sname].fail = fail
	w.mu.Unlock()
}

// publish sends a sentinel event the way Redis Sentinel words it.  set is the master-set name the event is about
// ("" = the client's): one sentinel group monitors several master sets and publishes the events of all of them on the
// same channels.
func (w *World) publish(sname, kind, node, set string) {
	if set == "" {
		set = masterSet
	}
	if kind == "othermaster" { // an event about another master set must be ignored
		kind, set = "switch", "othermaster"
	}
	s := w.sents[sname]
	ip, port := hostPort(w.addrOf(node))
	w.mu.Lock()
	mip, mport := hostPort(w.addrOf(s.master))
	w.mu.Unlock()
	inst := fmt.Sprintf("slave %s:%s %s %s @ %s %s %s", ip, port, ip, port, set, mip, mport)
	// What the sentinel announces is logged before it is published: fakeredis hands a push frame to the connection's
	// writer before it delivers the SPush event of a command that is still executing, so the client could act on the
	// message before the event reached the log.
	// (with the name of the master set it is about: SentinelTrace.tla decides whether it is a report about the
	// client's master)
	switch kind {
	case "switch", "rebootm":
		w.ev("Push", "s", sname, "ch", kind, "a", node, "set", set)
	}
	switch kind {
	case "switch":
		s.srv.Do("PUBLISH", "+switch-master", fmt.Sprintf("%s %s %s %s %s", set, mip, mport, ip, port))
	case "rebootm":
		s.srv.Do("PUBLISH", "+reboot", fmt.Sprintf("master %s %s %s", set, ip, port))
	case "slave":
		s.srv.Do("PUBLISH", "+slave", inst)
	case "sdown":
		s.srv.Do("PUBLISH", "+sdown", inst)
	case "-sdown":
		s.srv.Do("PUBLISH", "-sdown", inst)
	case "reboots":
		s.srv.Do("PUBLISH", "+reboot", inst)
	case "sentinel":
		s.srv.Do("PUBLISH", "+sentinel", fmt.Sprintf("sentinel %s %s %s @ %s %s %s", strings.Repeat("c", 40), ip, "26379", set, mip, mport))
	}
}

// subscribed reports whether some open connection to the sentinel is subscribed to +switch-master.
func (w *World) subscribed(sname string) bool {
	for _, c := range w.sents[sname].srv.Conns() {
		chs, _, _ := c.Subscriptions()
		for _, ch := range chs {
			if ch == "+switch-master" {
				return true
			}
		}
	}
	return false
}

// ---------------------------------------------------------------------------------------------- verif hooks

func installHook() {
	rueidis.SetVerifHook(func(point string, obj any, a, b int) {
		if !strings.HasPrefix(point, "sentinel.") {
			return
		}
		addr, ok := obj.(string)
		if !ok {
			return
		}
		worldsMu.Lock()
		w := worlds[addr]
		worldsMu.Unlock()
		if w == nil {
			return
		}
		w.hook(point, addr, a)
	})
}

func (w *World) hook(point, addr string, isMaster int) {
	g := vh.GoID()
	name := w.nameOf(addr)
	k := "r"
	if isMaster == 1 {
		k = "m"
	}
	w.mu.Lock()
	if w.closed {
		w.mu.Unlock()
		return
	}
	rec := func(ev string, slot int, kv ...any) {
		m := map[string]any{"ev": ev, "slot": slot, "k": "", "a": "", "ans": "", "id": 0, "flags": []bool{}, "list": []string{}, "s": "", "ch": "", "set": ""}
		for i := 0; i+1 < len(kv); i += 2 {
			m[kv[i].(string)] = kv[i+1]
		}
		w.evLocked(m)
	}
	switch point {
	case "sentinel.switch.begin":
		used := map[int]bool{}
		for _, s := range w.slots {
			used[s] = true
		}
		slot := 0
		for i := 1; i <= maxSlots; i++ {
			if !used[i] {
				slot = i
				break
			}
		}
		if slot == 0 {
			w.slotOver = true
			w.mu.Unlock()
			return
		}
		w.slots[g] = slot
		rec("Begin", slot, "k", k, "a", name)
	case "sentinel.switch.dial":
		if s := w.slots[g]; s != 0 {
			rec("Dial", s)
		}
	case "sentinel.switch.dialerr", "sentinel.switch.roleerr", "sentinel.switch.wrongrole", "sentinel.swap.end":
		if s := w.slots[g]; s != 0 {
			rec(map[string]string{"sentinel.switch.dialerr": "DialErr", "sentinel.switch.roleerr": "RoleErr",
				"sentinel.switch.wrongrole": "WrongRole", "sentinel.swap.end": "SwapEnd"}[point], s)
			delete(w.slots, g)
		}
	case "sentinel.swap.begin":
		if s := w.slots[g]; s != 0 {
			rec("SwapBegin", s)
		}
	}
	w.mu.Unlock()
	if point == "sentinel.swap.begin" {
		w.fire("swapbegin", name)
	}
}
