// sentineldrv binds spec/client/Sentinel*.tla and Standalone.tla to the real sentinel and standalone clients of
// redis/rueidis (properties C23 and the non-cluster part of C21):
//
//	-mode sentinel    runs scenarios (TLC-generated from Sentinel.tla with -scen, the canonical ones, seeded random
//	                  ones) against rueidis.NewClient(Sentinel: ...) on a fakeredis deployment (2 sentinels, 3 data
//	                  nodes, one event order) and writes one ndjson trace file per client mode for SentinelTrace.tla
//	-mode standalone  applies the cases TLC enumerated from Standalone.tla (-cases) to the standalone client and
//	                  compares the node that logged SRecv with the node the specification predicts
//	-mode sroute      the same for the routing classes of the sentinel client (SentinelRoute cases)
//	-mode probe       prints the trace of one canonical scenario (development aid)
package main

import (
	"bufio"
	"encoding/json"
	"flag"
	"fmt"
	"os"
	"path/filepath"
	"strings"
	"sync"
	"time"

	"verifharness/vh"
)

var (
	mode     = flag.String("mode", "sentinel", "sentinel | standalone | sroute | probe")
	scenFile = flag.String("scen", "", "ndjson file of TLC-generated scenarios")
	caseFile = flag.String("cases", "", "ndjson file of TLC-generated cases")
	traceDir = flag.String("tracedir", "", "directory for ndjson traces")
	nRandom  = flag.Int("random", 12, "seeded random scenarios per client mode")
	nGen     = flag.Int("gen", 1000000, "upper bound on TLC-generated scenarios to run")
	only     = flag.String("only", "", "run only the canonical scenario with this name (probe)")
	pmode    = flag.String("pmode", "m", "client mode for -mode probe")
	par      = flag.Int("par", 4, "scenarios run at the same time")
	canon    = flag.String("canon", "", "comma separated names of the canonical scenarios to run (empty: all)")
	modes    = flag.String("modes", "mrb", "client modes to run")
)

func readNDJSON[T any](path string) ([]T, error) {
	f, err := os.Open(path)
	if err != nil {
		return nil, err
	}
	defer f.Close()
	var out []T
	sc := bufio.NewScanner(f)
	sc.Buffer(make([]byte, 1<<20), 1<<26)
	for sc.Scan() {
		if len(sc.Bytes()) == 0 {
			continue
		}
		var v T
		if err := json.Unmarshal(sc.Bytes(), &v); err != nil {
			return nil, err
		}
		out = append(out, v)
	}
	return out, sc.Err()
}

// timeUnit measures how slow the machine is right now: the base unit of every wait of the driver (1 ms when idle).
func timeUnit() time.Duration {
	t0 := time.Now()
	for i := 0; i < 20; i++ {
		time.Sleep(100 * time.Microsecond)
	}
	d := time.Since(t0) / 20 // ~160 µs on an idle machine
	u := time.Millisecond
	if d > 400*time.Microsecond {
		u = 2 * time.Millisecond
	}
	if d > 1500*time.Microsecond {
		u = 4 * time.Millisecond
	}
	return u
}

func main() {
	flag.Parse()
	rep := &vh.Report{}
	defer rep.Write(*vh.Out)
	installHook()
	switch *mode {
	case "sentinel":
		sentinelMode(rep)
	case "standalone":
		standaloneMode(rep)
	case "sroute":
		srouteMode(rep)
	case "probe":
		probeMode()
	default:
		rep.Inconcl("unknown mode %s", *mode)
	}
}

func probeMode() {
	for _, sc := range canonical() {
		if sc.Mode != *pmode || (*only != "" && sc.Name != *only) {
			continue
		}
		res := runScenario(sc, vh.Seed(), timeUnit())
		fmt.Printf("== %s mode=%s healed=%v %s panics=%d hung=%q lastErr=%q\n", sc.Name, sc.Mode, res.healed, res.detail, res.panics, res.hung, res.lastErr)
		for _, e := range res.events {
			b, _ := json.Marshal(e)
			fmt.Println(string(b))
		}
	}
}

func sentinelMode(rep *vh.Report) {
	unit := timeUnit()
	var scens []Scenario
	if *scenFile != "" {
		gen, err := readNDJSON[Scenario](*scenFile)
		if err != nil {
			rep.Inconcl("cannot read scenarios: %v", err)
			return
		}
		for i := range gen {
			gen[i].Name = fmt.Sprintf("tlc-%d", i)
		}
		if len(gen) > *nGen {
			gen = gen[:*nGen]
		}
		scens = append(scens, gen...)
	}
	for _, sc := range canonical() {
		if strings.Contains(*modes, sc.Mode) && (*canon == "" || strings.Contains(","+*canon+",", ","+sc.Name+",")) {
			scens = append(scens, sc)
		}
	}
	for _, m := range []string{"m", "r", "b"} {
		if !strings.Contains(*modes, m) {
			continue
		}
		rng := vh.Rng(int64(len(m)) + int64(m[0]))
		for i := 0; i < *nRandom; i++ {
			scens = append(scens, randomScenario(rng, m, i))
		}
	}
	traces := map[string][][]map[string]any{}
	distinct := map[string]bool{}
	results := make([]runResult, len(scens))
	sem := make(chan struct{}, *par)
	var wg sync.WaitGroup
	for i := range scens {
		wg.Add(1)
		sem <- struct{}{}
		go func(i int) {
			defer wg.Done()
			results[i] = runScenario(scens[i], vh.Seed()*7919+int64(i), unit)
			<-sem
		}(i)
	}
	wg.Wait()
	for i, sc := range scens {
		res := results[i]
		rep.Evaluations++
		traces[sc.Mode] = append(traces[sc.Mode], res.events)
		kinds := map[string]bool{}
		for _, e := range res.events {
			switch e["ev"] {
			case "WrongRole", "RoleErr", "DialErr", "SwapEnd":
				kinds[e["ev"].(string)] = true
			}
		}
		if len(kinds) >= 2 && kinds["SwapEnd"] {
			distinct[fmt.Sprint(sc.Mode, sc.Steps)] = true
		}
		if res.panics > 0 {
			rep.Violate("sentinel-client-panic", fmt.Sprintf("scenario %s (mode %s): %s", sc.Name, sc.Mode, res.lastErr), sc)
		}
		if res.hung != "" {
			rep.Violate("sentinel-client-hang", fmt.Sprintf("scenario %s (mode %s): %s", sc.Name, sc.Mode, res.hung), sc)
		}
		if res.over {
			rep.Inconcl("scenario %s: more than %d concurrent _switchTarget calls", sc.Name, maxSlots)
		}
		if i < 3 || !res.healed {
			rep.Sample(map[string]any{"scenario": sc, "events": len(res.events), "followed_final_switch": res.healed, "detail": res.detail})
		}
	}
	rep.DistinctNontrivial = len(distinct)
	rep.Rule = "scenarios (distinct mode + environment step list) in which the client both completed a switch and had at least one _switchTarget call fail (wrong role, ROLE error or dial error)"
	rep.Traces = len(scens)
	for m, ts := range traces {
		if err := vh.WriteNDJSON(filepath.Join(*traceDir, "sentinel-"+m+".ndjson"), ts); err != nil {
			rep.Inconcl("cannot write trace: %v", err)
		}
	}
	rep.Assumptions = append(rep.Assumptions,
		"fakeredis servers stand for Redis and Redis Sentinel (reply shapes of SENTINEL GET-MASTER-ADDR-BY-NAME/REPLICAS/SENTINELS and the event payloads as Redis Sentinel words them)",
		"the verif hooks in sentinel.go _switchTarget are placed where the comments of SentinelCore.tla say (swap.begin before the address/connection stores, the failure hooks after target.Close())",
		"environment steps anchored to a client step (sentinel answer, ROLE answer, swap) are applied inside the server that gives the answer, or inside the hook")
}
