// queuedrv drives the real pipeline queues (ring.go, flowbuffer.go) of redis/rueidis the way pipe.go does: putter
// goroutines (PutOne / PutMulti, some abandoning their call to a drainer goroutine), one writer goroutine
// (NextWriteCmd, WaitForWrite when nothing is queued) and one reader goroutine (NextResultCh, deliver, FinishResult),
// with seeded yields injected at the verif hooks inside the queue code.  Every step is logged and the log is validated
// against spec/queue/QueueObs.tla by TLC (QueueTrace.tla); the same facts are also evaluated directly on the real run.
package main

import (
	"context"
	"flag"
	"fmt"
	"math/rand"
	"path/filepath"
	"runtime"
	"strconv"
	"strings"
	"sync"
	"time"

	"github.com/redis/rueidis"
	"verifharness/vh"
)

var (
	runs     = flag.Int("runs", 50, "runs per configuration")
	traceDir = flag.String("tracedir", "", "directory for ndjson traces")
)

type run struct {
	tr    *vh.Tracer
	htr   *vh.Tracer // hook-level events of the ring (validated against Ring.tla by RingTrace.tla)
	procs sync.Map   // goroutine id -> putter id
	q     *rueidis.VerifQueue
	rng   *rand.Rand
	rngMu sync.Mutex
	tmu   sync.Mutex
	toks  []rueidis.VerifTicket
}

func (r *run) rnd(n int) int { r.rngMu.Lock(); defer r.rngMu.Unlock(); return r.rng.Intn(n) }

func (r *run) tokID(t rueidis.VerifTicket) int {
	r.tmu.Lock()
	defer r.tmu.Unlock()
	for i, o := range r.toks {
		if o.Same(t) {
			return i + 1
		}
	}
	r.toks = append(r.toks, t)
	return len(r.toks)
}

func (r *run) log(ev string, p, cell, tok, got int) {
	r.tr.Log(ev, "p", p, "cell", cell, "tok", tok, "got", got)
}

func (r *run) hook(point string, obj any, a, b int) {
	if !r.q.Is(obj) {
		return
	}
	if r.htr != nil && strings.HasPrefix(point, "ring.") {
		p := 0
		if v, ok := r.procs.Load(vh.GoID()); ok {
			p = v.(int)
		}
		r.htr.Log(point, "p", p, "slot", a, "mark", b)
	}
	switch x := r.rnd(100); {
	case x < 35:
		runtime.Gosched()
	case x < 45:
		time.Sleep(time.Duration(20+r.rnd(300)) * time.Microsecond)
	}
}

func cellOf(tag string) int {
	// tags are "c<cell>" or "c<cell>.<i>" for the i-th command of a batch
	s := strings.TrimPrefix(tag, "c")
	if i := strings.IndexByte(s, '.'); i >= 0 {
		s = s[:i]
	}
	n, _ := strconv.Atoi(s)
	return n
}

const stopCell = 40

var hookTraces [][]map[string]any

func oneRun(rep *vh.Report, kind string, factor int, seed int64) []map[string]any {
	r := &run{tr: &vh.Tracer{}, rng: rand.New(rand.NewSource(seed))}
	r.q = rueidis.VerifNewQueue(kind, factor)
	if kind == "ring" {
		r.htr = &vh.Tracer{}
		r.htr.Log("RESET", "p", 0, "slot", 0, "mark", 0)
	}
	rueidis.SetVerifHook(r.hook)
	defer rueidis.SetVerifHook(nil)
	sig := fmt.Sprintf("queue=%s slots=%d", kind, 2<<(factor-1))
	r.log("RESET", 0, 0, 0, 0)
	nput := 3 + r.rnd(4)
	perPutter := 1 + r.rnd(3)
	if nput*perPutter > stopCell-1 {
		perPutter = (stopCell - 1) / nput
	}
	wire := make(chan int, 64) // number of replies a written cell will produce (the server's replies, in order)
	var wg sync.WaitGroup
	var mu sync.Mutex
	written := map[int]int{}
	received := map[int]int{}
	expectRecv := 0
	nextCell := 0

	// writer
	wdone := make(chan struct{})
	go func() {
		defer close(wdone)
		for {
			tags, t := r.q.NextWriteCmd()
			if !t.Valid() {
				tags, t = r.q.WaitForWrite()
			}
			c := cellOf(tags[0])
			mu.Lock()
			written[c]++
			if written[c] > 1 {
				rep.Violate("queue-cell-written-twice "+sig, fmt.Sprintf("cell %d handed to the writer %d times", c, written[c]), r.tr.Events())
			}
			mu.Unlock()
			r.log("WTake", 0, c, r.tokID(t), 0)
			for i, tg := range tags {
				if cellOf(tg) != c || (len(tags) > 1 && !strings.HasSuffix(tg, "."+strconv.Itoa(i))) {
					rep.Violate("queue-batch-corrupted "+sig, fmt.Sprintf("writer got tags %v", tags), r.tr.Events())
				}
			}
			wire <- len(tags)<<8 | c
			if c == stopCell {
				return
			}
		}
	}()
	// reader
	rdone := make(chan struct{})
	go func() {
		defer close(rdone)
		for x := range wire {
			c, n := x&0xff, x>>8
			if r.rnd(100) < 30 {
				time.Sleep(time.Duration(r.rnd(400)) * time.Microsecond)
			}
			pend, ok := r.q.NextResultCh()
			if !ok {
				rep.Violate("queue-reader-found-unwritten-slot "+sig, fmt.Sprintf("NextResultCh returned nothing although cell %d was written (protocol-bug panic in pipe.go)", c), r.tr.Events())
				r.q.FinishResult()
				return
			}
			rc := cellOf(pend.Tags[0])
			r.log("RTake", 0, rc, r.tokID(pend.T), 0)
			if rc != c || len(pend.Tags) != n {
				rep.Violate("queue-reader-order "+sig, fmt.Sprintf("reader met cell %d (%d cmds) but the wire order says %d (%d cmds)", rc, len(pend.Tags), c, n), r.tr.Events())
			}
			payload := make([]string, len(pend.Tags))
			for i, tg := range pend.Tags {
				payload[i] = "r:" + tg
			}
			pend.Deliver(payload)
			r.log("Deliver", 0, rc, 0, 0)
			if r.htr != nil {
				r.htr.Log("Deliver", "p", 0, "slot", 0, "mark", 0)
			}
			r.q.FinishResult()
			r.log("Fin", 0, 0, 0, 0)
			if c == stopCell {
				return
			}
		}
	}()
	recv := func(p, c int, t rueidis.VerifTicket, resps *rueidis.VerifResps, tags []string) {
		s := t.Recv()
		got := cellOf(strings.TrimPrefix(s, "r:"))
		r.log("Recv", p, c, 0, got)
		mu.Lock()
		received[c]++
		mu.Unlock()
		if got != c || s != "r:"+tags[len(tags)-1] {
			rep.Violate("queue-misrouted-result "+sig, fmt.Sprintf("putter of cell %d received %q", c, s), r.tr.Events())
		}
		if resps != nil {
			for i, v := range resps.Strings() {
				if v != "r:"+tags[i] {
					rep.Violate("queue-batch-results-wrong "+sig, fmt.Sprintf("cell %d result %d = %q", c, i, v), r.tr.Events())
				}
			}
		}
	}
	for p := 1; p <= nput; p++ {
		wg.Add(1)
		prng := rand.New(rand.NewSource(seed*131 + int64(p)))
		go func(p int) {
			defer wg.Done()
			for k := 0; k < perPutter; k++ {
				mu.Lock()
				nextCell++
				c := nextCell
				mu.Unlock()
				multi := prng.Intn(100) < 40
				var tags []string
				if multi {
					for i := 0; i < 2+prng.Intn(2); i++ {
						tags = append(tags, fmt.Sprintf("c%d.%d", c, i))
					}
				} else {
					tags = []string{fmt.Sprintf("c%d", c)}
				}
				ctx := context.Background()
				cancel := func() {}
				if kind == "flowbuffer" && prng.Intn(100) < 30 {
					ctx, cancel = context.WithTimeout(ctx, time.Duration(prng.Intn(600))*time.Microsecond)
				}
				r.log("PutCall", p, c, 0, 0)
				if r.htr != nil { // in the hook-level trace every put is its own process (an abandoned call lives on in its drainer)
					r.procs.Store(vh.GoID(), c)
					r.htr.Log("PutCall", "p", c, "slot", 0, "mark", 0)
				}
				var t rueidis.VerifTicket
				var resps *rueidis.VerifResps
				var err error
				if multi {
					t, resps, err = r.q.PutMulti(ctx, tags)
				} else {
					t, err = r.q.PutOne(ctx, tags[0])
				}
				cancel()
				if err != nil {
					r.log("PutErr", p, c, 0, 0)
					continue
				}
				r.log("PutRet", p, c, r.tokID(t), 0)
				mu.Lock()
				expectRecv++
				mu.Unlock()
				if prng.Intn(100) < 25 { // abandoned call: a drainer goroutine receives, the caller goes on (pipe.go abort path)
					wg.Add(1)
					go func() { defer wg.Done(); recv(p, c, t, resps, tags) }()
				} else {
					recv(p, c, t, resps, tags)
				}
			}
		}(p)
	}
	done := make(chan struct{})
	go func() {
		wg.Wait()
		// stop the writer the way pipe.go does at close: one more command that nobody waits for
		r.log("PutCall", 0, stopCell, 0, 0)
		if r.htr != nil {
			r.procs.Store(vh.GoID(), stopCell)
			r.htr.Log("PutCall", "p", stopCell, "slot", 0, "mark", 0)
		}
		t, _ := r.q.PutOne(context.Background(), fmt.Sprintf("c%d", stopCell))
		r.log("PutRet", 0, stopCell, r.tokID(t), 0)
		s := t.Recv()
		r.log("Recv", 0, stopCell, 0, cellOf(strings.TrimPrefix(s, "r:")))
		<-wdone
		<-rdone
		close(done)
	}()
	select {
	case <-done:
	case <-time.After(10 * time.Second):
		rep.Violate("queue-deadlock "+sig, "putters, writer or reader still blocked after 10 s (lost wake-up / token not returned)", r.tr.Events())
		return nil
	}
	mu.Lock()
	for c := 1; c <= nextCell; c++ {
		if received[c] > 1 {
			rep.Violate("queue-result-delivered-twice "+sig, fmt.Sprintf("cell %d", c), r.tr.Events())
		}
	}
	mu.Unlock()
	r.log("END", 0, 0, 0, 0)
	if r.htr != nil {
		hookTraces = append(hookTraces, r.htr.Events())
	}
	return r.tr.Events()
}

func main() {
	flag.Parse()
	rep := &vh.Report{Rule: "queue runs: (ring|flowbuffer) x (2|4 slots) x seeded schedule with yields at the hooks inside the queue; 3-6 putters x 1-3 puts (single and batch, 25% abandoned to a drainer, flowbuffer puts with deadlines); non-trivial when putters outnumber slots; distinct by event sequence"}
	distinct := map[string]bool{}
	for _, kind := range []string{"ring", "flowbuffer"} {
		for _, factor := range []int{1, 2} {
			var traces [][]map[string]any
			hangs := 0
			for i := 0; i < *runs; i++ {
				seed := vh.Seed()*9973 + int64(factor)*1000003 + int64(len(kind))*31 + int64(i)
				ev := oneRun(rep, kind, factor, seed)
				rep.Evaluations++
				if ev == nil {
					if hangs++; hangs >= 2 {
						break // two deadlocked runs of this configuration are enough; each costs a 10 s time-out
					}
					continue
				}
				traces = append(traces, ev)
				key := ""
				for _, e := range ev {
					key += e["ev"].(string)[:2] + fmt.Sprint(e["cell"]) + ","
				}
				distinct[key] = true
				if i == 0 {
					n := len(ev)
					if n > 30 {
						n = 30
					}
					rep.Sample(map[string]any{"queue": kind, "slots": 2 << (factor - 1), "events": ev[:n]})
				}
			}
			rep.Traces += len(traces)
			if *traceDir != "" && kind == "ring" {
				if err := vh.WriteNDJSON(filepath.Join(*traceDir, fmt.Sprintf("ringhooks-%d.ndjson", 2<<(factor-1))), hookTraces); err != nil {
					rep.Inconcl("write trace: %v", err)
				}
				rep.Traces += len(hookTraces)
				hookTraces = nil
			}
			if *traceDir != "" {
				if err := vh.WriteNDJSON(filepath.Join(*traceDir, fmt.Sprintf("queue-%s-%d.ndjson", kind, 2<<(factor-1))), traces); err != nil {
					rep.Inconcl("write trace: %v", err)
				}
			}
		}
	}
	rep.DistinctNontrivial = len(distinct)
	rep.Assumptions = []string{"the writer and reader goroutines of the driver call the queue exactly as pipe.go's _backgroundWrite/_backgroundRead do", "scheduling is perturbed by seeded yields at the hook points, not controlled"}
	rep.Write(*vh.Out)
}
