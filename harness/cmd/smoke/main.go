package main

import (
	"fmt"

	"github.com/redis/rueidis"
	_ "github.com/redis/rueidis/om"
	_ "github.com/redis/rueidis/rueidisaside"
	_ "github.com/redis/rueidis/rueidiscompat"
	_ "github.com/redis/rueidis/rueidishook"
	_ "github.com/redis/rueidis/rueidislimiter"
	_ "github.com/redis/rueidis/rueidislock"
	_ "github.com/redis/rueidis/rueidisprob"
)

func main() { fmt.Println(rueidis.DefaultPoolSize) }
