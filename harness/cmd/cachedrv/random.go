package main

import (
	"context"
	"fmt"
	"math/rand"
	"sync"
	"sync/atomic"
	"time"

	"verifharness/vh"
)

// seeded free-running histories: nothing is forced, the trace is judged by CacheTrace.tla afterwards
func runRandom(cfg config, rep *vh.Report) [][]map[string]any {
	cfg.ttl = 30 * time.Second
	var traces [][]map[string]any
	type out struct {
		ev  []map[string]any
		err error
		n   int
	}
	outs := make([]out, *runsF)
	sem := make(chan struct{}, *parF)
	var wg sync.WaitGroup
	for i := 0; i < *runsF; i++ {
		wg.Add(1)
		sem <- struct{}{}
		go func(i int) {
			defer wg.Done()
			defer func() { <-sem }()
			ev, n, err := randomRun(cfg, i)
			outs[i] = out{ev, err, n}
		}(i)
	}
	wg.Wait()
	for i, o := range outs {
		if o.err != nil {
			rep.Inconcl("random run %d: %v", i, o.err)
			continue
		}
		rep.Evaluations += o.n
		rep.Traces++
		if o.n > 0 {
			rep.DistinctNontrivial++
		}
		traces = append(traces, o.ev)
	}
	rep.Rule = "random histories with at least one cached read overlapping a write, a held reply, a cancellation or a cut"
	rep.Sample(map[string]any{"random_runs": *runsF, "config": cfg.String()})
	return traces
}

func randomRun(cfg config, idx int) (events []map[string]any, ncalls int, err error) {
	rng := vh.Rng(int64(idx)*7919 + int64(len(cfg.group())))
	w, err := newWorld(cfg, true)
	if err != nil {
		return nil, 0, err
	}
	defer w.close()
	// start the reader goroutine of the first wire and learn its goroutine id
	ctx0, cancel0 := context.WithTimeout(context.Background(), 3*time.Second)
	r := w.exec(ctx0, opSpec{Kind: "one", Ids: [][2]string{{warmKey, "g"}}})
	cancel0()
	if r[0].T != "val" {
		return nil, 0, fmt.Errorf("warm-up read failed: %+v", r[0])
	}
	w.mu.Lock()
	var first *connState
	for _, cs := range w.conns {
		if cs.id == 1 {
			first = cs
		}
	}
	w.mu.Unlock()
	if first == nil || !w.barrier(first) {
		return nil, 0, fmt.Errorf("warm-up barrier failed")
	}
	w.startTrace(fmt.Sprintf("random-%d-seed%d", idx, vh.Seed()))

	keys := []string{"ka", "kb"}
	cmdsOf := []string{"g"}
	if cfg.flavor == "str" { // several cacheable commands per key (one purge must remove all of them)
		switch rng.Intn(3) {
		case 0:
			cmdsOf = []string{"g", "h"}
		case 1:
			cmdsOf = []string{"g", "h", "i"}
		}
	}
	ncallers := 2 + rng.Intn(2)
	nops := 2
	doCut := rng.Intn(5) == 0
	doFail := rng.Intn(3) == 0
	var total atomic.Int32
	var wg sync.WaitGroup
	stop := make(chan struct{})
	seeds := make([]int64, ncallers+2)
	for i := range seeds {
		seeds[i] = rng.Int63()
	}
	// readers
	for c := 1; c <= ncallers; c++ {
		wg.Add(1)
		go func(c int) {
			defer wg.Done()
			rg := rand.New(rand.NewSource(seeds[c-1]))
			for gen := 0; gen < nops; gen++ {
				op := randomOp(rg, cfg, keys, cmdsOf)
				ctx, cancel := context.WithCancel(context.Background())
				var cw sync.WaitGroup
				if doFail && rg.Intn(4) == 0 {
					atomic.StoreInt32(&w.failNext, int32(1+rg.Intn(2)))
				}
				w.logEv("Call", "c", c, "gen", gen, "kind", op.Kind, "ids", idsJSON(op.Ids))
				// (not in a run with a cut: the callers that find the wire broken share ONE dial, made with the context of
				// the first of them -- mux._pipe: wireFn(ctx) --, and when that context ends during the dial all of them
				// fail with its context error although their own contexts are alive.  That is the connection layer's
				// business, not this model's: a Ret with err:ctx of a caller nobody cancelled would be rejected.)
				if !doCut && rg.Intn(4) == 0 { // the context ends after a short random delay
					d := time.Duration(rg.Intn(1500)) * time.Microsecond
					cw.Add(1)
					go func() {
						defer cw.Done()
						time.Sleep(d)
						w.logEv("CtxB", "c", c)
						cancel()
						w.logEv("CtxE", "c", c)
					}()
				}
				res := w.exec(ctx, op)
				w.logEv("Ret", "c", c, "gen", gen, "res", res)
				total.Add(1)
				cw.Wait()
				cancel()
				if rg.Intn(2) == 0 {
					time.Sleep(time.Duration(rg.Intn(800)) * time.Microsecond)
				}
			}
		}(c)
	}
	// the writer on another connection
	var ewg sync.WaitGroup
	ewg.Add(1)
	go func() {
		defer ewg.Done()
		rg := rand.New(rand.NewSource(seeds[ncallers]))
		flushes := 0
		for i := 0; i < 4; i++ {
			select {
			case <-stop:
				return
			case <-time.After(time.Duration(rg.Intn(1200)) * time.Microsecond):
			}
			if cfg.tmode != "bcast" && flushes == 0 && rg.Intn(6) == 0 {
				flushes++
				w.flush(keys)
			} else {
				w.write(keys[rg.Intn(len(keys))])
			}
		}
	}()
	// the network: replies are held back for a moment now and then; at most one cut
	ewg.Add(1)
	go func() {
		defer ewg.Done()
		rg := rand.New(rand.NewSource(seeds[ncallers+1]))
		cutDone := false
		for i := 0; i < 5; i++ {
			select {
			case <-stop:
				return
			case <-time.After(time.Duration(rg.Intn(900)) * time.Microsecond):
			}
			w.mu.Lock()
			var live []*connState
			for _, cs := range w.conns {
				if cs.id != 0 && !cs.cut {
					live = append(live, cs)
				}
			}
			w.mu.Unlock()
			if len(live) == 0 {
				continue
			}
			cs := live[len(live)-1]
			conn := w.srvs[cs.srv].Conn(cs.id)
			if conn == nil {
				continue
			}
			if doCut && !cutDone && i >= 2 && rg.Intn(2) == 0 {
				cutDone = true
				conn.Cut()
				continue
			}
			conn.HoldReplies(true)
			w.logEv("Hold", "p", cs.pipe)
			time.Sleep(time.Duration(200+rg.Intn(1500)) * time.Microsecond)
			w.logEv("Unhold", "p", cs.pipe)
			conn.HoldReplies(false)
		}
	}()
	done := make(chan struct{})
	go func() { wg.Wait(); close(done) }()
	select {
	case <-done:
	case <-time.After(10 * time.Second):
		close(stop)
		ewg.Wait()
		return w.events(), int(total.Load()), fmt.Errorf("readers did not finish within 10s (calls done: %d)", total.Load())
	}
	close(stop)
	ewg.Wait()
	// let the reader goroutine drain what is still on the wire so that the trace ends in a quiet state
	time.Sleep(2 * time.Millisecond)
	return w.events(), int(total.Load()), nil
}

func randomOp(rg *rand.Rand, cfg config, keys, cmdsOf []string) opSpec {
	id := func() [2]string { return [2]string{keys[rg.Intn(len(keys))], cmdsOf[rg.Intn(len(cmdsOf))]} }
	switch k := rg.Intn(10); {
	case k < 4:
		return opSpec{Kind: "one", Ids: [][2]string{id()}}
	case k < 8 || cfg.flavor == "static":
		n := 1 + rg.Intn(3)
		op := opSpec{Kind: "multi"}
		for i := 0; i < n; i++ {
			op.Ids = append(op.Ids, id())
		}
		return op
	default:
		n := 2 + rg.Intn(2)
		op := opSpec{Kind: "mget"}
		for i := 0; i < n; i++ {
			op.Ids = append(op.Ids, [2]string{keys[rg.Intn(len(keys))], "g"})
		}
		return op
	}
}
