package luamini

import (
	"fmt"
	"os"
	"path/filepath"
	"reflect"
	"regexp"
	"sort"
	"strconv"
	"strings"
	"testing"
)

const repoRoot = "/repo"

// ---------------------------------------------------------------------------------------------------------
// Embedded copies of the scripts shipped by the library. TestEmbeddedScriptsMatchRepo checks that they are
// byte-identical to the sources under /repo so the hand-computed expectations below follow the repo.
// ---------------------------------------------------------------------------------------------------------

const (
	lockDelkey = `if redis.call("GET",KEYS[1]) == ARGV[1] then return redis.call("DEL",KEYS[1]) end;return 0`
	lockExtend = `if redis.call("GET",KEYS[1]) == ARGV[1] then local r = redis.call("PEXPIREAT",KEYS[1],ARGV[2]);redis.call("GET",KEYS[1]);return r end;return 0`
	lockAcqms  = `local r = redis.call("SET",KEYS[1],ARGV[1],"NX","PX",ARGV[2]);redis.call("GET",KEYS[1]);return r`
	lockAcqat  = `local r = redis.call("SET",KEYS[1],ARGV[1],"NX","PXAT",ARGV[2]);redis.call("GET",KEYS[1]);return r`
	lockFcqms  = `local r = redis.call("SET",KEYS[1],ARGV[1],"PX",ARGV[2]);redis.call("GET",KEYS[1]);return r`
	lockFcqat  = `local r = redis.call("SET",KEYS[1],ARGV[1],"PXAT",ARGV[2]);redis.call("GET",KEYS[1]);return r`

	asideDelkey      = `if redis.call("GET",KEYS[1]) == ARGV[1] then return redis.call("DEL",KEYS[1]) else return 0 end`
	asideSetkey      = `if redis.call("GET",KEYS[1]) == ARGV[1] then return redis.call("SET",KEYS[1],ARGV[2],"PX",ARGV[3]) else return 0 end`
	asideAcquireLock = `if redis.call("SET", KEYS[1], ARGV[1], "NX", "PX", ARGV[2]) then return nil else return redis.call("GET", KEYS[1]) end`

	limiterScript = `
local rate_limit_key = KEYS[1]
local increment_amount = tonumber(ARGV[1])
local next_expires_at = tonumber(ARGV[2])
local current_time = tonumber(ARGV[3])
local expires_at_key = KEYS[2]
local expires_at = tonumber(redis.call("get", expires_at_key))
if not expires_at or expires_at < current_time then
  redis.call("set", rate_limit_key, 0, "pxat", next_expires_at + 1000)
  redis.call("set", expires_at_key, next_expires_at, "pxat", next_expires_at + 1000)
  expires_at = next_expires_at
end
local current = redis.call("incrby", rate_limit_key, increment_amount)
return { current, expires_at }
`

	omJSONSave = `
if (ARGV[1] == '')
then
  redis.call('JSON.SET',KEYS[1],'$',ARGV[3])
  if #ARGV == 4 then redis.call('PEXPIREAT',KEYS[1],ARGV[4]) end
  return ARGV[2]
end
local v = redis.call('JSON.GET',KEYS[1],ARGV[1])
if (not v or v == ARGV[2])
then
  redis.call('JSON.SET',KEYS[1],'$',ARGV[3])
  local v = redis.call('JSON.NUMINCRBY',KEYS[1],ARGV[1],1)
  if #ARGV == 4 then redis.call('PEXPIREAT',KEYS[1],ARGV[4]) end
  return v
end
return nil
`

	omHashSave = `
if (ARGV[1] == '')
then
  local e = (#ARGV % 2 == 1) and table.remove(ARGV) or nil
  if redis.call('HSET',KEYS[1],unpack(ARGV))
  then
    if e then redis.call('PEXPIREAT',KEYS[1],e) end
  end
  return ARGV[2]
end
local v = redis.call('HGET',KEYS[1],ARGV[1])
if (not v or v == ARGV[2])
then
  ARGV[2] = tostring(tonumber(ARGV[2])+1)
  local e = (#ARGV % 2 == 1) and table.remove(ARGV) or nil
  if redis.call('HSET',KEYS[1],unpack(ARGV))
  then
    if e then redis.call('PEXPIREAT',KEYS[1],e) end
    return ARGV[2]
  end
end
return nil
`
)

// ---------------------------------------------------------------------------------------------------------
// Extraction of scripts from the repo sources.
// ---------------------------------------------------------------------------------------------------------

var (
	reDirectScript = regexp.MustCompile("NewLuaScript\\w*\\(\\s*`([^`]*)`")
	reConstScript  = regexp.MustCompile("(\\w*Script)\\s*=\\s*`([^`]*)`")
	reIdentScript  = regexp.MustCompile(`NewLuaScript\w*\(\s*([A-Za-z_]\w*)\s*[,)]`)
	reEvalScript   = regexp.MustCompile(`\.Script\(\s*([A-Za-z_]\w*)\s*\)`)
)

type repoScript struct {
	file string
	name string // constant name, or "" for direct literals
	src  string
}

func collectRepoScripts(t *testing.T) (scripts []repoScript, identArgs map[string][]string) {
	t.Helper()
	if _, err := os.Stat(repoRoot); err != nil {
		t.Skipf("repo not available: %v", err)
	}
	identArgs = map[string][]string{}
	err := filepath.Walk(repoRoot, func(path string, info os.FileInfo, err error) error {
		if err != nil {
			return nil
		}
		if info.IsDir() {
			if n := info.Name(); n == ".git" || n == "vendor" || n == "node_modules" {
				return filepath.SkipDir
			}
			return nil
		}
		if !strings.HasSuffix(path, ".go") || strings.HasSuffix(path, "_test.go") {
			return nil
		}
		b, err := os.ReadFile(path)
		if err != nil {
			return nil
		}
		text := string(b)
		if !strings.Contains(text, "NewLuaScript") && !strings.Contains(text, "Script = `") {
			return nil
		}
		for _, m := range reDirectScript.FindAllStringSubmatch(text, -1) {
			scripts = append(scripts, repoScript{file: path, src: m[1]})
		}
		for _, m := range reConstScript.FindAllStringSubmatch(text, -1) {
			scripts = append(scripts, repoScript{file: path, name: m[1], src: m[2]})
		}
		for _, m := range reIdentScript.FindAllStringSubmatch(text, -1) {
			identArgs[path] = append(identArgs[path], m[1])
		}
		for _, m := range reEvalScript.FindAllStringSubmatch(text, -1) {
			identArgs[path] = append(identArgs[path], m[1])
		}
		return nil
	})
	if err != nil {
		t.Fatal(err)
	}
	return scripts, identArgs
}

// TestRepoScriptsCompile pulls every back-quoted Lua script out of the library sources and compiles it.
func TestRepoScriptsCompile(t *testing.T) {
	scripts, identArgs := collectRepoScripts(t)
	direct, consts := 0, map[string]bool{}
	for _, s := range scripts {
		label := s.name
		if label == "" {
			direct++
			label = fmt.Sprintf("literal#%d", direct)
		} else {
			consts[s.name] = true
		}
		if _, err := Compile(s.src); err != nil {
			t.Errorf("%s %s: Compile failed: %v\n%s", s.file, label, err, s.src)
		}
	}
	// lock.go (6) + aside.go (3) + limiter.go (1) + om (2)
	if direct < 12 {
		t.Errorf("expected at least 12 literal scripts passed to NewLuaScript*, found %d", direct)
	}
	// rueidisprob: 5 bloom + 3 counting + 5 sliding
	if len(consts) < 13 {
		t.Errorf("expected at least 13 script constants, found %d: %v", len(consts), consts)
	}
	// every identifier handed to NewLuaScript*/Eval().Script() must be a script constant we compiled, a
	// variable that is assigned only from such constants, or a struct field holding the script text.
	knownIndirect := map[string]bool{
		"script":            true, // parameter of the constructors in lua.go
		"existsMultiScript": true, // slidingbloomfilter.go: selected from two constants
	}
	for file, ids := range identArgs {
		for _, id := range ids {
			if !consts[id] && !knownIndirect[id] {
				t.Errorf("%s: NewLuaScript*/Script(%s) is not a back-quoted script constant known to this test", file, id)
			}
		}
	}
}

func TestEmbeddedScriptsMatchRepo(t *testing.T) {
	scripts, _ := collectRepoScripts(t)
	have := map[string]bool{}
	byName := map[string]string{}
	for _, s := range scripts {
		have[s.src] = true
		if s.name != "" {
			byName[s.name] = s.src
		}
	}
	embedded := map[string]string{
		"lock delkey": lockDelkey, "lock extend": lockExtend, "lock acqms": lockAcqms, "lock acqat": lockAcqat,
		"lock fcqms": lockFcqms, "lock fcqat": lockFcqat,
		"aside delkey": asideDelkey, "aside setkey": asideSetkey, "aside acquireLock": asideAcquireLock,
		"limiter": limiterScript, "om json": omJSONSave, "om hash": omHashSave,
	}
	for name, src := range embedded {
		if !have[src] {
			t.Errorf("embedded script %q no longer matches any script in the repo", name)
		}
	}
	for _, n := range []string{
		"bloomFilterAddMultiScript", "bloomFilterExistsMultiScript", "bloomFilterExistsMultiReadOnlyScript",
		"bloomFilterResetScript", "bloomFilterDeleteScript",
		"countingBloomFilterAddMultiScript", "countingBloomFilterRemoveMultiScript", "countingBloomFilterDeleteScript",
		"slidingBloomFilterInitializeScript", "slidingBloomFilterAddMultiScript", "slidingBloomFilterExistsMultiScript",
		"slidingBloomFilterExistsReadOnlyMultiScript", "slidingBloomFilterResetScript",
	} {
		if byName[n] == "" {
			t.Errorf("script constant %s not found in the repo", n)
		}
	}
}

// probScript returns the text of a rueidisprob script constant straight from the repo sources.
func probScript(t *testing.T, name string) string {
	t.Helper()
	scripts, _ := collectRepoScripts(t)
	for _, s := range scripts {
		if s.name == name {
			return s.src
		}
	}
	t.Fatalf("script constant %s not found", name)
	return ""
}

// ---------------------------------------------------------------------------------------------------------
// A tiny fake Redis used as the Caller.
// ---------------------------------------------------------------------------------------------------------

type fakeRedis struct {
	str    map[string]string
	hash   map[string]map[string]string
	expire map[string]string // key -> "PX 100" / "PXAT 100"
	now    [2]string         // TIME reply
	log    [][]string
	// scripted replies for commands the fake does not model (keyed by upper-case command name)
	scripted map[string][]any
}

func newFake() *fakeRedis {
	return &fakeRedis{
		str: map[string]string{}, hash: map[string]map[string]string{}, expire: map[string]string{},
		now: [2]string{"100", "500000"}, scripted: map[string][]any{},
	}
}

func (f *fakeRedis) getBit(key string, idx int) int64 {
	s := f.str[key]
	if idx/8 >= len(s) {
		return 0
	}
	return int64(s[idx/8]>>(7-uint(idx%8))) & 1
}

func (f *fakeRedis) setBit(key string, idx int, v int64) int64 {
	b := []byte(f.str[key])
	for idx/8 >= len(b) {
		b = append(b, 0)
	}
	old := int64(b[idx/8]>>(7-uint(idx%8))) & 1
	if v == 1 {
		b[idx/8] |= 1 << (7 - uint(idx%8))
	} else {
		b[idx/8] &^= 1 << (7 - uint(idx%8))
	}
	f.str[key] = string(b)
	return old
}

func (f *fakeRedis) call(args []string) (any, error) {
	f.log = append(f.log, append([]string(nil), args...))
	cmd := strings.ToUpper(args[0])
	if q, ok := f.scripted[cmd]; ok && len(q) > 0 {
		r := q[0]
		f.scripted[cmd] = q[1:]
		if e, ok := r.(error); ok {
			return nil, e
		}
		return r, nil
	}
	wrongArgs := &ErrorReply{Msg: "ERR wrong number of arguments for '" + strings.ToLower(args[0]) + "' command"}
	switch cmd {
	case "GET":
		if len(args) != 2 {
			return nil, wrongArgs
		}
		if _, ok := f.hash[args[1]]; ok {
			return nil, &ErrorReply{Msg: "WRONGTYPE Operation against a key holding the wrong kind of value"}
		}
		v, ok := f.str[args[1]]
		if !ok {
			return nil, nil
		}
		return v, nil
	case "SET":
		if len(args) < 3 {
			return nil, wrongArgs
		}
		nx := false
		exp := ""
		for i := 3; i < len(args); i++ {
			switch strings.ToUpper(args[i]) {
			case "NX":
				nx = true
			case "PX", "PXAT":
				if i+1 >= len(args) {
					return nil, &ErrorReply{Msg: "ERR syntax error"}
				}
				exp = strings.ToUpper(args[i]) + " " + args[i+1]
				i++
			default:
				return nil, &ErrorReply{Msg: "ERR syntax error"}
			}
		}
		if _, exists := f.str[args[1]]; nx && exists {
			return nil, nil
		}
		f.str[args[1]] = args[2]
		delete(f.expire, args[1])
		if exp != "" {
			f.expire[args[1]] = exp
		}
		return StatusReply{Msg: "OK"}, nil
	case "MSET":
		if len(args) < 3 || len(args)%2 != 1 {
			return nil, wrongArgs
		}
		for i := 1; i < len(args); i += 2 {
			f.str[args[i]] = args[i+1]
		}
		return StatusReply{Msg: "OK"}, nil
	case "DEL":
		n := int64(0)
		for _, k := range args[1:] {
			if _, ok := f.str[k]; ok {
				delete(f.str, k)
				n++
			} else if _, ok := f.hash[k]; ok {
				delete(f.hash, k)
				n++
			}
			delete(f.expire, k)
		}
		return n, nil
	case "EXISTS":
		n := int64(0)
		for _, k := range args[1:] {
			if _, ok := f.str[k]; ok {
				n++
			} else if _, ok := f.hash[k]; ok {
				n++
			}
		}
		return n, nil
	case "RENAME":
		v, ok := f.str[args[1]]
		if !ok {
			return nil, &ErrorReply{Msg: "ERR no such key"}
		}
		delete(f.str, args[1])
		f.str[args[2]] = v
		return StatusReply{Msg: "OK"}, nil
	case "PEXPIREAT":
		_, ok1 := f.str[args[1]]
		_, ok2 := f.hash[args[1]]
		if !ok1 && !ok2 {
			return int64(0), nil
		}
		f.expire[args[1]] = "PXAT " + args[2]
		return int64(1), nil
	case "INCRBY", "DECRBY":
		cur := int64(0)
		if v, ok := f.str[args[1]]; ok {
			n, err := strconv.ParseInt(v, 10, 64)
			if err != nil {
				return nil, &ErrorReply{Msg: "ERR value is not an integer or out of range"}
			}
			cur = n
		}
		d, err := strconv.ParseInt(args[2], 10, 64)
		if err != nil {
			return nil, &ErrorReply{Msg: "ERR value is not an integer or out of range"}
		}
		if cmd == "DECRBY" {
			d = -d
		}
		cur += d
		f.str[args[1]] = strconv.FormatInt(cur, 10)
		return cur, nil
	case "HSET":
		if len(args) < 4 || len(args)%2 != 0 {
			return nil, wrongArgs
		}
		h := f.hash[args[1]]
		if h == nil {
			h = map[string]string{}
			f.hash[args[1]] = h
		}
		n := int64(0)
		for i := 2; i < len(args); i += 2 {
			if _, ok := h[args[i]]; !ok {
				n++
			}
			h[args[i]] = args[i+1]
		}
		return n, nil
	case "HGET":
		v, ok := f.hash[args[1]][args[2]]
		if !ok {
			return nil, nil
		}
		return v, nil
	case "HINCRBY":
		h := f.hash[args[1]]
		if h == nil {
			h = map[string]string{}
			f.hash[args[1]] = h
		}
		cur, _ := strconv.ParseInt(h[args[2]], 10, 64)
		d, err := strconv.ParseInt(args[3], 10, 64)
		if err != nil {
			return nil, &ErrorReply{Msg: "ERR value is not an integer or out of range"}
		}
		cur += d
		h[args[2]] = strconv.FormatInt(cur, 10)
		return cur, nil
	case "TIME":
		return []any{f.now[0], f.now[1]}, nil
	case "BITFIELD", "BITFIELD_RO":
		// only: <key> GET u1 <idx> | <key> SET u1 <idx> <v>
		if len(args) < 5 || args[3] != "u1" {
			return nil, &ErrorReply{Msg: "ERR syntax error"}
		}
		idx, err := strconv.Atoi(args[4])
		if err != nil {
			return nil, &ErrorReply{Msg: "ERR bit offset is not an integer or out of range"}
		}
		switch strings.ToUpper(args[2]) {
		case "GET":
			return []any{f.getBit(args[1], idx)}, nil
		case "SET":
			if cmd == "BITFIELD_RO" {
				return nil, &ErrorReply{Msg: "ERR BITFIELD_RO only supports the GET subcommand"}
			}
			v, _ := strconv.ParseInt(args[5], 10, 64)
			return []any{f.setBit(args[1], idx, v)}, nil
		}
		return nil, &ErrorReply{Msg: "ERR syntax error"}
	}
	return nil, &ErrorReply{Msg: "ERR unknown command '" + args[0] + "'"}
}

func run(t *testing.T, src string, keys, argv []string, call Caller) (any, error) {
	t.Helper()
	s, err := Compile(src)
	if err != nil {
		t.Fatalf("Compile(%q): %v", src, err)
	}
	return s.Run(keys, argv, call)
}

func mustRun(t *testing.T, src string, keys, argv []string, call Caller) any {
	t.Helper()
	r, err := run(t, src, keys, argv, call)
	if err != nil {
		t.Fatalf("Run(%q) error: %v", src, err)
	}
	return r
}

func wantReply(t *testing.T, what string, got, want any) {
	t.Helper()
	if !reflect.DeepEqual(got, want) {
		t.Errorf("%s: got %#v, want %#v", what, got, want)
	}
}

func wantLog(t *testing.T, f *fakeRedis, want ...string) {
	t.Helper()
	var got []string
	for _, c := range f.log {
		got = append(got, strings.Join(c, " "))
	}
	if !reflect.DeepEqual(got, want) {
		t.Errorf("command log:\n got  %q\n want %q", got, want)
	}
	f.log = nil
}

var ok = StatusReply{Msg: "OK"}

// ---------------------------------------------------------------------------------------------------------
// Execution of the real scripts with hand-computed expectations.
// ---------------------------------------------------------------------------------------------------------

func TestLockScripts(t *testing.T) {
	k := []string{"lk"}

	f := newFake()
	// acqms: key free -> SET NX PX succeeds -> status OK
	wantReply(t, "acqms free", mustRun(t, lockAcqms, k, []string{"id1", "3000"}, f.call), ok)
	wantLog(t, f, "SET lk id1 NX PX 3000", "GET lk")
	if f.expire["lk"] != "PX 3000" {
		t.Errorf("expire = %q", f.expire["lk"])
	}
	// acqms: key taken -> SET NX gives null -> Lua false -> null reply
	wantReply(t, "acqms taken", mustRun(t, lockAcqms, k, []string{"id2", "3000"}, f.call), nil)
	wantLog(t, f, "SET lk id2 NX PX 3000", "GET lk")
	if f.str["lk"] != "id1" {
		t.Errorf("lock holder = %q", f.str["lk"])
	}
	// acqat on a taken key, then the forced variants always succeed
	wantReply(t, "acqat taken", mustRun(t, lockAcqat, k, []string{"id2", "99000"}, f.call), nil)
	wantLog(t, f, "SET lk id2 NX PXAT 99000", "GET lk")
	wantReply(t, "fcqms", mustRun(t, lockFcqms, k, []string{"id3", "10"}, f.call), ok)
	wantLog(t, f, "SET lk id3 PX 10", "GET lk")
	wantReply(t, "fcqat", mustRun(t, lockFcqat, k, []string{"id4", "12345"}, f.call), ok)
	wantLog(t, f, "SET lk id4 PXAT 12345", "GET lk")
	if f.str["lk"] != "id4" || f.expire["lk"] != "PXAT 12345" {
		t.Errorf("state = %q %q", f.str["lk"], f.expire["lk"])
	}

	// extend: wrong owner -> 0 and nothing else is called
	wantReply(t, "extend wrong owner", mustRun(t, lockExtend, k, []string{"nope", "777"}, f.call), int64(0))
	wantLog(t, f, "GET lk")
	// extend: owner -> PEXPIREAT reply (1)
	wantReply(t, "extend owner", mustRun(t, lockExtend, k, []string{"id4", "777"}, f.call), int64(1))
	wantLog(t, f, "GET lk", "PEXPIREAT lk 777", "GET lk")
	if f.expire["lk"] != "PXAT 777" {
		t.Errorf("expire = %q", f.expire["lk"])
	}

	// delkey: wrong owner -> 0; owner -> DEL reply 1; missing key -> GET gives false ~= ARGV[1] -> 0
	wantReply(t, "delkey wrong owner", mustRun(t, lockDelkey, k, []string{"nope"}, f.call), int64(0))
	wantLog(t, f, "GET lk")
	wantReply(t, "delkey owner", mustRun(t, lockDelkey, k, []string{"id4"}, f.call), int64(1))
	wantLog(t, f, "GET lk", "DEL lk")
	wantReply(t, "delkey missing", mustRun(t, lockDelkey, k, []string{"id4"}, f.call), int64(0))
	wantLog(t, f, "GET lk")
	// acqat on a free key
	wantReply(t, "acqat free", mustRun(t, lockAcqat, k, []string{"id5", "5"}, f.call), ok)
}

func TestAsideScripts(t *testing.T) {
	k := []string{"ck"}
	f := newFake()
	// acquireLock: free -> SET ok (truthy table) -> return nil -> null reply
	wantReply(t, "acquire free", mustRun(t, asideAcquireLock, k, []string{"me", "500"}, f.call), nil)
	wantLog(t, f, "SET ck me NX PX 500")
	// acquireLock: taken -> current holder
	wantReply(t, "acquire taken", mustRun(t, asideAcquireLock, k, []string{"you", "500"}, f.call), "me")
	wantLog(t, f, "SET ck you NX PX 500", "GET ck")
	// setkey: not the holder -> 0
	wantReply(t, "setkey other", mustRun(t, asideSetkey, k, []string{"you", "val", "9000"}, f.call), int64(0))
	wantLog(t, f, "GET ck")
	// setkey: holder -> OK
	wantReply(t, "setkey holder", mustRun(t, asideSetkey, k, []string{"me", "val", "9000"}, f.call), ok)
	wantLog(t, f, "GET ck", "SET ck val PX 9000")
	// delkey
	wantReply(t, "delkey other", mustRun(t, asideDelkey, k, []string{"me"}, f.call), int64(0))
	wantReply(t, "delkey match", mustRun(t, asideDelkey, k, []string{"val"}, f.call), int64(1))
	if _, exists := f.str["ck"]; exists {
		t.Error("ck should be deleted")
	}
	// a WRONGTYPE error from GET aborts the script with the command's message
	f.hash["ck"] = map[string]string{"a": "b"}
	_, err := run(t, asideDelkey, k, []string{"x"}, f.call)
	er, isErr := err.(*ErrorReply)
	if !isErr || er.Msg != "WRONGTYPE Operation against a key holding the wrong kind of value" {
		t.Errorf("got %#v", err)
	}
}

func TestLimiterScript(t *testing.T) {
	keys := []string{"rl", "rl:exp"}
	f := newFake()
	// first call: no expires_at -> both keys initialised, then incrby 2 -> {2, 5000}
	wantReply(t, "first", mustRun(t, limiterScript, keys, []string{"2", "5000", "1000"}, f.call), []any{int64(2), int64(5000)})
	wantLog(t, f, "get rl:exp", "set rl 0 pxat 6000", "set rl:exp 5000 pxat 6000", "incrby rl 2")
	// within the window: only incrby -> {4, 5000}
	wantReply(t, "second", mustRun(t, limiterScript, keys, []string{"2", "8000", "2000"}, f.call), []any{int64(4), int64(5000)})
	wantLog(t, f, "get rl:exp", "incrby rl 2")
	// window elapsed (5000 < 5001): reset -> {1, 9000}
	wantReply(t, "third", mustRun(t, limiterScript, keys, []string{"1", "9000", "5001"}, f.call), []any{int64(1), int64(9000)})
	wantLog(t, f, "get rl:exp", "set rl 0 pxat 10000", "set rl:exp 9000 pxat 10000", "incrby rl 1")
	// exactly at expiry (not <): no reset; incrby 0 probes the counter
	wantReply(t, "fourth", mustRun(t, limiterScript, keys, []string{"0", "20000", "9000"}, f.call), []any{int64(1), int64(9000)})
	wantLog(t, f, "get rl:exp", "incrby rl 0")
	// realistic millisecond timestamps must not be mangled by number formatting
	f = newFake()
	wantReply(t, "big", mustRun(t, limiterScript, keys, []string{"1", "1789000000123", "1788999999000"}, f.call),
		[]any{int64(1), int64(1789000000123)})
	wantLog(t, f, "get rl:exp", "set rl 0 pxat 1789000001123", "set rl:exp 1789000000123 pxat 1789000001123", "incrby rl 1")
}

func TestOmHashSaveScript(t *testing.T) {
	keys := []string{"h:1"}
	// no version check, odd #ARGV: last element is the expiry and is removed before unpack(ARGV)
	f := newFake()
	wantReply(t, "nover+exp", mustRun(t, omHashSave, keys, []string{"", "1", "a", "x", "1234"}, f.call), "1")
	wantLog(t, f, "HSET h:1  1 a x", "PEXPIREAT h:1 1234")
	// no version check, even #ARGV: no expiry
	f = newFake()
	wantReply(t, "nover", mustRun(t, omHashSave, keys, []string{"", "7", "a", "x"}, f.call), "7")
	wantLog(t, f, "HSET h:1  7 a x")
	// version check on a new key: HGET null -> not v -> version bumped, ARGV[2] mutated and visible to unpack
	f = newFake()
	wantReply(t, "new", mustRun(t, omHashSave, keys, []string{"ver", "0", "a", "x"}, f.call), "1")
	wantLog(t, f, "HGET h:1 ver", "HSET h:1 ver 1 a x")
	// matching version with expiry
	wantReply(t, "match", mustRun(t, omHashSave, keys, []string{"ver", "1", "a", "y", "999"}, f.call), "2")
	wantLog(t, f, "HGET h:1 ver", "HSET h:1 ver 2 a y", "PEXPIREAT h:1 999")
	if f.hash["h:1"]["ver"] != "2" || f.hash["h:1"]["a"] != "y" || f.expire["h:1"] != "PXAT 999" {
		t.Errorf("state: %v %v", f.hash["h:1"], f.expire)
	}
	// stale version -> nil and no write
	wantReply(t, "stale", mustRun(t, omHashSave, keys, []string{"ver", "1", "a", "z"}, f.call), nil)
	wantLog(t, f, "HGET h:1 ver")
	// the caller's argv slice is not modified by the script's ARGV mutations
	argv := []string{"ver", "2", "a", "w", "55"}
	wantReply(t, "match2", mustRun(t, omHashSave, keys, argv, f.call), "3")
	if !reflect.DeepEqual(argv, []string{"ver", "2", "a", "w", "55"}) {
		t.Errorf("argv was modified: %v", argv)
	}
}

func TestOmJSONSaveScript(t *testing.T) {
	keys := []string{"j:1"}
	f := newFake()
	f.scripted["JSON.SET"] = []any{ok, ok, ok}
	// no version check, no expiry (#ARGV == 3)
	wantReply(t, "nover", mustRun(t, omJSONSave, keys, []string{"", "3", `{"a":1}`}, f.call), "3")
	wantLog(t, f, `JSON.SET j:1 $ {"a":1}`)
	// no version check with expiry (#ARGV == 4)
	f = newFake()
	f.scripted["JSON.SET"] = []any{ok}
	f.str["j:1"] = "x"
	wantReply(t, "nover+exp", mustRun(t, omJSONSave, keys, []string{"", "3", `{"a":1}`, "777"}, f.call), "3")
	wantLog(t, f, `JSON.SET j:1 $ {"a":1}`, "PEXPIREAT j:1 777")
	// version matches: JSON.GET returns the stored version, NUMINCRBY result is returned (a bulk string)
	f = newFake()
	f.scripted["JSON.GET"] = []any{"5"}
	f.scripted["JSON.SET"] = []any{ok}
	f.scripted["JSON.NUMINCRBY"] = []any{"6"}
	wantReply(t, "match", mustRun(t, omJSONSave, keys, []string{"$.ver", "5", `{"ver":5}`}, f.call), "6")
	wantLog(t, f, "JSON.GET j:1 $.ver", `JSON.SET j:1 $ {"ver":5}`, "JSON.NUMINCRBY j:1 $.ver 1")
	// new document: JSON.GET null
	f = newFake()
	f.scripted["JSON.GET"] = []any{nil}
	f.scripted["JSON.SET"] = []any{ok}
	f.scripted["JSON.NUMINCRBY"] = []any{"1"}
	f.str["j:1"] = "doc"
	wantReply(t, "new", mustRun(t, omJSONSave, keys, []string{"$.ver", "0", `{"ver":0}`, "42"}, f.call), "1")
	wantLog(t, f, "JSON.GET j:1 $.ver", `JSON.SET j:1 $ {"ver":0}`, "JSON.NUMINCRBY j:1 $.ver 1", "PEXPIREAT j:1 42")
	// stale
	f = newFake()
	f.scripted["JSON.GET"] = []any{"9"}
	wantReply(t, "stale", mustRun(t, omJSONSave, keys, []string{"$.ver", "5", `{}`}, f.call), nil)
	wantLog(t, f, "JSON.GET j:1 $.ver")
}

func TestBloomFilterScripts(t *testing.T) {
	add := probScript(t, "bloomFilterAddMultiScript")
	exists := probScript(t, "bloomFilterExistsMultiScript")
	existsRO := probScript(t, "bloomFilterExistsMultiReadOnlyScript")
	keys := []string{"bf", "bf:c"}
	f := newFake()
	// 2 hash iterations, elements {5,9} and {5,7}. First element: both bits new -> counted. Second element:
	// bit 5 already set by the first, bit 7 new -> oneBits = 1 ~= 2 -> counted. INCRBY bf:c 2 -> 2.
	wantReply(t, "add", mustRun(t, add, keys, []string{"2", "5", "9", "5", "7"}, f.call), int64(2))
	wantLog(t, f, "BITFIELD bf SET u1 5 1", "BITFIELD bf SET u1 9 1", "BITFIELD bf SET u1 5 1", "BITFIELD bf SET u1 7 1", "INCRBY bf:c 2")
	// bits 5,7 -> byte0 = 0b00000101, bit 9 -> byte1 = 0b01000000
	if f.str["bf"] != "\x05\x40" {
		t.Errorf("bitmap = %q", f.str["bf"])
	}
	// adding the same again: nothing new -> INCRBY 0 -> 2
	wantReply(t, "add again", mustRun(t, add, keys, []string{"2", "5", "9", "5", "7"}, f.call), int64(2))
	// one of the two elements new ({7,9} known bits -> not counted; {1,5} has new bit 1 -> counted)
	wantReply(t, "add mixed", mustRun(t, add, keys, []string{"2", "7", "9", "1", "5"}, f.call), int64(3))
	f.log = nil
	// exists: {5,9} yes, {5,8} no, {1,7} yes -> {true,false,true} -> [1, nil, 1]
	want := []any{int64(1), nil, int64(1)}
	wantReply(t, "exists", mustRun(t, exists, keys[:1], []string{"2", "5", "9", "5", "8", "1", "7"}, f.call), want)
	wantLog(t, f, "BITFIELD bf GET u1 5", "BITFIELD bf GET u1 9", "BITFIELD bf GET u1 5", "BITFIELD bf GET u1 8", "BITFIELD bf GET u1 1", "BITFIELD bf GET u1 7")
	wantReply(t, "existsRO", mustRun(t, existsRO, keys[:1], []string{"2", "5", "9", "5", "8", "1", "7"}, f.call), want)
	wantLog(t, f, "BITFIELD_RO bf GET u1 5", "BITFIELD_RO bf GET u1 9", "BITFIELD_RO bf GET u1 5", "BITFIELD_RO bf GET u1 8", "BITFIELD_RO bf GET u1 1", "BITFIELD_RO bf GET u1 7")
	// no elements at all: empty array
	wantReply(t, "exists none", mustRun(t, exists, keys[:1], []string{"2"}, f.call), []any{})
	// large index typical for the library (up to 2^32-1) must be passed through unchanged by tonumber()
	f.log = nil
	mustRun(t, exists, keys[:1], []string{"1", "4294967295"}, f.call)
	wantLog(t, f, "BITFIELD bf GET u1 4294967295")

	// reset / delete
	wantReply(t, "reset", mustRun(t, probScript(t, "bloomFilterResetScript"), keys, nil, f.call), int64(1))
	wantLog(t, f, "SET bf ", "SET bf:c 0")
	if f.str["bf"] != "" || f.str["bf:c"] != "0" {
		t.Errorf("state after reset: %q", f.str)
	}
	wantReply(t, "delete", mustRun(t, probScript(t, "bloomFilterDeleteScript"), keys, nil, f.call), int64(1))
	wantLog(t, f, "DEL bf", "DEL bf:c")
	if len(f.str) != 0 {
		t.Errorf("state after delete: %q", f.str)
	}
}

func TestCountingBloomFilterScripts(t *testing.T) {
	add := probScript(t, "countingBloomFilterAddMultiScript")
	remove := probScript(t, "countingBloomFilterRemoveMultiScript")
	keys := []string{"cbf", "cbf:c"}
	f := newFake()
	// ARGV[1] is the item count, the rest are indexes
	wantReply(t, "add", mustRun(t, add, keys, []string{"2", "3", "4", "3", "5"}, f.call), int64(2))
	wantLog(t, f, "HINCRBY cbf 3 1", "HINCRBY cbf 4 1", "HINCRBY cbf 3 1", "HINCRBY cbf 5 1", "INCRBY cbf:c 2")
	if !reflect.DeepEqual(f.hash["cbf"], map[string]string{"3": "2", "4": "1", "5": "1"}) {
		t.Errorf("hash = %v", f.hash["cbf"])
	}
	// remove both items: indexes first, hash iteration count last
	wantReply(t, "remove all", mustRun(t, remove, keys, []string{"3", "4", "3", "5", "2"}, f.call), int64(0))
	wantLog(t, f,
		"HGET cbf 3", "HGET cbf 4", "HGET cbf 3", "HGET cbf 5",
		"HINCRBY cbf 3 -1", "HINCRBY cbf 4 -1", "HINCRBY cbf 3 -1", "HINCRBY cbf 5 -1",
		"DECRBY cbf:c 2")
	if !reflect.DeepEqual(f.hash["cbf"], map[string]string{"3": "0", "4": "0", "5": "0"}) {
		t.Errorf("hash = %v", f.hash["cbf"])
	}

	// partial: only {3,4} present once. Item {3,4} is removable; item {3,5} is not (3 would go below 0; rolled back)
	f = newFake()
	f.hash["cbf"] = map[string]string{"3": "1", "4": "1"}
	f.str["cbf:c"] = "1"
	wantReply(t, "remove partial", mustRun(t, remove, keys, []string{"3", "4", "3", "5", "2"}, f.call), int64(0))
	wantLog(t, f,
		"HGET cbf 3", "HGET cbf 4", "HGET cbf 3", "HGET cbf 5",
		"HINCRBY cbf 3 -1", "HINCRBY cbf 4 -1",
		"DECRBY cbf:c 1")

	// rollback in the middle: item {4,5}: 4 ok (1->0), 5 missing (0->-1) -> rollback both; then item {4,3} still removable
	f = newFake()
	f.hash["cbf"] = map[string]string{"3": "1", "4": "1"}
	f.str["cbf:c"] = "5"
	wantReply(t, "remove rollback", mustRun(t, remove, keys, []string{"4", "5", "4", "3", "2"}, f.call), int64(4))
	wantLog(t, f,
		"HGET cbf 4", "HGET cbf 5", "HGET cbf 4", "HGET cbf 3",
		"HINCRBY cbf 4 -1", "HINCRBY cbf 3 -1",
		"DECRBY cbf:c 1")

	wantReply(t, "delete", mustRun(t, probScript(t, "countingBloomFilterDeleteScript"), keys, nil, f.call), int64(1))
	wantLog(t, f, "DEL cbf", "DEL cbf:c")
}

func TestSlidingBloomFilterScripts(t *testing.T) {
	initS := probScript(t, "slidingBloomFilterInitializeScript")
	add := probScript(t, "slidingBloomFilterAddMultiScript")
	exists := probScript(t, "slidingBloomFilterExistsMultiScript")
	existsRO := probScript(t, "slidingBloomFilterExistsReadOnlyMultiScript")
	reset := probScript(t, "slidingBloomFilterResetScript")
	keys := []string{"s", "s:n", "s:c", "s:nc", "s:lr"}

	f := newFake()
	// TIME = {"100","500000"} -> 100*1000 + floor(500000/1000) = 100500
	wantReply(t, "init", mustRun(t, initS, keys, []string{"30000"}, f.call), int64(1))
	wantLog(t, f, "EXISTS s s:n s:c s:nc s:lr", "TIME", "MSET s  s:c 0 s:n  s:nc 0", "SET s:lr 100500 PX 30000 NX")
	// second init: keys exist -> nothing done
	wantReply(t, "init again", mustRun(t, initS, keys, []string{"30000"}, f.call), int64(1))
	wantLog(t, f, "EXISTS s s:n s:c s:nc s:lr")

	// add while the rotation lock is still held: no rotation
	f.now = [2]string{"101", "999"}
	wantReply(t, "add", mustRun(t, add, keys, []string{"2", "30000", "5", "9", "5", "7"}, f.call), int64(2))
	wantLog(t, f,
		"TIME", "SET s:lr 101000 PX 30000 NX",
		"BITFIELD s SET u1 5 1", "BITFIELD s:n SET u1 5 1",
		"BITFIELD s SET u1 9 1", "BITFIELD s:n SET u1 9 1",
		"BITFIELD s SET u1 5 1", "BITFIELD s:n SET u1 5 1",
		"BITFIELD s SET u1 7 1", "BITFIELD s:n SET u1 7 1",
		"INCRBY s:nc 2", "INCRBY s:c 2")
	if f.str["s"] != "\x05\x40" || f.str["s:n"] != "\x05\x40" {
		t.Errorf("bitmaps %q %q", f.str["s"], f.str["s:n"])
	}

	// rotation: the lock key expired -> SET NX succeeds -> next becomes current, next is cleared
	delete(f.str, "s:lr")
	f.now = [2]string{"140", "1999"}
	wantReply(t, "add rotate", mustRun(t, add, keys, []string{"1", "30000", "1"}, f.call), int64(3))
	wantLog(t, f,
		"TIME", "SET s:lr 140001 PX 30000 NX",
		"RENAME s:n s", "RENAME s:nc s:c", "SET s:n ", "SET s:nc 0",
		"BITFIELD s SET u1 1 1", "BITFIELD s:n SET u1 1 1",
		"INCRBY s:nc 1", "INCRBY s:c 1")
	if f.str["s"] != "\x45\x40" || f.str["s:n"] != "\x40" || f.str["s:nc"] != "1" || f.str["s:c"] != "3" {
		t.Errorf("state %q", f.str)
	}

	// exists (no rotation)
	want := []any{int64(1), nil}
	wantReply(t, "exists", mustRun(t, exists, keys, []string{"2", "30000", "5", "9", "5", "8"}, f.call), want)
	wantLog(t, f, "TIME", "SET s:lr 140001 PX 30000 NX",
		"BITFIELD s GET u1 5", "BITFIELD s GET u1 9", "BITFIELD s GET u1 5", "BITFIELD s GET u1 8")
	wantReply(t, "existsRO", mustRun(t, existsRO, keys, []string{"2", "30000", "5", "9", "5", "8"}, f.call), want)
	wantLog(t, f, "TIME", "SET s:lr 140001 PX 30000 NX",
		"BITFIELD_RO s GET u1 5", "BITFIELD_RO s GET u1 9", "BITFIELD_RO s GET u1 5", "BITFIELD_RO s GET u1 8")

	// exists with rotation: the current filter is replaced by next ({1}) -> element {5,9} is gone
	delete(f.str, "s:lr")
	wantReply(t, "exists rotate", mustRun(t, exists, keys, []string{"2", "30000", "5", "9"}, f.call), []any{nil})
	// after this rotation next is empty; single-iteration lookup of bit 1 in the rotated filter
	wantReply(t, "exists after rotate", mustRun(t, exists, keys, []string{"1", "30000", "1", "2"}, f.call), []any{int64(1), nil})

	// reset script has no return statement -> null reply
	f.log = nil
	wantReply(t, "reset", mustRun(t, reset, keys[:4], nil, f.call), nil)
	wantLog(t, f, "RENAME s:n s", "RENAME s:nc s:c", "SET s:n ", "SET s:nc 0")

	// RENAME of a missing key raises inside redis.call and aborts the script with the command's error
	delete(f.str, "s:n")
	_, err := run(t, reset, keys[:4], nil, f.call)
	if er, isErr := err.(*ErrorReply); !isErr || er.Msg != "ERR no such key" {
		t.Errorf("got %#v", err)
	}
}

func TestSimpleShapesFromRepoTests(t *testing.T) {
	// redis_test.go
	wantReply(t, "keys/argv", mustRun(t, `return {KEYS[1],ARGV[1]}`, []string{"k1"}, []string{"a1"}, nil), []any{"k1", "a1"})
	// lua_test.go uses a random integer as the body; such a body is not a valid Lua chunk on a real server either
	if _, err := Compile("8674665223082153551"); err == nil {
		t.Error("a bare number is not a valid chunk")
	} else if _, isSyn := err.(*SyntaxError); !isSyn {
		t.Errorf("want *SyntaxError, got %T %v", err, err)
	}
}

func TestFakeRedisSelfCheck(t *testing.T) {
	// sanity of the bit numbering used by the expectations above (Redis numbers bits MSB first)
	f := newFake()
	f.setBit("k", 0, 1)
	f.setBit("k", 15, 1)
	if f.str["k"] != "\x80\x01" || f.getBit("k", 0) != 1 || f.getBit("k", 1) != 0 || f.getBit("k", 15) != 1 || f.getBit("k", 99) != 0 {
		t.Errorf("bitmap %q", f.str["k"])
	}
	keys := make([]string, 0)
	for k := range f.str {
		keys = append(keys, k)
	}
	sort.Strings(keys)
	if !reflect.DeepEqual(keys, []string{"k"}) {
		t.Error(keys)
	}
}
