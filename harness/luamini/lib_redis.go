package luamini

import (
	"crypto/sha1"
	"encoding/hex"
	"fmt"
	"strings"
)

func (in *interp) installRedisLib() {
	r := NewTable()
	r.Set("call", bi("call", func(in *interp, args []Value) ([]Value, error) {
		return in.redisCall(args, true)
	}))
	r.Set("pcall", bi("pcall", func(in *interp, args []Value) ([]Value, error) {
		return in.redisCall(args, false)
	}))
	r.Set("error_reply", bi("error_reply", func(in *interp, args []Value) ([]Value, error) {
		s, ok := arg(args, 0).(string)
		if len(args) != 1 || !ok {
			return []Value{errTable("ERR wrong number or type of arguments")}, nil
		}
		return []Value{errTable(normalizeErrorReply(s))}, nil
	}))
	r.Set("status_reply", bi("status_reply", func(in *interp, args []Value) ([]Value, error) {
		s, ok := arg(args, 0).(string)
		if len(args) != 1 || !ok {
			return []Value{errTable("ERR wrong number or type of arguments")}, nil
		}
		t := NewTable()
		t.Set("ok", s)
		return []Value{t}, nil
	}))
	r.Set("sha1hex", bi("sha1hex", func(in *interp, args []Value) ([]Value, error) {
		if len(args) != 1 {
			return nil, &luaError{value: errTable("ERR wrong number of arguments")}
		}
		s, _ := toStringCoerce(args[0])
		sum := sha1.Sum([]byte(s))
		return []Value{hex.EncodeToString(sum[:])}, nil
	}))
	r.Set("log", bi("log", func(in *interp, args []Value) ([]Value, error) {
		if len(args) < 2 {
			return nil, &luaError{value: errTable("ERR redis.log() requires two arguments or more.")}
		}
		lvl, ok := args[0].(float64)
		if !ok {
			return nil, &luaError{value: errTable("ERR First argument must be a number (log level).")}
		}
		if lvl < 0 || lvl > 3 {
			return nil, &luaError{value: errTable("ERR Invalid debug level.")}
		}
		return nil, nil
	}))
	r.Set("LOG_DEBUG", 0.0)
	r.Set("LOG_VERBOSE", 1.0)
	r.Set("LOG_NOTICE", 2.0)
	r.Set("LOG_WARNING", 3.0)
	r.Set("replicate_commands", bi("replicate_commands", func(in *interp, args []Value) ([]Value, error) {
		return []Value{true}, nil
	}))
	r.Set("setresp", bi("setresp", func(in *interp, args []Value) ([]Value, error) {
		if len(args) != 1 {
			return nil, &luaError{value: errTable("ERR redis.setresp() requires one argument.")}
		}
		f, _ := toNumber(args[0])
		switch f {
		case 2:
			return nil, nil
		case 3:
			return nil, runtimeUnsupported("redis.setresp(3)")
		}
		return nil, &luaError{value: errTable("ERR RESP version must be 2 or 3.")}
	}))
	in.globals.Set("redis", r)
	in.readonly[r] = true
}

func errTable(msg string) *Table {
	t := NewTable()
	t.Set("err", msg)
	return t
}

// normalizeErrorReply mirrors luaPushErrorBuff of Redis 7: "-CODE msg" loses the dash, a message without any
// space gets the generic ERR code.
func normalizeErrorReply(s string) string {
	if !strings.HasPrefix(s, "-") {
		s = "-" + s
	}
	body := s[1:]
	if !strings.Contains(s, " ") {
		return "ERR " + body
	}
	return body
}

func (in *interp) redisCall(args []Value, raise bool) ([]Value, error) {
	fail := func(msg string) ([]Value, error) {
		t := errTable(msg)
		if raise {
			return nil, &luaError{value: t}
		}
		return []Value{t}, nil
	}
	if len(args) == 0 {
		return fail("ERR Please specify at least one argument for this redis lib call")
	}
	argv := make([]string, len(args))
	for i, a := range args {
		switch x := a.(type) {
		case string:
			argv[i] = x
		case float64:
			argv[i] = numberToRedisArg(x)
		default:
			return fail("ERR Lua redis lib command arguments must be strings or integers")
		}
	}
	if in.call == nil {
		return fail("ERR luamini: no Caller configured for redis.call")
	}
	reply, err := in.call(argv)
	if err != nil {
		msg := err.Error()
		if msg == "" {
			msg = "ERR"
		}
		return fail(msg)
	}
	v, cerr := replyToLua(reply, 0)
	if cerr != nil {
		return nil, cerr
	}
	return []Value{v}, nil
}

// replyToLua converts a Redis reply (Caller types) to a Lua value using the RESP2 conversion rules.
func replyToLua(reply any, depth int) (Value, error) {
	if depth > 1000 {
		return nil, &limitError{msg: "ERR luamini: reply nested too deeply"}
	}
	switch x := reply.(type) {
	case nil:
		return false, nil
	case int64:
		return float64(x), nil
	case int:
		return float64(x), nil
	case string:
		return x, nil
	case []byte:
		return string(x), nil
	case StatusReply:
		t := NewTable()
		t.Set("ok", x.Msg)
		return t, nil
	case *StatusReply:
		if x == nil {
			return false, nil
		}
		t := NewTable()
		t.Set("ok", x.Msg)
		return t, nil
	case *ErrorReply:
		// an error nested inside an array reply
		if x == nil {
			return false, nil
		}
		return errTable(x.Msg), nil
	case []any:
		if x == nil {
			return false, nil // null array
		}
		t := NewTable()
		vals := make([]Value, len(x))
		for i, e := range x {
			v, err := replyToLua(e, depth+1)
			if err != nil {
				return nil, err
			}
			vals[i] = v
		}
		t.setList(vals)
		return t, nil
	case []string:
		t := NewTable()
		for _, e := range x {
			t.Append(e)
		}
		return t, nil
	}
	return nil, &limitError{msg: fmt.Sprintf("ERR luamini: Caller returned unsupported reply type %T", reply)}
}

// luaToReply converts the script's return value to a Redis reply using the Redis rules (RESP2).
func luaToReply(v Value, depth int) (any, error) {
	if depth > 1000 {
		return nil, &ErrorReply{Msg: "ERR reached lua stack limit"}
	}
	switch x := v.(type) {
	case nil:
		return nil, nil
	case bool:
		if x {
			return int64(1), nil
		}
		return nil, nil
	case float64:
		return f2i(x), nil
	case string:
		return x, nil
	case *Table:
		if s, ok := x.Get("err").(string); ok {
			return nil, &ErrorReply{Msg: s}
		}
		if s, ok := x.Get("ok").(string); ok {
			return StatusReply{Msg: strings.NewReplacer("\r", " ", "\n", " ").Replace(s)}, nil
		}
		out := []any{}
		for i := 1; ; i++ {
			e := x.Get(float64(i))
			if e == nil {
				break
			}
			r, err := luaToReply(e, depth+1)
			if err != nil {
				if er, ok := err.(*ErrorReply); ok && depth < 1000 {
					// an error table nested in an array is an element of the array reply
					out = append(out, er)
					continue
				}
				return nil, err
			}
			out = append(out, r)
		}
		return out, nil
	}
	// functions and other values convert to a null reply
	return nil, nil
}
