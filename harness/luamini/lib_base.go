package luamini

import (
	"math"
	"sort"
	"strings"
)

const maxUnpack = 7999 // LUAI_MAXCSTACK is 8000 in Lua 5.1

func bi(name string, f func(in *interp, args []Value) ([]Value, error)) *Function {
	return &Function{name: name, builtin: f}
}

func arg(args []Value, i int) Value {
	if i < len(args) {
		return args[i]
	}
	return nil
}

func argTypeName(args []Value, i int) string {
	if i >= len(args) {
		return "no value"
	}
	return typeName(args[i])
}

func badArg(i int, fname, msg string) error {
	return libErr("bad argument #%d to '%s' (%s)", i+1, fname, msg)
}

func typeErr(args []Value, i int, fname, want string) error {
	return badArg(i, fname, want+" expected, got "+argTypeName(args, i))
}

func checkTable(args []Value, i int, fname string) (*Table, error) {
	if t, ok := arg(args, i).(*Table); ok {
		return t, nil
	}
	return nil, typeErr(args, i, fname, "table")
}

func checkNumber(args []Value, i int, fname string) (float64, error) {
	if f, ok := toNumber(arg(args, i)); ok {
		return f, nil
	}
	return 0, typeErr(args, i, fname, "number")
}

// f2i converts like a C cast from double to a 64-bit integer (truncation toward zero).
func f2i(f float64) int64 {
	if f != f {
		return math.MinInt64
	}
	if f >= 9223372036854775808.0 || f < -9223372036854775808.0 {
		return math.MinInt64
	}
	return int64(f)
}

func checkInt(args []Value, i int, fname string) (int64, error) {
	f, err := checkNumber(args, i, fname)
	if err != nil {
		return 0, err
	}
	return f2i(f), nil
}

func optInt(args []Value, i int, fname string, def int64) (int64, error) {
	if arg(args, i) == nil {
		return def, nil
	}
	return checkInt(args, i, fname)
}

func checkString(args []Value, i int, fname string) (string, error) {
	if s, ok := toStringCoerce(arg(args, i)); ok {
		return s, nil
	}
	return "", typeErr(args, i, fname, "string")
}

func optString(args []Value, i int, fname, def string) (string, error) {
	if arg(args, i) == nil {
		return def, nil
	}
	return checkString(args, i, fname)
}

func checkAny(args []Value, i int, fname string) error {
	if i >= len(args) {
		return badArg(i, fname, "value expected")
	}
	return nil
}

func (in *interp) newGlobals() {
	g := NewTable()
	in.globals = g
	in.readonly = map[*Table]bool{}

	nextFn := bi("next", func(in *interp, args []Value) ([]Value, error) {
		t, err := checkTable(args, 0, "next")
		if err != nil {
			return nil, err
		}
		k, v, ok := t.next(arg(args, 1))
		if !ok {
			return nil, libErr("invalid key to 'next'")
		}
		if k == nil {
			return []Value{nil}, nil
		}
		return []Value{k, v}, nil
	})
	g.Set("next", nextFn)
	g.Set("pairs", bi("pairs", func(in *interp, args []Value) ([]Value, error) {
		t, err := checkTable(args, 0, "pairs")
		if err != nil {
			return nil, err
		}
		return []Value{nextFn, t, nil}, nil
	}))
	ipairsIter := bi("ipairs_iter", func(in *interp, args []Value) ([]Value, error) {
		t, err := checkTable(args, 0, "ipairs")
		if err != nil {
			return nil, err
		}
		i, err := checkInt(args, 1, "ipairs")
		if err != nil {
			return nil, err
		}
		i++
		v := t.Get(float64(i))
		if v == nil {
			return nil, nil
		}
		return []Value{float64(i), v}, nil
	})
	g.Set("ipairs", bi("ipairs", func(in *interp, args []Value) ([]Value, error) {
		t, err := checkTable(args, 0, "ipairs")
		if err != nil {
			return nil, err
		}
		return []Value{ipairsIter, t, 0.0}, nil
	}))
	g.Set("type", bi("type", func(in *interp, args []Value) ([]Value, error) {
		if err := checkAny(args, 0, "type"); err != nil {
			return nil, err
		}
		return []Value{typeName(args[0])}, nil
	}))
	g.Set("tostring", bi("tostring", func(in *interp, args []Value) ([]Value, error) {
		if err := checkAny(args, 0, "tostring"); err != nil {
			return nil, err
		}
		return []Value{toStringValue(args[0])}, nil
	}))
	g.Set("tonumber", bi("tonumber", baseToNumber))
	unpack := bi("unpack", baseUnpack)
	g.Set("unpack", unpack)
	g.Set("select", bi("select", func(in *interp, args []Value) ([]Value, error) {
		if s, ok := arg(args, 0).(string); ok && s == "#" {
			return []Value{float64(len(args) - 1)}, nil
		}
		n, err := checkInt(args, 0, "select")
		if err != nil {
			return nil, err
		}
		top := int64(len(args))
		if n < 0 {
			n = top + n
		} else if n > top {
			n = top
		}
		if n < 1 {
			return nil, badArg(0, "select", "index out of range")
		}
		return args[n:], nil
	}))
	g.Set("rawequal", bi("rawequal", func(in *interp, args []Value) ([]Value, error) {
		if err := checkAny(args, 0, "rawequal"); err != nil {
			return nil, err
		}
		if err := checkAny(args, 1, "rawequal"); err != nil {
			return nil, err
		}
		return []Value{rawEqual(args[0], args[1])}, nil
	}))
	g.Set("rawget", bi("rawget", func(in *interp, args []Value) ([]Value, error) {
		t, err := checkTable(args, 0, "rawget")
		if err != nil {
			return nil, err
		}
		if err := checkAny(args, 1, "rawget"); err != nil {
			return nil, err
		}
		return []Value{t.Get(args[1])}, nil
	}))
	g.Set("rawset", bi("rawset", func(in *interp, args []Value) ([]Value, error) {
		t, err := checkTable(args, 0, "rawset")
		if err != nil {
			return nil, err
		}
		if len(args) < 3 {
			return nil, badArg(len(args), "rawset", "value expected")
		}
		if in.readonly[t] || t == in.globals {
			return nil, libErr("Attempt to modify a readonly table")
		}
		if args[1] == nil {
			return nil, libErr("table index is nil")
		}
		if f, ok := args[1].(float64); ok && f != f {
			return nil, libErr("table index is NaN")
		}
		t.Set(args[1], args[2])
		return []Value{t}, nil
	}))
	g.Set("error", bi("error", func(in *interp, args []Value) ([]Value, error) {
		level, err := optInt(args, 1, "error", 1)
		if err != nil {
			return nil, err
		}
		v := arg(args, 0)
		if s, ok := v.(string); ok && level > 0 {
			return nil, &posError{msg: s}
		}
		return nil, &luaError{value: v}
	}))
	g.Set("assert", bi("assert", func(in *interp, args []Value) ([]Value, error) {
		if err := checkAny(args, 0, "assert"); err != nil {
			return nil, err
		}
		if truthy(args[0]) {
			return args, nil
		}
		msg, err := optString(args, 1, "assert", "assertion failed!")
		if err != nil {
			return nil, err
		}
		return nil, &luaError{value: msg}
	}))
	g.Set("pcall", bi("pcall", func(in *interp, args []Value) ([]Value, error) {
		if err := checkAny(args, 0, "pcall"); err != nil {
			return nil, err
		}
		rets, err := in.callValue(args[0], args[1:], 0)
		if err != nil {
			if le, ok := err.(*luaError); ok {
				return []Value{false, le.value}, nil
			}
			return nil, err
		}
		return append([]Value{true}, rets...), nil
	}))
	g.Set("print", bi("print", func(in *interp, args []Value) ([]Value, error) { return nil, nil }))
	g.Set("_VERSION", "Lua 5.1")

	// table library
	tbl := NewTable()
	tbl.Set("unpack", unpack) // convenience alias (Lua 5.2 name); Redis 5.1 only has the global unpack
	tbl.Set("insert", bi("insert", tableInsert))
	tbl.Set("remove", bi("remove", tableRemove))
	tbl.Set("concat", bi("concat", tableConcat))
	tbl.Set("sort", bi("sort", tableSort))
	tbl.Set("getn", bi("getn", func(in *interp, args []Value) ([]Value, error) {
		t, err := checkTable(args, 0, "getn")
		if err != nil {
			return nil, err
		}
		return []Value{float64(t.Len())}, nil
	}))
	tbl.Set("maxn", bi("maxn", func(in *interp, args []Value) ([]Value, error) {
		t, err := checkTable(args, 0, "maxn")
		if err != nil {
			return nil, err
		}
		max := 0.0
		var k Value
		for {
			nk, _, _ := t.next(k)
			if nk == nil {
				break
			}
			if f, ok := nk.(float64); ok && f > max {
				max = f
			}
			k = nk
		}
		return []Value{max}, nil
	}))
	g.Set("table", tbl)
	in.readonly[tbl] = true

	// math library
	m := NewTable()
	math1 := func(name string, f func(float64) float64) {
		m.Set(name, bi(name, func(in *interp, args []Value) ([]Value, error) {
			x, err := checkNumber(args, 0, name)
			if err != nil {
				return nil, err
			}
			return []Value{f(x)}, nil
		}))
	}
	math1("floor", math.Floor)
	math1("ceil", math.Ceil)
	math1("abs", math.Abs)
	math1("sqrt", math.Sqrt)
	math1("exp", math.Exp)
	math1("log", math.Log)
	math1("log10", math.Log10)
	math2 := func(name string, f func(a, b float64) float64) {
		m.Set(name, bi(name, func(in *interp, args []Value) ([]Value, error) {
			x, err := checkNumber(args, 0, name)
			if err != nil {
				return nil, err
			}
			y, err := checkNumber(args, 1, name)
			if err != nil {
				return nil, err
			}
			return []Value{f(x, y)}, nil
		}))
	}
	math2("fmod", math.Mod)
	math2("pow", math.Pow)
	minmax := func(name string, better func(a, b float64) bool) {
		m.Set(name, bi(name, func(in *interp, args []Value) ([]Value, error) {
			best, err := checkNumber(args, 0, name)
			if err != nil {
				return nil, err
			}
			for i := 1; i < len(args); i++ {
				x, err := checkNumber(args, i, name)
				if err != nil {
					return nil, err
				}
				if better(x, best) {
					best = x
				}
			}
			return []Value{best}, nil
		}))
	}
	minmax("max", func(a, b float64) bool { return a > b })
	minmax("min", func(a, b float64) bool { return a < b })
	m.Set("modf", bi("modf", func(in *interp, args []Value) ([]Value, error) {
		x, err := checkNumber(args, 0, "modf")
		if err != nil {
			return nil, err
		}
		if math.IsInf(x, 0) {
			return []Value{x, 0.0}, nil
		}
		ip, fp := math.Modf(x)
		return []Value{ip, fp}, nil
	}))
	m.Set("huge", math.Inf(1))
	m.Set("pi", math.Pi)
	g.Set("math", m)
	in.readonly[m] = true

	in.installStringLib()
	in.installRedisLib()
}

func baseToNumber(in *interp, args []Value) ([]Value, error) {
	base, err := optInt(args, 1, "tonumber", 10)
	if err != nil {
		return nil, err
	}
	if base == 10 {
		if err := checkAny(args, 0, "tonumber"); err != nil {
			return nil, err
		}
		if f, ok := toNumber(args[0]); ok {
			return []Value{f}, nil
		}
		return []Value{nil}, nil
	}
	s, err := checkString(args, 0, "tonumber")
	if err != nil {
		return nil, err
	}
	if base < 2 || base > 36 {
		return nil, badArg(1, "tonumber", "base out of range")
	}
	// strtoul semantics
	i := 0
	for i < len(s) && isSpace(s[i]) {
		i++
	}
	neg := false
	if i < len(s) && (s[i] == '+' || s[i] == '-') {
		neg = s[i] == '-'
		i++
	}
	if base == 16 && i+2 < len(s) && s[i] == '0' && (s[i+1] == 'x' || s[i+1] == 'X') && digitVal(s[i+2]) < 16 {
		i += 2
	}
	start := i
	var n uint64
	overflow := false
	for i < len(s) {
		d := digitVal(s[i])
		if d < 0 || int64(d) >= base {
			break
		}
		hi, lo := mul64(n, uint64(base))
		if hi != 0 || lo+uint64(d) < lo {
			overflow = true
		}
		n = lo + uint64(d)
		i++
	}
	if i == start {
		return []Value{nil}, nil
	}
	for i < len(s) && isSpace(s[i]) {
		i++
	}
	if i != len(s) {
		return []Value{nil}, nil
	}
	if overflow {
		n = math.MaxUint64
	} else if neg {
		n = -n
	}
	return []Value{float64(n)}, nil
}

func mul64(a, b uint64) (hi, lo uint64) {
	const mask = 1<<32 - 1
	a0, a1 := a&mask, a>>32
	b0, b1 := b&mask, b>>32
	w0 := a0 * b0
	t := a1*b0 + w0>>32
	w1 := t&mask + a0*b1
	hi = a1*b1 + t>>32 + w1>>32
	lo = a * b
	return
}

func digitVal(c byte) int {
	switch {
	case c >= '0' && c <= '9':
		return int(c - '0')
	case c >= 'a' && c <= 'z':
		return int(c-'a') + 10
	case c >= 'A' && c <= 'Z':
		return int(c-'A') + 10
	}
	return -1
}

func baseUnpack(in *interp, args []Value) ([]Value, error) {
	t, err := checkTable(args, 0, "unpack")
	if err != nil {
		return nil, err
	}
	i, err := optInt(args, 1, "unpack", 1)
	if err != nil {
		return nil, err
	}
	j, err := optInt(args, 2, "unpack", int64(t.Len()))
	if err != nil {
		return nil, err
	}
	if i > j {
		return nil, nil
	}
	n := j - i + 1
	if n <= 0 || n > maxUnpack {
		return nil, libErr("too many results to unpack")
	}
	out := make([]Value, 0, n)
	for k := i; k <= j; k++ {
		out = append(out, t.Get(float64(k)))
	}
	return out, nil
}

func (in *interp) checkWritable(t *Table) error {
	if in.readonly[t] || t == in.globals {
		return libErr("Attempt to modify a readonly table")
	}
	return nil
}

func tableInsert(in *interp, args []Value) ([]Value, error) {
	t, err := checkTable(args, 0, "insert")
	if err != nil {
		return nil, err
	}
	if err := in.checkWritable(t); err != nil {
		return nil, err
	}
	e := int64(t.Len()) + 1
	var pos int64
	switch len(args) {
	case 2:
		pos = e
	case 3:
		pos, err = checkInt(args, 1, "insert")
		if err != nil {
			return nil, err
		}
		if pos > e {
			e = pos
		}
		for i := e; i > pos; i-- {
			if err := in.step(); err != nil {
				return nil, err
			}
			t.Set(float64(i), t.Get(float64(i-1)))
		}
	default:
		return nil, libErr("wrong number of arguments to 'insert'")
	}
	t.Set(float64(pos), args[len(args)-1])
	return nil, nil
}

func tableRemove(in *interp, args []Value) ([]Value, error) {
	t, err := checkTable(args, 0, "remove")
	if err != nil {
		return nil, err
	}
	if err := in.checkWritable(t); err != nil {
		return nil, err
	}
	e := int64(t.Len())
	pos, err := optInt(args, 1, "remove", e)
	if err != nil {
		return nil, err
	}
	if !(1 <= pos && pos <= e) {
		return nil, nil
	}
	v := t.Get(float64(pos))
	for ; pos < e; pos++ {
		if err := in.step(); err != nil {
			return nil, err
		}
		t.Set(float64(pos), t.Get(float64(pos+1)))
	}
	t.Set(float64(e), nil)
	return []Value{v}, nil
}

func tableConcat(in *interp, args []Value) ([]Value, error) {
	t, err := checkTable(args, 0, "concat")
	if err != nil {
		return nil, err
	}
	sep, err := optString(args, 1, "concat", "")
	if err != nil {
		return nil, err
	}
	i, err := optInt(args, 2, "concat", 1)
	if err != nil {
		return nil, err
	}
	j, err := optInt(args, 3, "concat", int64(t.Len()))
	if err != nil {
		return nil, err
	}
	var sb strings.Builder
	for k := i; k <= j; k++ {
		if err := in.step(); err != nil {
			return nil, err
		}
		s, ok := toStringCoerce(t.Get(float64(k)))
		if !ok {
			return nil, badArg(0, "concat", "table contains non-strings")
		}
		sb.WriteString(s)
		if k != j {
			sb.WriteString(sep)
		}
		if sb.Len() > maxStringLen {
			return nil, &limitError{msg: "ERR luamini: string too large"}
		}
	}
	return []Value{sb.String()}, nil
}

func tableSort(in *interp, args []Value) ([]Value, error) {
	t, err := checkTable(args, 0, "sort")
	if err != nil {
		return nil, err
	}
	if err := in.checkWritable(t); err != nil {
		return nil, err
	}
	cmp := arg(args, 1)
	if cmp != nil {
		if _, ok := cmp.(*Function); !ok {
			return nil, typeErr(args, 1, "sort", "function")
		}
	}
	n := t.Len()
	vals := make([]Value, n)
	for i := 0; i < n; i++ {
		vals[i] = t.Get(float64(i + 1))
	}
	var sortErr error
	less := func(a, b Value) bool {
		if sortErr != nil {
			return false
		}
		if cmp != nil {
			rets, err := in.callValue(cmp, []Value{a, b}, 0)
			if err != nil {
				sortErr = err
				return false
			}
			return len(rets) > 0 && truthy(rets[0])
		}
		r, err := in.binary("<", a, b, 0)
		if err != nil {
			if le, ok := err.(*luaError); ok {
				// strip the bogus position added for line 0
				if s, ok := le.value.(string); ok {
					s = strings.TrimPrefix(s, chunkName+":0: ")
					err = &posError{msg: s}
				}
			}
			sortErr = err
			return false
		}
		return r.(bool)
	}
	sort.SliceStable(vals, func(i, j int) bool { return less(vals[i], vals[j]) })
	if sortErr != nil {
		return nil, sortErr
	}
	for i, v := range vals {
		t.Set(float64(i+1), v)
	}
	return nil, nil
}
