package luamini

// Expressions

type expr interface{ exprLine() int }

type (
	nilExpr    struct{ line int }
	trueExpr   struct{ line int }
	falseExpr  struct{ line int }
	numberExpr struct {
		line int
		v    float64
	}
	stringExpr struct {
		line int
		v    string
	}
	// nameExpr is a variable reference. It is resolved at run time by walking scopes; unresolved names are globals.
	nameExpr struct {
		line int
		name string
	}
	indexExpr struct {
		line int
		obj  expr
		key  expr
	}
	callExpr struct {
		line   int
		fn     expr
		args   []expr
		method string // non-empty for obj:method(args)
	}
	funcExpr struct {
		line   int
		name   string
		params []string
		body   []stmt
	}
	binExpr struct {
		line int
		op   string
		l, r expr
	}
	unExpr struct {
		line int
		op   string
		e    expr
	}
	parenExpr struct {
		line int
		e    expr
	}
	tableField struct {
		key expr // nil for positional items
		val expr
	}
	tableExpr struct {
		line   int
		fields []tableField
	}
)

func (e *nilExpr) exprLine() int    { return e.line }
func (e *trueExpr) exprLine() int   { return e.line }
func (e *falseExpr) exprLine() int  { return e.line }
func (e *numberExpr) exprLine() int { return e.line }
func (e *stringExpr) exprLine() int { return e.line }
func (e *nameExpr) exprLine() int   { return e.line }
func (e *indexExpr) exprLine() int  { return e.line }
func (e *callExpr) exprLine() int   { return e.line }
func (e *funcExpr) exprLine() int   { return e.line }
func (e *binExpr) exprLine() int    { return e.line }
func (e *unExpr) exprLine() int     { return e.line }
func (e *parenExpr) exprLine() int  { return e.line }
func (e *tableExpr) exprLine() int  { return e.line }

// Statements

type stmt interface{ stmtLine() int }

type (
	localStmt struct {
		line  int
		names []string
		exprs []expr
	}
	localFuncStmt struct {
		line int
		name string
		fn   *funcExpr
	}
	assignStmt struct {
		line    int
		targets []expr // nameExpr or indexExpr
		exprs   []expr
	}
	callStmt struct {
		line int
		call *callExpr
	}
	doStmt struct {
		line int
		body []stmt
	}
	whileStmt struct {
		line int
		cond expr
		body []stmt
	}
	repeatStmt struct {
		line int
		body []stmt
		cond expr
	}
	ifStmt struct {
		line  int
		conds []expr
		thens [][]stmt
		els   []stmt // nil when absent
		hasEl bool
	}
	numForStmt struct {
		line             int
		name             string
		start, stop, stp expr
		body             []stmt
	}
	genForStmt struct {
		line  int
		names []string
		exprs []expr
		body  []stmt
	}
	returnStmt struct {
		line  int
		exprs []expr
	}
	breakStmt struct{ line int }
)

func (s *localStmt) stmtLine() int     { return s.line }
func (s *localFuncStmt) stmtLine() int { return s.line }
func (s *assignStmt) stmtLine() int    { return s.line }
func (s *callStmt) stmtLine() int      { return s.line }
func (s *doStmt) stmtLine() int        { return s.line }
func (s *whileStmt) stmtLine() int     { return s.line }
func (s *repeatStmt) stmtLine() int    { return s.line }
func (s *ifStmt) stmtLine() int        { return s.line }
func (s *numForStmt) stmtLine() int    { return s.line }
func (s *genForStmt) stmtLine() int    { return s.line }
func (s *returnStmt) stmtLine() int    { return s.line }
func (s *breakStmt) stmtLine() int     { return s.line }
