// Package luamini is a small Lua 5.1-subset interpreter sufficient to run the
// Lua scripts that the rueidis client library sends with EVAL/EVALSHA.
//
// It is a tree-walking interpreter that favours fidelity over speed. The environment mimics the one of
// Redis 7 scripts:
//
//   - the global table is read-only: creating or overwriting a global raises an error, and reading an
//     undefined global raises "Script attempted to access nonexistent global variable" (so libraries that
//     are not provided, e.g. cjson, cmsgpack, bit, struct, os, fail loudly instead of evaluating to nil);
//   - the library tables redis, string, table and math are read-only, KEYS and ARGV are ordinary tables;
//   - an error reply received by redis.call is raised as the table {err=msg} (as Redis 7 does), so an uncaught
//     one surfaces from Run as *ErrorReply carrying the command's message unchanged;
//   - other uncaught errors surface as *ErrorReply "ERR user_script:LINE: message".
//
// Not supported (reported as *UnsupportedError, by Compile where the construct is syntactic, by Run for library
// functions): varargs, goto/labels, operators and escapes newer than Lua 5.1, Lua patterns (string.match,
// gmatch, gsub and string.find with magic characters), redis.setresp(3). Metatables, coroutines, loadstring,
// setfenv and friends do not exist at all.
//
// Known deviations from the reference implementation: error(msg, 2) reports the position of the call to error
// rather than of the caller's caller; pairs() iterates the array part first and then the other keys in insertion
// order (the reference order is unspecified); table.sort is stable; strings built by a script are limited to
// 64MB and the interpreter stops after Script.MaxSteps steps (DefaultMaxSteps when zero); Lua-to-Lua recursion
// is limited to a few thousand levels ("stack overflow"); table.unpack exists as an alias of unpack.
package luamini

import (
	"fmt"
	"math"
	"strconv"
	"strings"
)

// Value is a Lua value: nil, bool, float64 (all Lua numbers), string, *Table, or *Function.
type Value any

// Function is a Lua function value: either a closure over a parsed function body or a Go builtin.
type Function struct {
	name    string
	proto   *funcExpr
	env     *scope
	builtin func(in *interp, args []Value) ([]Value, error)
}

// Table is a Lua table with an array part and a hash part.
type Table struct {
	arr []Value // arr[i] holds key i+1
	// The hash part keeps insertion order so that pairs() is deterministic. Removed fields stay behind as dead
	// entries (val == nil) until the next compaction, which only happens when a new key is inserted; this keeps
	// "assign nil to existing fields while traversing" working, exactly what Lua guarantees.
	hash    map[Value]int // key -> index in entries
	entries []hashEntry
	live    int
}

type hashEntry struct {
	key Value
	val Value
}

// NewTable returns an empty table.
func NewTable() *Table { return &Table{} }

// Len implements the Lua # operator (border of the array part).
func (t *Table) Len() int {
	n := len(t.arr)
	if n > 0 && t.arr[n-1] == nil {
		// binary search for a border inside the array part, as Lua 5.1 luaH_getn does
		i, j := 0, n
		for j-i > 1 {
			m := (i + j) / 2
			if t.arr[m-1] == nil {
				j = m
			} else {
				i = m
			}
		}
		return i
	}
	return n
}

// setList stores positional constructor items starting at index 1, keeping holes in the array part
// (this mirrors the array preallocation done by the reference implementation for constructors).
func (t *Table) setList(vals []Value) {
	if len(t.arr) == 0 && t.live == 0 {
		t.arr = append(t.arr, vals...)
		return
	}
	for i, v := range vals {
		t.Set(float64(i+1), v)
	}
}

// arrayIndex reports whether k is a positive integral number usable as an array index.
func arrayIndex(k Value) (int, bool) {
	f, ok := k.(float64)
	if !ok {
		return 0, false
	}
	if f >= 1 && f <= float64(math.MaxInt32) && f == math.Floor(f) {
		return int(f), true
	}
	return 0, false
}

func hashable(k Value) bool {
	switch x := k.(type) {
	case nil:
		return false
	case float64:
		return x == x
	case bool, string, *Table, *Function:
		return true
	}
	return false
}

func (t *Table) hashGet(k Value) Value {
	if t.hash == nil {
		return nil
	}
	if idx, ok := t.hash[k]; ok {
		return t.entries[idx].val
	}
	return nil
}

// Get returns t[k] (raw access), nil when absent.
func (t *Table) Get(k Value) Value {
	if !hashable(k) {
		return nil
	}
	if f, ok := k.(float64); ok && f == 0 {
		k = 0.0 // -0 and 0 are the same key
	}
	if i, ok := arrayIndex(k); ok && i <= len(t.arr) {
		return t.arr[i-1]
	}
	return t.hashGet(k)
}

// Set performs t[k] = v (raw). Setting a nil or NaN key is ignored here; the
// interpreter reports the error before calling Set.
func (t *Table) Set(k, v Value) {
	if !hashable(k) {
		return
	}
	if f, ok := k.(float64); ok && f == 0 {
		k = 0.0
	}
	if i, ok := arrayIndex(k); ok {
		n := len(t.arr)
		switch {
		case i <= n:
			t.arr[i-1] = v
			if v == nil && i == n {
				// shrink: drop trailing nils
				j := n - 1
				for j > 0 && t.arr[j-1] == nil {
					j--
				}
				t.arr = t.arr[:j]
			}
			return
		case i == n+1:
			t.hashSet(k, nil)
			if v == nil {
				return
			}
			t.arr = append(t.arr, v)
			// migrate following keys from the hash part
			for t.live > 0 {
				nk := float64(len(t.arr) + 1)
				nv := t.hashGet(nk)
				if nv == nil {
					break
				}
				t.hashSet(nk, nil)
				t.arr = append(t.arr, nv)
			}
			return
		}
	}
	t.hashSet(k, v)
}

func (t *Table) hashSet(k, v Value) {
	if idx, ok := t.hash[k]; ok {
		e := &t.entries[idx]
		switch {
		case e.val == nil && v != nil:
			t.live++
		case e.val != nil && v == nil:
			t.live--
		}
		e.val = v
		return
	}
	if v == nil {
		return
	}
	if t.hash == nil {
		t.hash = map[Value]int{}
	}
	if dead := len(t.entries) - t.live; dead > 8 && dead > t.live {
		// compact (the equivalent of a rehash; like in Lua it only happens when a new key is inserted)
		kept := make([]hashEntry, 0, t.live+1)
		for _, e := range t.entries {
			if e.val != nil {
				kept = append(kept, e)
			}
		}
		t.entries = kept
		t.hash = make(map[Value]int, len(kept)+1)
		for i, e := range kept {
			t.hash[e.key] = i
		}
	}
	t.hash[k] = len(t.entries)
	t.entries = append(t.entries, hashEntry{key: k, val: v})
	t.live++
}

// Append performs t[#t+1] = v.
func (t *Table) Append(v Value) {
	t.Set(float64(t.Len()+1), v)
}

// next implements the Lua next() primitive: array part in order, then hash keys in insertion order.
// The boolean is false when k is not a key of the table.
func (t *Table) next(k Value) (Value, Value, bool) {
	arrStart, hashStart := 0, 0
	if k != nil {
		if f, ok := k.(float64); ok && f == 0 {
			k = 0.0
		}
		if !hashable(k) {
			return nil, nil, false
		}
		i, isIdx := arrayIndex(k)
		if isIdx && i <= len(t.arr) {
			arrStart = i
		} else if idx, ok := t.hash[k]; ok {
			arrStart, hashStart = len(t.arr), idx+1
		} else if isIdx {
			// an index that was just removed from the (now shrunk) tail of the array part
			arrStart = len(t.arr)
		} else {
			return nil, nil, false
		}
	}
	for i := arrStart; i < len(t.arr); i++ {
		if t.arr[i] != nil {
			return float64(i + 1), t.arr[i], true
		}
	}
	for i := hashStart; i < len(t.entries); i++ {
		if e := t.entries[i]; e.val != nil {
			return e.key, e.val, true
		}
	}
	return nil, nil, true
}

// ErrorReply is returned by a Caller to signal a Redis error reply.
type ErrorReply struct{ Msg string }

func (e *ErrorReply) Error() string { return e.Msg }

// StatusReply represents a Redis simple-string reply such as OK.
type StatusReply struct{ Msg string }

// Caller executes one Redis command issued by the script.
type Caller func(args []string) (reply any, err error)

// UnsupportedError reports a construct outside the supported Lua subset.
type UnsupportedError struct {
	Construct string
	Line      int
}

func (e *UnsupportedError) Error() string {
	return fmt.Sprintf("luamini: unsupported construct %q at line %d", e.Construct, e.Line)
}

// SyntaxError reports malformed Lua source.
type SyntaxError struct {
	Msg  string
	Line int
}

func (e *SyntaxError) Error() string {
	return fmt.Sprintf("luamini: syntax error at line %d: %s", e.Line, e.Msg)
}

func typeName(v Value) string {
	switch v.(type) {
	case nil:
		return "nil"
	case bool:
		return "boolean"
	case float64:
		return "number"
	case string:
		return "string"
	case *Table:
		return "table"
	case *Function:
		return "function"
	}
	return "userdata"
}

func truthy(v Value) bool {
	if v == nil {
		return false
	}
	if b, ok := v.(bool); ok {
		return b
	}
	return true
}

// fmtG formats f like C's printf("%.<prec>g").
func fmtG(f float64, prec int) string {
	switch {
	case math.IsNaN(f):
		if math.Signbit(f) {
			return "-nan"
		}
		return "nan"
	case math.IsInf(f, 1):
		return "inf"
	case math.IsInf(f, -1):
		return "-inf"
	}
	s := strconv.FormatFloat(f, 'g', prec, 64)
	// Go emits exponents like e+07 (at least two digits) just as C does; nothing to fix there.
	return s
}

// numberToString implements Lua 5.1 tostring for numbers (LUA_NUMBER_FMT "%.14g").
func numberToString(f float64) string { return fmtG(f, 14) }

// numberToRedisArg formats a number argument as Redis does for redis.call ("%.17g").
func numberToRedisArg(f float64) string { return fmtG(f, 17) }

// strToNumber implements Lua 5.1 luaO_str2d: decimal (strtod) or hex integer, surrounding whitespace allowed.
func strToNumber(s string) (float64, bool) {
	s = strings.Trim(s, " \t\n\r\f\v")
	if s == "" {
		return 0, false
	}
	body := s
	neg := false
	if body[0] == '+' || body[0] == '-' {
		neg = body[0] == '-'
		body = body[1:]
	}
	// strtod of the C library used by Redis builds (glibc) also accepts these spellings
	switch strings.ToLower(body) {
	case "inf", "infinity":
		if neg {
			return math.Inf(-1), true
		}
		return math.Inf(1), true
	case "nan":
		return math.NaN(), true
	}
	if body == "" || !((body[0] >= '0' && body[0] <= '9') || body[0] == '.') {
		return 0, false
	}
	if len(body) > 1 && body[0] == '0' && (body[1] == 'x' || body[1] == 'X') {
		// hexadecimal integer, or C99 hexadecimal float (mantissa digits with optional '.', optional p exponent)
		h := body[2:]
		mant, exp := h, ""
		if i := strings.IndexAny(h, "pP"); i >= 0 {
			mant, exp = h[:i], h[i+1:]
			if exp == "" {
				return 0, false
			}
			e := exp
			if e[0] == '+' || e[0] == '-' {
				e = e[1:]
			}
			if e == "" {
				return 0, false
			}
			for i := 0; i < len(e); i++ {
				if !isDigit(e[i]) {
					return 0, false
				}
			}
		} else {
			exp = "0"
		}
		digits, dots := 0, 0
		for i := 0; i < len(mant); i++ {
			switch {
			case mant[i] == '.':
				dots++
			case hexVal(mant[i]) >= 0:
				digits++
			default:
				return 0, false
			}
		}
		if digits == 0 || dots > 1 {
			return 0, false
		}
		f, err := strconv.ParseFloat("0x"+mant+"p"+exp, 64)
		if err != nil {
			if ne, ok := err.(*strconv.NumError); !ok || ne.Err != strconv.ErrRange {
				return 0, false
			}
		}
		if neg {
			f = -f
		}
		return f, true
	}
	// reject forms accepted by Go but not by a plain decimal strtod subset we want: underscores, "inf", "nan", hex floats
	for i := 0; i < len(body); i++ {
		c := body[i]
		if !(c >= '0' && c <= '9') && c != '.' && c != 'e' && c != 'E' && c != '+' && c != '-' {
			return 0, false
		}
	}
	f, err := strconv.ParseFloat(body, 64)
	if err != nil {
		if ne, ok := err.(*strconv.NumError); !ok || ne.Err != strconv.ErrRange {
			return 0, false
		}
	}
	if neg {
		f = -f
	}
	return f, true
}

func hexVal(c byte) int {
	switch {
	case c >= '0' && c <= '9':
		return int(c - '0')
	case c >= 'a' && c <= 'f':
		return int(c-'a') + 10
	case c >= 'A' && c <= 'F':
		return int(c-'A') + 10
	}
	return -1
}

// toNumber performs Lua arithmetic coercion.
func toNumber(v Value) (float64, bool) {
	switch x := v.(type) {
	case float64:
		return x, true
	case string:
		return strToNumber(x)
	}
	return 0, false
}

// toStringCoerce performs the string coercion used by `..` and string library arguments.
func toStringCoerce(v Value) (string, bool) {
	switch x := v.(type) {
	case string:
		return x, true
	case float64:
		return numberToString(x), true
	}
	return "", false
}

// toStringValue implements tostring().
func toStringValue(v Value) string {
	switch x := v.(type) {
	case nil:
		return "nil"
	case bool:
		if x {
			return "true"
		}
		return "false"
	case float64:
		return numberToString(x)
	case string:
		return x
	case *Table:
		return fmt.Sprintf("table: %p", x)
	case *Function:
		if x.builtin != nil {
			return fmt.Sprintf("builtin: %p", x)
		}
		return fmt.Sprintf("function: %p", x)
	}
	return fmt.Sprintf("%v", v)
}
