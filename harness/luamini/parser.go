package luamini

import "fmt"

const maxParseDepth = 200

type parser struct {
	toks      []token
	pos       int
	depth     int
	loopDepth []int // stack per function: current loop nesting
}

func (p *parser) cur() token { return p.toks[p.pos] }
func (p *parser) peek() token {
	if p.pos+1 < len(p.toks) {
		return p.toks[p.pos+1]
	}
	return p.toks[len(p.toks)-1]
}
func (p *parser) advance() token {
	t := p.toks[p.pos]
	if p.pos < len(p.toks)-1 {
		p.pos++
	}
	return t
}
func (p *parser) prevLine() int {
	if p.pos > 0 {
		return p.toks[p.pos-1].line
	}
	return 1
}

func (p *parser) isOp(s string) bool {
	t := p.cur()
	return t.kind == tOp && t.s == s
}
func (p *parser) isKw(s string) bool {
	t := p.cur()
	return t.kind == tKeyword && t.s == s
}

func tokText(t token) string {
	switch t.kind {
	case tEOF:
		return "<eof>"
	case tString:
		return fmt.Sprintf("%q", t.s)
	}
	return t.s
}

func (p *parser) errorf(format string, a ...any) error {
	t := p.cur()
	return &SyntaxError{Msg: fmt.Sprintf(format, a...) + " near '" + tokText(t) + "'", Line: t.line}
}

func (p *parser) expectOp(s string) error {
	if !p.isOp(s) {
		return p.errorf("'%s' expected", s)
	}
	p.advance()
	return nil
}
func (p *parser) expectKw(s string) error {
	if !p.isKw(s) {
		return p.errorf("'%s' expected", s)
	}
	p.advance()
	return nil
}
func (p *parser) expectName() (string, error) {
	t := p.cur()
	if t.kind != tName {
		return "", p.errorf("<name> expected")
	}
	p.advance()
	return t.s, nil
}

func (p *parser) enter() error {
	p.depth++
	if p.depth > maxParseDepth {
		return &SyntaxError{Msg: "chunk has too many syntax levels", Line: p.cur().line}
	}
	return nil
}
func (p *parser) leave() { p.depth-- }

func (p *parser) blockEnd() bool {
	t := p.cur()
	if t.kind == tEOF {
		return true
	}
	if t.kind == tKeyword {
		switch t.s {
		case "end", "else", "elseif", "until":
			return true
		}
	}
	return false
}

func (p *parser) parseBlock() ([]stmt, error) {
	if err := p.enter(); err != nil {
		return nil, err
	}
	defer p.leave()
	stmts := []stmt{}
	for !p.blockEnd() {
		s, last, err := p.parseStatement()
		if err != nil {
			return nil, err
		}
		if s != nil {
			stmts = append(stmts, s)
		}
		if p.isOp(";") {
			p.advance()
		}
		if last {
			if !p.blockEnd() {
				return nil, p.errorf("'end' expected")
			}
			break
		}
	}
	return stmts, nil
}

func (p *parser) inLoop() bool { return p.loopDepth[len(p.loopDepth)-1] > 0 }
func (p *parser) loopIn()      { p.loopDepth[len(p.loopDepth)-1]++ }
func (p *parser) loopOut()     { p.loopDepth[len(p.loopDepth)-1]-- }

func (p *parser) parseLoopBody() ([]stmt, error) {
	p.loopIn()
	defer p.loopOut()
	return p.parseBlock()
}

// parseStatement returns the statement and whether it must be the last one of its block.
func (p *parser) parseStatement() (stmt, bool, error) {
	t := p.cur()
	line := t.line
	if t.kind == tKeyword {
		switch t.s {
		case "if":
			s, err := p.parseIf()
			return s, false, err
		case "while":
			p.advance()
			cond, err := p.parseExpr()
			if err != nil {
				return nil, false, err
			}
			if err := p.expectKw("do"); err != nil {
				return nil, false, err
			}
			body, err := p.parseLoopBody()
			if err != nil {
				return nil, false, err
			}
			if err := p.expectKw("end"); err != nil {
				return nil, false, err
			}
			return &whileStmt{line: line, cond: cond, body: body}, false, nil
		case "do":
			p.advance()
			body, err := p.parseBlock()
			if err != nil {
				return nil, false, err
			}
			if err := p.expectKw("end"); err != nil {
				return nil, false, err
			}
			return &doStmt{line: line, body: body}, false, nil
		case "for":
			s, err := p.parseFor()
			return s, false, err
		case "repeat":
			p.advance()
			body, err := p.parseLoopBody()
			if err != nil {
				return nil, false, err
			}
			if err := p.expectKw("until"); err != nil {
				return nil, false, err
			}
			cond, err := p.parseExpr()
			if err != nil {
				return nil, false, err
			}
			return &repeatStmt{line: line, body: body, cond: cond}, false, nil
		case "function":
			s, err := p.parseFunctionStat()
			return s, false, err
		case "local":
			p.advance()
			if p.isKw("function") {
				p.advance()
				name, err := p.expectName()
				if err != nil {
					return nil, false, err
				}
				fn, err := p.parseFuncBody(line, name, false)
				if err != nil {
					return nil, false, err
				}
				return &localFuncStmt{line: line, name: name, fn: fn}, false, nil
			}
			var names []string
			for {
				n, err := p.expectName()
				if err != nil {
					return nil, false, err
				}
				if p.isOp("<") {
					return nil, false, &UnsupportedError{Construct: "local attribute <...> (not Lua 5.1)", Line: p.cur().line}
				}
				names = append(names, n)
				if !p.isOp(",") {
					break
				}
				p.advance()
			}
			var exprs []expr
			if p.isOp("=") {
				p.advance()
				var err error
				exprs, err = p.parseExprList()
				if err != nil {
					return nil, false, err
				}
			}
			return &localStmt{line: line, names: names, exprs: exprs}, false, nil
		case "return":
			p.advance()
			var exprs []expr
			if !p.blockEnd() && !p.isOp(";") {
				var err error
				exprs, err = p.parseExprList()
				if err != nil {
					return nil, false, err
				}
			}
			return &returnStmt{line: line, exprs: exprs}, true, nil
		case "break":
			p.advance()
			if !p.inLoop() {
				return nil, false, &SyntaxError{Msg: "no loop to break", Line: line}
			}
			return &breakStmt{line: line}, true, nil
		}
	}
	if t.kind == tName && t.s == "goto" && p.peek().kind == tName {
		return nil, false, &UnsupportedError{Construct: "goto (not Lua 5.1)", Line: line}
	}
	// expression statement: call or assignment
	e, err := p.parsePrimaryExpr()
	if err != nil {
		return nil, false, err
	}
	if p.isOp("=") || p.isOp(",") {
		targets := []expr{e}
		for p.isOp(",") {
			p.advance()
			e2, err := p.parsePrimaryExpr()
			if err != nil {
				return nil, false, err
			}
			targets = append(targets, e2)
		}
		for _, tg := range targets {
			switch tg.(type) {
			case *nameExpr, *indexExpr:
			default:
				return nil, false, &SyntaxError{Msg: "syntax error: cannot assign to this expression", Line: tg.exprLine()}
			}
		}
		if err := p.expectOp("="); err != nil {
			return nil, false, err
		}
		exprs, err := p.parseExprList()
		if err != nil {
			return nil, false, err
		}
		return &assignStmt{line: line, targets: targets, exprs: exprs}, false, nil
	}
	c, ok := e.(*callExpr)
	if !ok {
		return nil, false, p.errorf("syntax error: '=' expected")
	}
	return &callStmt{line: line, call: c}, false, nil
}

func (p *parser) parseIf() (stmt, error) {
	s := &ifStmt{line: p.cur().line}
	p.advance() // if
	for {
		cond, err := p.parseExpr()
		if err != nil {
			return nil, err
		}
		if err := p.expectKw("then"); err != nil {
			return nil, err
		}
		body, err := p.parseBlock()
		if err != nil {
			return nil, err
		}
		s.conds = append(s.conds, cond)
		s.thens = append(s.thens, body)
		if p.isKw("elseif") {
			p.advance()
			continue
		}
		break
	}
	if p.isKw("else") {
		p.advance()
		body, err := p.parseBlock()
		if err != nil {
			return nil, err
		}
		s.els = body
		s.hasEl = true
	}
	if err := p.expectKw("end"); err != nil {
		return nil, err
	}
	return s, nil
}

func (p *parser) parseFor() (stmt, error) {
	line := p.cur().line
	p.advance() // for
	n1, err := p.expectName()
	if err != nil {
		return nil, err
	}
	if p.isOp("=") {
		p.advance()
		start, err := p.parseExpr()
		if err != nil {
			return nil, err
		}
		if err := p.expectOp(","); err != nil {
			return nil, err
		}
		stop, err := p.parseExpr()
		if err != nil {
			return nil, err
		}
		var step expr
		if p.isOp(",") {
			p.advance()
			step, err = p.parseExpr()
			if err != nil {
				return nil, err
			}
		}
		if err := p.expectKw("do"); err != nil {
			return nil, err
		}
		body, err := p.parseLoopBody()
		if err != nil {
			return nil, err
		}
		if err := p.expectKw("end"); err != nil {
			return nil, err
		}
		return &numForStmt{line: line, name: n1, start: start, stop: stop, stp: step, body: body}, nil
	}
	names := []string{n1}
	for p.isOp(",") {
		p.advance()
		n, err := p.expectName()
		if err != nil {
			return nil, err
		}
		names = append(names, n)
	}
	if !p.isKw("in") {
		return nil, p.errorf("'=' or 'in' expected")
	}
	p.advance()
	exprs, err := p.parseExprList()
	if err != nil {
		return nil, err
	}
	if err := p.expectKw("do"); err != nil {
		return nil, err
	}
	body, err := p.parseLoopBody()
	if err != nil {
		return nil, err
	}
	if err := p.expectKw("end"); err != nil {
		return nil, err
	}
	return &genForStmt{line: line, names: names, exprs: exprs, body: body}, nil
}

// parseFunctionStat parses `function a.b.c:m(...) ... end` into an assignment.
func (p *parser) parseFunctionStat() (stmt, error) {
	line := p.cur().line
	p.advance() // function
	n, err := p.expectName()
	if err != nil {
		return nil, err
	}
	var target expr = &nameExpr{line: line, name: n}
	fullName := n
	isMethod := false
	for p.isOp(".") || p.isOp(":") {
		colon := p.isOp(":")
		p.advance()
		k, err := p.expectName()
		if err != nil {
			return nil, err
		}
		target = &indexExpr{line: line, obj: target, key: &stringExpr{line: line, v: k}}
		fullName += "." + k
		if colon {
			isMethod = true
			break
		}
	}
	fn, err := p.parseFuncBody(line, fullName, isMethod)
	if err != nil {
		return nil, err
	}
	return &assignStmt{line: line, targets: []expr{target}, exprs: []expr{fn}}, nil
}

func (p *parser) parseFuncBody(line int, name string, isMethod bool) (*funcExpr, error) {
	if err := p.expectOp("("); err != nil {
		return nil, err
	}
	fn := &funcExpr{line: line, name: name}
	if isMethod {
		fn.params = append(fn.params, "self")
	}
	if !p.isOp(")") {
		for {
			if p.isOp("...") {
				return nil, &UnsupportedError{Construct: "varargs (...)", Line: p.cur().line}
			}
			n, err := p.expectName()
			if err != nil {
				return nil, err
			}
			fn.params = append(fn.params, n)
			if !p.isOp(",") {
				break
			}
			p.advance()
		}
	}
	if err := p.expectOp(")"); err != nil {
		return nil, err
	}
	p.loopDepth = append(p.loopDepth, 0)
	body, err := p.parseBlock()
	p.loopDepth = p.loopDepth[:len(p.loopDepth)-1]
	if err != nil {
		return nil, err
	}
	if err := p.expectKw("end"); err != nil {
		return nil, err
	}
	fn.body = body
	return fn, nil
}

func (p *parser) parseExprList() ([]expr, error) {
	var out []expr
	for {
		e, err := p.parseExpr()
		if err != nil {
			return nil, err
		}
		out = append(out, e)
		if !p.isOp(",") {
			return out, nil
		}
		p.advance()
	}
}

// parsePrimaryExpr parses prefixexp with any number of suffixes (index, field, call, method call).
func (p *parser) parsePrimaryExpr() (expr, error) {
	t := p.cur()
	var e expr
	switch {
	case t.kind == tName:
		p.advance()
		e = &nameExpr{line: t.line, name: t.s}
	case t.kind == tOp && t.s == "(":
		p.advance()
		inner, err := p.parseExpr()
		if err != nil {
			return nil, err
		}
		if err := p.expectOp(")"); err != nil {
			return nil, err
		}
		e = &parenExpr{line: t.line, e: inner}
	default:
		return nil, p.errorf("unexpected symbol")
	}
	for {
		t := p.cur()
		if t.kind == tString {
			p.advance()
			e = &callExpr{line: t.line, fn: e, args: []expr{&stringExpr{line: t.line, v: t.s}}}
			continue
		}
		if t.kind != tOp {
			return e, nil
		}
		switch t.s {
		case ".":
			p.advance()
			n, err := p.expectName()
			if err != nil {
				return nil, err
			}
			e = &indexExpr{line: t.line, obj: e, key: &stringExpr{line: t.line, v: n}}
		case "[":
			p.advance()
			k, err := p.parseExpr()
			if err != nil {
				return nil, err
			}
			if err := p.expectOp("]"); err != nil {
				return nil, err
			}
			e = &indexExpr{line: t.line, obj: e, key: k}
		case ":":
			p.advance()
			n, err := p.expectName()
			if err != nil {
				return nil, err
			}
			args, err := p.parseCallArgs()
			if err != nil {
				return nil, err
			}
			e = &callExpr{line: t.line, fn: e, args: args, method: n}
		case "(", "{":
			args, err := p.parseCallArgs()
			if err != nil {
				return nil, err
			}
			e = &callExpr{line: t.line, fn: e, args: args}
		default:
			return e, nil
		}
	}
}

func (p *parser) parseCallArgs() ([]expr, error) {
	t := p.cur()
	switch {
	case t.kind == tString:
		p.advance()
		return []expr{&stringExpr{line: t.line, v: t.s}}, nil
	case t.kind == tOp && t.s == "{":
		te, err := p.parseTable()
		if err != nil {
			return nil, err
		}
		return []expr{te}, nil
	case t.kind == tOp && t.s == "(":
		if t.line != p.prevLine() {
			return nil, &SyntaxError{Msg: "ambiguous syntax (function call x new statement)", Line: t.line}
		}
		p.advance()
		if p.isOp(")") {
			p.advance()
			return nil, nil
		}
		args, err := p.parseExprList()
		if err != nil {
			return nil, err
		}
		if err := p.expectOp(")"); err != nil {
			return nil, err
		}
		return args, nil
	}
	return nil, p.errorf("function arguments expected")
}

func (p *parser) parseTable() (expr, error) {
	line := p.cur().line
	if err := p.expectOp("{"); err != nil {
		return nil, err
	}
	te := &tableExpr{line: line}
	for !p.isOp("}") {
		t := p.cur()
		switch {
		case t.kind == tName && p.peek().kind == tOp && p.peek().s == "=":
			p.advance()
			p.advance()
			v, err := p.parseExpr()
			if err != nil {
				return nil, err
			}
			te.fields = append(te.fields, tableField{key: &stringExpr{line: t.line, v: t.s}, val: v})
		case t.kind == tOp && t.s == "[":
			p.advance()
			k, err := p.parseExpr()
			if err != nil {
				return nil, err
			}
			if err := p.expectOp("]"); err != nil {
				return nil, err
			}
			if err := p.expectOp("="); err != nil {
				return nil, err
			}
			v, err := p.parseExpr()
			if err != nil {
				return nil, err
			}
			te.fields = append(te.fields, tableField{key: k, val: v})
		default:
			v, err := p.parseExpr()
			if err != nil {
				return nil, err
			}
			te.fields = append(te.fields, tableField{val: v})
		}
		if p.isOp(",") || p.isOp(";") {
			p.advance()
			continue
		}
		break
	}
	if !p.isOp("}") {
		return nil, p.errorf("'}' expected")
	}
	p.advance()
	return te, nil
}

type opPrio struct{ left, right int }

var binPrio = map[string]opPrio{
	"+": {6, 6}, "-": {6, 6}, "*": {7, 7}, "/": {7, 7}, "%": {7, 7},
	"^": {10, 9}, "..": {5, 4},
	"==": {3, 3}, "~=": {3, 3}, "<": {3, 3}, "<=": {3, 3}, ">": {3, 3}, ">=": {3, 3},
	"and": {2, 2}, "or": {1, 1},
}

const unaryPrio = 8

func (p *parser) parseExpr() (expr, error) { return p.parseSubExpr(0) }

func (p *parser) binOp() (string, bool) {
	t := p.cur()
	if t.kind == tOp {
		if _, ok := binPrio[t.s]; ok {
			return t.s, true
		}
	}
	if t.kind == tKeyword && (t.s == "and" || t.s == "or") {
		return t.s, true
	}
	return "", false
}

func (p *parser) parseSubExpr(limit int) (expr, error) {
	if err := p.enter(); err != nil {
		return nil, err
	}
	defer p.leave()
	var left expr
	t := p.cur()
	if (t.kind == tKeyword && t.s == "not") || (t.kind == tOp && (t.s == "-" || t.s == "#")) {
		p.advance()
		operand, err := p.parseSubExpr(unaryPrio)
		if err != nil {
			return nil, err
		}
		left = &unExpr{line: t.line, op: t.s, e: operand}
	} else {
		var err error
		left, err = p.parseSimpleExpr()
		if err != nil {
			return nil, err
		}
	}
	for {
		op, ok := p.binOp()
		if !ok || binPrio[op].left <= limit {
			return left, nil
		}
		line := p.cur().line
		p.advance()
		right, err := p.parseSubExpr(binPrio[op].right)
		if err != nil {
			return nil, err
		}
		left = &binExpr{line: line, op: op, l: left, r: right}
	}
}

func (p *parser) parseSimpleExpr() (expr, error) {
	t := p.cur()
	switch t.kind {
	case tNumber:
		p.advance()
		return &numberExpr{line: t.line, v: t.n}, nil
	case tString:
		p.advance()
		return &stringExpr{line: t.line, v: t.s}, nil
	case tKeyword:
		switch t.s {
		case "nil":
			p.advance()
			return &nilExpr{line: t.line}, nil
		case "true":
			p.advance()
			return &trueExpr{line: t.line}, nil
		case "false":
			p.advance()
			return &falseExpr{line: t.line}, nil
		case "function":
			p.advance()
			return p.parseFuncBody(t.line, "anonymous", false)
		}
	case tOp:
		switch t.s {
		case "{":
			return p.parseTable()
		case "...":
			return nil, &UnsupportedError{Construct: "varargs (...)", Line: t.line}
		}
	}
	return p.parsePrimaryExpr()
}

func parseChunk(src string) (*funcExpr, error) {
	toks, err := tokenize(src)
	if err != nil {
		return nil, err
	}
	p := &parser{toks: toks, loopDepth: []int{0}}
	body, err := p.parseBlock()
	if err != nil {
		return nil, err
	}
	if p.cur().kind != tEOF {
		return nil, p.errorf("'<eof>' expected")
	}
	return &funcExpr{line: 1, name: "main chunk", body: body}, nil
}
