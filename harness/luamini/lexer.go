package luamini

import (
	"strconv"
	"strings"
)

type tokKind int

const (
	tEOF tokKind = iota
	tName
	tNumber
	tString
	tKeyword
	tOp
)

type token struct {
	kind tokKind
	s    string  // name, keyword, operator text or string contents
	n    float64 // numeric literal
	line int
}

var keywords = map[string]bool{
	"and": true, "break": true, "do": true, "else": true, "elseif": true, "end": true,
	"false": true, "for": true, "function": true, "if": true, "in": true, "local": true,
	"nil": true, "not": true, "or": true, "repeat": true, "return": true, "then": true,
	"true": true, "until": true, "while": true,
}

type lexer struct {
	src  string
	pos  int
	line int
}

func isAlpha(c byte) bool {
	return c == '_' || (c >= 'a' && c <= 'z') || (c >= 'A' && c <= 'Z')
}
func isDigit(c byte) bool { return c >= '0' && c <= '9' }
func isSpace(c byte) bool {
	return c == ' ' || c == '\t' || c == '\n' || c == '\r' || c == '\f' || c == '\v'
}

func (lx *lexer) peekAt(off int) byte {
	if lx.pos+off < len(lx.src) {
		return lx.src[lx.pos+off]
	}
	return 0
}

// longBracketLevel returns the level of a long bracket opening at pos ("[[" -> 0, "[=[" -> 1), or -1.
func (lx *lexer) longBracketLevel() int {
	if lx.peekAt(0) != '[' {
		return -1
	}
	i := 1
	for lx.peekAt(i) == '=' {
		i++
	}
	if lx.peekAt(i) == '[' {
		return i - 1
	}
	return -1
}

func (lx *lexer) readLongString(level int, what string) (string, error) {
	startLine := lx.line
	lx.pos += level + 2
	// a newline directly after the opening bracket is skipped
	if lx.peekAt(0) == '\r' {
		lx.pos++
		if lx.peekAt(0) == '\n' {
			lx.pos++
		}
		lx.line++
	} else if lx.peekAt(0) == '\n' {
		lx.pos++
		if lx.peekAt(0) == '\r' {
			lx.pos++
		}
		lx.line++
	}
	closer := "]" + strings.Repeat("=", level) + "]"
	idx := strings.Index(lx.src[lx.pos:], closer)
	if idx < 0 {
		return "", &SyntaxError{Msg: "unfinished long " + what, Line: startLine}
	}
	body := lx.src[lx.pos : lx.pos+idx]
	lx.line += strings.Count(body, "\n")
	lx.pos += idx + len(closer)
	// normalise line endings as the reference lexer does
	body = strings.ReplaceAll(body, "\r\n", "\n")
	body = strings.ReplaceAll(body, "\n\r", "\n")
	body = strings.ReplaceAll(body, "\r", "\n")
	return body, nil
}

func (lx *lexer) skipSpaceAndComments() error {
	for lx.pos < len(lx.src) {
		c := lx.src[lx.pos]
		switch {
		case c == '\n':
			lx.line++
			lx.pos++
		case isSpace(c):
			lx.pos++
		case c == '-' && lx.peekAt(1) == '-':
			lx.pos += 2
			if lvl := lx.longBracketLevel(); lvl >= 0 {
				if _, err := lx.readLongString(lvl, "comment"); err != nil {
					return err
				}
				continue
			}
			for lx.pos < len(lx.src) && lx.src[lx.pos] != '\n' {
				lx.pos++
			}
		default:
			return nil
		}
	}
	return nil
}

func (lx *lexer) next() (token, error) {
	if err := lx.skipSpaceAndComments(); err != nil {
		return token{}, err
	}
	if lx.pos >= len(lx.src) {
		return token{kind: tEOF, line: lx.line}, nil
	}
	c := lx.src[lx.pos]
	line := lx.line
	switch {
	case isAlpha(c):
		st := lx.pos
		for lx.pos < len(lx.src) && (isAlpha(lx.src[lx.pos]) || isDigit(lx.src[lx.pos])) {
			lx.pos++
		}
		w := lx.src[st:lx.pos]
		if keywords[w] {
			return token{kind: tKeyword, s: w, line: line}, nil
		}
		if w == "goto" {
			// goto is not a keyword in Lua 5.1 but is in later versions; treat plain identifier use as a name.
			return token{kind: tName, s: w, line: line}, nil
		}
		return token{kind: tName, s: w, line: line}, nil
	case isDigit(c) || (c == '.' && isDigit(lx.peekAt(1))):
		return lx.readNumber()
	case c == '"' || c == '\'':
		return lx.readString(c)
	case c == '[':
		if lvl := lx.longBracketLevel(); lvl >= 0 {
			s, err := lx.readLongString(lvl, "string")
			if err != nil {
				return token{}, err
			}
			return token{kind: tString, s: s, line: line}, nil
		}
		lx.pos++
		return token{kind: tOp, s: "[", line: line}, nil
	}
	three := ""
	if lx.pos+3 <= len(lx.src) {
		three = lx.src[lx.pos : lx.pos+3]
	}
	if three == "..." {
		lx.pos += 3
		return token{kind: tOp, s: "...", line: line}, nil
	}
	if lx.pos+2 <= len(lx.src) {
		two := lx.src[lx.pos : lx.pos+2]
		switch two {
		case "==", "~=", "<=", ">=", "..":
			lx.pos += 2
			return token{kind: tOp, s: two, line: line}, nil
		case "::", "//", "<<", ">>":
			return token{}, &UnsupportedError{Construct: "operator " + two + " (not Lua 5.1)", Line: line}
		}
	}
	switch c {
	case '+', '-', '*', '/', '%', '^', '#', '<', '>', '=', '(', ')', '{', '}', ']', ';', ':', ',', '.':
		lx.pos++
		return token{kind: tOp, s: string(c), line: line}, nil
	case '&', '|', '~':
		return token{}, &UnsupportedError{Construct: "operator " + string(c) + " (not Lua 5.1)", Line: line}
	}
	return token{}, &SyntaxError{Msg: "unexpected symbol near '" + string(c) + "'", Line: line}
}

func (lx *lexer) readNumber() (token, error) {
	st := lx.pos
	line := lx.line
	if lx.src[lx.pos] == '0' && (lx.peekAt(1) == 'x' || lx.peekAt(1) == 'X') {
		lx.pos += 2
		for lx.pos < len(lx.src) && (isDigit(lx.src[lx.pos]) || isAlpha(lx.src[lx.pos])) {
			lx.pos++
		}
	} else {
		for lx.pos < len(lx.src) {
			ch := lx.src[lx.pos]
			if (ch == 'e' || ch == 'E') && (lx.peekAt(1) == '+' || lx.peekAt(1) == '-') {
				lx.pos += 2
				continue
			}
			if isDigit(ch) || ch == '.' || isAlpha(ch) {
				lx.pos++
				continue
			}
			break
		}
	}
	text := lx.src[st:lx.pos]
	f, ok := strToNumber(text)
	if !ok {
		return token{}, &SyntaxError{Msg: "malformed number near '" + text + "'", Line: line}
	}
	return token{kind: tNumber, n: f, s: text, line: line}, nil
}

func (lx *lexer) readString(q byte) (token, error) {
	line := lx.line
	lx.pos++
	var sb strings.Builder
	for {
		if lx.pos >= len(lx.src) {
			return token{}, &SyntaxError{Msg: "unfinished string", Line: line}
		}
		c := lx.src[lx.pos]
		switch {
		case c == q:
			lx.pos++
			return token{kind: tString, s: sb.String(), line: line}, nil
		case c == '\n' || c == '\r':
			return token{}, &SyntaxError{Msg: "unfinished string", Line: line}
		case c == '\\':
			lx.pos++
			if lx.pos >= len(lx.src) {
				return token{}, &SyntaxError{Msg: "unfinished string", Line: line}
			}
			e := lx.src[lx.pos]
			switch e {
			case 'a':
				sb.WriteByte('\a')
			case 'b':
				sb.WriteByte('\b')
			case 'f':
				sb.WriteByte('\f')
			case 'n':
				sb.WriteByte('\n')
			case 'r':
				sb.WriteByte('\r')
			case 't':
				sb.WriteByte('\t')
			case 'v':
				sb.WriteByte('\v')
			case '\n':
				sb.WriteByte('\n')
				lx.line++
				if lx.peekAt(1) == '\r' {
					lx.pos++
				}
			case '\r':
				sb.WriteByte('\n')
				lx.line++
				if lx.peekAt(1) == '\n' {
					lx.pos++
				}
			case 'x', 'z', 'u':
				return token{}, &UnsupportedError{Construct: "string escape \\" + string(e) + " (not Lua 5.1)", Line: lx.line}
			default:
				if isDigit(e) {
					v := 0
					n := 0
					for n < 3 && lx.pos < len(lx.src) && isDigit(lx.src[lx.pos]) {
						v = v*10 + int(lx.src[lx.pos]-'0')
						lx.pos++
						n++
					}
					if v > 255 {
						return token{}, &SyntaxError{Msg: "escape sequence too large (\\" + strconv.Itoa(v) + ")", Line: lx.line}
					}
					sb.WriteByte(byte(v))
					continue
				}
				// Lua 5.1: any other escaped character stands for itself
				sb.WriteByte(e)
			}
			lx.pos++
		default:
			sb.WriteByte(c)
			lx.pos++
		}
	}
}

func tokenize(src string) ([]token, error) {
	lx := &lexer{src: src, line: 1}
	// a first line starting with '#' is skipped by the reference loader; Redis scripts do not use it
	var toks []token
	for {
		t, err := lx.next()
		if err != nil {
			return nil, err
		}
		toks = append(toks, t)
		if t.kind == tEOF {
			return toks, nil
		}
	}
}
