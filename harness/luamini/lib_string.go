package luamini

import (
	"fmt"
	"strconv"
	"strings"
)

// maxStringLen bounds the size of any string built by a script (concatenation, string.rep, table.concat,
// string.format). Real Redis would allow up to 512MB; the harness never needs anything close to this and the
// bound protects the host from runaway scripts.
const maxStringLen = 64 << 20

// posRelat converts a relative (negative) string position as Lua's posrelat does.
func posRelat(pos int64, l int) int64 {
	if pos < 0 {
		pos += int64(l) + 1
	}
	if pos < 0 {
		return 0
	}
	return pos
}

// runtimeUnsupported is returned for library features outside the subset; it aborts the script (not catchable).
func runtimeUnsupported(what string) error {
	return &UnsupportedError{Construct: what}
}

func (in *interp) installStringLib() {
	s := NewTable()
	in.stringLib = s
	s.Set("len", bi("len", func(in *interp, args []Value) ([]Value, error) {
		str, err := checkString(args, 0, "len")
		if err != nil {
			return nil, err
		}
		return []Value{float64(len(str))}, nil
	}))
	s.Set("sub", bi("sub", func(in *interp, args []Value) ([]Value, error) {
		str, err := checkString(args, 0, "sub")
		if err != nil {
			return nil, err
		}
		i, err := checkInt(args, 1, "sub")
		if err != nil {
			return nil, err
		}
		j, err := optInt(args, 2, "sub", -1)
		if err != nil {
			return nil, err
		}
		start, end := posRelat(i, len(str)), posRelat(j, len(str))
		if start < 1 {
			start = 1
		}
		if end > int64(len(str)) {
			end = int64(len(str))
		}
		if start > end {
			return []Value{""}, nil
		}
		return []Value{str[start-1 : end]}, nil
	}))
	s.Set("lower", bi("lower", func(in *interp, args []Value) ([]Value, error) {
		str, err := checkString(args, 0, "lower")
		if err != nil {
			return nil, err
		}
		b := []byte(str)
		for i, c := range b {
			if c >= 'A' && c <= 'Z' {
				b[i] = c + 32
			}
		}
		return []Value{string(b)}, nil
	}))
	s.Set("upper", bi("upper", func(in *interp, args []Value) ([]Value, error) {
		str, err := checkString(args, 0, "upper")
		if err != nil {
			return nil, err
		}
		b := []byte(str)
		for i, c := range b {
			if c >= 'a' && c <= 'z' {
				b[i] = c - 32
			}
		}
		return []Value{string(b)}, nil
	}))
	s.Set("reverse", bi("reverse", func(in *interp, args []Value) ([]Value, error) {
		str, err := checkString(args, 0, "reverse")
		if err != nil {
			return nil, err
		}
		b := []byte(str)
		for i, j := 0, len(b)-1; i < j; i, j = i+1, j-1 {
			b[i], b[j] = b[j], b[i]
		}
		return []Value{string(b)}, nil
	}))
	s.Set("rep", bi("rep", func(in *interp, args []Value) ([]Value, error) {
		str, err := checkString(args, 0, "rep")
		if err != nil {
			return nil, err
		}
		n, err := checkInt(args, 1, "rep")
		if err != nil {
			return nil, err
		}
		if n <= 0 || len(str) == 0 {
			return []Value{""}, nil
		}
		if n > int64(maxStringLen/len(str)) {
			return nil, &limitError{msg: "ERR luamini: string too large"}
		}
		return []Value{strings.Repeat(str, int(n))}, nil
	}))
	s.Set("byte", bi("byte", func(in *interp, args []Value) ([]Value, error) {
		str, err := checkString(args, 0, "byte")
		if err != nil {
			return nil, err
		}
		i, err := optInt(args, 1, "byte", 1)
		if err != nil {
			return nil, err
		}
		posi := posRelat(i, len(str))
		j, err := optInt(args, 2, "byte", posi)
		if err != nil {
			return nil, err
		}
		pose := posRelat(j, len(str))
		if posi <= 0 {
			posi = 1
		}
		if pose > int64(len(str)) {
			pose = int64(len(str))
		}
		if posi > pose {
			return nil, nil
		}
		if pose-posi+1 > maxUnpack {
			return nil, libErr("string slice too long")
		}
		out := make([]Value, 0, pose-posi+1)
		for k := posi; k <= pose; k++ {
			out = append(out, float64(str[k-1]))
		}
		return out, nil
	}))
	s.Set("char", bi("char", func(in *interp, args []Value) ([]Value, error) {
		b := make([]byte, len(args))
		for i := range args {
			c, err := checkInt(args, i, "char")
			if err != nil {
				return nil, err
			}
			if c < 0 || c > 255 {
				return nil, badArg(i, "char", "invalid value")
			}
			b[i] = byte(c)
		}
		return []Value{string(b)}, nil
	}))
	s.Set("find", bi("find", func(in *interp, args []Value) ([]Value, error) {
		str, err := checkString(args, 0, "find")
		if err != nil {
			return nil, err
		}
		pat, err := checkString(args, 1, "find")
		if err != nil {
			return nil, err
		}
		init64, err := optInt(args, 2, "find", 1)
		if err != nil {
			return nil, err
		}
		init := posRelat(init64, len(str)) - 1
		if init < 0 {
			init = 0
		} else if init > int64(len(str)) {
			init = int64(len(str))
		}
		plain := truthy(arg(args, 3))
		if !plain && strings.ContainsAny(pat, "^$*+?.([%-") {
			return nil, runtimeUnsupported("string.find with a Lua pattern (only plain find is supported)")
		}
		idx := strings.Index(str[init:], pat)
		if idx < 0 {
			return []Value{nil}, nil
		}
		st := int(init) + idx
		return []Value{float64(st + 1), float64(st + len(pat))}, nil
	}))
	for _, name := range []string{"match", "gmatch", "gsub", "gfind", "dump"} {
		name := name
		s.Set(name, bi(name, func(in *interp, args []Value) ([]Value, error) {
			return nil, runtimeUnsupported("string." + name)
		}))
	}
	s.Set("format", bi("format", stringFormat))
	in.globals.Set("string", s)
	in.readonly[s] = true
}

func stringFormat(in *interp, args []Value) ([]Value, error) {
	f, err := checkString(args, 0, "format")
	if err != nil {
		return nil, err
	}
	var sb strings.Builder
	argi := 0
	for i := 0; i < len(f); i++ {
		c := f[i]
		if c != '%' {
			sb.WriteByte(c)
			continue
		}
		i++
		if i >= len(f) {
			return nil, libErr("invalid option '%%' to 'format'")
		}
		if f[i] == '%' {
			sb.WriteByte('%')
			continue
		}
		// flags
		st := i
		for i < len(f) && strings.IndexByte("-+ #0", f[i]) >= 0 {
			i++
		}
		if i-st > 5 {
			return nil, libErr("invalid format (repeated flags)")
		}
		flags := f[st:i]
		wst := i
		for i < len(f) && isDigit(f[i]) && i-wst < 2 {
			i++
		}
		width := f[wst:i]
		prec := ""
		hasPrec := false
		if i < len(f) && f[i] == '.' {
			hasPrec = true
			i++
			pst := i
			for i < len(f) && isDigit(f[i]) && i-pst < 2 {
				i++
			}
			prec = f[pst:i]
		}
		if i < len(f) && isDigit(f[i]) {
			return nil, libErr("invalid format (width or precision too long)")
		}
		if i >= len(f) {
			return nil, libErr("invalid option '%%' to 'format'")
		}
		conv := f[i]
		argi++
		spec := "%" + flags + width
		if hasPrec {
			spec += "." + prec
			if prec == "" {
				spec += "0"
			}
		}
		switch conv {
		case 'c':
			n, err := checkInt(args, argi, "format")
			if err != nil {
				return nil, err
			}
			sb.WriteByte(byte(n))
		case 'd', 'i':
			n, err := checkInt(args, argi, "format")
			if err != nil {
				return nil, err
			}
			sb.WriteString(fmt.Sprintf(strings.ReplaceAll(spec, "#", "")+"d", n))
		case 'u':
			n, err := checkInt(args, argi, "format")
			if err != nil {
				return nil, err
			}
			sb.WriteString(fmt.Sprintf(strings.NewReplacer("#", "", "+", "", " ", "").Replace(spec)+"d", uint64(n)))
		case 'o', 'x', 'X':
			n, err := checkInt(args, argi, "format")
			if err != nil {
				return nil, err
			}
			sp := strings.NewReplacer("+", "", " ", "").Replace(spec)
			if n == 0 {
				sp = strings.ReplaceAll(sp, "#", "") // C prints plain 0 for %#x with value 0
			}
			if conv == 'o' && strings.Contains(sp, "#") {
				sp = strings.ReplaceAll(sp, "#", "")
				sb.WriteString(fmt.Sprintf(sp+"s", "0"+strconv.FormatUint(uint64(n), 8)))
				break
			}
			sb.WriteString(fmt.Sprintf(sp+string(conv), uint64(n)))
		case 'e', 'E', 'f', 'g', 'G':
			x, err := checkNumber(args, argi, "format")
			if err != nil {
				return nil, err
			}
			sb.WriteString(formatFloatC(flags, width, prec, hasPrec, conv, x))
		case 'q':
			str, err := checkString(args, argi, "format")
			if err != nil {
				return nil, err
			}
			sb.WriteByte('"')
			for k := 0; k < len(str); k++ {
				switch ch := str[k]; ch {
				case '"', '\\', '\n':
					sb.WriteByte('\\')
					sb.WriteByte(ch)
				case '\r':
					sb.WriteString("\\r")
				case 0:
					sb.WriteString("\\000")
				default:
					sb.WriteByte(ch)
				}
			}
			sb.WriteByte('"')
		case 's':
			str, err := checkString(args, argi, "format")
			if err != nil {
				return nil, err
			}
			sp := strings.NewReplacer("#", "", "+", "", " ", "", "0", "").Replace("%" + flags)
			sp += width
			if hasPrec {
				p := prec
				if p == "" {
					p = "0"
				}
				sp += "." + p
			}
			if !hasPrec && len(str) >= 100 {
				// no precision and string is too long to be formatted; keep original string
				sb.WriteString(str)
				break
			}
			sb.WriteString(fmtBytesS(sp, str))
		default:
			return nil, libErr("invalid option '%%%c' to 'format'", conv)
		}
		if sb.Len() > maxStringLen {
			return nil, &limitError{msg: "ERR luamini: string too large"}
		}
	}
	return []Value{sb.String()}, nil
}

// fmtBytesS applies a %s spec with byte (not rune) semantics for width and precision.
func fmtBytesS(spec, s string) string {
	// spec looks like %[-][width][.prec]
	body := spec[1:]
	left := false
	if strings.HasPrefix(body, "-") {
		left = true
		body = strings.TrimLeft(body, "-")
	}
	width, prec := 0, -1
	if dot := strings.IndexByte(body, '.'); dot >= 0 {
		prec, _ = strconv.Atoi(body[dot+1:])
		body = body[:dot]
	}
	if body != "" {
		width, _ = strconv.Atoi(body)
	}
	if prec >= 0 && prec < len(s) {
		s = s[:prec]
	}
	if pad := width - len(s); pad > 0 {
		if left {
			return s + strings.Repeat(" ", pad)
		}
		return strings.Repeat(" ", pad) + s
	}
	return s
}

// formatFloatC formats like C printf for e, E, f, g, G conversions.
func formatFloatC(flags, width, prec string, hasPrec bool, conv byte, x float64) string {
	p := 6
	if hasPrec {
		p = 0
		if prec != "" {
			p, _ = strconv.Atoi(prec)
		}
	}
	alt := strings.Contains(flags, "#")
	var body string
	neg := false
	switch {
	case x != x:
		body = "nan"
		neg = false
	case x > 1.7976931348623157e308:
		body = "inf"
	case x < -1.7976931348623157e308:
		body = "inf"
		neg = true
	default:
		neg = x < 0 || (x == 0 && 1/x < 0)
		ax := x
		if neg {
			ax = -x
		}
		switch conv {
		case 'e', 'E':
			body = strconv.FormatFloat(ax, 'e', p, 64)
			if alt && p == 0 {
				body = strings.Replace(body, "e", ".e", 1)
			}
		case 'f':
			body = strconv.FormatFloat(ax, 'f', p, 64)
			if alt && p == 0 {
				body += "."
			}
		default:
			if p == 0 {
				p = 1
			}
			if alt {
				// keep trailing zeros: %#g prints exactly p significant digits
				e := strconv.FormatFloat(ax, 'e', p-1, 64)
				exp, _ := strconv.Atoi(e[strings.IndexByte(e, 'e')+1:])
				if exp < -4 || exp >= p {
					body = e
					if p == 1 {
						body = strings.Replace(body, "e", ".e", 1)
					}
				} else {
					body = strconv.FormatFloat(ax, 'f', p-1-exp, 64)
					if !strings.Contains(body, ".") {
						body += "."
					}
				}
			} else {
				body = strconv.FormatFloat(ax, 'g', p, 64)
			}
		}
	}
	if conv == 'E' || conv == 'G' {
		body = strings.ToUpper(body)
	}
	sign := ""
	switch {
	case neg:
		sign = "-"
	case strings.Contains(flags, "+"):
		sign = "+"
	case strings.Contains(flags, " "):
		sign = " "
	}
	w := 0
	if width != "" {
		w, _ = strconv.Atoi(width)
	}
	pad := w - len(sign) - len(body)
	if pad <= 0 {
		return sign + body
	}
	switch {
	case strings.Contains(flags, "-"):
		return sign + body + strings.Repeat(" ", pad)
	case strings.Contains(flags, "0") && body != "inf" && body != "nan" && body != "INF" && body != "NAN":
		return sign + strings.Repeat("0", pad) + body
	}
	return strings.Repeat(" ", pad) + sign + body
}
