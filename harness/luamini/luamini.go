package luamini

import (
	"fmt"
	"strings"
)

// Script is a parsed Lua chunk. It is immutable and may be Run concurrently.
type Script struct {
	chunk *funcExpr
	// MaxSteps bounds the number of interpreter steps of one Run; zero means DefaultMaxSteps.
	MaxSteps int64
}

// Compile parses src. It returns an *UnsupportedError when the source uses a construct outside the supported
// subset and a *SyntaxError when the source is not valid Lua 5.1.
func Compile(src string) (s *Script, err error) {
	defer func() {
		if r := recover(); r != nil {
			s, err = nil, fmt.Errorf("luamini: internal error while compiling: %v", r)
		}
	}()
	chunk, err := parseChunk(src)
	if err != nil {
		return nil, err
	}
	return &Script{chunk: chunk}, nil
}

// Run executes the script with the KEYS and ARGV globals and returns the script's return value converted to a
// Redis reply. Script failures are returned as *ErrorReply; the use of an unsupported library feature is
// returned as *UnsupportedError.
func (s *Script) Run(keys, argv []string, call Caller) (reply any, err error) {
	defer func() {
		if r := recover(); r != nil {
			reply, err = nil, &ErrorReply{Msg: fmt.Sprintf("ERR luamini: internal error: %v", r)}
		}
	}()
	if s == nil || s.chunk == nil {
		return nil, &ErrorReply{Msg: "ERR luamini: nil script"}
	}
	in := &interp{call: call, maxSteps: s.MaxSteps}
	if in.maxSteps <= 0 {
		in.maxSteps = DefaultMaxSteps
	}
	in.newGlobals()
	in.globals.Set("KEYS", stringsTable(keys))
	in.globals.Set("ARGV", stringsTable(argv))

	fn := &Function{name: "main chunk", proto: s.chunk}
	rets, rerr := in.callValue(fn, nil, 0)
	if rerr != nil {
		return nil, convertRunError(rerr)
	}
	if len(rets) == 0 {
		return nil, nil
	}
	return luaToReply(rets[0], 0)
}

func stringsTable(ss []string) *Table {
	t := NewTable()
	vals := make([]Value, len(ss))
	for i, s := range ss {
		vals[i] = s
	}
	t.setList(vals)
	return t
}

func convertRunError(err error) error {
	switch e := err.(type) {
	case *luaError:
		switch v := e.value.(type) {
		case string:
			return &ErrorReply{Msg: "ERR " + v}
		case *Table:
			if s, ok := v.Get("err").(string); ok {
				return &ErrorReply{Msg: s}
			}
		}
		return &ErrorReply{Msg: "ERR " + e.Error()}
	case *posError:
		return &ErrorReply{Msg: "ERR " + e.msg}
	case *limitError:
		msg := e.msg
		if !strings.HasPrefix(msg, "ERR") {
			msg = "ERR " + msg
		}
		return &ErrorReply{Msg: msg}
	case *UnsupportedError:
		return e
	case *ErrorReply:
		return e
	}
	return &ErrorReply{Msg: "ERR " + err.Error()}
}
