package luamini

import (
	"fmt"
	"math"
)

const (
	// DefaultMaxSteps is the default interpreter step budget of one Run.
	DefaultMaxSteps = 50_000_000
	// maxNest bounds native (Go) stack usage: every nested expression evaluation costs 1 unit and every
	// function call costs callNestCost units. Exceeding it raises the Lua error "stack overflow".
	maxNest      = 60000
	callNestCost = 8
	chunkName    = "user_script"
)

// luaError is a Lua error value travelling up the Go call stack.
type luaError struct {
	value Value
}

func (e *luaError) Error() string {
	if s, ok := e.value.(string); ok {
		return s
	}
	if t, ok := e.value.(*Table); ok {
		if s, ok := t.Get("err").(string); ok {
			return s
		}
	}
	return "(error object is a " + typeName(e.value) + " value)"
}

// limitError aborts the script and cannot be caught by pcall.
type limitError struct{ msg string }

func (e *limitError) Error() string { return e.msg }

// scope is one local variable binding in a persistent linked list. Every `local` creates a new node so that
// closures capture exactly the bindings visible at their creation point.
type scope struct {
	name   string
	val    Value
	parent *scope
}

func (s *scope) lookup(name string) *scope {
	for c := s; c != nil; c = c.parent {
		if c.name == name {
			return c
		}
	}
	return nil
}

type interp struct {
	globals   *Table
	stringLib *Table
	call      Caller
	steps     int64
	maxSteps  int64
	depth     int
	readonly  map[*Table]bool
}

type ctrl int

const (
	ctrlNone ctrl = iota
	ctrlBreak
	ctrlReturn
)

func (in *interp) step() error {
	in.steps++
	if in.steps > in.maxSteps {
		return &limitError{msg: fmt.Sprintf("ERR luamini: script exceeded the execution step limit (%d)", in.maxSteps)}
	}
	return nil
}

func rtErr(line int, format string, a ...any) error {
	if line <= 0 {
		// raised from a native frame (e.g. directly under pcall): no position information, as in Lua
		return &luaError{value: fmt.Sprintf(format, a...)}
	}
	return &luaError{value: fmt.Sprintf("%s:%d: %s", chunkName, line, fmt.Sprintf(format, a...))}
}

// execBlock runs statements in a fresh lexical block starting from env.
func (in *interp) execBlock(stmts []stmt, env *scope) (ctrl, []Value, error) {
	c, vals, _, err := in.execBlockEnv(stmts, env)
	return c, vals, err
}

// execBlockEnv additionally returns the environment at the end of the block (needed by repeat ... until).
func (in *interp) execBlockEnv(stmts []stmt, env *scope) (ctrl, []Value, *scope, error) {
	if in.depth >= maxNest {
		line := 0
		if len(stmts) > 0 {
			line = stmts[0].stmtLine()
		}
		return ctrlNone, nil, env, rtErr(line, "stack overflow")
	}
	in.depth += 2
	defer func() { in.depth -= 2 }()
	for _, s := range stmts {
		if err := in.step(); err != nil {
			return ctrlNone, nil, env, err
		}
		switch st := s.(type) {
		case *localStmt:
			vals, err := in.evalMulti(st.exprs, env, len(st.names))
			if err != nil {
				return ctrlNone, nil, env, err
			}
			for i, n := range st.names {
				env = &scope{name: n, val: vals[i], parent: env}
			}
		case *localFuncStmt:
			env = &scope{name: st.name, parent: env}
			env.val = &Function{name: st.name, proto: st.fn, env: env}
		default:
			c, vals, err := in.execStmt(s, env)
			if err != nil {
				return ctrlNone, nil, env, err
			}
			if c != ctrlNone {
				return c, vals, env, nil
			}
		}
	}
	return ctrlNone, nil, env, nil
}

func (in *interp) execStmt(s stmt, env *scope) (ctrl, []Value, error) {
	switch st := s.(type) {
	case *assignStmt:
		return ctrlNone, nil, in.execAssign(st, env)
	case *callStmt:
		_, err := in.evalCall(st.call, env)
		return ctrlNone, nil, err
	case *doStmt:
		return in.execBlock(st.body, env)
	case *ifStmt:
		for i, cond := range st.conds {
			v, err := in.eval(cond, env)
			if err != nil {
				return ctrlNone, nil, err
			}
			if truthy(v) {
				return in.execBlock(st.thens[i], env)
			}
		}
		if st.hasEl {
			return in.execBlock(st.els, env)
		}
		return ctrlNone, nil, nil
	case *whileStmt:
		for {
			if err := in.step(); err != nil {
				return ctrlNone, nil, err
			}
			v, err := in.eval(st.cond, env)
			if err != nil {
				return ctrlNone, nil, err
			}
			if !truthy(v) {
				return ctrlNone, nil, nil
			}
			c, vals, err := in.execBlock(st.body, env)
			if err != nil {
				return ctrlNone, nil, err
			}
			if c == ctrlBreak {
				return ctrlNone, nil, nil
			}
			if c == ctrlReturn {
				return c, vals, nil
			}
		}
	case *repeatStmt:
		for {
			if err := in.step(); err != nil {
				return ctrlNone, nil, err
			}
			c, vals, benv, err := in.execBlockEnv(st.body, env)
			if err != nil {
				return ctrlNone, nil, err
			}
			if c == ctrlBreak {
				return ctrlNone, nil, nil
			}
			if c == ctrlReturn {
				return c, vals, nil
			}
			v, err := in.eval(st.cond, benv)
			if err != nil {
				return ctrlNone, nil, err
			}
			if truthy(v) {
				return ctrlNone, nil, nil
			}
		}
	case *numForStmt:
		return in.execNumFor(st, env)
	case *genForStmt:
		return in.execGenFor(st, env)
	case *returnStmt:
		// a single call in return position keeps all of its results
		vals, err := in.evalMulti(st.exprs, env, -1)
		if err != nil {
			return ctrlNone, nil, err
		}
		return ctrlReturn, vals, nil
	case *breakStmt:
		return ctrlBreak, nil, nil
	}
	return ctrlNone, nil, rtErr(s.stmtLine(), "luamini: internal error: unknown statement %T", s)
}

func (in *interp) execNumFor(st *numForStmt, env *scope) (ctrl, []Value, error) {
	forNum := func(e expr, what string) (float64, error) {
		v, err := in.eval(e, env)
		if err != nil {
			return 0, err
		}
		f, ok := toNumber(v)
		if !ok {
			return 0, rtErr(st.line, "'for' %s must be a number", what)
		}
		return f, nil
	}
	start, err := forNum(st.start, "initial value")
	if err != nil {
		return ctrlNone, nil, err
	}
	limit, err := forNum(st.stop, "limit")
	if err != nil {
		return ctrlNone, nil, err
	}
	step := 1.0
	if st.stp != nil {
		step, err = forNum(st.stp, "step")
		if err != nil {
			return ctrlNone, nil, err
		}
	}
	idx := start - step
	for {
		if err := in.step(); err != nil {
			return ctrlNone, nil, err
		}
		idx += step
		if step > 0 {
			if !(idx <= limit) {
				break
			}
		} else if !(limit <= idx) {
			break
		}
		c, vals, err := in.execBlock(st.body, &scope{name: st.name, val: idx, parent: env})
		if err != nil {
			return ctrlNone, nil, err
		}
		if c == ctrlBreak {
			break
		}
		if c == ctrlReturn {
			return c, vals, nil
		}
	}
	return ctrlNone, nil, nil
}

func (in *interp) execGenFor(st *genForStmt, env *scope) (ctrl, []Value, error) {
	init, err := in.evalMulti(st.exprs, env, 3)
	if err != nil {
		return ctrlNone, nil, err
	}
	f, state, control := init[0], init[1], init[2]
	for {
		if err := in.step(); err != nil {
			return ctrlNone, nil, err
		}
		rets, err := in.callValue(f, []Value{state, control}, st.line)
		if err != nil {
			return ctrlNone, nil, err
		}
		rets = adjust(rets, len(st.names))
		if rets[0] == nil {
			return ctrlNone, nil, nil
		}
		control = rets[0]
		benv := env
		for i, n := range st.names {
			benv = &scope{name: n, val: rets[i], parent: benv}
		}
		c, vals, err := in.execBlock(st.body, benv)
		if err != nil {
			return ctrlNone, nil, err
		}
		if c == ctrlBreak {
			return ctrlNone, nil, nil
		}
		if c == ctrlReturn {
			return c, vals, nil
		}
	}
}

func adjust(vals []Value, n int) []Value {
	if len(vals) == n {
		return vals
	}
	out := make([]Value, n)
	copy(out, vals)
	return out
}

func (in *interp) execAssign(st *assignStmt, env *scope) error {
	// Evaluate table and key sub-expressions of the targets first (left to right), then the right-hand sides,
	// then perform the stores. The reference implementation leaves the store order undefined.
	type target struct {
		sc   *scope
		name string
		obj  Value
		key  Value
		line int
	}
	tgs := make([]target, len(st.targets))
	for i, t := range st.targets {
		switch te := t.(type) {
		case *nameExpr:
			tgs[i] = target{sc: env.lookup(te.name), name: te.name, line: te.line}
		case *indexExpr:
			obj, err := in.eval(te.obj, env)
			if err != nil {
				return err
			}
			key, err := in.eval(te.key, env)
			if err != nil {
				return err
			}
			tgs[i] = target{obj: obj, key: key, line: te.line, name: ""}
		}
	}
	vals, err := in.evalMulti(st.exprs, env, len(tgs))
	if err != nil {
		return err
	}
	for i := len(tgs) - 1; i >= 0; i-- {
		t := tgs[i]
		switch {
		case t.sc != nil:
			t.sc.val = vals[i]
		case t.name != "":
			if err := in.setGlobal(t.name, vals[i], t.line); err != nil {
				return err
			}
		default:
			if err := in.setIndex(t.obj, t.key, vals[i], t.line); err != nil {
				return err
			}
		}
	}
	return nil
}

func (in *interp) setGlobal(name string, v Value, line int) error {
	// Redis protects the global environment of scripts: it is read-only.
	if in.globals.Get(name) == nil {
		return rtErr(line, "Script attempted to create global variable '%s'", name)
	}
	return rtErr(line, "Attempt to modify a readonly table")
}

func (in *interp) getGlobal(name string, line int) (Value, error) {
	v := in.globals.Get(name)
	if v == nil {
		return nil, rtErr(line, "Script attempted to access nonexistent global variable '%s'", name)
	}
	return v, nil
}

func (in *interp) setIndex(obj, key, v Value, line int) error {
	t, ok := obj.(*Table)
	if !ok {
		return rtErr(line, "attempt to index a %s value", typeName(obj))
	}
	if in.readonly[t] {
		return rtErr(line, "Attempt to modify a readonly table")
	}
	if key == nil {
		return rtErr(line, "table index is nil")
	}
	if f, ok := key.(float64); ok && f != f {
		return rtErr(line, "table index is NaN")
	}
	t.Set(key, v)
	return nil
}

func (in *interp) index(obj, key Value, line int) (Value, error) {
	switch o := obj.(type) {
	case *Table:
		return o.Get(key), nil
	case string:
		return in.stringLib.Get(key), nil
	}
	return nil, rtErr(line, "attempt to index a %s value", typeName(obj))
}

// evalMulti evaluates an expression list. If the last expression is a call, all of its results are kept.
// want >= 0 adjusts the result to exactly want values; want < 0 keeps everything.
func (in *interp) evalMulti(exprs []expr, env *scope, want int) ([]Value, error) {
	var out []Value
	if want > 0 {
		out = make([]Value, 0, want)
	}
	for i, e := range exprs {
		if i == len(exprs)-1 {
			if c, ok := e.(*callExpr); ok {
				rets, err := in.evalCall(c, env)
				if err != nil {
					return nil, err
				}
				out = append(out, rets...)
				break
			}
		}
		v, err := in.eval(e, env)
		if err != nil {
			return nil, err
		}
		out = append(out, v)
	}
	if want >= 0 {
		out = adjust(out, want)
	}
	return out, nil
}

func (in *interp) eval(e expr, env *scope) (Value, error) {
	if err := in.step(); err != nil {
		return nil, err
	}
	if in.depth >= maxNest {
		return nil, rtErr(e.exprLine(), "stack overflow")
	}
	in.depth++
	v, err := in.eval1(e, env)
	in.depth--
	return v, err
}

func (in *interp) eval1(e expr, env *scope) (Value, error) {
	switch x := e.(type) {
	case *nilExpr:
		return nil, nil
	case *trueExpr:
		return true, nil
	case *falseExpr:
		return false, nil
	case *numberExpr:
		return x.v, nil
	case *stringExpr:
		return x.v, nil
	case *nameExpr:
		if sc := env.lookup(x.name); sc != nil {
			return sc.val, nil
		}
		return in.getGlobal(x.name, x.line)
	case *parenExpr:
		return in.eval(x.e, env)
	case *indexExpr:
		obj, err := in.eval(x.obj, env)
		if err != nil {
			return nil, err
		}
		key, err := in.eval(x.key, env)
		if err != nil {
			return nil, err
		}
		return in.index(obj, key, x.line)
	case *callExpr:
		rets, err := in.evalCall(x, env)
		if err != nil {
			return nil, err
		}
		if len(rets) == 0 {
			return nil, nil
		}
		return rets[0], nil
	case *funcExpr:
		return &Function{name: x.name, proto: x, env: env}, nil
	case *tableExpr:
		return in.evalTable(x, env)
	case *unExpr:
		v, err := in.eval(x.e, env)
		if err != nil {
			return nil, err
		}
		return in.unary(x.op, v, x.line)
	case *binExpr:
		if x.op == "and" || x.op == "or" {
			l, err := in.eval(x.l, env)
			if err != nil {
				return nil, err
			}
			if truthy(l) == (x.op == "or") {
				return l, nil
			}
			return in.eval(x.r, env)
		}
		l, err := in.eval(x.l, env)
		if err != nil {
			return nil, err
		}
		r, err := in.eval(x.r, env)
		if err != nil {
			return nil, err
		}
		return in.binary(x.op, l, r, x.line)
	}
	return nil, rtErr(e.exprLine(), "luamini: internal error: unknown expression %T", e)
}

func (in *interp) evalTable(x *tableExpr, env *scope) (Value, error) {
	t := NewTable()
	var list []Value
	for i, f := range x.fields {
		if f.key != nil {
			k, err := in.eval(f.key, env)
			if err != nil {
				return nil, err
			}
			v, err := in.eval(f.val, env)
			if err != nil {
				return nil, err
			}
			if k == nil {
				return nil, rtErr(x.line, "table index is nil")
			}
			if kf, ok := k.(float64); ok && kf != kf {
				return nil, rtErr(x.line, "table index is NaN")
			}
			t.Set(k, v)
			continue
		}
		if i == len(x.fields)-1 {
			if c, ok := f.val.(*callExpr); ok {
				rets, err := in.evalCall(c, env)
				if err != nil {
					return nil, err
				}
				list = append(list, rets...)
				break
			}
		}
		v, err := in.eval(f.val, env)
		if err != nil {
			return nil, err
		}
		list = append(list, v)
	}
	// positional items are stored after the keyed ones, as the reference implementation does (OP_SETLIST last)
	if len(list) > 0 {
		t.setList(list)
	}
	return t, nil
}

func (in *interp) evalCall(c *callExpr, env *scope) ([]Value, error) {
	if err := in.step(); err != nil {
		return nil, err
	}
	fnv, err := in.eval(c.fn, env)
	if err != nil {
		return nil, err
	}
	var args []Value
	if c.method != "" {
		self := fnv
		fnv, err = in.index(self, c.method, c.line)
		if err != nil {
			return nil, err
		}
		rest, err := in.evalMulti(c.args, env, -1)
		if err != nil {
			return nil, err
		}
		args = append([]Value{self}, rest...)
		if fnv == nil {
			return nil, rtErr(c.line, "attempt to call method '%s' (a nil value)", c.method)
		}
	} else {
		args, err = in.evalMulti(c.args, env, -1)
		if err != nil {
			return nil, err
		}
	}
	return in.callValue(fnv, args, c.line)
}

func (in *interp) callValue(fnv Value, args []Value, line int) ([]Value, error) {
	fn, ok := fnv.(*Function)
	if !ok {
		return nil, rtErr(line, "attempt to call a %s value", typeName(fnv))
	}
	if err := in.step(); err != nil {
		return nil, err
	}
	if in.depth >= maxNest {
		return nil, rtErr(line, "stack overflow")
	}
	in.depth += callNestCost
	defer func() { in.depth -= callNestCost }()
	if fn.builtin != nil {
		rets, err := fn.builtin(in, args)
		if err != nil {
			if pe, ok := err.(*posError); ok {
				// positioned like luaL_error does (level 1 = the calling Lua code)
				return nil, rtErr(line, "%s", pe.msg)
			}
			if ue, ok := err.(*UnsupportedError); ok && ue.Line == 0 && line > 0 {
				return nil, &UnsupportedError{Construct: ue.Construct, Line: line}
			}
			return nil, err
		}
		return rets, nil
	}
	env := fn.env
	for i, p := range fn.proto.params {
		var v Value
		if i < len(args) {
			v = args[i]
		}
		env = &scope{name: p, val: v, parent: env}
	}
	c, vals, err := in.execBlock(fn.proto.body, env)
	if err != nil {
		return nil, err
	}
	if c == ctrlReturn {
		return vals, nil
	}
	return nil, nil
}

// libErr creates an error raised by a builtin; callValue prefixes it with the caller position.
func libErr(format string, a ...any) error {
	return &posError{msg: fmt.Sprintf(format, a...)}
}

// posError is an error raised by a builtin that still needs the "user_script:LINE:" prefix of its call site.
type posError struct{ msg string }

func (e *posError) Error() string { return e.msg }

func (in *interp) unary(op string, v Value, line int) (Value, error) {
	switch op {
	case "not":
		return !truthy(v), nil
	case "-":
		f, ok := toNumber(v)
		if !ok {
			return nil, rtErr(line, "attempt to perform arithmetic on a %s value", typeName(v))
		}
		return -f, nil
	case "#":
		switch x := v.(type) {
		case string:
			return float64(len(x)), nil
		case *Table:
			return float64(x.Len()), nil
		}
		return nil, rtErr(line, "attempt to get length of a %s value", typeName(v))
	}
	return nil, rtErr(line, "luamini: internal error: unknown unary operator %s", op)
}

func luaMod(a, b float64) float64 {
	return a - math.Floor(a/b)*b
}

func (in *interp) binary(op string, l, r Value, line int) (Value, error) {
	switch op {
	case "+", "-", "*", "/", "%", "^":
		a, ok1 := toNumber(l)
		b, ok2 := toNumber(r)
		if !ok1 || !ok2 {
			bad := r
			if !ok1 {
				bad = l
			}
			return nil, rtErr(line, "attempt to perform arithmetic on a %s value", typeName(bad))
		}
		switch op {
		case "+":
			return a + b, nil
		case "-":
			return a - b, nil
		case "*":
			return a * b, nil
		case "/":
			return a / b, nil
		case "%":
			return luaMod(a, b), nil
		default:
			return math.Pow(a, b), nil
		}
	case "..":
		a, ok1 := toStringCoerce(l)
		b, ok2 := toStringCoerce(r)
		if !ok1 || !ok2 {
			bad := r
			if !ok1 {
				bad = l
			}
			return nil, rtErr(line, "attempt to concatenate a %s value", typeName(bad))
		}
		if len(a)+len(b) > maxStringLen {
			return nil, &limitError{msg: "ERR luamini: string too large"}
		}
		return a + b, nil
	case "==":
		return rawEqual(l, r), nil
	case "~=":
		return !rawEqual(l, r), nil
	case "<", "<=", ">", ">=":
		if op == ">" {
			l, r, op = r, l, "<"
		} else if op == ">=" {
			l, r, op = r, l, "<="
		}
		switch a := l.(type) {
		case float64:
			if b, ok := r.(float64); ok {
				if op == "<" {
					return a < b, nil
				}
				return a <= b, nil
			}
		case string:
			if b, ok := r.(string); ok {
				if op == "<" {
					return a < b, nil
				}
				return a <= b, nil
			}
		}
		t1, t2 := typeName(l), typeName(r)
		if t1 == t2 {
			return nil, rtErr(line, "attempt to compare two %s values", t1)
		}
		return nil, rtErr(line, "attempt to compare %s with %s", t1, t2)
	}
	return nil, rtErr(line, "luamini: internal error: unknown binary operator %s", op)
}

func rawEqual(a, b Value) bool {
	switch x := a.(type) {
	case nil:
		return b == nil
	case bool:
		y, ok := b.(bool)
		return ok && x == y
	case float64:
		y, ok := b.(float64)
		return ok && x == y
	case string:
		y, ok := b.(string)
		return ok && x == y
	case *Table:
		y, ok := b.(*Table)
		return ok && x == y
	case *Function:
		y, ok := b.(*Function)
		return ok && x == y
	}
	return false
}
