package luamini

import (
	"errors"
	"math"
	"reflect"
	"strings"
	"testing"
)

type evalCase struct {
	name string
	src  string
	want any
	err  string // when non-empty: Run must fail with *ErrorReply whose message contains err
}

func i64(n int64) any { return n }

func arr(v ...any) []any {
	if v == nil {
		return []any{}
	}
	return v
}

func runCases(t *testing.T, cases []evalCase) {
	t.Helper()
	for _, c := range cases {
		c := c
		t.Run(c.name, func(t *testing.T) {
			s, err := Compile(c.src)
			if err != nil {
				t.Fatalf("Compile: %v\n%s", err, c.src)
			}
			got, err := s.Run([]string{"key1", "key2"}, []string{"arg1", "42", "3.5"}, echoCaller)
			if c.err != "" {
				er, isErr := err.(*ErrorReply)
				if !isErr {
					t.Fatalf("want *ErrorReply containing %q, got reply=%#v err=%#v", c.err, got, err)
				}
				if !strings.Contains(er.Msg, c.err) {
					t.Fatalf("error %q does not contain %q", er.Msg, c.err)
				}
				return
			}
			if err != nil {
				t.Fatalf("Run: %v\n%s", err, c.src)
			}
			if !reflect.DeepEqual(got, c.want) {
				t.Fatalf("got %#v, want %#v\n%s", got, c.want, c.src)
			}
		})
	}
}

// echoCaller implements a few pseudo commands used to test conversions:
//
//	ECHO x         -> bulk x
//	ARGS ...       -> array of the received arguments (as bulk strings)
//	INT n          -> integer n (only a handful of literals)
//	NULL           -> null bulk
//	STATUS x       -> status x
//	NESTED         -> [1, "two", [3, nil, OK], nil]
//	FAIL msg...    -> error reply
func echoCaller(args []string) (any, error) {
	switch strings.ToUpper(args[0]) {
	case "ECHO":
		return args[1], nil
	case "ARGS":
		out := make([]any, 0, len(args)-1)
		for _, a := range args[1:] {
			out = append(out, a)
		}
		return out, nil
	case "INT":
		switch args[1] {
		case "0":
			return int64(0), nil
		case "7":
			return int64(7), nil
		case "-3":
			return int64(-3), nil
		case "big":
			return int64(1) << 53, nil
		}
	case "NULL":
		return nil, nil
	case "STATUS":
		return StatusReply{Msg: args[1]}, nil
	case "NESTED":
		return []any{int64(1), "two", []any{int64(3), nil, StatusReply{Msg: "OK"}}, nil}, nil
	case "EMPTY":
		return []any{}, nil
	case "FAIL":
		return nil, &ErrorReply{Msg: strings.Join(args[1:], " ")}
	}
	return nil, &ErrorReply{Msg: "ERR unknown command '" + args[0] + "'"}
}

func TestReturnConversion(t *testing.T) {
	runCases(t, []evalCase{
		{"integer", `return 3`, i64(3), ""},
		{"truncate positive", `return 3.99`, i64(3), ""},
		{"truncate negative toward zero", `return -3.99`, i64(-3), ""},
		{"truncate small negative", `return -0.5`, i64(0), ""},
		{"large integer", `return 2^53`, i64(1 << 53), ""},
		{"string", `return "hello"`, "hello", ""},
		{"numeric string stays string", `return "12"`, "12", ""},
		{"empty string", `return ""`, "", ""},
		{"binary string", `return "a\0b\255"`, "a\x00b\xff", ""},
		{"true", `return true`, i64(1), ""},
		{"false", `return false`, nil, ""},
		{"nil", `return nil`, nil, ""},
		{"no return statement", `local x = 1`, nil, ""},
		{"empty chunk", ``, nil, ""},
		{"bare return", `return`, nil, ""},
		{"only first value", `return 1, 2, 3`, i64(1), ""},
		{"status table", `return {ok="FINE"}`, StatusReply{Msg: "FINE"}, ""},
		{"status_reply", `return redis.status_reply("PONG")`, StatusReply{Msg: "PONG"}, ""},
		{"err table", `return {err="MYCODE something bad"}`, nil, "MYCODE something bad"},
		{"error_reply", `return redis.error_reply("MY ERR")`, nil, "MY ERR"},
		{"error_reply adds generic code", `return redis.error_reply("oops")`, nil, "ERR oops"},
		{"err wins over ok", `return {ok="x", err="E1 y"}`, nil, "E1 y"},
		{"non-string ok is ignored", `return {ok=1, 5}`, arr(i64(5)), ""},
		{"array", `return {1, "a", 2.7, true}`, arr(i64(1), "a", i64(2), i64(1)), ""},
		{"array cut at first nil", `return {1, 2, nil, 4}`, arr(i64(1), i64(2)), ""},
		{"array cut at leading nil", `return {nil, 2}`, arr(), ""},
		{"false inside array is null not end", `return {1, false, 3}`, arr(i64(1), nil, i64(3)), ""},
		{"hash part ignored", `return {1, 2, x=5, [10]=10}`, arr(i64(1), i64(2)), ""},
		{"empty table", `return {}`, arr(), ""},
		{"nested arrays", `return {1, {2, {3, "x"}}, {}}`, arr(i64(1), arr(i64(2), arr(i64(3), "x")), arr()), ""},
		{"nested status", `return {{ok="A"}, 1}`, arr(StatusReply{Msg: "A"}, i64(1)), ""},
		{"function value", `return function() end`, nil, ""},
		{"array built by index", `local t = {} t[1]="a" t[2]="b" t[4]="d" return t`, arr("a", "b"), ""},
		{"array built out of order", `local t = {} t[3]="c" t[2]="b" t[1]="a" return t`, arr("a", "b", "c"), ""},
		{"multiple call results expand in constructor", `local function f() return 1,2,3 end return {f()}`, arr(i64(1), i64(2), i64(3)), ""},
		{"call not last is truncated", `local function f() return 1,2,3 end return {f(), 9}`, arr(i64(1), i64(9)), ""},
		{"parenthesised call is truncated", `local function f() return 1,2,3 end return {(f())}`, arr(i64(1)), ""},
	})
	// an error table nested in an array becomes an element
	s, _ := Compile(`return {1, {err="E x"}}`)
	got, err := s.Run(nil, nil, nil)
	if err != nil {
		t.Fatal(err)
	}
	if !reflect.DeepEqual(got, []any{int64(1), &ErrorReply{Msg: "E x"}}) {
		t.Errorf("got %#v", got)
	}
}

func TestCallConversion(t *testing.T) {
	runCases(t, []evalCase{
		{"int to number", `local v = redis.call("INT", "7") return {type(v), v + 1}`, arr("number", i64(8)), ""},
		{"negative int", `return redis.call("INT", "-3")`, i64(-3), ""},
		{"zero int is truthy", `if redis.call("INT", "0") then return "truthy" end return "falsy"`, "truthy", ""},
		{"big int", `return redis.call("INT", "big") == 2^53`, i64(1), ""},
		{"bulk to string", `local v = redis.call("ECHO", "hi") return {type(v), v}`, arr("string", "hi"), ""},
		{"null to false", `local v = redis.call("NULL") return {type(v), v == false}`, arr("boolean", i64(1)), ""},
		{"null returned is null", `return redis.call("NULL")`, nil, ""},
		{"status to table", `local v = redis.call("STATUS", "OK") return {type(v), v.ok, v["ok"]}`, arr("table", "OK", "OK"), ""},
		{"status roundtrip", `return redis.call("STATUS", "QUEUED")`, StatusReply{Msg: "QUEUED"}, ""},
		{"status is truthy", `if redis.call("STATUS","OK") then return 1 else return 0 end`, i64(1), ""},
		{"array to table", `local v = redis.call("NESTED") return {#v, v[1], v[2], #v[3], v[3][1], v[3][2] == false, v[3][3].ok, v[4] == false}`,
			arr(i64(4), i64(1), "two", i64(3), i64(3), i64(1), "OK", i64(1)), ""},
		{"array roundtrip", `return redis.call("NESTED")`, arr(i64(1), "two", arr(i64(3), nil, StatusReply{Msg: "OK"}), nil), ""},
		{"empty array", `local v = redis.call("EMPTY") return {type(v), #v}`, arr("table", i64(0)), ""},
		{"number args formatted like redis", `return redis.call("ARGS", 3, 1.5, -7, 2^53, 1e15, 0.1, 1e300, "s", 10/2, 2^63)`,
			arr("3", "1.5", "-7", "9007199254740992", "1000000000000000", "0.10000000000000001", "1.0000000000000001e+300", "s", "5", "9.2233720368547758e+18"), ""},
		{"lowercase command passes through", `return redis.call("echo", "x")`, "x", ""},
		{"boolean arg rejected", `return redis.call("ECHO", true)`, nil, "Lua redis lib command arguments must be strings or integers"},
		{"table arg rejected", `return redis.call("ECHO", {})`, nil, "Lua redis lib command arguments must be strings or integers"},
		{"nil arg rejected", `return redis.call("ECHO", nil)`, nil, "Lua redis lib command arguments must be strings or integers"},
		{"no args", `return redis.call()`, nil, "Please specify at least one argument"},
	})
}

func TestErrorPropagation(t *testing.T) {
	runCases(t, []evalCase{
		{"call raises", `redis.call("FAIL", "WRONGTYPE", "bad") return "not reached"`, nil, "WRONGTYPE bad"},
		{"pcall returns err table", `local r = redis.pcall("FAIL", "WRONGTYPE", "bad") return {type(r), r.err}`, arr("table", "WRONGTYPE bad"), ""},
		{"pcall err table returned propagates as error", `return redis.pcall("FAIL", "ERR", "x")`, nil, "ERR x"},
		{"pcall continues", `local r = redis.pcall("FAIL", "E") if r.err then return "handled" end return "no"`, "handled", ""},
		{"pcall success", `return redis.pcall("ECHO", "fine")`, "fine", ""},
		{"lua pcall catches redis.call error", `local ok, e = pcall(redis.call, "FAIL", "BUSY", "now") return {ok == false, type(e), e.err}`, arr(i64(1), "table", "BUSY now"), ""},
		{"lua pcall closure", `local ok, e = pcall(function() return redis.call("FAIL", "X y") end) return {ok, e.err}`, arr(nil, "X y"), ""},
		{"unknown command error", `return redis.call("NOPE")`, nil, "ERR unknown command 'NOPE'"},
		{"error string", `error("boom")`, nil, "ERR user_script:1: boom"},
		{"error with line", "local x = 1\nlocal y = 2\nerror('bad thing')", nil, "user_script:3: bad thing"},
		{"error level 0", `error("plain", 0)`, nil, "ERR plain"},
		{"error table with err", `error({err="CUSTOM failure"})`, nil, "CUSTOM failure"},
		{"error with error_reply", `error(redis.error_reply("NOAUTH need auth"))`, nil, "NOAUTH need auth"},
		{"runtime arithmetic on nil", `local t = {} return t.x + 1`, nil, "attempt to perform arithmetic on a nil value"},
		{"index nil", `local t return t.x`, nil, "attempt to index a nil value"},
		{"index number", `local t = 5 return t.x`, nil, "attempt to index a number value"},
		{"call nil", `local f f()`, nil, "attempt to call a nil value"},
		{"call field nil", `return string.nosuch("x")`, nil, "attempt to call a nil value"},
		{"concat nil", `return "a" .. nil`, nil, "attempt to concatenate a nil value"},
		{"concat table", `return "a" .. {}`, nil, "attempt to concatenate a table value"},
		{"compare number with string", `return 1 < "2"`, nil, "attempt to compare number with string"},
		{"compare string with number", `return "a" >= 2`, nil, "attempt to compare number with string"},
		{"compare tables", `return {} < {}`, nil, "attempt to compare two table values"},
		{"compare nil", `return nil < 1`, nil, "attempt to compare nil with number"},
		{"length of number", `return #5`, nil, "attempt to get length of a number value"},
		{"unary minus on table", `return -{}`, nil, "attempt to perform arithmetic on a table value"},
		{"undefined global read", `return foo`, nil, "Script attempted to access nonexistent global variable 'foo'"},
		{"global write", `foo = 1 return foo`, nil, "Script attempted to create global variable 'foo'"},
		{"global function", `function f() end`, nil, "Script attempted to create global variable 'f'"},
		{"overwrite builtin global", `KEYS = {}`, nil, "readonly"},
		{"modify library table", `string.len = nil`, nil, "readonly"},
		{"modify redis table", `redis.call = nil`, nil, "readonly"},
		{"nil table key", `local t = {} t[nil] = 1`, nil, "table index is nil"},
		{"nan table key", `local t = {} t[0/0] = 1`, nil, "table index is NaN"},
		{"for initial not a number", `for i="x",2 do end`, nil, "'for' initial value must be a number"},
		{"for limit not a number", `for i=1,{} do end`, nil, "'for' limit must be a number"},
		{"assert false", `assert(false)`, nil, "assertion failed!"},
		{"assert message", `assert(1 == 2, "math broke")`, nil, "ERR math broke"},
		{"assert nil", `assert(nil, "was nil")`, nil, "was nil"},
		{"bad argument", `return ("x"):rep({})`, nil, "bad argument #2 to 'rep' (number expected, got table)"},
		{"bad argument no value", `return math.floor()`, nil, "bad argument #1 to 'floor' (number expected, got no value)"},
		{"tostring no arg", `return tostring()`, nil, "bad argument #1 to 'tostring' (value expected)"},
		{"stack overflow", `local function f() return f() + 1 end return f()`, nil, "stack overflow"},
		{"stack overflow caught by pcall", `local function f() return f() + 1 end local ok = pcall(f) return ok`, nil, ""},
	})
}

func TestPcall(t *testing.T) {
	runCases(t, []evalCase{
		{"ok results", `local a, b, c = pcall(function(x, y) return x + y, "r2" end, 1, 2) return {a, b, c}`, arr(i64(1), i64(3), "r2"), ""},
		{"string error has position", `local ok, e = pcall(function() error("boom") end) return {ok, e}`, arr(nil, "user_script:1: boom"), ""},
		{"direct error has no position", `local ok, e = pcall(error, "boom") return e`, "boom", ""},
		{"table error value preserved", `local ok, e = pcall(error, {code=5}) return e.code`, i64(5), ""},
		{"runtime error caught", `local ok, e = pcall(function() local t = nil return t.x end) return {ok, e}`, arr(nil, "user_script:1: attempt to index a nil value"), ""},
		{"nil error", `local ok, e = pcall(error) return {ok == false, e == nil}`, arr(i64(1), i64(1)), ""},
		{"pcall non function", `local ok, e = pcall(5) return {ok, e}`, arr(nil, "attempt to call a number value"), ""},
		{"script continues", `pcall(error, "x") return "after"`, "after", ""},
		{"nested pcall", `local ok1, ok2, e = pcall(pcall, error, "in") return {ok1, ok2, e}`, arr(i64(1), nil, "in"), ""},
		{"assert passthrough", `return select('#', assert(1, 2, 3))`, i64(3), ""},
	})
}

func TestArgvKeys(t *testing.T) {
	runCases(t, []evalCase{
		{"read", `return {KEYS[1], KEYS[2], ARGV[1], ARGV[2], ARGV[3]}`, arr("key1", "key2", "arg1", "42", "3.5"), ""},
		{"lengths", `return {#KEYS, #ARGV}`, arr(i64(2), i64(3)), ""},
		{"argv are strings", `return {type(ARGV[2]), type(KEYS[1])}`, arr("string", "string"), ""},
		{"argv string compares as string", `return ARGV[2] == 42`, nil, ""},
		{"argv coerces in arithmetic", `return ARGV[2] + 1`, i64(43), ""},
		{"out of range is nil", `return {ARGV[4] == nil, KEYS[0] == nil, ARGV[-1] == nil}`, arr(i64(1), i64(1), i64(1)), ""},
		{"assign element", `ARGV[2] = "changed" return ARGV`, arr("arg1", "changed", "3.5"), ""},
		{"table.remove last", `local e = table.remove(ARGV) return {e, #ARGV, unpack(ARGV)}`, arr("3.5", i64(2), "arg1", "42"), ""},
		{"table.remove first", `local e = table.remove(ARGV, 1) return {e, unpack(ARGV)}`, arr("arg1", "42", "3.5"), ""},
		{"table.insert", `table.insert(ARGV, "new") table.insert(ARGV, 1, "first") return ARGV`, arr("first", "arg1", "42", "3.5", "new"), ""},
		{"unpack sees mutation", `ARGV[1] = "X" table.remove(ARGV) return redis.call("ARGS", unpack(ARGV))`, arr("X", "42"), ""},
		{"mutation with number value", `ARGV[2] = tostring(tonumber(ARGV[2]) + 1) return redis.call("ARGS", unpack(ARGV))`, arr("arg1", "43", "3.5"), ""},
		{"append past end", `ARGV[#ARGV + 1] = "tail" return #ARGV`, i64(4), ""},
		{"odd even idiom", `local e = (#ARGV % 2 == 1) and table.remove(ARGV) or nil return {e, #ARGV}`, arr("3.5", i64(2)), ""},
		{"pairs over KEYS", `local s = "" for i, k in ipairs(KEYS) do s = s .. i .. "=" .. k .. ";" end return s`, "1=key1;2=key2;", ""},
	})
	// each Run gets fresh KEYS/ARGV tables
	s, err := Compile(`table.remove(ARGV) return #ARGV`)
	if err != nil {
		t.Fatal(err)
	}
	argv := []string{"a", "b"}
	for i := 0; i < 2; i++ {
		got, err := s.Run(nil, argv, nil)
		if err != nil || got != int64(1) {
			t.Fatalf("run %d: %v %v", i, got, err)
		}
	}
	if !reflect.DeepEqual(argv, []string{"a", "b"}) {
		t.Errorf("caller's slice modified: %v", argv)
	}
	// nil slices give empty tables
	got, err := mustCompile(t, `return {#KEYS, #ARGV, type(KEYS), type(ARGV)}`).Run(nil, nil, nil)
	if err != nil || !reflect.DeepEqual(got, arr(i64(0), i64(0), "table", "table")) {
		t.Errorf("%#v %v", got, err)
	}
}

func mustCompile(t *testing.T, src string) *Script {
	t.Helper()
	s, err := Compile(src)
	if err != nil {
		t.Fatalf("Compile(%q): %v", src, err)
	}
	return s
}

func TestControlFlow(t *testing.T) {
	runCases(t, []evalCase{
		{"if", `if 1 < 2 then return "a" end return "b"`, "a", ""},
		{"if else", `if 1 > 2 then return "a" else return "b" end`, "b", ""},
		{"elseif chain", `local x = 3 if x == 1 then return "one" elseif x == 2 then return "two" elseif x == 3 then return "three" else return "many" end`, "three", ""},
		{"zero and empty string are truthy", `local r = {} if 0 then r[#r+1] = "zero" end if "" then r[#r+1] = "empty" end if not nil then r[#r+1] = "nil" end if not false then r[#r+1] = "false" end return r`, arr("zero", "empty", "nil", "false"), ""},
		{"numeric for", `local s = 0 for i = 1, 10 do s = s + i end return s`, i64(55), ""},
		{"numeric for step", `local t = {} for i = 1, 10, 4 do t[#t+1] = i end return t`, arr(i64(1), i64(5), i64(9)), ""},
		{"numeric for negative step", `local t = {} for i = 5, 1, -2 do t[#t+1] = i end return t`, arr(i64(5), i64(3), i64(1)), ""},
		{"numeric for negative step by one", `local t = {} for i = 3, 1, -1 do t[#t+1] = i end return t`, arr(i64(3), i64(2), i64(1)), ""},
		{"numeric for no iterations", `local n = 0 for i = 5, 1 do n = n + 1 end for i = 1, 5, -1 do n = n + 1 end return n`, i64(0), ""},
		{"numeric for single", `local n = 0 for i = 3, 3 do n = n + i end return n`, i64(3), ""},
		{"numeric for float step", `local t = {} for i = 0, 1, 0.25 do t[#t+1] = tostring(i) end return t`, arr("0", "0.25", "0.5", "0.75", "1"), ""},
		{"numeric for string bounds coerced", `local n = 0 for i = "1", "3" do n = n + i end return n`, i64(6), ""},
		{"loop var is a copy", `local t = {} for i = 1, 3 do local j = i i = i * 10 t[#t+1] = j end return t`, arr(i64(1), i64(2), i64(3)), ""},
		{"bounds evaluated once", `local n = 3 local c = 0 for i = 1, n do n = 10 c = c + 1 end return c`, i64(3), ""},
		{"break in for", `local s = 0 for i = 1, 100 do if i > 3 then break end s = s + i end return s`, i64(6), ""},
		{"break only inner loop", `local c = 0 for i = 1, 3 do for j = 1, 10 do if j > 2 then break end c = c + 1 end end return c`, i64(6), ""},
		{"while", `local i, s = 0, 0 while i < 5 do i = i + 1 s = s + i end return s`, i64(15), ""},
		{"while break", `local i = 0 while true do i = i + 1 if i == 7 then break end end return i`, i64(7), ""},
		{"repeat", `local i = 0 repeat i = i + 1 until i >= 4 return i`, i64(4), ""},
		{"repeat runs once", `local i = 10 repeat i = i + 1 until true return i`, i64(11), ""},
		{"repeat cond sees body locals", `local i = 0 repeat local done = i >= 2 i = i + 1 until done return i`, i64(3), ""},
		{"do block scope", `local x = 1 do local x = 2 end return x`, i64(1), ""},
		{"do block assign outer", `local x = 1 do x = 2 end return x`, i64(2), ""},
		{"return from nested loops", `for i = 1, 3 do for j = 1, 3 do if i * j == 4 then return i * 10 + j end end end return 0`, i64(22), ""},
		{"return inside while inside function", `local function f() local i = 0 while true do i = i + 1 if i == 3 then return i end end end return f()`, i64(3), ""},
		{"ipairs stops at nil", `local n = 0 for i, v in ipairs({1, 2, nil, 4}) do n = n + 1 end return n`, i64(2), ""},
		{"ipairs order", `local s = "" for i, v in ipairs({"a", "b", "c"}) do s = s .. i .. v end return s`, "1a2b3c", ""},
		{"pairs visits all", `local n, s = 0, 0 for k, v in pairs({10, 20, x = 30, [7] = 40}) do n = n + 1 s = s + v end return {n, s}`, arr(i64(2*2), i64(100)), ""},
		{"pairs allows assigning existing fields", `local t = {a=1, b=2, c=3} for k in pairs(t) do t[k] = nil end return next(t) == nil`, i64(1), ""},
		{"pairs empty", `for k in pairs({}) do return "bad" end return "ok"`, "ok", ""},
		{"next", `local t = {5} local k, v = next(t) return {k, v, next(t, k) == nil}`, arr(i64(1), i64(5), i64(1)), ""},
		{"generic for with custom iterator", `local function iter(s, c) if c < s then return c + 1 end end local sum = 0 for i in iter, 4, 0 do sum = sum + i end return sum`, i64(10), ""},
		{"semicolons", `local a = 1; local b = 2; return a + b;`, i64(3), ""},
		{"comments", "-- line comment\nlocal a = 1 -- trailing\n--[[ block\ncomment ]] local b = 2\n--[==[ level ]] 2 ]==]\nreturn a + b", i64(3), ""},
	})
}

func TestLocalsAndAssignment(t *testing.T) {
	runCases(t, []evalCase{
		{"multiple locals", `local a, b, c = 1, 2 return {a, b, c == nil}`, arr(i64(1), i64(2), i64(1)), ""},
		{"extra values dropped", `local a = 1, 2, 3 return a`, i64(1), ""},
		{"local without value", `local a return a == nil`, i64(1), ""},
		{"swap", `local a, b = 1, 2 a, b = b, a return {a, b}`, arr(i64(2), i64(1)), ""},
		{"multi assign from call", `local function f() return 1, 2, 3 end local a, b, c, d = f() return {a, b, c, d == nil}`, arr(i64(1), i64(2), i64(3), i64(1)), ""},
		{"call in middle truncated", `local function f() return 1, 2 end local a, b, c = f(), 10 return {a, b, c == nil}`, arr(i64(1), i64(10), i64(1)), ""},
		{"rhs evaluated before assignment", `local i = 1 local t = {} i, t[i] = i + 1, 20 return {i, t[1]}`, arr(i64(2), i64(20)), ""},
		{"shadowing", `local x = 1 local x = x + 1 return x`, i64(2), ""},
		{"field assignment", `local t = {} t.a = 1 t["b"] = 2 t.c = {} t.c.d = 3 return {t.a, t.b, t.c.d}`, arr(i64(1), i64(2), i64(3)), ""},
		{"index with expression", `local t = {} local k = "x" t[k .. "y"] = 5 return t.xy`, i64(5), ""},
		{"float keys normalise", `local t = {} t[1.0] = "a" t[2] = "b" return {t[1], #t}`, arr("a", i64(2)), ""},
		{"string and number keys differ", `local t = {} t[1] = "n" t["1"] = "s" return {t[1], t["1"]}`, arr("n", "s"), ""},
		{"table identity", `local a = {} local b = a b.x = 1 return {a.x, a == b, a == {}}`, arr(i64(1), i64(1), nil), ""},
		{"nil assignment removes", `local t = {1, 2, 3} t[3] = nil return #t`, i64(2), ""},
		{"length after append", `local t = {} for i = 1, 5 do t[#t + 1] = i * i end return {#t, t[5]}`, arr(i64(5), i64(25)), ""},
	})
}

func TestFunctionsAndClosures(t *testing.T) {
	runCases(t, []evalCase{
		{"local function", `local function add(a, b) return a + b end return add(2, 3)`, i64(5), ""},
		{"anonymous function", `local f = function(x) return x * 2 end return f(21)`, i64(42), ""},
		{"missing args are nil", `local function f(a, b) return b == nil end return f(1)`, i64(1), ""},
		{"extra args dropped", `local function f(a) return a end return f(1, 2, 3)`, i64(1), ""},
		{"recursion", `local function fact(n) if n <= 1 then return 1 end return n * fact(n - 1) end return fact(10)`, i64(3628800), ""},
		{"mutual recursion via upvalue", `local odd local function even(n) if n == 0 then return true end return odd(n - 1) end odd = function(n) if n == 0 then return false end return even(n - 1) end return {even(10), odd(7)}`, arr(i64(1), i64(1)), ""},
		{"counter closure", `local function counter() local c = 0 return function() c = c + 1 return c end end local a, b = counter(), counter() a() a() return {a(), b()}`, arr(i64(3), i64(1)), ""},
		{"closure shares upvalue", `local x = 1 local function get() return x end local function set(v) x = v end set(9) return get()`, i64(9), ""},
		{"closure sees later assignment", `local x = 1 local f = function() return x end x = 2 return f()`, i64(2), ""},
		{"closure does not see later shadow", `local x = 1 local f = function() return x end local x = 2 return f()`, i64(1), ""},
		{"fresh loop variable per iteration", `local fs = {} for i = 1, 3 do fs[i] = function() return i end end return {fs[1](), fs[2](), fs[3]()}`, arr(i64(1), i64(2), i64(3)), ""},
		{"fresh local per iteration", `local fs = {} for i = 1, 3 do local j = i * 10 fs[i] = function() j = j + 1 return j end end fs[1]() return {fs[1](), fs[2]()}`, arr(i64(12), i64(21)), ""},
		{"function in table field", `local m = {} m.double = function(x) return x * 2 end return m.double(4)`, i64(8), ""},
		{"nested field call", `local a = {b = {c = function(x) return x + 1 end}} return a.b.c(1)`, i64(2), ""},
		{"method call on table", `local obj = {n = 5} obj.get = function(self, d) return self.n + d end return obj:get(2)`, i64(7), ""},
		{"function as argument", `local function apply(f, x) return f(x) end return apply(function(v) return v .. "!" end, "hi")`, "hi!", ""},
		{"multiple returns", `local function mr() return 1, 2, 3 end local t = {mr()} return #t`, i64(3), ""},
		{"return call passes all", `local function a() return 1, 2 end local function b() return a() end local x, y = b() return {x, y}`, arr(i64(1), i64(2)), ""},
		{"args expansion", `local function s(a, b, c) return (a or 0) + (b or 0) + (c or 0) end local function two() return 10, 20 end return {s(two()), s(two(), 1), s(1, two())}`, arr(i64(30), i64(11), i64(31)), ""},
		{"immediately invoked", `return (function(x) return x + 1 end)(1)`, i64(2), ""},
		{"local function sees itself", `local function f(n) if n == 0 then return "done" end return f(n - 1) end return f(3)`, "done", ""},
		{"local f = function does not see itself", `local f = function() return f end return f()`, nil, "nonexistent global variable 'f'"},
		{"MergeTables shape from repo", `local function MergeTables(t1, t2) for i=1, #t2 do table.insert(t1, t2[i]) end return t1 end local a = {1} a = MergeTables(a, {2, 3}) return a`, arr(i64(1), i64(2), i64(3)), ""},
		{"string call sugar", `local function id(s) return s end return id"x" .. id'y' .. id[[z]]`, "xyz", ""},
		{"table call sugar", `local function n(t) return #t end return n{1, 2, 3}`, i64(3), ""},
	})
}

func TestOperators(t *testing.T) {
	runCases(t, []evalCase{
		{"arithmetic", `return {1 + 2, 5 - 7, 3 * 4, 7 / 2 == 3.5, 2 ^ 10}`, arr(i64(3), i64(-2), i64(12), i64(1), i64(1024)), ""},
		{"precedence", `return {1 + 2 * 3, (1 + 2) * 3, 2 ^ 3 ^ 2, -2 ^ 2, 2 * -3}`, arr(i64(7), i64(9), i64(512), i64(-4), i64(-6)), ""},
		{"modulo", `return {7 % 3, -7 % 3, 7 % -3, -7 % -3, 5.5 % 2 == 1.5, 6 % 3}`, arr(i64(1), i64(2), i64(-2), i64(-1), i64(1), i64(0)), ""},
		{"modulo by zero is nan", `local x = 1 % 0 return x ~= x`, i64(1), ""},
		{"division by zero", `return {1/0 == math.huge, -1/0 == -math.huge, tostring(1/0), tostring(-1/0)}`, arr(i64(1), i64(1), "inf", "-inf"), ""},
		{"comparison numbers", `return {1 < 2, 2 <= 2, 3 > 4, 4 >= 4, 1 == 1.0, 1 ~= 2}`, arr(i64(1), i64(1), nil, i64(1), i64(1), i64(1)), ""},
		{"comparison strings", `return {"a" < "b", "a" < "B", "abc" < "abd", "" < "a", "10" < "9", "a" <= "a", "b" > "a"}`, arr(i64(1), nil, i64(1), i64(1), i64(1), i64(1), i64(1)), ""},
		{"equality never coerces", `return {1 == "1", "1" == 1, 0 == false, nil == false, "" == false}`, arr(nil, nil, nil, nil, nil), ""},
		{"equality of values", `return {"a" == "a", nil == nil, true == true, true == false}`, arr(i64(1), i64(1), i64(1), nil), ""},
		{"and or values", `return {1 and 2, (nil and 1) == nil, false or "x", (nil or false) == false, 0 or 1, "" and "y", (false and nil) == false, false or nil}`, arr(i64(2), i64(1), "x", i64(1), i64(0), "y", i64(1)), ""},
		{"and or precedence", `return {true or false and false, (true or false) and false, not true or true, not (true or true)}`, arr(i64(1), nil, i64(1), nil), ""},
		{"short circuit skips evaluation", `local n = 0 local function f() n = n + 1 return true end local a = false and f() local b = true or f() return n`, i64(0), ""},
		{"short circuit avoids error", `local t = nil return t and t.x or "default"`, "default", ""},
		{"ternary idiom", `local function pick(c) return c and "yes" or "no" end return {pick(true), pick(false), pick(nil), pick(0)}`, arr("yes", "no", "no", "yes"), ""},
		{"not", `return {not nil, not false, not 0, not "", not true}`, arr(i64(1), i64(1), nil, nil, nil), ""},
		{"length", `return {#"hello", #"", #{1, 2, 3}, #{}, #{n = 1}}`, arr(i64(5), i64(0), i64(3), i64(0), i64(0)), ""},
		{"concat", `return "a" .. "b" .. "c"`, "abc", ""},
		{"concat right assoc with numbers", `return 1 .. 2 .. 3`, "123", ""},
		{"concat number formatting", `return 1.5 .. "|" .. 10 .. "|" .. 2^53 .. "|" .. -0.25 .. "|" .. 1e100 .. "|" .. 100 / 3`, "1.5|10|9.007199254741e+15|-0.25|1e+100|33.333333333333", ""},
		{"concat precedence over comparison", `return "a" .. "b" == "ab"`, i64(1), ""},
		{"arith binds tighter than concat", `return 1 + 2 .. ""`, "3", ""},
		{"unary minus", `local x = 5 return {-x, - -x, -"2", -(-3)}`, arr(i64(-5), i64(5), i64(-2), i64(3)), ""},
		{"comparison chain via and", `local x = 5 return 1 < x and x < 10`, i64(1), ""},
		{"parenthesised", `return ((1 + 2) * (3 + 4))`, i64(21), ""},
	})
}

func TestStringCoercion(t *testing.T) {
	runCases(t, []evalCase{
		{"string plus number", `return "10" + 5`, i64(15), ""},
		{"string times string", `return "3" * "4"`, i64(12), ""},
		{"float string", `return "1.5" * 2`, i64(3), ""},
		{"hex string", `return "0x10" + 0`, i64(16), ""},
		{"exponent string", `return "1e2" + 0`, i64(100), ""},
		{"whitespace allowed", `return " 7 " + 1`, i64(8), ""},
		{"negative string", `return "-3" + 1`, i64(-2), ""},
		{"non numeric string fails", `return "abc" + 1`, nil, "attempt to perform arithmetic on a string value"},
		{"empty string fails", `return "" + 1`, nil, "attempt to perform arithmetic on a string value"},
		{"trailing garbage fails", `return "12x" + 1`, nil, "attempt to perform arithmetic on a string value"},
		{"boolean never coerces", `return true + 1`, nil, "attempt to perform arithmetic on a boolean value"},
		{"number to string in concat", `return 42 .. ""`, "42", ""},
		{"boolean concat fails", `return "a" .. true`, nil, "attempt to concatenate a boolean value"},
		{"coerced result is number", `return type("1" + 1)`, "number", ""},
		{"concat result is string", `return type(1 .. 1)`, "string", ""},
		{"comparison does not coerce", `return "2" < 10`, nil, "attempt to compare string with number"},
		{"string arg where number expected", `return math.floor("3.7")`, i64(3), ""},
		{"number arg where string expected", `return string.len(12345)`, i64(5), ""},
		{"for with string bounds", `local c = 0 for i = 1, "3" do c = c + 1 end return c`, i64(3), ""},
		{"oneBits + bitset idiom", `local bitset = {1} local oneBits = 0 oneBits = oneBits + bitset[1] return oneBits == 1`, i64(1), ""},
	})
}

func TestNumbersAndLiterals(t *testing.T) {
	runCases(t, []evalCase{
		{"tostring integer", `return tostring(3)`, "3", ""},
		{"tostring float", `return tostring(1.5)`, "1.5", ""},
		{"tostring 2^53", `return tostring(2^53)`, "9.007199254741e+15", ""},
		{"tostring 1e15", `return tostring(1e15)`, "1e+15", ""},
		{"tostring 1e14", `return tostring(1e14)`, "1e+14", ""},
		{"tostring 123456789012", `return tostring(123456789012)`, "123456789012", ""},
		{"tostring 14 digits", `return tostring(12345678901234)`, "12345678901234", ""},
		{"tostring 15 digits", `return tostring(123456789012345)`, "1.2345678901234e+14", ""},
		{"tostring negative", `return tostring(-17)`, "-17", ""},
		{"tostring small", `return tostring(0.0001) .. "|" .. tostring(0.00001)`, "0.0001|1e-05", ""},
		{"tostring third", `return tostring(1/3)`, "0.33333333333333", ""},
		{"tostring 0.1", `return tostring(0.1)`, "0.1", ""},
		{"tostring negative zero", `return tostring(-0)`, "-0", ""},
		{"tostring nan", `return tostring(0/0):sub(-3)`, "nan", ""},
		{"tostring others", `return {tostring(nil), tostring(true), tostring(false), tostring("s")}`, arr("nil", "true", "false", "s"), ""},
		{"tostring table prefix", `return tostring({}):sub(1, 7)`, "table: ", ""},
		{"tostring function prefix", `return tostring(function() end):sub(1, 10)`, "function: ", ""},
		{"timestamps ms survive tostring", `return tostring(1789000000123)`, "1789000000123", ""},
		{"hex literal", `return {0xff, 0XA0, 0x0}`, arr(i64(255), i64(160), i64(0)), ""},
		{"decimal literals", `return {3, 3.0 == 3, .5 == 0.5, 5. == 5, 1e3, 1E-2 == 0.01, 2.5e+2}`, arr(i64(3), i64(1), i64(1), i64(1), i64(1000), i64(1), i64(250)), ""},
		{"string escapes", `return "a\nb\tc\\d\"e\'f\rg"`, "a\nb\tc\\d\"e'f\rg", ""},
		{"single quotes", `return 'it\'s' .. 'a "q"'`, `it'sa "q"`, ""},
		{"decimal escapes", `return "\65\066\0067\10"`, "AB\x06" + "7\n", ""},
		{"escape 255", `return #"\255" .. "\048"`, "10", ""},
		{"other escapes", `return "\a\b\f\v" == string.char(7, 8, 12, 11)`, i64(1), ""},
		{"escaped newline", "return \"a\\\nb\"", "a\nb", ""},
		{"long string", "return [[line1\nline2]]", "line1\nline2", ""},
		{"long string skips first newline", "return [[\nx]]", "x", ""},
		{"long string no escapes", `return [[a\nb]]`, `a\nb`, ""},
		{"long string levels", `return [==[a]]b]=]c]==]`, "a]]b]=]c", ""},
		{"tonumber", `return {tonumber("42"), tonumber("0x1F"), tonumber("  12  "), tonumber("1e1"), tonumber(7)}`, arr(i64(42), i64(31), i64(12), i64(10), i64(7)), ""},
		{"tonumber float", `return tonumber("3.75") == 3.75`, i64(1), ""},
		{"tonumber failures", `return {tonumber("abc") == nil, tonumber("") == nil, tonumber("12a") == nil, tonumber(nil) == nil, tonumber(true) == nil, tonumber({}) == nil, tonumber("1 2") == nil, tonumber("--1") == nil}`,
			arr(i64(1), i64(1), i64(1), i64(1), i64(1), i64(1), i64(1), i64(1)), ""},
		{"tonumber false", `return tonumber(false) == nil`, i64(1), ""},
		{"tonumber base", `return {tonumber("ff", 16), tonumber("FF", 16), tonumber("777", 8), tonumber("1010", 2), tonumber("zz", 36), tonumber("10", 10), tonumber(" 11 ", 2)}`,
			arr(i64(255), i64(255), i64(511), i64(10), i64(1295), i64(10), i64(3)), ""},
		{"tonumber base failures", `return {tonumber("8", 8) == nil, tonumber("1.5", 10) ~= nil, tonumber("g", 16) == nil, tonumber("", 16) == nil, tonumber("1 1", 2) == nil}`,
			arr(i64(1), i64(1), i64(1), i64(1), i64(1)), ""},
		{"tonumber base out of range", `return tonumber("1", 99)`, nil, "base out of range"},
		{"tonumber no arg", `return tonumber()`, nil, "bad argument #1 to 'tonumber' (value expected)"},
		{"tonumber(#ARGV)", `return tonumber(#ARGV) - 1`, i64(2), ""},
		{"big index roundtrip", `return redis.call("ARGS", tonumber("4294967295"), tonumber("18446744073709551615"))`, arr("4294967295", "1.8446744073709552e+19"), ""},
		{"type", `return {type(nil), type(true), type(1), type("s"), type({}), type(print), type(function() end)}`, arr("nil", "boolean", "number", "string", "table", "function", "function"), ""},
		{"type no arg", `return type()`, nil, "bad argument #1 to 'type' (value expected)"},
	})
}

func TestTableLibrary(t *testing.T) {
	runCases(t, []evalCase{
		{"constructor mixed", `local t = {1, 2, x = "a", [10] = "b", ["y z"] = "c", 3} return {#t, t.x, t[10], t["y z"], t[3]}`, arr(i64(3), "a", "b", "c", i64(3)), ""},
		{"constructor separators", `local t = {1; 2, 3,} return #t`, i64(3), ""},
		{"constructor nested", `local t = {a = {b = {1, 2}}} return t.a.b[2]`, i64(2), ""},
		{"constructor positional overrides keyed", `local t = {[1] = "k", "p"} return t[1]`, "p", ""},
		{"insert append", `local t = {} table.insert(t, "a") table.insert(t, "b") return t`, arr("a", "b"), ""},
		{"insert at position", `local t = {"a", "c"} table.insert(t, 2, "b") return t`, arr("a", "b", "c"), ""},
		{"insert at front", `local t = {2, 3} table.insert(t, 1, 1) return t`, arr(i64(1), i64(2), i64(3)), ""},
		{"insert at end position", `local t = {1, 2} table.insert(t, 3, 3) return t`, arr(i64(1), i64(2), i64(3)), ""},
		{"insert false value", `local t = {} table.insert(t, false) table.insert(t, true) return {#t, t[1] == false, t[2]}`, arr(i64(2), i64(1), i64(1)), ""},
		{"insert wrong arg count", `table.insert({}, 1, 2, 3)`, nil, "wrong number of arguments to 'insert'"},
		{"insert one arg", `table.insert({})`, nil, "wrong number of arguments to 'insert'"},
		{"remove last", `local t = {1, 2, 3} local v = table.remove(t) return {v, #t}`, arr(i64(3), i64(2)), ""},
		{"remove position", `local t = {"a", "b", "c"} local v = table.remove(t, 1) return {v, t[1], t[2], #t}`, arr("a", "b", "c", i64(2)), ""},
		{"remove middle", `local t = {1, 2, 3, 4} table.remove(t, 2) return t`, arr(i64(1), i64(3), i64(4)), ""},
		{"remove from empty", `local t = {} local v = table.remove(t) return {v == nil, #t}`, arr(i64(1), i64(0)), ""},
		{"remove out of range", `local t = {1, 2} local v = table.remove(t, 5) return {v == nil, #t}`, arr(i64(1), i64(2)), ""},
		{"remove until empty", `local t = {1, 2, 3} local s = 0 while #t > 0 do s = s + table.remove(t) end return s`, i64(6), ""},
		{"concat", `return table.concat({"a", "b", "c"})`, "abc", ""},
		{"concat sep", `return table.concat({"a", "b", "c"}, ", ")`, "a, b, c", ""},
		{"concat numbers", `return table.concat({1, 2.5, "x"}, "-")`, "1-2.5-x", ""},
		{"concat range", `return table.concat({"a", "b", "c", "d"}, "", 2, 3)`, "bc", ""},
		{"concat empty", `return table.concat({}, ",")`, "", ""},
		{"concat invalid", `return table.concat({1, {}, 3})`, nil, "table contains non-strings"},
		{"unpack", `local a, b, c = unpack({1, 2, 3}) return {a, b, c}`, arr(i64(1), i64(2), i64(3)), ""},
		{"table.unpack alias", `local a, b = table.unpack({7, 8}) return {a, b}`, arr(i64(7), i64(8)), ""},
		{"unpack range", `return {unpack({1, 2, 3, 4, 5}, 2, 4)}`, arr(i64(2), i64(3), i64(4)), ""},
		{"unpack from", `return {unpack({1, 2, 3}, 2)}`, arr(i64(2), i64(3)), ""},
		{"unpack empty", `return select('#', unpack({}))`, i64(0), ""},
		{"unpack with holes keeps count", `return select('#', unpack({1, nil, 3}, 1, 3))`, i64(3), ""},
		{"unpack into call", `return redis.call("ARGS", "x", unpack({"a", "b"}))`, arr("x", "a", "b"), ""},
		{"unpack not last", `return redis.call("ARGS", unpack({"a", "b"}), "x")`, arr("a", "x"), ""},
		{"unpack non table", `return unpack("x")`, nil, "bad argument #1 to 'unpack' (table expected, got string)"},
		{"unpack too many", `return unpack({}, 1, 1e6)`, nil, "too many results to unpack"},
		{"sort", `local t = {3, 1, 2} table.sort(t) return t`, arr(i64(1), i64(2), i64(3)), ""},
		{"sort strings", `local t = {"b", "c", "a"} table.sort(t) return t`, arr("a", "b", "c"), ""},
		{"sort comparator", `local t = {1, 3, 2} table.sort(t, function(a, b) return a > b end) return t`, arr(i64(3), i64(2), i64(1)), ""},
		{"sort mixed fails", `local t = {1, "a"} table.sort(t)`, nil, "attempt to compare"},
		{"getn maxn", `return {table.getn({1, 2}), table.maxn({1, 2, [9] = 1})}`, arr(i64(2), i64(9)), ""},
		{"select", `return {select('#'), select('#', nil, nil), select(2, "a", "b", "c"), (select(-1, "a", "b"))}`, arr(i64(0), i64(2), "b", "b"), ""},
		{"rawget rawset rawequal", `local t = {} rawset(t, "k", 1) return {rawget(t, "k"), rawequal(t, t), rawequal(1, "1")}`, arr(i64(1), i64(1), nil), ""},
	})
}

func TestMathLibrary(t *testing.T) {
	runCases(t, []evalCase{
		{"floor", `return {math.floor(3.7), math.floor(-3.2), math.floor(5), math.floor("2.9")}`, arr(i64(3), i64(-4), i64(5), i64(2)), ""},
		{"ceil", `return {math.ceil(3.2), math.ceil(-3.7), math.ceil(5)}`, arr(i64(4), i64(-3), i64(5)), ""},
		{"max min", `return {math.max(1, 5, 3), math.min(4, 2, 8), math.max(7), math.min(-1, -2)}`, arr(i64(5), i64(2), i64(7), i64(-2)), ""},
		{"max no args", `return math.max()`, nil, "bad argument #1 to 'max' (number expected, got no value)"},
		{"abs", `return {math.abs(-3), math.abs(3), math.abs(-0.5) == 0.5}`, arr(i64(3), i64(3), i64(1)), ""},
		{"fmod", `return {math.fmod(7, 3), math.fmod(-7, 3), math.fmod(7, -3), math.fmod(5.5, 2) == 1.5}`, arr(i64(1), i64(-1), i64(1), i64(1)), ""},
		{"sqrt pow", `return {math.sqrt(16), math.pow(2, 8)}`, arr(i64(4), i64(256)), ""},
		{"huge", `return {math.huge > 1e308, -math.huge < -1e308}`, arr(i64(1), i64(1)), ""},
		{"pi", `return math.floor(math.pi * 100)`, i64(314), ""},
		{"modf", `local i, f = math.modf(3.25) return {i, f == 0.25}`, arr(i64(3), i64(1)), ""},
		{"time arithmetic from repo", `local time = {"1700000000", "123456"} return tonumber(time[1]) * 1000 + math.floor(tonumber(time[2]) / 1000)`, i64(1700000000123), ""},
	})
}

func TestStringLibrary(t *testing.T) {
	runCases(t, []evalCase{
		{"len", `return {string.len("abc"), string.len(""), ("xy"):len()}`, arr(i64(3), i64(0), i64(2)), ""},
		{"sub", `return {string.sub("hello", 2, 4), string.sub("hello", 2), string.sub("hello", -3), string.sub("hello", -3, -2), string.sub("hello", 0), string.sub("hello", 4, 100), string.sub("hello", 3, 2), string.sub("hello", -100, 2)}`,
			arr("ell", "ello", "llo", "ll", "hello", "lo", "", "he"), ""},
		{"method syntax", `local s = "hello" return {s:sub(1, 2), s:len(), s:upper(), s:rep(2), s:byte(1), s:find("ll")}`, arr("he", i64(5), "HELLO", "hellohello", i64(104), i64(3), i64(4)), ""},
		{"method on literal", `return ("abc"):upper() .. ("%d"):format(5)`, "ABC5", ""},
		{"method on number fails", `local n = 5 return n:len()`, nil, "attempt to index a number value"},
		{"string indexing field", `local s = "x" return s.len == string.len`, i64(1), ""},
		{"lower upper", `return {string.lower("HeLLo 1"), string.upper("HeLLo 1")}`, arr("hello 1", "HELLO 1"), ""},
		{"rep", `return {string.rep("ab", 3), string.rep("x", 0), string.rep("x", -1), string.rep("", 5)}`, arr("ababab", "", "", ""), ""},
		{"byte", `return {string.byte("A"), string.byte("ABC", 2), string.byte("ABC", -1), string.byte("ABC", 1, 3)}`, arr(i64(65), i64(66), i64(67), i64(65), i64(66), i64(67)), ""},
		{"byte out of range", `return select('#', string.byte("A", 5))`, i64(0), ""},
		{"byte high", `return string.byte("\255")`, i64(255), ""},
		{"char", `return string.char(72, 105) .. string.char()`, "Hi", ""},
		{"char binary", `return string.char(0, 255, 128)`, "\x00\xff\x80", ""},
		{"char invalid", `return string.char(256)`, nil, "bad argument #1 to 'char' (invalid value)"},
		{"reverse", `return string.reverse("abc")`, "cba", ""},
		{"find plain", `return {string.find("hello world", "o w", 1, true)}`, arr(i64(5), i64(7)), ""},
		{"find no magic", `return {string.find("hello", "l")}`, arr(i64(3), i64(3)), ""},
		{"find init", `return {string.find("hello", "l", 4)}`, arr(i64(4), i64(4)), ""},
		{"find negative init", `return {string.find("hello", "l", -2)}`, arr(i64(4), i64(4)), ""},
		{"find missing", `return string.find("hello", "z") == nil`, i64(1), ""},
		{"find empty", `return {string.find("abc", "")}`, arr(i64(1), i64(0)), ""},
		{"find magic plain", `return {string.find("a.b", ".", 1, true)}`, arr(i64(2), i64(2)), ""},
		{"format d", `return string.format("%d|%5d|%-5d|%05d|%+d|%i", 42, 42, 42, 42, 42, -7)`, "42|   42|42   |00042|+42|-7", ""},
		{"format d truncates", `return string.format("%d %d", 3.99, -3.99)`, "3 -3", ""},
		{"format d string arg", `return string.format("%d", "12")`, "12", ""},
		{"format s", `return string.format("%s|%5s|%-5s|%.2s|%s", "ab", "ab", "ab", "abcdef", 12)`, "ab|   ab|ab   |ab|12", ""},
		{"format s number arg", `return string.format("%s %s", 1.5, 2^53)`, "1.5 9.007199254741e+15", ""},
		{"format s nil arg", `return string.format("%s", nil)`, nil, "bad argument #2 to 'format' (string expected, got nil)"},
		{"format missing arg", `return string.format("%d")`, nil, "bad argument #2 to 'format' (number expected, got no value)"},
		{"format f", `return string.format("%f|%.2f|%8.3f|%.0f|%-8.1f|", 3.14159, 3.14159, 3.14159, 2.5, 1.25)`, "3.141590|3.14|   3.142|2|1.2     |", ""},
		{"format g", `return string.format("%g|%g|%g|%g|%g|%.3g|%.10g", 100, 1.5, 1e20, 0.0001, 0.00001, 3.14159, 1/3)`, "100|1.5|1e+20|0.0001|1e-05|3.14|0.3333333333", ""},
		{"format g large", `return string.format("%g %g", 1234567, 123456)`, "1.23457e+06 123456", ""},
		{"format .14g", `return string.format("%.14g", 2^53)`, "9.007199254741e+15", ""},
		{"format .17g", `return string.format("%.17g", 0.1)`, "0.10000000000000001", ""},
		{"format e", `return string.format("%e|%.2e|%E", 12345.678, 12345.678, 0.5)`, "1.234568e+04|1.23e+04|5.000000E-01", ""},
		{"format x", `return string.format("%x|%X|%08x|%#x|%o", 255, 255, 255, 255, 8)`, "ff|FF|000000ff|0xff|10", ""},
		{"format x negative", `return string.format("%x", -1)`, "ffffffffffffffff", ""},
		{"format c", `return string.format("%c%c", 72, 105)`, "Hi", ""},
		{"format q", `return string.format("%q", 'a"b\\c\nd')`, "\"a\\\"b\\\\c\\\nd\"", ""},
		{"format percent", `return string.format("100%% %s", "ok")`, "100% ok", ""},
		{"format invalid", `return string.format("%y", 1)`, nil, "invalid option '%y' to 'format'"},
		{"format no directives", `return string.format("plain")`, "plain", ""},
		{"format negative float pad", `return string.format("%07.2f|%+.1f|% d", -1.5, 2, 5)`, "-001.50|+2.0| 5", ""},
	})
}

func TestRedisLibrary(t *testing.T) {
	runCases(t, []evalCase{
		{"sha1hex empty", `return redis.sha1hex("")`, "da39a3ee5e6b4b0d3255bfef95601890afd80709", ""},
		{"sha1hex abc", `return redis.sha1hex("abc")`, "a9993e364706816aba3e25717850c26c9cd0d89d", ""},
		{"sha1hex number", `return redis.sha1hex(1)`, "356a192b7913b04c54574d18c28d46e6395428ab", ""},
		{"sha1hex wrong args", `return redis.sha1hex()`, nil, "wrong number of arguments"},
		{"log is a no-op", `redis.log(redis.LOG_WARNING, "msg") redis.log(redis.LOG_DEBUG, "a", "b") return 1`, i64(1), ""},
		{"log levels", `return {redis.LOG_DEBUG, redis.LOG_VERBOSE, redis.LOG_NOTICE, redis.LOG_WARNING}`, arr(i64(0), i64(1), i64(2), i64(3)), ""},
		{"log needs args", `redis.log(1)`, nil, "redis.log() requires two arguments or more"},
		{"error_reply table", `local e = redis.error_reply("MY ERR") return {type(e), e.err}`, arr("table", "MY ERR"), ""},
		{"error_reply strips dash", `return redis.error_reply("-BUSY wait").err`, "BUSY wait", ""},
		{"status_reply table", `local s = redis.status_reply("FINE") return {type(s), s.ok}`, arr("table", "FINE"), ""},
		{"status_reply wrong type", `return redis.status_reply(1).err`, "ERR wrong number or type of arguments", ""},
		{"replicate_commands", `return redis.replicate_commands()`, i64(1), ""},
		{"setresp 2", `redis.setresp(2) return 1`, i64(1), ""},
	})
}

func TestCompileErrors(t *testing.T) {
	unsupported := []struct{ name, src, construct string }{
		{"vararg expression", `return ...`, "varargs"},
		{"vararg function", `local function f(...) return 1 end`, "varargs"},
		{"vararg after params", `local function f(a, ...) return a end`, "varargs"},
		{"vararg select", `return select('#', ...)`, "varargs"},
		{"goto", `goto done`, "goto"},
		{"label", `::top::`, "::"},
		{"integer division", `return 7 // 2`, "//"},
		{"bitwise and", `return 1 & 2`, "&"},
		{"bitwise or", `return 1 | 2`, "|"},
		{"bitwise not", `return ~1`, "~"},
		{"shift", `return 1 << 2`, "<<"},
		{"hex escape", `return "\x41"`, `\x`},
		{"utf8 escape", `return "\u{41}"`, `\u`},
		{"z escape", `return "a\z  b"`, `\z`},
		{"local attrib", `local x <const> = 1`, "attribute"},
	}
	for _, c := range unsupported {
		_, err := Compile(c.src)
		var ue *UnsupportedError
		if !errors.As(err, &ue) {
			t.Errorf("%s: want *UnsupportedError, got %T %v", c.name, err, err)
			continue
		}
		if !strings.Contains(ue.Construct, c.construct) || ue.Line != 1 || !strings.Contains(ue.Error(), "unsupported") {
			t.Errorf("%s: got %#v (%s)", c.name, ue, ue.Error())
		}
	}
	if _, err := Compile("local a = 1\n\nlocal function f(...) end"); err == nil || err.(*UnsupportedError).Line != 3 {
		t.Errorf("line tracking: %v", err)
	}

	syntax := []string{
		`return return`,
		`local = 1`,
		`if x then`,
		`for i = 1 do end`,
		`x = `,
		`return 1 +`,
		`local t = {1, 2`,
		`"unterminated`,
		"'multi\nline'",
		`[[ unfinished long string`,
		`--[[ unfinished comment`,
		`1 = 2`,
		`f() = 1`,
		`a.b`,
		`(f)`,
		`break`,
		`while true do local function f() break end end`,
		`return 1 2`,
		`return 1; local x = 2`,
		`for i = 1, 2 do break; local x = 1 end`,
		`local x = 1 end`,
		`x = = 2`,
		`return 3..2`,
		`return 0x`,
		`return 1e`,
		`return "\300"`,
		`return @`,
		`;`,
		`local a = 1 ;; local b = 2`,
		`local function() end`,
		`local t = {} t:x`,
		`local and = 1`,
		"local f = print\nf\n(1)",
		`return function() return end end end`,
		`elseif`,
		`repeat local x = 1`,
	}
	for _, src := range syntax {
		_, err := Compile(src)
		var se *SyntaxError
		if !errors.As(err, &se) {
			t.Errorf("%q: want *SyntaxError, got %T %v", src, err, err)
		} else if se.Line < 1 || !strings.Contains(se.Error(), "syntax error") {
			t.Errorf("%q: bad error %#v", src, se)
		}
	}

	// pathological nesting must produce an error, not a crash
	for _, src := range []string{
		"return " + strings.Repeat("(", 100000) + "1" + strings.Repeat(")", 100000),
		"return " + strings.Repeat("{", 100000) + strings.Repeat("}", 100000),
		strings.Repeat("do ", 100000) + strings.Repeat(" end", 100000),
		"return " + strings.Repeat("- ", 100000) + "1",
		"return " + strings.Repeat("not ", 100000) + "1",
		"local a = 1 return " + strings.Repeat("a .. ", 100000) + "a",
		"local f = " + strings.Repeat("function() return ", 1000) + "1" + strings.Repeat(" end", 1000),
	} {
		if _, err := Compile(src); err == nil {
			t.Errorf("deeply nested source (%d bytes) compiled", len(src))
		}
	}
	// long but flat sources are fine
	flat := "local a = 0\n" + strings.Repeat("a = a + 1\n", 20000) + "return a"
	got, err := mustCompile(t, flat).Run(nil, nil, nil)
	if err != nil || got != int64(20000) {
		t.Errorf("flat: %v %v", got, err)
	}
	leftAssoc := "return 0" + strings.Repeat(" + 1", 5000)
	if got, err := mustCompile(t, leftAssoc).Run(nil, nil, nil); err != nil || got != int64(5000) {
		t.Errorf("left assoc chain: %v %v", got, err)
	}
}

func TestRuntimeUnsupported(t *testing.T) {
	for _, src := range []string{
		`return string.gsub("a", "a", "b")`,
		`return ("a"):match("a")`,
		`for w in string.gmatch("a b", "%a+") do end`,
		`return string.find("abc", "a.c")`,
		`return string.find("abc", "%a")`,
		`redis.setresp(3)`,
		`return pcall(string.gsub, "a", "a", "b")`, // must not be swallowed by pcall
	} {
		_, err := mustCompile(t, src).Run(nil, nil, nil)
		var ue *UnsupportedError
		if !errors.As(err, &ue) {
			t.Errorf("%q: want *UnsupportedError, got %T %v", src, err, err)
		}
	}
	// libraries that do not exist are reported as nonexistent globals, never silently nil
	for _, src := range []string{`return cjson.encode({})`, `return cmsgpack.pack(1)`, `return bit.band(1, 2)`, `return os.time()`, `return setmetatable({}, {})`, `return loadstring("return 1")`} {
		_, err := mustCompile(t, src).Run(nil, nil, nil)
		var er *ErrorReply
		if !errors.As(err, &er) || !strings.Contains(er.Msg, "nonexistent global variable") {
			t.Errorf("%q: got %T %v", src, err, err)
		}
	}
}

func TestStepLimit(t *testing.T) {
	for _, src := range []string{
		`while true do end`,
		`repeat until false`,
		`for i = 1, 1e18 do end`,
		`for i = 10, 1, 0 do end`,
		`local function f() return f() end return f()`, // tail calls are not eliminated: stack overflow or step limit, never a hang
		`local t = {} while true do t[#t + 1] = 1 if #t > 100 then t = {} end end`,
		`while true do pcall(error, "x") end`,
	} {
		s := mustCompile(t, src)
		s.MaxSteps = 200000
		_, err := s.Run(nil, nil, nil)
		er, isErr := err.(*ErrorReply)
		if !isErr || !strings.HasPrefix(er.Msg, "ERR") {
			t.Errorf("%q: got %T %v", src, err, err)
			continue
		}
		if !strings.Contains(er.Msg, "step limit") && !strings.Contains(er.Msg, "stack overflow") {
			t.Errorf("%q: unexpected message %q", src, er.Msg)
		}
	}
	// the limit cannot be swallowed by pcall
	s := mustCompile(t, `local ok = pcall(function() while true do end end) return "survived"`)
	s.MaxSteps = 10000
	if got, err := s.Run(nil, nil, nil); err == nil {
		t.Errorf("step limit was caught by pcall: %v", got)
	}
	// default budget is large enough for real work
	got, err := mustCompile(t, `local s = 0 for i = 1, 200000 do s = s + i end return s`).Run(nil, nil, nil)
	if err != nil || got != int64(20000100000) {
		t.Errorf("%v %v", got, err)
	}
	// memory bombs are stopped as well
	_, err = mustCompile(t, `local s = "xxxxxxxxxxxxxxxx" while true do s = s .. s end`).Run(nil, nil, nil)
	if _, isErr := err.(*ErrorReply); !isErr {
		t.Errorf("string bomb: %T %v", err, err)
	}
	_, err = mustCompile(t, `return string.rep("x", 1e12)`).Run(nil, nil, nil)
	if _, isErr := err.(*ErrorReply); !isErr {
		t.Errorf("rep bomb: %T %v", err, err)
	}
}

func TestNeverPanics(t *testing.T) {
	// a Caller that panics or returns junk must not take the process down
	s := mustCompile(t, `return redis.call("X")`)
	_, err := s.Run(nil, nil, func(args []string) (any, error) { panic("caller exploded") })
	if er, isErr := err.(*ErrorReply); !isErr || !strings.HasPrefix(er.Msg, "ERR") {
		t.Errorf("panic in caller: %T %v", err, err)
	}
	_, err = s.Run(nil, nil, func(args []string) (any, error) { return struct{}{}, nil })
	if er, isErr := err.(*ErrorReply); !isErr || !strings.Contains(er.Msg, "unsupported reply type") {
		t.Errorf("junk reply: %T %v", err, err)
	}
	_, err = s.Run(nil, nil, func(args []string) (any, error) { return nil, errors.New("plain go error") })
	if er, isErr := err.(*ErrorReply); !isErr || er.Msg != "plain go error" {
		t.Errorf("plain error: %T %v", err, err)
	}
	_, err = s.Run(nil, nil, nil)
	if _, isErr := err.(*ErrorReply); !isErr {
		t.Errorf("nil caller: %T %v", err, err)
	}
	var nilScript *Script
	if _, err := nilScript.Run(nil, nil, nil); err == nil {
		t.Error("nil script must fail")
	}
	// self-referential table as return value
	got, err := mustCompile(t, `local t = {} t[1] = t return t`).Run(nil, nil, nil)
	if err != nil {
		t.Errorf("cyclic: %v", err)
	}
	_ = got
	// random garbage sources
	seeds := []string{
		"\x00\x01\x02", "local", "((((", "}}}}", "return '", "--[==[", "a.b.c.d.e", "x=x=x", "\xff\xfe", "end end end",
		"local t = {[1]=} ", "return #", "return not", "for for for", "function function", "local function f( end",
		"return 1 .. .. 2", "return ...........", "if then else end", "return 0x1p4", "return 1..2",
	}
	for _, src := range seeds {
		if s, err := Compile(src); err == nil {
			s.MaxSteps = 1000
			_, _ = s.Run(nil, nil, nil)
		}
	}
	// byte-level mutations of a real script
	base := omHashSave
	for i := 0; i < len(base); i += 3 {
		for _, mut := range []string{base[:i], base[:i] + base[i+1:], base[:i] + "(" + base[i:], base[:i] + "\"" + base[i:], base[:i] + " end " + base[i:]} {
			if s, err := Compile(mut); err == nil {
				s.MaxSteps = 5000
				_, _ = s.Run([]string{"k"}, []string{"", "1", "a", "b"}, func(a []string) (any, error) { return int64(1), nil })
			}
		}
	}
}

func TestTableAPI(t *testing.T) {
	tb := NewTable()
	if tb.Len() != 0 || tb.Get("x") != nil || tb.Get(1.0) != nil || tb.Get(nil) != nil {
		t.Fatal("empty table")
	}
	tb.Append("a")
	tb.Append("b")
	tb.Set(3.0, "c")
	tb.Set("k", true)
	tb.Set(10.0, "far")
	if tb.Len() != 3 || tb.Get(1.0) != "a" || tb.Get(3.0) != "c" || tb.Get("k") != true || tb.Get(10.0) != "far" {
		t.Fatalf("table content: len=%d", tb.Len())
	}
	tb.Set(3.0, nil)
	if tb.Len() != 2 {
		t.Fatalf("len after removing tail = %d", tb.Len())
	}
	tb.Set("k", nil)
	if tb.Get("k") != nil {
		t.Fatal("delete")
	}
	tb.Set(nil, 1)        // ignored
	tb.Set(math.NaN(), 1) // ignored
	tb.Set(2.5, "frac")   // hash part
	tb.Set(-1.0, "neg")   // hash part
	tb.Set(0.0, "zero")   // hash part
	tb.Set(float64(1<<40), "huge")
	if tb.Len() != 2 || tb.Get(2.5) != "frac" || tb.Get(-1.0) != "neg" || tb.Get(0.0) != "zero" || tb.Get(float64(1<<40)) != "huge" {
		t.Fatal("hash part keys")
	}
	// filling a gap migrates following keys to the array part
	g := NewTable()
	g.Set(3.0, "c")
	g.Set(2.0, "b")
	if g.Len() != 0 {
		t.Fatalf("len = %d", g.Len())
	}
	g.Set(1.0, "a")
	if g.Len() != 3 {
		t.Fatalf("len after filling gap = %d", g.Len())
	}
	// conversion of a Go-built table through a script boundary
	reply, err := luaToReply(g, 0)
	if err != nil || !reflect.DeepEqual(reply, []any{"a", "b", "c"}) {
		t.Fatalf("%#v %v", reply, err)
	}
	// iteration order: array part first, then insertion order
	it := NewTable()
	it.Set("z", 1.0)
	it.Append("first")
	it.Set("a", 2.0)
	var keys []Value
	var k Value
	for {
		nk, _, okk := it.next(k)
		if !okk {
			t.Fatal("next failed")
		}
		if nk == nil {
			break
		}
		keys = append(keys, nk)
		k = nk
	}
	if !reflect.DeepEqual(keys, []Value{1.0, "z", "a"}) {
		t.Fatalf("order %v", keys)
	}
	if (&ErrorReply{Msg: "ERR x"}).Error() != "ERR x" {
		t.Fatal("ErrorReply.Error")
	}
	if (&UnsupportedError{Construct: "goto", Line: 3}).Error() == "" {
		t.Fatal("UnsupportedError.Error")
	}
}

func TestScriptReuseAndConcurrency(t *testing.T) {
	s := mustCompile(t, `local n = tonumber(ARGV[1]) local t = {} for i = 1, n do t[i] = i * 2 end return t[n]`)
	done := make(chan error, 8)
	for g := 0; g < 8; g++ {
		go func(g int) {
			for i := 1; i <= 50; i++ {
				got, err := s.Run(nil, []string{numberToString(float64(i + g))}, nil)
				if err != nil || got != int64(2*(i+g)) {
					done <- errors.New("wrong result")
					return
				}
			}
			done <- nil
		}(g)
	}
	for g := 0; g < 8; g++ {
		if err := <-done; err != nil {
			t.Fatal(err)
		}
	}
}

func TestStrToNumber(t *testing.T) {
	good := map[string]float64{
		"0": 0, "10": 10, "-10": -10, "+7": 7, "  3.5\t": 3.5, ".5": 0.5, "5.": 5, "1e3": 1000, "1E+3": 1000, "1e-2": 0.01,
		"0x10": 16, "0XfF": 255, "-0x10": -16, "0x1p4": 16, "0x.8": 0.5, "0x1.8p1": 3, "0xffffffffffffffff": 18446744073709551616.0,
		"1e400": math.Inf(1), "inf": math.Inf(1), "-Infinity": math.Inf(-1), "9007199254740993": 9007199254740992,
	}
	for in, want := range good {
		got, okk := strToNumber(in)
		if !okk || got != want {
			t.Errorf("strToNumber(%q) = %v, %v; want %v", in, got, okk, want)
		}
	}
	if f, okk := strToNumber("nan"); !okk || f == f {
		t.Errorf("nan: %v %v", f, okk)
	}
	for _, bad := range []string{"", " ", "abc", "1a", "1 2", "--1", "+-1", "1e", "e1", ".", "0x", "0xg", "0x1p", "0x1p+", "0x.", "0x1.2.3", "1_000", "0x1_0", "1e1e1", "1.2.3", "infx", "- 1", "1,5", "٣"} {
		if f, okk := strToNumber(bad); okk {
			t.Errorf("strToNumber(%q) accepted as %v", bad, f)
		}
	}
}

func TestDeepRecursionIsSafe(t *testing.T) {
	// deeply nested expressions inside deep recursion: must end in a Lua "stack overflow" error, never in a
	// Go stack exhaustion (which would be fatal and unrecoverable)
	nest := strings.Repeat("(", 150) + "f(n + 1)" + strings.Repeat(")", 150)
	src := "local function f(n) return 1 + " + nest + " end return f(1)"
	_, err := mustCompile(t, src).Run(nil, nil, nil)
	if er, isErr := err.(*ErrorReply); !isErr || !strings.Contains(er.Msg, "stack overflow") {
		t.Fatalf("got %T %v", err, err)
	}
	// deep recursion through pcall and table.sort comparators and generic-for iterators
	for _, src := range []string{
		`local function f() return pcall(f) end return f()`,
		`local function f(a, b) table.sort({3, 2, 1}, f) return true end return f()`,
		`local function f() for _ in f do end end return f()`,
		`local function f() local t = {} t.x = {f()} return t end return f()`,
	} {
		s := mustCompile(t, src)
		s.MaxSteps = 5_000_000
		_, err := s.Run(nil, nil, nil)
		_ = err // any outcome but a crash is acceptable
	}
	// a legitimately deep (but bounded) recursion works
	got, err := mustCompile(t, `local function sum(n) if n == 0 then return 0 end return n + sum(n - 1) end return sum(1500)`).Run(nil, nil, nil)
	if err != nil || got != int64(1500*1501/2) {
		t.Fatalf("%v %v", got, err)
	}
}
