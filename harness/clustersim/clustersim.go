// Package clustersim is the environment half of spec/client/Cluster.tla in Go: a Redis Cluster made of fakeredis
// servers on one fakeredis.Network.  Four primaries (a b c d) and three replicas (a1 a2 of a, b1 of b) serve four
// representative hash slots.  Each node answers CLUSTER SLOTS / CLUSTER SHARDS from the topology the scenario
// currently reports, answers keyed commands it is not entitled to serve with -MOVED / -ASK (stale views give MOVED
// chains), keeps the ASKING flag the way Redis does and otherwise lets the fakeredis store execute the command.
// Every key of a scenario is preloaded on every node with the value "<node>|<key>", so a reply tells which node
// produced it and for which request.  All events go to one vh.Tracer (one mutex, one sequence).
//
// This is environment, not oracle: the rules below are the ones of EnvKeyed / EnvRep in Cluster.tla.
package clustersim

import (
	"fmt"
	"regexp"
	"sort"
	"strconv"
	"strings"
	"sync"
	"sync/atomic"

	"verifharness/fakeredis"
	"verifharness/vh"
)

const Port = "7000"

var (
	Prim = []string{"a", "b", "c", "d"}
	Repl = []string{"a1", "a2", "b1"}
	All  = []string{"a", "a1", "a2", "b", "b1", "c", "d"}
)

func PrimOf(n string) string {
	switch n {
	case "a1", "a2":
		return "a"
	case "b1":
		return "b"
	}
	return n
}
func IsRepl(n string) bool { return PrimOf(n) != n }
func Addr(n string) string { return n + ":" + Port }
func NameOf(addr string) string {
	if i := strings.LastIndexByte(addr, ':'); i >= 0 {
		return addr[:i]
	}
	return addr
}

// crc16 (XMODEM) - the hash-slot function of the Redis Cluster specification, written independently of the client.
func crc16(s string) uint16 {
	var crc uint16
	for i := 0; i < len(s); i++ {
		crc ^= uint16(s[i]) << 8
		for j := 0; j < 8; j++ {
			if crc&0x8000 != 0 {
				crc = crc<<1 ^ 0x1021
			} else {
				crc <<= 1
			}
		}
	}
	return crc
}

// KeySlot implements the hash tag rule.
func KeySlot(key string) uint16 {
	if i := strings.IndexByte(key, '{'); i >= 0 {
		if j := strings.IndexByte(key[i+1:], '}'); j > 0 {
			key = key[i+1 : i+1+j]
		}
	}
	return crc16(key) & 16383
}

// Tags[i] is a hash tag whose slot RepSlot[i] represents abstract slot i; RepSlot is increasing.
var (
	Tags    [4]string
	RepSlot [4]uint16
)

func init() {
	for q := 0; q < 4; q++ {
		for i := 0; ; i++ {
			t := "t" + strconv.Itoa(i)
			if s := KeySlot("{" + t + "}"); int(s)/4096 == q && s%4096 > 100 && s%4096 < 3900 {
				Tags[q], RepSlot[q] = t, s
				break
			}
		}
	}
}

func AbstractSlot(real uint16) int {
	for i, r := range RepSlot {
		if r == real {
			return i
		}
	}
	return -1
}

// Key builds the key of member id of call c in abstract slot s; optin marks keys for which SendToReplicas answers true.
func Key(s, call, id int, optin bool) string {
	k := fmt.Sprintf("{%s}c%dm%d", Tags[s], call, id)
	if optin {
		k += "o"
	}
	return k
}

var keyRe = regexp.MustCompile(`^\{(t\d+)\}c(\d+)m(\d+)(o?)$`)

// ParseKey returns the member id carried by a scenario key (-1 when it is none).
func ParseKey(key string) (id int, optin bool) {
	m := keyRe.FindStringSubmatch(key)
	if m == nil {
		return -1, false
	}
	id, _ = strconv.Atoi(m[3])
	return id, m[4] == "o"
}

type Group struct {
	P  string   `json:"p"`
	RS []string `json:"rs"`
}
type Report [4]Group

// Topo is the environment state of Cluster.tla.
type Topo struct {
	Truth  [4]string
	Migr   [4]string
	Stale  map[string]map[int][]string
	Report Report
}

// Noise selects how the reported topology is rendered on the wire (all of it must be ignored by a correct parser).
type Noise struct {
	SelfEmpty   bool // the answering node reports its own endpoint as "" (client must fall back to the address it used)
	UnknownRepl bool // every group lists an additional replica whose endpoint is "?"
	Unhealthy   bool // SHARDS: replicas missing from the report are listed with health fail / loading
	ReplFirst   bool // SHARDS: replicas are listed before the master
	TLSPort     bool // SHARDS: nodes carry a tls-port that a plain-text client must not use
	Hostnames   bool // SLOTS: nodes carry the metadata map with hostname (4th element)
}

type connState struct {
	asking  bool
	caching bool
	wrap    bool
	dirty   bool
	userTx  bool
}

type Cluster struct {
	Net    *fakeredis.Network
	Srv    map[string]*fakeredis.Server
	Tr     *vh.Tracer
	Shards bool
	Noise  Noise

	mu       sync.Mutex
	topo     Topo
	ver      int
	down     map[string]bool
	inj      map[int][]string
	migrated map[int]bool
	conns    map[*fakeredis.Conn]*connState
	flavour  int
	errKeys  map[string]bool
}

// SetErrKeys: every command touching one of these keys is answered with -ERR injected (helper scenarios of C31).
func (c *Cluster) SetErrKeys(keys []string) {
	c.mu.Lock()
	defer c.mu.Unlock()
	c.errKeys = map[string]bool{}
	for _, k := range keys {
		c.errKeys[k] = true
	}
}

// CommandKeys returns the keys of the commands the helpers of C31 send.
func CommandKeys(argv []string) []string {
	if len(argv) < 2 {
		return nil
	}
	switch strings.ToUpper(argv[0]) {
	case "GET", "SET", "PTTL", "GETSET", "JSON.GET", "JSON.SET", "RPUSH", "LRANGE", "TYPE":
		return argv[1:2]
	case "DEL", "MGET", "EXISTS":
		return argv[1:]
	case "MSET", "MSETNX":
		var ks []string
		for i := 1; i < len(argv); i += 2 {
			ks = append(ks, argv[i])
		}
		return ks
	case "JSON.MGET":
		return argv[1 : len(argv)-1]
	case "JSON.MSET":
		var ks []string
		for i := 1; i < len(argv); i += 3 {
			ks = append(ks, argv[i])
		}
		return ks
	}
	return nil
}

// generic routes a command on keys that are not scenario members: owner (or a READONLY replica of the owner) serves,
// everybody else answers MOVED; keys of several slots give CROSSSLOT.
func (c *Cluster) generic(n string, cn *fakeredis.Conn, keys []string) (string, bool) {
	for _, k := range keys {
		if c.errKeys[k] {
			return "ERR injected", true
		}
	}
	slot := -1
	for _, k := range keys {
		s := int(KeySlot(k))
		if slot >= 0 && s != slot {
			return "CROSSSLOT Keys in request don't hash to the same slot", true
		}
		slot = s
	}
	if slot < 0 {
		return "", false
	}
	s := AbstractSlot(uint16(slot))
	if s < 0 {
		return "", false
	}
	owner := c.topo.Truth[s]
	if owner == "" {
		return "CLUSTERDOWN Hash slot not served", true
	}
	if n == owner || (PrimOf(n) == owner && cn.ReadOnly()) {
		return "", false
	}
	return fmt.Sprintf("MOVED %d %s", slot, Addr(owner)), true
}

// New starts the seven servers. version "7.2.4" makes the client use CLUSTER SLOTS, "8.0.0" CLUSTER SHARDS.
func New(tr *vh.Tracer, shards bool, noise Noise, initial Topo) *Cluster {
	c := &Cluster{Net: fakeredis.NewNetwork(), Srv: map[string]*fakeredis.Server{}, Tr: tr, Shards: shards, Noise: noise, errKeys: map[string]bool{},
		down: map[string]bool{}, inj: map[int][]string{}, migrated: map[int]bool{}, conns: map[*fakeredis.Conn]*connState{}}
	seq := new(atomic.Int64)
	ver := "7.2.4"
	if shards {
		ver = "8.0.0"
	}
	for _, n := range All {
		role := "master"
		if IsRepl(n) {
			role = "slave"
		}
		s := fakeredis.NewServer(n, fakeredis.Options{Version: ver, Role: role, Seq: seq, AZ: "az-" + PrimOf(n)})
		name := n
		s.SetIntercept(func(cn *fakeredis.Conn, argv []string) (fakeredis.Value, fakeredis.Action) {
			return c.intercept(name, cn, argv)
		})
		c.Srv[n] = s
		c.Net.Add(Addr(n), s)
	}
	c.topo = initial
	c.ver = 0
	c.logTopo()
	return c
}

func (c *Cluster) logTopo() {
	tr := make([]any, 4)
	for i, g := range c.topo.Report {
		rs := g.RS
		if rs == nil {
			rs = []string{}
		}
		p := g.P
		if p == "" {
			p = "-"
		}
		tr[i] = map[string]any{"p": p, "rs": rs}
	}
	c.Tr.Log("Topo", "ver", c.ver, "trep", tr)
}

// SetTopo installs a new environment state; the nodes report it from now on under a new version number.
func (c *Cluster) SetTopo(t Topo) {
	c.mu.Lock()
	defer c.mu.Unlock()
	c.topo = t
	c.ver++
	c.logTopo()
}

// Kill makes a node disappear: no new connections, established ones are cut.
func (c *Cluster) Kill(n string) {
	c.mu.Lock()
	c.down[n] = true
	c.Tr.Log("Down", "node", n)
	c.mu.Unlock()
	c.Net.Remove(Addr(n))
	c.Srv[n].Close()
}

// Preload stores "<node>|<key>" under key on every node.
func (c *Cluster) Preload(keys []string) {
	for n, s := range c.Srv {
		for _, k := range keys {
			s.Do("SET", k, n+"|"+k)
		}
	}
}

// BeginCall installs the scripted failures of the next call: inj[id] = retryable errors served before the value,
// migrated = members whose key has already left the migrating slot.
func (c *Cluster) BeginCall(inj map[int][]string, migrated []int) {
	c.mu.Lock()
	defer c.mu.Unlock()
	c.inj = map[int][]string{}
	for k, v := range inj {
		c.inj[k] = append([]string(nil), v...)
	}
	c.migrated = map[int]bool{}
	for _, m := range migrated {
		c.migrated[m] = true
	}
}

func (c *Cluster) Close() {
	for _, s := range c.Srv {
		s.Close()
	}
}

var retryFlavours = []string{
	"LOADING Redis is loading the dataset in memory",
	"TRYAGAIN Multiple keys request during rehashing of slot",
	"CLUSTERDOWN The cluster is down",
}

type verdict struct {
	rep string // "pass", "moved", "ask", "retry"
	to  string
	msg string
}

// keyed is EnvKeyed of Cluster.tla. consume=false peeks (used for the PTTL of the client side caching wrapper).
func (c *Cluster) keyed(n string, cn *fakeredis.Conn, st *connState, key string, class string, consume bool) verdict {
	s := AbstractSlot(KeySlot(key))
	id, _ := ParseKey(key)
	if s < 0 || id < 0 {
		return verdict{rep: "pass"}
	}
	t := &c.topo
	real := int(RepSlot[s])
	if t.Truth[s] == "" {
		return verdict{rep: "retry", msg: "CLUSTERDOWN Hash slot not served"}
	}
	moved := c.migrated[id] && t.Migr[s] != ""
	ro := cn.ReadOnly()
	entitled := (n == t.Truth[s] && !moved) || (n == t.Migr[s] && st.asking) ||
		(IsRepl(n) && PrimOf(n) == t.Truth[s] && ro && class == "r" && !moved)
	switch {
	case n == t.Migr[s] && st.asking && !IsRepl(n) && len(t.Stale[n][s]) > 0:
		// the ASK target does not know (yet / any more) that it imports the slot: ASKING does not help, it answers MOVED
		// according to its own stale view (rule `bounce` of EnvKeyed)
		to := t.Stale[n][s][0]
		if consume {
			t.Stale[n][s] = t.Stale[n][s][1:]
		}
		return verdict{rep: "moved", to: to, msg: fmt.Sprintf("MOVED %d %s", real, Addr(to))}
	case entitled:
		if q := c.inj[id]; len(q) > 0 {
			if consume {
				c.inj[id] = q[1:]
			}
			msg := q[0]
			if msg == "retry" {
				msg = retryFlavours[c.flavour%len(retryFlavours)]
				if consume {
					c.flavour++
				}
			}
			return verdict{rep: "retry", msg: msg}
		}
		return verdict{rep: "pass"}
	case PrimOf(n) == t.Truth[s] && moved && (!IsRepl(n) || (ro && class == "r")):
		return verdict{rep: "ask", to: t.Migr[s], msg: fmt.Sprintf("ASK %d %s", real, Addr(t.Migr[s]))}
	case !IsRepl(n) && len(t.Stale[n][s]) > 0:
		to := t.Stale[n][s][0]
		if consume {
			t.Stale[n][s] = t.Stale[n][s][1:]
		}
		return verdict{rep: "moved", to: to, msg: fmt.Sprintf("MOVED %d %s", real, Addr(to))}
	default:
		return verdict{rep: "moved", to: t.Truth[s], msg: fmt.Sprintf("MOVED %d %s", real, Addr(t.Truth[s]))}
	}
}

func (c *Cluster) intercept(n string, cn *fakeredis.Conn, argv []string) (fakeredis.Value, fakeredis.Action) {
	c.mu.Lock()
	defer c.mu.Unlock()
	st := c.conns[cn]
	if st == nil {
		st = &connState{}
		c.conns[cn] = st
	}
	up := strings.ToUpper(argv[0])
	x := func(op string, id int, rep, to string) {
		c.Tr.Log("X", "node", n, "conn", cn.ID(), "op", op, "id", id, "ask", st.asking, "rep", rep, "to", to)
	}
	// Redis clears the ASKING flag after every command except ASKING itself, unless the connection is inside MULTI
	clearAsk := func() {
		if !cn.InMulti() {
			st.asking = false
		}
	}
	switch up {
	case "CLUSTER":
		if len(argv) >= 2 {
			switch strings.ToUpper(argv[1]) {
			case "SLOTS":
				c.Tr.Log("CL", "node", n, "conn", cn.ID(), "ver", c.ver)
				clearAsk()
				return c.renderSlots(n), fakeredis.Reply
			case "SHARDS":
				c.Tr.Log("CL", "node", n, "conn", cn.ID(), "ver", c.ver)
				clearAsk()
				return c.renderShards(n), fakeredis.Reply
			}
		}
		return fakeredis.Value{}, fakeredis.Pass
	case "ASKING":
		x("aux", -1, "ok", "")
		st.asking = true
		return fakeredis.Value{}, fakeredis.Pass
	case "CLIENT":
		if len(argv) >= 2 && strings.ToUpper(argv[1]) == "CACHING" {
			x("aux", -1, "ok", "")
			st.caching = true
		}
		return fakeredis.Value{}, fakeredis.Pass
	case "MULTI":
		if st.caching {
			st.caching, st.wrap = false, true
			x("aux", -1, "ok", "")
		} else {
			st.userTx = true
			x("multi", -1, "ok", "")
		}
		st.dirty = false
		return fakeredis.Value{}, fakeredis.Pass // the flag survives: the connection is inside MULTI after this command
	case "EXEC":
		if st.wrap {
			st.wrap = false
			x("aux", -1, "ok", "")
		} else {
			rep := "exec"
			if st.dirty {
				rep = "abort"
			}
			x("exec", -1, rep, "")
			st.userTx = false
		}
		st.asking = false
		return fakeredis.Value{}, fakeredis.Pass
	case "ECHO":
		// a scenario member without a key (class "n" of Cluster.tla): every node serves it, the reply names the node
		if len(argv) == 2 && !cn.InMulti() {
			if id, _ := ParseKey(argv[1]); id >= 0 {
				x("cmd", id, "val", "")
				clearAsk()
				return fakeredis.Bulk(n + "|" + argv[1]), fakeredis.Reply
			}
		}
	case "PTTL", "GET", "GETSET":
		if len(argv) < 2 {
			break
		}
		id, _ := ParseKey(argv[1])
		if id < 0 {
			break
		}
		class := "r"
		if up == "GETSET" {
			class = "w"
		}
		aux := up == "PTTL"
		v := c.keyed(n, cn, st, argv[1], class, !aux)
		if v.rep == "pass" {
			if aux {
				x("aux", -1, "ok", "")
			} else if cn.InMulti() && !st.wrap {
				x("cmd", id, "queued", "")
			} else {
				x("cmd", id, "val", "")
			}
			clearAsk()
			return fakeredis.Value{}, fakeredis.Pass
		}
		if aux {
			x("aux", -1, v.rep, v.to)
		} else {
			x("cmd", id, v.rep, v.to)
		}
		if cn.InMulti() {
			st.dirty = true
			cn.FlagTx()
		}
		clearAsk()
		return fakeredis.Err(v.msg), fakeredis.Reply
	}
	// connection setup and anything else: executed by the store, not part of the routing trace
	switch up {
	case "HELLO", "AUTH", "SELECT", "READONLY", "READWRITE", "INFO", "PING", "ROLE":
	default:
		if msg, bad := c.generic(n, cn, CommandKeys(argv)); bad {
			if cn.InMulti() {
				st.dirty = true
				cn.FlagTx()
			}
			clearAsk()
			return fakeredis.Err(msg), fakeredis.Reply
		}
		clearAsk()
	}
	return fakeredis.Value{}, fakeredis.Pass
}

// ---------------------------------------------------------------------------------------------- topology rendering

type srange struct {
	lo, hi int
	g      Group
	failed bool // the master of the shard is listed, but not online
}

// ranges lists the reported slot ranges. A report entry without a primary but with replicas stands for a shard whose
// master is not online (health fail / loading in CLUSTER SHARDS; CLUSTER SLOTS cannot express it and leaves the shard out).
func (c *Cluster) ranges() []srange {
	var out []srange
	for s := 0; s < 4; s++ {
		g := c.topo.Report[s]
		failed := false
		if g.P == "" || g.P == "-" {
			if len(g.RS) == 0 {
				continue
			}
			g = Group{P: PrimOf(g.RS[0]), RS: g.RS}
			failed = true
		}
		if k := len(out) - 1; k >= 0 && out[k].hi == s-1 && out[k].g.P == g.P && out[k].failed == failed {
			out[k].hi = s
			continue
		}
		out = append(out, srange{s, s, g, failed})
	}
	return out
}

func (c *Cluster) endpoint(self, n string) fakeredis.Value {
	if c.Noise.SelfEmpty && self == n {
		return fakeredis.Bulk("")
	}
	return fakeredis.Bulk(n)
}

func port() fakeredis.Value { p, _ := strconv.Atoi(Port); return fakeredis.Int(int64(p)) }

// renderSlots: *N of [start, end, [host, port, id, {metadata}], replicas...]
func (c *Cluster) renderSlots(self string) fakeredis.Value {
	var entries []fakeredis.Value
	for _, r := range c.ranges() {
		if r.failed {
			continue
		}
		e := []fakeredis.Value{fakeredis.Int(int64(RepSlot[r.lo])), fakeredis.Int(int64(RepSlot[r.hi]))}
		for _, n := range append([]string{r.g.P}, r.g.RS...) {
			ne := []fakeredis.Value{c.endpoint(self, n), port(), fakeredis.Bulk("id-" + n)}
			if c.Noise.Hostnames {
				ne = append(ne, fakeredis.Array(fakeredis.Bulk("hostname"), fakeredis.Bulk("host-"+n+".example")))
			}
			e = append(e, fakeredis.Array(ne...))
		}
		if c.Noise.UnknownRepl {
			e = append(e, fakeredis.Array(fakeredis.Bulk("?"), port(), fakeredis.Bulk("id-unknown")))
		}
		entries = append(entries, fakeredis.Array(e...))
	}
	return fakeredis.Array(entries...)
}

// renderShards: *N of {slots: [lo, hi, ...], nodes: [{id, port, [tls-port], ip, endpoint, role, replication-offset, health}]}
func (c *Cluster) renderShards(self string) fakeredis.Value {
	byPrim := map[string][]srange{}
	var order []string
	for _, r := range c.ranges() {
		if _, ok := byPrim[r.g.P]; !ok {
			order = append(order, r.g.P)
		}
		byPrim[r.g.P] = append(byPrim[r.g.P], r)
	}
	sort.Strings(order)
	var shards []fakeredis.Value
	for _, p := range order {
		rs := byPrim[p]
		var slots []fakeredis.Value
		for _, r := range rs {
			slots = append(slots, fakeredis.Int(int64(RepSlot[r.lo])), fakeredis.Int(int64(RepSlot[r.hi])))
		}
		node := func(n, role, health, ep string) fakeredis.Value {
			kv := []fakeredis.Value{fakeredis.Bulk("id"), fakeredis.Bulk("id-" + n), fakeredis.Bulk("port"), port()}
			if c.Noise.TLSPort {
				kv = append(kv, fakeredis.Bulk("tls-port"), fakeredis.Int(7443))
			}
			endpoint := fakeredis.Bulk(ep)
			if ep == n {
				endpoint = c.endpoint(self, n)
			}
			kv = append(kv, fakeredis.Bulk("ip"), fakeredis.Bulk("10.0.0.1"), fakeredis.Bulk("endpoint"), endpoint,
				fakeredis.Bulk("role"), fakeredis.Bulk(role), fakeredis.Bulk("replication-offset"), fakeredis.Int(42),
				fakeredis.Bulk("health"), fakeredis.Bulk(health))
			return fakeredis.Map(kv...)
		}
		var reps []fakeredis.Value
		listed := map[string]bool{}
		for _, n := range rs[0].g.RS {
			reps = append(reps, node(n, "replica", "online", n))
			listed[n] = true
		}
		if c.Noise.Unhealthy {
			flip := 0
			for _, n := range Repl {
				if PrimOf(n) == p && !listed[n] {
					reps = append(reps, node(n, "replica", []string{"fail", "loading"}[flip%2], n))
					flip++
				}
			}
		}
		if c.Noise.UnknownRepl {
			reps = append(reps, node("unknown", "replica", "online", "?"))
		}
		health := "online"
		if rs[0].failed {
			health = "fail"
			if c.Noise.TLSPort {
				health = "loading"
			}
		}
		master := node(p, "master", health, p)
		var nodes []fakeredis.Value
		if c.Noise.ReplFirst {
			nodes = append(append(nodes, reps...), master)
		} else {
			nodes = append(append(nodes, master), reps...)
		}
		shards = append(shards, fakeredis.Map(fakeredis.Bulk("slots"), fakeredis.Array(slots...), fakeredis.Bulk("nodes"), fakeredis.Array(nodes...)))
	}
	return fakeredis.Array(shards...)
}
