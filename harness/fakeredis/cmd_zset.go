package fakeredis

import (
	"math"
	"sort"
)

func init() {
	reg("ZADD", -4, fWrite, 1, 1, 1, cmdZAdd)
	reg("ZINCRBY", 4, fWrite, 1, 1, 1, cmdZIncrBy)
	reg("ZRANGE", -4, fRO, 1, 1, 1, cmdZRange)
	reg("ZRANGEBYSCORE", -4, fRO, 1, 1, 1, cmdZRangeByScore)
	reg("ZSCORE", 3, fRO, 1, 1, 1, cmdZScore)
	reg("ZREM", -3, fWrite, 1, 1, 1, cmdZRem)
	reg("ZCARD", 2, fRO, 1, 1, 1, cmdZCard)
}

type zmember struct {
	member string
	score  float64
}

// zsorted returns the members ordered by (score, member) like Redis' skiplist.
func zsorted(z map[string]float64) []zmember {
	out := make([]zmember, 0, len(z))
	for m, s := range z {
		out = append(out, zmember{m, s})
	}
	sort.Slice(out, func(i, j int) bool {
		if out[i].score != out[j].score {
			return out[i].score < out[j].score
		}
		return out[i].member < out[j].member
	})
	return out
}

// resp3 reports whether replies should use RESP3 shapes. Scripts always see
// the RESP2 shape (Redis' default for redis.call).
func (c *Conn) resp3() bool { return c.proto >= 3 && !c.inScript }

func (c *Conn) zreply(ms []zmember, withScores bool) Value {
	out := make([]Value, 0, len(ms)*2)
	for _, m := range ms {
		switch {
		case !withScores:
			out = append(out, Bulk(m.member))
		case c.resp3():
			out = append(out, Array(Bulk(m.member), Double(m.score)))
		default:
			out = append(out, Bulk(m.member), Bulk(formatDouble(m.score)))
		}
	}
	return Array(out...)
}

func cmdZAdd(c *Conn, a []string) Value {
	var nx, xx, gt, lt, ch, incr bool
	i := 2
opts:
	for ; i < len(a); i++ {
		switch upper(a[i]) {
		case "NX":
			nx = true
		case "XX":
			xx = true
		case "GT":
			gt = true
		case "LT":
			lt = true
		case "CH":
			ch = true
		case "INCR":
			incr = true
		default:
			break opts
		}
	}
	rest := a[i:]
	if len(rest) == 0 || len(rest)%2 != 0 {
		return errSyntax
	}
	if nx && xx {
		return Err("ERR XX and NX options at the same time are not compatible")
	}
	if (gt && nx) || (lt && nx) || (gt && lt) {
		return Err("ERR GT, LT, and/or NX options at the same time are not compatible")
	}
	if incr && len(rest) > 2 {
		return Err("ERR INCR option supports a single increment-element pair")
	}
	scores := make([]float64, len(rest)/2)
	for j := range scores {
		f, isFloat := parseFloat(rest[2*j])
		if !isFloat {
			return errNotFloat
		}
		scores[j] = f
	}
	e, bad := c.lookupKind(a[1], kZSet)
	if !bad.IsZero() {
		return bad
	}
	created := e == nil
	if created {
		if xx {
			if incr {
				return Null()
			}
			return Int(0)
		}
		e = &entry{kind: kZSet, zset: map[string]float64{}}
	}
	var added, changed int64
	var last float64
	skipped := false
	for j, score := range scores {
		m := rest[2*j+1]
		cur, exists := e.zset[m]
		if (exists && nx) || (!exists && xx) {
			skipped = true
			continue
		}
		if incr {
			score += cur
			if math.IsNaN(score) {
				return Err("ERR resulting score is not a number (NaN)")
			}
		}
		if exists && ((gt && score <= cur) || (lt && score >= cur)) {
			skipped = true
			continue
		}
		last = score
		switch {
		case !exists:
			added++
		case score != cur:
			changed++
		}
		e.zset[m] = score
	}
	if added+changed > 0 {
		c.store(a[1], e, created)
	}
	switch {
	case incr && skipped:
		return Null()
	case incr:
		return Double(last)
	case ch:
		return Int(added + changed)
	}
	return Int(added)
}

func cmdZIncrBy(c *Conn, a []string) Value {
	incr, isFloat := parseFloat(a[2])
	if !isFloat {
		return errNotFloat
	}
	e, bad := c.lookupKind(a[1], kZSet)
	if !bad.IsZero() {
		return bad
	}
	created := e == nil
	if created {
		e = &entry{kind: kZSet, zset: map[string]float64{}}
	}
	score := e.zset[a[3]] + incr
	if math.IsNaN(score) {
		return Err("ERR resulting score is not a number (NaN)")
	}
	e.zset[a[3]] = score
	c.store(a[1], e, created)
	return Double(score)
}

func cmdZRange(c *Conn, a []string) Value {
	var rev, withScores, byScore bool
	offset, count, hasLimit := int64(0), int64(-1), false
	for i := 4; i < len(a); i++ {
		switch upper(a[i]) {
		case "REV":
			rev = true
		case "WITHSCORES":
			withScores = true
		case "BYSCORE":
			byScore = true
		case "LIMIT":
			if i+2 >= len(a) {
				return errSyntax
			}
			o, ok1 := parseInt(a[i+1])
			n, ok2 := parseInt(a[i+2])
			if !ok1 || !ok2 {
				return errNotInt
			}
			offset, count, hasLimit = o, n, true
			i += 2
		default:
			return errSyntax
		}
	}
	if hasLimit && !byScore {
		return Err("ERR syntax error, LIMIT is only supported in combination with either BYSCORE or BYLEX")
	}
	if byScore {
		lo, hi := a[2], a[3]
		if rev {
			lo, hi = hi, lo
		}
		return c.zrangeByScore(a[1], lo, hi, rev, withScores, offset, count)
	}
	start, ok1 := parseInt(a[2])
	stop, ok2 := parseInt(a[3])
	if !ok1 || !ok2 {
		return errNotInt
	}
	e, bad := c.lookupKind(a[1], kZSet)
	if !bad.IsZero() {
		return bad
	}
	if e == nil {
		return Array()
	}
	ms := zsorted(e.zset)
	if rev {
		reverse(ms)
	}
	lo, hi, empty := clampRange(start, stop, int64(len(ms)))
	if empty {
		return Array()
	}
	return c.zreply(ms[lo:hi], withScores)
}

func reverse(ms []zmember) {
	for i, j := 0, len(ms)-1; i < j; i, j = i+1, j-1 {
		ms[i], ms[j] = ms[j], ms[i]
	}
}

// scoreBound parses "1.5", "(1.5", "-inf", "+inf".
func scoreBound(s string) (v float64, exclusive, good bool) {
	if len(s) > 0 && s[0] == '(' {
		exclusive, s = true, s[1:]
	}
	v, good = parseFloat(s)
	return v, exclusive, good
}

func (c *Conn) zrangeByScore(key, lo, hi string, rev, withScores bool, offset, count int64) Value {
	lowest, minEx, ok1 := scoreBound(lo)
	highest, maxEx, ok2 := scoreBound(hi)
	if !ok1 || !ok2 {
		return Err("ERR min or max is not a float")
	}
	e, bad := c.lookupKind(key, kZSet)
	if !bad.IsZero() {
		return bad
	}
	if e == nil {
		return Array()
	}
	var ms []zmember
	for _, m := range zsorted(e.zset) {
		if m.score < lowest || (minEx && m.score == lowest) || m.score > highest || (maxEx && m.score == highest) {
			continue
		}
		ms = append(ms, m)
	}
	if rev {
		reverse(ms)
	}
	if offset < 0 || offset >= int64(len(ms)) {
		return Array()
	}
	ms = ms[offset:]
	if count >= 0 && count < int64(len(ms)) {
		ms = ms[:count]
	}
	return c.zreply(ms, withScores)
}

func cmdZRangeByScore(c *Conn, a []string) Value {
	var withScores bool
	offset, count := int64(0), int64(-1)
	for i := 4; i < len(a); i++ {
		switch upper(a[i]) {
		case "WITHSCORES":
			withScores = true
		case "LIMIT":
			if i+2 >= len(a) {
				return errSyntax
			}
			o, ok1 := parseInt(a[i+1])
			n, ok2 := parseInt(a[i+2])
			if !ok1 || !ok2 {
				return errNotInt
			}
			offset, count = o, n
			i += 2
		default:
			return errSyntax
		}
	}
	return c.zrangeByScore(a[1], a[2], a[3], false, withScores, offset, count)
}

func cmdZScore(c *Conn, a []string) Value {
	e, bad := c.lookupKind(a[1], kZSet)
	if !bad.IsZero() {
		return bad
	}
	if e != nil {
		if s, exists := e.zset[a[2]]; exists {
			return Double(s)
		}
	}
	return Null()
}

func cmdZRem(c *Conn, a []string) Value {
	e, bad := c.lookupKind(a[1], kZSet)
	if !bad.IsZero() {
		return bad
	}
	if e == nil {
		return Int(0)
	}
	var n int64
	for _, m := range a[2:] {
		if _, exists := e.zset[m]; exists {
			delete(e.zset, m)
			n++
		}
	}
	if n > 0 {
		c.modified(a[1], e)
	}
	return Int(n)
}

func cmdZCard(c *Conn, a []string) Value {
	e, bad := c.lookupKind(a[1], kZSet)
	if !bad.IsZero() {
		return bad
	}
	if e == nil {
		return Int(0)
	}
	return Int(int64(len(e.zset)))
}
