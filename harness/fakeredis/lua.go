//go:build !noluamini

package fakeredis

// Glue between the scripting commands and the verifharness/luamini
// interpreter. Building with the tag "noluamini" replaces this file by
// lua_stub.go, which answers every script with an error.

import (
	"errors"

	"verifharness/luamini"
)

// luaCompile parses a script body and returns an opaque handle.
func luaCompile(src string) (any, error) {
	return luamini.Compile(src)
}

// luaRun executes a compiled script. call runs one Redis command and returns
// its reply tree; replies cross the boundary in the RESP2 shape, which is what
// redis.call hands to Lua by default.
func luaRun(compiled any, keys, argv []string, call func(args []string) Value) Value {
	script := compiled.(*luamini.Script)
	res, err := script.Run(keys, argv, func(args []string) (any, error) {
		v := call(args)
		if v.IsError() {
			return nil, &luamini.ErrorReply{Msg: v.Str}
		}
		return toLua(v), nil
	})
	if err != nil {
		var re *luamini.ErrorReply
		if errors.As(err, &re) {
			return Err(re.Msg)
		}
		return Err("ERR " + err.Error())
	}
	return fromLua(res)
}

// toLua converts a reply tree into the interpreter's reply types.
func toLua(v Value) any {
	if v.IsNull() {
		return nil
	}
	switch v.Typ {
	case TSimple:
		return luamini.StatusReply{Msg: v.Str}
	case TInt, TBool:
		return v.Int
	case TBulk, TDouble, TBigNum:
		return v.Str
	case TVerbatim:
		if len(v.Str) >= 4 {
			return v.Str[4:]
		}
		return v.Str
	case TArray, TSet, TPush, TMap:
		out := make([]any, len(v.Arr))
		for i, e := range v.Arr {
			out[i] = toLua(e)
		}
		return out
	}
	return nil
}

// fromLua converts a script result into a reply tree.
func fromLua(r any) Value {
	switch x := r.(type) {
	case nil:
		return Null()
	case int64:
		return Int(x)
	case int:
		return Int(int64(x))
	case string:
		return Bulk(x)
	case luamini.StatusReply:
		return Simple(x.Msg)
	case *luamini.StatusReply:
		return Simple(x.Msg)
	case *luamini.ErrorReply:
		return Err(x.Msg)
	case bool:
		if x {
			return Int(1)
		}
		return Null()
	case []any:
		out := make([]Value, len(x))
		for i, e := range x {
			out[i] = fromLua(e)
		}
		return Array(out...)
	}
	return Err("ERR unsupported script result")
}
