package fakeredis

import (
	"bufio"
	"errors"
	"sort"
	"sync"

	"verifharness/fakeredis/bufconn"
)

// Conn is the server side state of one client connection. Every exported
// method takes the (re-entrant) dispatcher mutex and is therefore safe to call
// from driver goroutines as well as from hooks running under the mutex.
type Conn struct {
	s     *Server
	id    int
	sc    *bufconn.Conn // server end
	cc    *bufconn.Conn // client end
	admin bool          // the internal connection behind Server.Do

	// Protocol and identity.
	proto    int
	authed   bool
	user     string
	name     string
	dbi      int
	libName  string
	libVer   string
	noTouch  bool
	noEvict  bool
	readOnly bool
	capa     []string

	// Client side caching.
	tracking bool
	bcast    bool
	optin    bool
	optout   bool
	noloop   bool
	caching  bool // CLIENT CACHING given for the next command
	redirect int
	prefixes []string

	// Transactions.
	multi     bool
	dirtyExec bool // queueing error -> EXECABORT
	dirtyCAS  bool // a watched key was touched -> EXEC returns null
	queued    [][]string
	watched   []dbKey

	// Pub/Sub (insertion ordered).
	subs  []string
	psubs []string
	ssubs []string

	// Flow control.
	pending  [][]string // commands parsed but not yet dispatched
	parked   []string   // command parked by the intercept
	blocked  *blockState
	closed   bool // no further command is executed, no further frame is queued
	closing  bool // a frame that closes the socket after being written is already queued
	dead     bool // the transport was torn down (cut, or closed on EOF): nothing can be written
	quit     bool // QUIT was executed: close after its reply
	inScript bool
	scriptRO bool
	execNote string // extra SExec note set by the running handler
	// forceExec is set by a handler whose effects stand even though its
	// reply is an error (a script body that ran), forcing the SExec event.
	forceExec bool

	// Output.
	frames     int // frames queued so far (replies and pushes)
	hold       bool
	held       []frame
	cutAfter   int // -1: off; else truncate the next reply to this many bytes and close
	adminReply Value

	omu   sync.Mutex // guards out/odone; leaf lock, may be taken under s.mu
	ocond *sync.Cond
	out   []frame
	odone bool

	log [][]string
}

// frame is one unit handed to the writer goroutine.
type frame struct {
	data       []byte
	closeAfter bool // close the socket after writing data
}

type shutdownMode int

const (
	modeCut   shutdownMode = iota // drop everything, reset the peer
	modeClose                     // close our end now (peer drains what was written, then EOF)
	modeDrain                     // close after the frames queued so far have been written
)

// ---------------------------------------------------------------- goroutines

func (c *Conn) reader() {
	r := bufio.NewReaderSize(c.sc, 16<<10)
	for {
		argv, err := ReadCommand(r)
		c.s.mu.Lock()
		if err != nil {
			if errors.Is(err, ErrProtocol) && !c.closed {
				c.sendReply(Err("ERR Protocol error: " + err.Error()))
				c.shutdown(SClose, "protocol-error", modeDrain)
			} else {
				c.shutdown(SClose, "eof", modeClose)
			}
			c.s.mu.Unlock()
			return
		}
		c.pending = append(c.pending, argv)
		c.drain()
		c.s.mu.Unlock()
	}
}

// drain dispatches pending commands in arrival order for as long as the
// connection is neither blocked, parked nor closed.
func (c *Conn) drain() {
	for len(c.pending) > 0 && c.blocked == nil && c.parked == nil && !c.closed {
		argv := c.pending[0]
		c.pending = c.pending[1:]
		c.dispatch(argv)
	}
}

func (c *Conn) writer() {
	for {
		c.omu.Lock()
		for len(c.out) == 0 && !c.odone {
			c.ocond.Wait()
		}
		if c.odone {
			c.omu.Unlock()
			return
		}
		batch := c.out
		c.out = nil
		c.omu.Unlock()
		for _, f := range batch {
			if len(f.data) > 0 {
				if _, err := c.sc.Write(f.data); err != nil {
					return
				}
			}
			if f.closeAfter {
				c.sc.Close()
				return
			}
		}
	}
}

func (c *Conn) handToWriter(fs ...frame) {
	c.omu.Lock()
	c.out = append(c.out, fs...)
	c.ocond.Broadcast()
	c.omu.Unlock()
}

func (c *Conn) stopWriter() {
	c.omu.Lock()
	c.odone = true
	c.out = nil
	c.ocond.Broadcast()
	c.omu.Unlock()
}

// ---------------------------------------------------------------- output

func (c *Conn) sendReply(v Value) { c.queue(SRep, v) }
func (c *Conn) sendPush(v Value)  { c.queue(SPush, v) }

// queue appends one frame to the connection's output and emits its event.
func (c *Conn) queue(kind string, v Value) {
	if c.closed || v.IsZero() {
		return
	}
	c.frames++
	c.s.emit(Event{Kind: kind, Conn: c.id, Reply: v, Frame: c.frames})
	if c.admin {
		if kind == SRep {
			c.adminReply = v
		}
		return
	}
	f := frame{data: v.Encode(c.proto)}
	cut := kind == SRep && c.cutAfter >= 0
	if cut {
		if c.cutAfter < len(f.data) {
			f.data = f.data[:c.cutAfter]
		}
		f.closeAfter = true
		c.cutAfter = -1
		c.closing = true
	}
	c.s.deliver(c, f)
	if cut {
		c.shutdown(SCut, "after-reply-bytes", modeDrain)
	}
}

// deliver passes a frame toward the connection's writer. While events are
// being buffered (a command handler is running) the frame is kept back and
// handed over only after those events reached the sink, so that no client can
// observe a frame before the sink has seen its SRep/SPush event.
func (s *Server) deliver(c *Conn, f frame) {
	if len(s.evstack) > 0 {
		s.deferred = append(s.deferred, deferredFrame{c, f})
		return
	}
	c.enqueue(f)
}

type deferredFrame struct {
	c *Conn
	f frame
}

// flushDeferred hands the kept-back frames over in queueing order. Frames of
// connections whose transport was torn down meanwhile are dropped.
func (s *Server) flushDeferred() {
	for len(s.deferred) > 0 && len(s.evstack) == 0 {
		batch := s.deferred
		s.deferred = nil
		for _, d := range batch {
			if !d.c.dead {
				d.c.enqueue(d.f)
			}
		}
	}
}

func (c *Conn) enqueue(f frame) {
	if c.hold {
		c.held = append(c.held, f)
	} else {
		c.handToWriter(f)
	}
}

// shutdown ends the connection at dispatcher level (idempotent): emits the
// event, releases every server side registration and closes the transport
// according to mode.
func (c *Conn) shutdown(kind, note string, mode shutdownMode) {
	if c.closed || c.admin {
		return
	}
	s := c.s
	c.closed = true
	s.emit(Event{Kind: kind, Conn: c.id, Note: note})
	c.unsubscribeAllSilently()
	c.disableTracking()
	c.unwatchAll()
	c.unblock()
	c.multi, c.queued, c.pending, c.parked = false, nil, nil, nil
	for i, x := range s.live {
		if x == c {
			s.live = append(s.live[:i:i], s.live[i+1:]...)
			break
		}
	}
	switch mode {
	case modeCut:
		c.dead, c.held = true, nil
		c.sc.Cut()
		c.stopWriter()
	case modeClose:
		c.dead, c.held = true, nil
		c.sc.Close()
		c.stopWriter()
	case modeDrain:
		// The closing marker travels the same path as the frames queued
		// before it (deferred / held / writer), so it cannot overtake them.
		if !c.closing {
			c.closing = true
			s.deliver(c, frame{closeAfter: true})
		}
	}
}

// ---------------------------------------------------------------- accessors

// ID returns the connection id (as reported by CLIENT ID), starting at 1.
func (c *Conn) ID() int { return c.id }

// Server returns the owning server.
func (c *Conn) Server() *Server { return c.s }

// BufConn returns the server end of the transport.
func (c *Conn) BufConn() *bufconn.Conn { return c.sc }

// ClientConn returns the client end of the transport (what Dial returned).
func (c *Conn) ClientConn() *bufconn.Conn { return c.cc }

func (c *Conn) locked() func() {
	c.s.mu.Lock()
	return c.s.mu.Unlock
}

// Proto returns the negotiated protocol version (2 until HELLO 3).
func (c *Conn) Proto() int { defer c.locked()(); return c.proto }

// Name returns the name set by CLIENT SETNAME / HELLO SETNAME.
func (c *Conn) Name() string { defer c.locked()(); return c.name }

// DB returns the selected database.
func (c *Conn) DB() int { defer c.locked()(); return c.dbi }

// User returns the authenticated user name ("default" before any AUTH).
func (c *Conn) User() string { defer c.locked()(); return c.user }

// Authenticated reports whether the connection passed authentication (always
// true when the server requires none).
func (c *Conn) Authenticated() bool { defer c.locked()(); return c.authed }

// Closed reports whether the connection has ended.
func (c *Conn) Closed() bool { defer c.locked()(); return c.closed }

// TrackingMode returns "off", "on" (default mode), "optin", "optout" or "bcast".
func (c *Conn) TrackingMode() string {
	defer c.locked()()
	switch {
	case !c.tracking:
		return "off"
	case c.bcast:
		return "bcast"
	case c.optin:
		return "optin"
	case c.optout:
		return "optout"
	}
	return "on"
}

// TrackingNoLoop reports the NOLOOP flag.
func (c *Conn) TrackingNoLoop() bool { defer c.locked()(); return c.tracking && c.noloop }

// TrackingPrefixes returns the BCAST prefixes (sorted).
func (c *Conn) TrackingPrefixes() []string {
	defer c.locked()()
	return append([]string(nil), c.prefixes...)
}

// TrackedKeys returns the keys currently remembered for this connection in
// the server's tracking table (sorted).
func (c *Conn) TrackedKeys() []string {
	defer c.locked()()
	var keys []string
	for k, m := range c.s.track {
		if _, ok := m[c]; ok {
			keys = append(keys, k)
		}
	}
	sort.Strings(keys)
	return keys
}

// Subscriptions returns the subscribed channels, patterns and shard channels
// in subscription order.
func (c *Conn) Subscriptions() (channels, patterns, shards []string) {
	defer c.locked()()
	return append([]string(nil), c.subs...), append([]string(nil), c.psubs...), append([]string(nil), c.ssubs...)
}

// LibInfo returns the values of CLIENT SETINFO LIB-NAME / LIB-VER.
func (c *Conn) LibInfo() (name, ver string) { defer c.locked()(); return c.libName, c.libVer }

// NoTouch reports CLIENT NO-TOUCH.
func (c *Conn) NoTouch() bool { defer c.locked()(); return c.noTouch }

// NoEvict reports CLIENT NO-EVICT.
func (c *Conn) NoEvict() bool { defer c.locked()(); return c.noEvict }

// ReadOnly reports whether READONLY is in effect.
func (c *Conn) ReadOnly() bool { defer c.locked()(); return c.readOnly }

// Capa returns the capabilities announced with CLIENT CAPA.
func (c *Conn) Capa() []string { defer c.locked()(); return append([]string(nil), c.capa...) }

// InMulti reports whether the connection is inside MULTI.
func (c *Conn) InMulti() bool { defer c.locked()(); return c.multi }

// Blocked reports whether the connection is blocked in BLPOP/BRPOP.
func (c *Conn) Blocked() bool { defer c.locked()(); return c.blocked != nil }

// Parked returns the command parked by the intercept, or nil.
func (c *Conn) Parked() []string { defer c.locked()(); return c.parked }

// Log returns every command dispatched on this connection so far, in order
// (including commands answered by the intercept).
func (c *Conn) Log() [][]string {
	defer c.locked()()
	return append([][]string(nil), c.log...)
}

// SetupLog returns the leading run of connection setup commands (HELLO, AUTH,
// CLIENT ..., SELECT, READONLY, INFO) received before the first other command.
func (c *Conn) SetupLog() [][]string {
	defer c.locked()()
	var out [][]string
	for _, argv := range c.log {
		switch upper(argv[0]) {
		case "HELLO", "AUTH", "CLIENT", "SELECT", "READONLY", "READWRITE", "INFO":
			out = append(out, argv)
			continue
		}
		break
	}
	return out
}

// ---------------------------------------------------------------- controls

// HoldReplies turns holding on or off. While on, frames queued for this
// connection are kept in a held list instead of being handed to the writer
// (their events are still emitted at queue time). Turning it off releases
// everything still held, preserving order.
func (c *Conn) HoldReplies(on bool) {
	defer c.locked()()
	c.hold = on
	if !on {
		c.release(-1)
	}
}

// Release hands the first n held frames to the writer (n < 0: all).
func (c *Conn) Release(n int) {
	defer c.locked()()
	c.release(n)
}

func (c *Conn) release(n int) {
	if n < 0 || n > len(c.held) {
		n = len(c.held)
	}
	if n == 0 {
		return
	}
	c.handToWriter(c.held[:n]...)
	c.held = append([]frame(nil), c.held[n:]...)
}

// Held returns the number of frames currently held.
func (c *Conn) Held() int { defer c.locked()(); return len(c.held) }

// Frames returns the number of frames queued to this connection so far.
func (c *Conn) Frames() int { defer c.locked()(); return c.frames }

// Cut abruptly closes the connection: queued and held output is dropped and
// the client observes a connection reset. Emits SCut.
func (c *Conn) Cut() {
	defer c.locked()()
	c.shutdown(SCut, "cut", modeCut)
}

// CutAfterNextReplyBytes arms a mid-reply failure: the next reply frame (not
// push) is truncated to its first n bytes, after which the connection is
// closed; the client reads the partial frame and then EOF. n < 0 disarms.
func (c *Conn) CutAfterNextReplyBytes(n int) {
	defer c.locked()()
	if n < 0 {
		n = -1
	}
	c.cutAfter = n
}

// Unpark answers the command parked by the intercept with reply, without
// executing it, and resumes the connection.
func (c *Conn) Unpark(reply Value) {
	defer c.locked()()
	if c.parked == nil || c.closed {
		return
	}
	c.parked = nil
	c.sendReply(reply)
	c.drain()
}

// UnparkExec executes the parked command now, replies normally and resumes
// the connection.
func (c *Conn) UnparkExec() {
	defer c.locked()()
	if c.parked == nil || c.closed {
		return
	}
	argv := c.parked
	c.parked = nil
	c.execute(argv, nil, true)
	c.drain()
}

// Inject queues an arbitrary push frame to the connection (for example a
// malformed or unsolicited push). Emits SPush.
func (c *Conn) Inject(v Value) {
	defer c.locked()()
	c.sendPush(v)
}
