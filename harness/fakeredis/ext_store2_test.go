package fakeredis

import "testing"

// The scripted PTTL answers by key name, also inside EXEC; other names get the real answer. FCALL_RO runs the registered body.
func TestExt2ScriptedPTTLAndFcallRO(t *testing.T) {
	s := NewServer("t", Options{})
	defer s.Close()
	defer s.ForgetExt2()
	s.Do("SET", "k", "v")
	s.SetPTTLScript(func(key string, real int64) int64 {
		if key == "k" {
			return 0
		}
		return real
	})
	if v := s.Do("PTTL", "k"); v.Int != 0 {
		t.Fatalf("scripted PTTL k = %+v", v)
	}
	if v := s.Do("PTTL", "nokey"); v.Int != -2 {
		t.Fatalf("PTTL nokey = %+v", v)
	}
	s.Do("MULTI")
	s.Do("PTTL", "k")
	s.Do("GET", "k")
	if v := s.Do("EXEC"); len(v.Arr) != 2 || v.Arr[0].Int != 0 || v.Arr[1].Str != "v" {
		t.Fatalf("EXEC = %+v", v)
	}
	s.SetPTTLScript(nil)
	if v := s.Do("PTTL", "k"); v.Int != -1 {
		t.Fatalf("PTTL k without script = %+v", v)
	}
	if v := s.Do("FCALL_RO", "f", "1", "k"); !v.IsError() {
		t.Fatalf("unknown function: %+v", v)
	}
	s.RegisterROFunction("f", "return redis.call('GET', KEYS[1])")
	if v := s.Do("FCALL_RO", "f", "1", "k"); v.Str != "v" {
		t.Fatalf("FCALL_RO = %+v", v)
	}
	s.RegisterROFunction("w", "return redis.call('SET', KEYS[1], 'x')")
	if v := s.Do("FCALL_RO", "w", "1", "k"); !v.IsError() {
		t.Fatalf("a write from FCALL_RO must fail: %+v", v)
	}
}
