package fakeredis

// Extension for the lock / cache-aside drivers (family "lockaside"): a side-effect free look at a string key.

// PeekString returns the value of a string key of database 0 as the server would see it now, without expiring it,
// without emitting events and without touching the tracking table. expireAtMs is 0 for a key without expiry.
// It takes the (re-entrant) dispatcher mutex, so it may be called from the event sink and from the intercept.
func (s *Server) PeekString(key string) (val string, expireAtMs int64, ok bool) {
	s.mu.Lock()
	defer s.mu.Unlock()
	e := s.dbs[0].keys[key]
	if e == nil || e.kind != kString {
		return "", 0, false
	}
	if e.expireAt != 0 && e.expireAt <= s.nowMs() {
		return "", 0, false
	}
	return e.str, e.expireAt, true
}

// ExpireKeyNow makes key (database 0) expire at this instant exactly as the active expiry cycle would: the key is
// removed, an SExpire event is emitted and client side caches are invalidated. It reports whether the key existed.
func (s *Server) ExpireKeyNow(key string) bool {
	s.mu.Lock()
	defer s.mu.Unlock()
	d := s.dbs[0]
	if d.keys[key] == nil {
		return false
	}
	s.expireKey(d, key)
	s.afterCommand()
	return true
}

// PeekRaw is PeekString without the expiry test: it reports what is stored, whether or not the key's time is up.
// Keys are removed only by expireKey (which emits SExpire) or by commands, so raw peeks taken under the dispatcher mutex
// are consistent with the event stream even when the clock moves between a command and the peek.
func (s *Server) PeekRaw(key string) (val string, expireAtMs int64, ok bool) {
	s.mu.Lock()
	defer s.mu.Unlock()
	e := s.dbs[0].keys[key]
	if e == nil || e.kind != kString {
		return "", 0, false
	}
	return e.str, e.expireAt, true
}
