//go:build noluamini

package fakeredis

import "errors"

// Built with the "noluamini" tag the server has no Lua interpreter: scripts
// fail to load. This exists only so that the package can be built and tested
// without the verifharness/luamini package.

func luaCompile(src string) (any, error) {
	return nil, errors.New("scripting is not available in this build (noluamini)")
}

func luaRun(compiled any, keys, argv []string, call func(args []string) Value) Value {
	return Err("ERR scripting is not available in this build (noluamini)")
}
