package fakeredis

import (
	"runtime"
	"sync"
	"sync/atomic"
)

// remutex is a re-entrant mutex. The dispatcher mutex of a Server must be
// re-entrant because user hooks (event sink, intercept, on-connect) run while
// it is held and are allowed to call the public, locking API of *Server and
// *Conn (accessors, HoldReplies, Cut, even Do to interleave a write from
// "another client" at an exact point).
//
// Ownership is keyed by goroutine id. Go does not expose it, so it is parsed
// from the first line of runtime.Stack ("goroutine 123 [running]:"); that
// format has been stable since Go 1.0 and costs about a microsecond, which is
// irrelevant for a test double. Goroutine ids are never reused, hence
// owner == goid() can only be observed by the goroutine that stored it.
type remutex struct {
	mu    sync.Mutex
	owner atomic.Int64 // goroutine id of the holder, 0 when free
	depth int          // protected by mu
}

// Lock acquires the mutex, or increments the hold count if the calling
// goroutine already owns it.
func (m *remutex) Lock() {
	g := goid()
	if m.owner.Load() == g {
		m.depth++
		return
	}
	m.mu.Lock()
	m.owner.Store(g)
	m.depth = 1
}

// Unlock releases one hold.
func (m *remutex) Unlock() {
	if m.owner.Load() != goid() {
		panic("fakeredis: Unlock of a mutex not held by this goroutine")
	}
	m.depth--
	if m.depth == 0 {
		m.owner.Store(0)
		m.mu.Unlock()
	}
}

func goid() int64 {
	var buf [40]byte
	n := runtime.Stack(buf[:], false)
	const prefix = len("goroutine ")
	var id int64
	for i := prefix; i < n; i++ {
		ch := buf[i]
		if ch < '0' || ch > '9' {
			break
		}
		id = id*10 + int64(ch-'0')
	}
	if id == 0 {
		panic("fakeredis: cannot determine goroutine id")
	}
	return id
}
