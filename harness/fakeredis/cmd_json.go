package fakeredis

import (
	"bytes"
	"encoding/json"
	"errors"
	"io"
	"math"
	"strconv"
	"strings"
)

// A minimal RedisJSON: enough for the rueidis "om" add-on. Documents are kept
// as ordered trees (object member order is preserved like RedisJSON does) and
// serialised compactly. Paths are limited to the root ("$" or "."), dotted
// member chains in JSONPath ("$.a.b") or legacy (".a.b", "a.b") form, with
// optional [n] array indexes. JSONPath form replies with a JSON array of
// matches; legacy form replies with the single value.

func init() {
	reg("JSON.SET", -4, fWrite, 1, 1, 1, cmdJSONSet)
	reg("JSON.GET", -2, fRO, 1, 1, 1, cmdJSONGet)
	reg("JSON.MGET", -3, fRO, 1, -2, 1, cmdJSONMGet)
	reg("JSON.NUMINCRBY", 4, fWrite, 1, 1, 1, cmdJSONNumIncrBy)
	reg("JSON.DEL", -2, fWrite, 1, 1, 1, cmdJSONDel)
	reg("JSON.FORGET", -2, fWrite, 1, 1, 1, cmdJSONDel)
	reg("JSON.TYPE", -2, fRO, 1, 1, 1, cmdJSONType)
}

// jobject is a JSON object with insertion ordered members.
type jobject struct {
	keys []string
	vals map[string]any
}

func (o *jobject) set(k string, v any) {
	if _, exists := o.vals[k]; !exists {
		o.keys = append(o.keys, k)
	}
	o.vals[k] = v
}

func (o *jobject) del(k string) bool {
	if _, exists := o.vals[k]; !exists {
		return false
	}
	delete(o.vals, k)
	o.keys = append(o.keys[:indexOf(o.keys, k)], o.keys[indexOf(o.keys, k)+1:]...)
	return true
}

// jsonParse decodes text into nil, bool, json.Number, string, []any, *jobject.
func jsonParse(text string) (any, error) {
	dec := json.NewDecoder(strings.NewReader(text))
	dec.UseNumber()
	v, err := jsonValue(dec)
	if err != nil {
		return nil, err
	}
	if _, err := dec.Token(); err != io.EOF {
		return nil, errors.New("trailing characters")
	}
	return v, nil
}

func jsonValue(dec *json.Decoder) (any, error) {
	tok, err := dec.Token()
	if err != nil {
		return nil, err
	}
	delim, isDelim := tok.(json.Delim)
	if !isDelim {
		return tok, nil
	}
	switch delim {
	case '{':
		obj := &jobject{vals: map[string]any{}}
		for dec.More() {
			k, err := dec.Token()
			if err != nil {
				return nil, err
			}
			v, err := jsonValue(dec)
			if err != nil {
				return nil, err
			}
			obj.set(k.(string), v)
		}
		_, err := dec.Token()
		return obj, err
	case '[':
		arr := []any{}
		for dec.More() {
			v, err := jsonValue(dec)
			if err != nil {
				return nil, err
			}
			arr = append(arr, v)
		}
		_, err := dec.Token()
		return arr, err
	}
	return nil, errors.New("unexpected delimiter")
}

func jsonString(s string) string {
	var b bytes.Buffer
	enc := json.NewEncoder(&b)
	enc.SetEscapeHTML(false)
	_ = enc.Encode(s)
	return strings.TrimSuffix(b.String(), "\n")
}

func jsonSerialize(b *strings.Builder, v any) {
	switch x := v.(type) {
	case nil:
		b.WriteString("null")
	case bool:
		b.WriteString(strconv.FormatBool(x))
	case json.Number:
		b.WriteString(x.String())
	case string:
		b.WriteString(jsonString(x))
	case []any:
		b.WriteByte('[')
		for i, e := range x {
			if i > 0 {
				b.WriteByte(',')
			}
			jsonSerialize(b, e)
		}
		b.WriteByte(']')
	case *jobject:
		b.WriteByte('{')
		for i, k := range x.keys {
			if i > 0 {
				b.WriteByte(',')
			}
			b.WriteString(jsonString(k))
			b.WriteByte(':')
			jsonSerialize(b, x.vals[k])
		}
		b.WriteByte('}')
	}
}

func jsonText(v any) string {
	var b strings.Builder
	jsonSerialize(&b, v)
	return b.String()
}

// jpath is a parsed path.
type jpath struct {
	raw    string
	modern bool     // JSONPath ($...) form: replies are arrays of matches
	segs   []string // member names; "[n]" for array indexes
}

func (p jpath) root() bool { return len(p.segs) == 0 }

func parseJSONPath(raw string) (jpath, bool) {
	p := jpath{raw: raw}
	rest := raw
	if strings.HasPrefix(rest, "$") {
		p.modern = true
		rest = rest[1:]
	}
	for rest != "" {
		switch rest[0] {
		case '.':
			rest = rest[1:]
			if rest == "" {
				return p, len(p.segs) == 0 // "." and "$." name the root
			}
		case '[':
			end := strings.IndexByte(rest, ']')
			if end < 0 {
				return p, false
			}
			inner := rest[1:end]
			if n := len(inner); n >= 2 && (inner[0] == '"' || inner[0] == '\'') && inner[n-1] == inner[0] {
				p.segs = append(p.segs, inner[1:n-1])
			} else if _, err := strconv.Atoi(inner); err == nil {
				p.segs = append(p.segs, "["+inner+"]")
			} else {
				return p, false
			}
			rest = rest[end+1:]
		default:
			end := strings.IndexAny(rest, ".[")
			if end < 0 {
				end = len(rest)
			}
			p.segs = append(p.segs, rest[:end])
			rest = rest[end:]
		}
	}
	return p, true
}

// jsonStep descends one segment; found is false when it does not exist.
func jsonStep(v any, seg string) (any, bool) {
	if strings.HasPrefix(seg, "[") {
		arr, isArr := v.([]any)
		if !isArr {
			return nil, false
		}
		i, _ := strconv.Atoi(seg[1 : len(seg)-1])
		if i < 0 {
			i += len(arr)
		}
		if i < 0 || i >= len(arr) {
			return nil, false
		}
		return arr[i], true
	}
	obj, isObj := v.(*jobject)
	if !isObj {
		return nil, false
	}
	child, exists := obj.vals[seg]
	return child, exists
}

func jsonResolve(root any, segs []string) (any, bool) {
	cur := root
	for _, seg := range segs {
		next, found := jsonStep(cur, seg)
		if !found {
			return nil, false
		}
		cur = next
	}
	return cur, true
}

// jsonAssign stores val at the last segment of an existing parent.
func jsonAssign(root any, segs []string, val any, mustExist, mustNotExist bool) (done, parentFound bool) {
	parent, found := jsonResolve(root, segs[:len(segs)-1])
	if !found {
		return false, false
	}
	last := segs[len(segs)-1]
	_, exists := jsonStep(parent, last)
	if (mustExist && !exists) || (mustNotExist && exists) {
		return false, true
	}
	if strings.HasPrefix(last, "[") {
		if !exists {
			return false, false
		}
		arr := parent.([]any)
		i, _ := strconv.Atoi(last[1 : len(last)-1])
		if i < 0 {
			i += len(arr)
		}
		arr[i] = val
		return true, true
	}
	obj, isObj := parent.(*jobject)
	if !isObj {
		return false, false
	}
	obj.set(last, val)
	return true, true
}

func errJSONPath(p string) Value { return Err("ERR Path '" + p + "' does not exist") }

func cmdJSONSet(c *Conn, a []string) Value {
	var nx, xx bool
	for _, opt := range a[4:] {
		switch upper(opt) {
		case "NX":
			nx = true
		case "XX":
			xx = true
		default:
			return errSyntax
		}
	}
	if nx && xx {
		return errSyntax
	}
	path, good := parseJSONPath(a[2])
	if !good {
		return Err("ERR invalid path '" + a[2] + "'")
	}
	val, err := jsonParse(a[3])
	if err != nil {
		return Err("ERR invalid JSON: " + err.Error())
	}
	e, bad := c.lookupKind(a[1], kJSON)
	if !bad.IsZero() {
		return bad
	}
	if path.root() {
		if (nx && e != nil) || (xx && e == nil) {
			return Null()
		}
		ne := &entry{kind: kJSON, json: val}
		if e != nil {
			ne.expireAt = e.expireAt // RedisJSON keeps the TTL when overwriting the root
		}
		c.put(a[1], ne)
		return ok
	}
	if e == nil {
		return Err("ERR new objects must be created at the root")
	}
	done, parentFound := jsonAssign(e.json, path.segs, val, xx, nx)
	if !done {
		if !parentFound && !path.modern {
			return errJSONPath(a[2])
		}
		return Null()
	}
	c.modified(a[1], e)
	return ok
}

// jsonRead renders the value at path in the reply convention of its form. A
// zero Value with found false means the legacy path does not exist.
func jsonRead(root any, p jpath) (string, bool) {
	v, found := jsonResolve(root, p.segs)
	if p.modern {
		if !found {
			return "[]", true
		}
		return "[" + jsonText(v) + "]", true
	}
	if !found {
		return "", false
	}
	return jsonText(v), true
}

func cmdJSONGet(c *Conn, a []string) Value {
	var paths []string
	for i := 2; i < len(a); i++ {
		switch upper(a[i]) {
		case "INDENT", "NEWLINE", "SPACE":
			if i+1 >= len(a) {
				return errSyntax
			}
			i++ // formatting options are accepted and ignored
		case "NOESCAPE":
		default:
			paths = append(paths, a[i])
		}
	}
	e, bad := c.lookupKind(a[1], kJSON)
	if !bad.IsZero() {
		return bad
	}
	if e == nil {
		return Null()
	}
	if len(paths) == 0 {
		return Bulk(jsonText(e.json))
	}
	parsed := make([]jpath, len(paths))
	for i, raw := range paths {
		p, good := parseJSONPath(raw)
		if !good {
			return Err("ERR invalid path '" + raw + "'")
		}
		parsed[i] = p
	}
	if len(parsed) == 1 {
		text, found := jsonRead(e.json, parsed[0])
		if !found {
			return errJSONPath(paths[0])
		}
		return Bulk(text)
	}
	var b strings.Builder
	b.WriteByte('{')
	for i, p := range parsed {
		text, found := jsonRead(e.json, p)
		if !found {
			return errJSONPath(p.raw)
		}
		if i > 0 {
			b.WriteByte(',')
		}
		b.WriteString(jsonString(p.raw))
		b.WriteByte(':')
		b.WriteString(text)
	}
	b.WriteByte('}')
	return Bulk(b.String())
}

func cmdJSONMGet(c *Conn, a []string) Value {
	path, good := parseJSONPath(a[len(a)-1])
	if !good {
		return Err("ERR invalid path '" + a[len(a)-1] + "'")
	}
	out := make([]Value, 0, len(a)-2)
	for _, k := range a[1 : len(a)-1] {
		e := c.s.lookup(c.db(), k)
		if e == nil || e.kind != kJSON {
			out = append(out, Null())
			continue
		}
		text, found := jsonRead(e.json, path)
		if !found {
			out = append(out, Null())
			continue
		}
		out = append(out, Bulk(text))
	}
	return Array(out...)
}

func cmdJSONNumIncrBy(c *Conn, a []string) Value {
	path, good := parseJSONPath(a[2])
	if !good {
		return Err("ERR invalid path '" + a[2] + "'")
	}
	incr := json.Number(a[3])
	if _, err := incr.Float64(); err != nil {
		return Err("ERR expected a number but found '" + a[3] + "'")
	}
	e, bad := c.lookupKind(a[1], kJSON)
	if !bad.IsZero() {
		return bad
	}
	if e == nil {
		return Err("ERR could not perform this operation on a key that doesn't exist")
	}
	cur, found := jsonResolve(e.json, path.segs)
	if !found {
		if path.modern {
			return Bulk("[]")
		}
		return errJSONPath(a[2])
	}
	num, isNum := cur.(json.Number)
	if !isNum {
		if path.modern {
			return Bulk("[null]")
		}
		return Err("ERR WRONGTYPE wrong type of path value - expected a number but found " + jsonTypeName(cur))
	}
	sum, bad := jsonAdd(num, incr)
	if !bad.IsZero() {
		return bad
	}
	if path.root() {
		e.json = sum
	} else {
		jsonAssign(e.json, path.segs, sum, true, false)
	}
	c.modified(a[1], e)
	if path.modern {
		return Bulk("[" + sum.String() + "]")
	}
	return Bulk(sum.String())
}

// jsonAdd keeps integers integral and falls back to floating point otherwise.
func jsonAdd(x, y json.Number) (json.Number, Value) {
	xi, errX := x.Int64()
	yi, errY := y.Int64()
	if errX == nil && errY == nil {
		if (yi > 0 && xi > math.MaxInt64-yi) || (yi < 0 && xi < math.MinInt64-yi) {
			return "", Err("ERR result is out of range")
		}
		return json.Number(itoa(xi + yi)), Value{}
	}
	xf, _ := x.Float64()
	yf, _ := y.Float64()
	sum := xf + yf
	if math.IsNaN(sum) || math.IsInf(sum, 0) {
		return "", Err("ERR result is not a number")
	}
	text := strconv.FormatFloat(sum, 'g', -1, 64)
	if !strings.ContainsAny(text, ".eE") {
		text += ".0"
	}
	return json.Number(text), Value{}
}

func jsonTypeName(v any) string {
	switch x := v.(type) {
	case nil:
		return "null"
	case bool:
		return "boolean"
	case json.Number:
		if _, err := x.Int64(); err == nil {
			return "integer"
		}
		return "number"
	case string:
		return "string"
	case []any:
		return "array"
	}
	return "object"
}

func cmdJSONDel(c *Conn, a []string) Value {
	if len(a) > 3 {
		return errArity(a[0])
	}
	e, bad := c.lookupKind(a[1], kJSON)
	if !bad.IsZero() {
		return bad
	}
	if e == nil {
		return Int(0)
	}
	path := jpath{}
	if len(a) == 3 {
		var good bool
		if path, good = parseJSONPath(a[2]); !good {
			return Err("ERR invalid path '" + a[2] + "'")
		}
	}
	if path.root() {
		c.remove(a[1])
		return Int(1)
	}
	parent, found := jsonResolve(e.json, path.segs[:len(path.segs)-1])
	if !found {
		return Int(0)
	}
	last := path.segs[len(path.segs)-1]
	obj, isObj := parent.(*jobject)
	if !isObj || !obj.del(last) {
		return Int(0)
	}
	c.modified(a[1], e)
	return Int(1)
}

func cmdJSONType(c *Conn, a []string) Value {
	if len(a) > 3 {
		return errArity(a[0])
	}
	e, bad := c.lookupKind(a[1], kJSON)
	if !bad.IsZero() {
		return bad
	}
	path := jpath{}
	if len(a) == 3 {
		var good bool
		if path, good = parseJSONPath(a[2]); !good {
			return Err("ERR invalid path '" + a[2] + "'")
		}
	}
	if e == nil {
		return Null()
	}
	v, found := jsonResolve(e.json, path.segs)
	switch {
	case path.modern && !found:
		return Array()
	case path.modern:
		return Array(Bulk(jsonTypeName(v)))
	case !found:
		return Null()
	}
	return Bulk(jsonTypeName(v))
}
