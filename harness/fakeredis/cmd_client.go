package fakeredis

import (
	"fmt"
	"sort"
	"strings"
)

func init() {
	reg("HELLO", -1, fNoAuth|fNoScript|fNoMulti, 0, 0, 0, cmdHello)
	reg("AUTH", -2, fNoAuth|fNoScript|fNoMulti, 0, 0, 0, cmdAuth)
	reg("SELECT", 2, 0, 0, 0, 0, cmdSelect)
	reg("CLIENT", -2, fNoScript, 0, 0, 0, cmdClient)
	reg("QUIT", -1, fNoAuth|fPubSub|fTxCtl|fNoScript, 0, 0, 0, cmdQuit)
	reg("RESET", 1, fNoAuth|fPubSub|fTxCtl|fNoScript, 0, 0, 0, cmdReset)
}

const errWrongPass = "WRONGPASS invalid username-password pair or user is disabled."

// authenticate checks a user/password pair against Options.Users.
func (c *Conn) authenticate(user, pass string) bool {
	users := c.s.opt.Users
	if len(users) == 0 {
		return user == "default" // the default user is "nopass"
	}
	want, known := users[user]
	if !known {
		return false
	}
	return want == "" || want == pass
}

func cmdAuth(c *Conn, a []string) Value {
	if len(a) > 3 {
		return errSyntax
	}
	user, pass := "default", a[1]
	if len(a) == 3 {
		user, pass = a[1], a[2]
	} else if !c.s.authRequired() {
		return Err("ERR AUTH <password> called without any password configured for the default user. Are you sure your configuration is correct?")
	}
	if !c.authenticate(user, pass) {
		return Err(errWrongPass)
	}
	c.authed, c.user = true, user
	return ok
}

func cmdHello(c *Conn, a []string) Value {
	s := c.s
	proto := c.proto
	next := 1
	if len(a) >= 2 {
		n, isInt := parseInt(a[1])
		if !isInt {
			return Err("ERR Protocol version is not an integer or out of range")
		}
		if n < 2 || n > 3 || int(n) > s.opt.MaxProto {
			return Err("NOPROTO unsupported protocol version")
		}
		proto = int(n)
		next = 2
	}
	var user, pass, name string
	var hasAuth, hasName bool
	for i := next; i < len(a); {
		more := len(a) - i - 1
		switch opt := upper(a[i]); {
		case opt == "AUTH" && more >= 2:
			user, pass, hasAuth = a[i+1], a[i+2], true
			i += 3
		case opt == "SETNAME" && more >= 1:
			name, hasName = a[i+1], true
			if bad := validClientName(name); !bad.IsZero() {
				return bad
			}
			i += 2
		default:
			return Err("ERR Syntax error in HELLO option '" + a[i] + "'")
		}
	}
	if hasAuth {
		if !c.authenticate(user, pass) {
			return Err(errWrongPass)
		}
		c.authed, c.user = true, user
	}
	if !c.authed {
		return Err("NOAUTH HELLO must be called with the client already authenticated, otherwise the HELLO <proto> AUTH <user> <pass> option can be used to authenticate the client and select the RESP protocol version at the same time")
	}
	if hasName {
		c.name = name
	}
	c.proto = proto
	role := s.role
	if role == "slave" {
		role = "replica"
	}
	kv := []Value{
		Bulk("server"), Bulk("redis"),
		Bulk("version"), Bulk(s.opt.Version),
		Bulk("proto"), Int(int64(proto)),
		Bulk("id"), Int(int64(c.id)),
		Bulk("mode"), Bulk("standalone"),
		Bulk("role"), Bulk(role),
		Bulk("modules"), Array(),
	}
	if s.opt.AZ != "" {
		kv = append(kv, Bulk("availability_zone"), Bulk(s.opt.AZ))
	}
	return Map(kv...)
}

func validClientName(name string) Value {
	for i := 0; i < len(name); i++ {
		if name[i] < '!' || name[i] > '~' {
			return Err("ERR Client names cannot contain spaces, newlines or special characters.")
		}
	}
	return Value{}
}

func cmdSelect(c *Conn, a []string) Value {
	n, isInt := parseInt(a[1])
	if !isInt {
		return Err("ERR invalid DB index")
	}
	if n < 0 || n >= numDBs {
		return Err("ERR DB index is out of range")
	}
	c.dbi = int(n)
	return ok
}

func cmdQuit(c *Conn, a []string) Value {
	c.quit = true
	return ok
}

// cmdReset implements RESET: back to the state of a fresh connection.
func cmdReset(c *Conn, a []string) Value {
	c.discardTx()
	c.unsubscribeAllSilently()
	c.disableTracking()
	c.dbi, c.proto, c.name = 0, 2, ""
	c.noTouch, c.noEvict, c.readOnly = false, false, false
	c.user, c.authed = "default", !c.s.authRequired()
	return Simple("RESET")
}

func onOff(s string) (on, good bool) {
	switch upper(s) {
	case "ON":
		return true, true
	case "OFF":
		return false, true
	}
	return false, false
}

func cmdClient(c *Conn, a []string) Value {
	sub := upper(a[1])
	arity := func(n int) bool { return len(a) == n }
	badArity := errArity("client|" + sub)
	switch sub {
	case "ID":
		if !arity(2) {
			return badArity
		}
		return Int(int64(c.id))
	case "GETNAME":
		if !arity(2) {
			return badArity
		}
		if c.name == "" {
			return Null()
		}
		return Bulk(c.name)
	case "SETNAME":
		if !arity(3) {
			return badArity
		}
		if bad := validClientName(a[2]); !bad.IsZero() {
			return bad
		}
		c.name = a[2]
		return ok
	case "SETINFO":
		if !arity(4) {
			return badArity
		}
		if strings.ContainsAny(a[3], " \n\r") {
			return Err("ERR lib-name/lib-ver cannot contain spaces, newlines or special characters.")
		}
		switch upper(a[2]) {
		case "LIB-NAME":
			c.libName = a[3]
		case "LIB-VER":
			c.libVer = a[3]
		default:
			return Err("ERR Unrecognized option '" + a[2] + "'")
		}
		return ok
	case "NO-EVICT", "NO-TOUCH":
		if !arity(3) {
			return badArity
		}
		on, good := onOff(a[2])
		if !good {
			return errSyntax
		}
		if sub == "NO-EVICT" {
			c.noEvict = on
		} else {
			c.noTouch = on
		}
		return ok
	case "CAPA":
		if len(a) < 3 {
			return badArity
		}
		for _, capa := range a[2:] {
			if indexOf(c.capa, lower(capa)) < 0 {
				c.capa = append(c.capa, lower(capa))
			}
		}
		return ok
	case "TRACKING":
		if len(a) < 3 {
			return badArity
		}
		return c.clientTracking(a)
	case "CACHING":
		if !arity(3) {
			return badArity
		}
		return c.clientCaching(a[2])
	case "GETREDIR":
		if !arity(2) {
			return badArity
		}
		if !c.tracking {
			return Int(-1)
		}
		return Int(int64(c.redirect))
	case "TRACKINGINFO":
		if !arity(2) {
			return badArity
		}
		return c.trackingInfo()
	case "INFO":
		if !arity(2) {
			return badArity
		}
		return Verbatim("txt", c.infoLine()+"\n")
	case "LIST":
		var b strings.Builder
		for _, x := range c.s.live {
			b.WriteString(x.infoLine())
			b.WriteByte('\n')
		}
		return Verbatim("txt", b.String())
	case "REPLY":
		if !arity(3) {
			return badArity
		}
		if upper(a[2]) != "ON" {
			return Err("ERR CLIENT REPLY OFF/SKIP is not supported by fakeredis")
		}
		return ok
	}
	return Err("ERR unknown subcommand '" + a[1] + "'. Try CLIENT HELP.")
}

func (c *Conn) infoLine() string {
	flags := "N"
	if c.tracking {
		flags = "t"
	}
	addr := ""
	if c.sc != nil {
		addr = c.sc.RemoteAddr().String()
	}
	return fmt.Sprintf("id=%d addr=%s name=%s db=%d sub=%d psub=%d ssub=%d multi=%d flags=%s user=%s redir=%d resp=%d lib-name=%s lib-ver=%s",
		c.id, addr, c.name, c.dbi, len(c.subs), len(c.psubs), len(c.ssubs), multiLen(c), flags, c.user, c.redirectInfo(), c.proto, c.libName, c.libVer)
}

func multiLen(c *Conn) int {
	if !c.multi {
		return -1
	}
	return len(c.queued)
}

func (c *Conn) redirectInfo() int {
	if !c.tracking {
		return -1
	}
	return c.redirect
}

// clientTracking implements CLIENT TRACKING ON|OFF [REDIRECT id] [PREFIX p]...
// [BCAST] [OPTIN] [OPTOUT] [NOLOOP] with Redis' validation rules and wording.
func (c *Conn) clientTracking(a []string) Value {
	on, good := onOff(a[2])
	if !good {
		return errSyntax
	}
	var bcast, optin, optout, noloop bool
	var prefixes []string
	redirect := 0
	for i := 3; i < len(a); i++ {
		more := i+1 < len(a)
		switch opt := upper(a[i]); {
		case opt == "REDIRECT" && more:
			if redirect != 0 {
				return Err("ERR A client can only redirect to a single other client")
			}
			n, isInt := parseInt(a[i+1])
			if !isInt || n <= 0 {
				return Err("ERR Invalid client ID")
			}
			redirect = int(n)
			i++
		case opt == "PREFIX" && more:
			prefixes = append(prefixes, a[i+1])
			i++
		case opt == "BCAST":
			bcast = true
		case opt == "OPTIN":
			optin = true
		case opt == "OPTOUT":
			optout = true
		case opt == "NOLOOP":
			noloop = true
		default:
			return errSyntax
		}
	}
	if !on {
		c.disableTracking()
		return ok
	}
	if redirect != 0 {
		if redirect == c.id {
			return Err("ERR A client can't redirect invalidation messages to itself")
		}
		if t := c.s.byID[redirect]; t == nil || t.closed || t.admin {
			return Err("ERR The client ID you want redirect to does not exist")
		}
	}
	if c.tracking && bcast != c.bcast {
		return Err("ERR You can't switch BCAST mode on/off before disabling tracking for this client, and then re-enabling it with a different mode.")
	}
	if bcast && (optin || optout) {
		return Err("ERR OPTIN and OPTOUT are not compatible with BCAST")
	}
	if optin && optout {
		return Err("ERR You can't specify both OPTIN mode and OPTOUT mode")
	}
	if c.tracking && ((optin && c.optout) || (optout && c.optin)) {
		return Err("ERR You can't switch OPTIN/OPTOUT mode before disabling tracking for this client, and then re-enabling it with a different mode.")
	}
	if !bcast && len(prefixes) > 0 {
		return Err("ERR PREFIX option requires BCAST mode to be enabled")
	}
	if bcast {
		if len(prefixes) == 0 && indexOf(c.prefixes, "") < 0 {
			c.prefixes = append(c.prefixes, "") // no PREFIX: every key, unchecked as in Redis
		}
		overlap := func(p, q string) bool { return strings.HasPrefix(p, q) || strings.HasPrefix(q, p) }
		for i, p := range prefixes {
			for _, q := range c.prefixes {
				if overlap(p, q) {
					return Err("ERR Prefix '" + p + "' overlaps with an existing prefix '" + q + "'. Prefixes for a single client must not overlap.")
				}
			}
			for _, q := range prefixes[i+1:] {
				if overlap(p, q) {
					return Err("ERR Prefix '" + p + "' overlaps with another provided prefix '" + q + "'. Prefixes for a single client must not overlap.")
				}
			}
		}
		c.prefixes = append(c.prefixes, prefixes...)
		sort.Strings(c.prefixes)
	}
	c.tracking, c.bcast, c.optin, c.optout, c.noloop, c.redirect = true, bcast, optin, optout, noloop, redirect
	c.caching = false
	return ok
}

func (c *Conn) clientCaching(arg string) Value {
	if !c.tracking || !(c.optin || c.optout) {
		return Err("ERR CLIENT CACHING can be called only when the client is in tracking mode with OPTIN or OPTOUT mode enabled")
	}
	switch upper(arg) {
	case "YES":
		if !c.optin {
			return Err("ERR CLIENT CACHING YES is only valid when tracking is enabled in OPTIN mode.")
		}
	case "NO":
		if !c.optout {
			return Err("ERR CLIENT CACHING NO is only valid when tracking is enabled in OPTOUT mode.")
		}
	default:
		return errSyntax
	}
	c.caching = true
	return ok
}

func (c *Conn) trackingInfo() Value {
	var flags []string
	switch {
	case !c.tracking:
		flags = append(flags, "off")
	default:
		flags = append(flags, "on")
		if c.bcast {
			flags = append(flags, "bcast")
		}
		if c.optin {
			flags = append(flags, "optin")
			if c.caching {
				flags = append(flags, "caching-yes")
			}
		}
		if c.optout {
			flags = append(flags, "optout")
			if c.caching {
				flags = append(flags, "caching-no")
			}
		}
		if c.noloop {
			flags = append(flags, "noloop")
		}
	}
	fv := BulkArray(flags...)
	fv.Typ = TSet
	pv := BulkArray(c.prefixes...)
	return Map(
		Bulk("flags"), fv,
		Bulk("redirect"), Int(int64(c.redirectInfo())),
		Bulk("prefixes"), pv,
	)
}
