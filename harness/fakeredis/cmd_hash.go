package fakeredis

import (
	"math"
	"strconv"
)

func init() {
	reg("HSET", -4, fWrite, 1, 1, 1, cmdHSet)
	reg("HMSET", -4, fWrite, 1, 1, 1, cmdHSet)
	reg("HSETNX", 4, fWrite, 1, 1, 1, cmdHSetNX)
	reg("HGET", 3, fRO, 1, 1, 1, cmdHGet)
	reg("HMGET", -3, fRO, 1, 1, 1, cmdHMGet)
	reg("HGETALL", 2, fRO, 1, 1, 1, cmdHGetAll)
	reg("HDEL", -3, fWrite, 1, 1, 1, cmdHDel)
	reg("HEXISTS", 3, fRO, 1, 1, 1, cmdHExists)
	reg("HLEN", 2, fRO, 1, 1, 1, cmdHLen)
	reg("HKEYS", 2, fRO, 1, 1, 1, cmdHKeys)
	reg("HVALS", 2, fRO, 1, 1, 1, cmdHVals)
	reg("HINCRBY", 4, fWrite, 1, 1, 1, cmdHIncrBy)
	reg("HINCRBYFLOAT", 4, fWrite, 1, 1, 1, cmdHIncrByFloat)
	reg("HSTRLEN", 3, fRO, 1, 1, 1, cmdHStrlen)
	reg("HSCAN", -3, fRO, 1, 1, 1, cmdHScan)
}

// hashForWrite returns the hash at key, creating it (not yet stored) when
// missing. created tells the caller to put() instead of modified().
func (c *Conn) hashForWrite(key string) (e *entry, created bool, bad Value) {
	e, bad = c.lookupKind(key, kHash)
	if !bad.IsZero() {
		return nil, false, bad
	}
	if e == nil {
		return &entry{kind: kHash, hash: newOmap()}, true, Value{}
	}
	return e, false, Value{}
}

func (c *Conn) store(key string, e *entry, created bool) {
	if created {
		c.put(key, e)
	} else {
		c.modified(key, e)
	}
}

func cmdHSet(c *Conn, a []string) Value {
	if len(a)%2 != 0 {
		return errArity(a[0])
	}
	e, created, bad := c.hashForWrite(a[1])
	if !bad.IsZero() {
		return bad
	}
	var added int64
	for i := 2; i < len(a); i += 2 {
		if e.hash.set(a[i], a[i+1]) {
			added++
		}
	}
	c.store(a[1], e, created)
	if upper(a[0]) == "HMSET" {
		return ok
	}
	return Int(added)
}

func cmdHSetNX(c *Conn, a []string) Value {
	e, created, bad := c.hashForWrite(a[1])
	if !bad.IsZero() {
		return bad
	}
	if _, exists := e.hash.get(a[2]); exists {
		return Int(0)
	}
	e.hash.set(a[2], a[3])
	c.store(a[1], e, created)
	return Int(1)
}

func cmdHGet(c *Conn, a []string) Value {
	e, bad := c.lookupKind(a[1], kHash)
	if !bad.IsZero() {
		return bad
	}
	if e == nil {
		return Null()
	}
	if v, found := e.hash.get(a[2]); found {
		return Bulk(v)
	}
	return Null()
}

func cmdHMGet(c *Conn, a []string) Value {
	e, bad := c.lookupKind(a[1], kHash)
	if !bad.IsZero() {
		return bad
	}
	out := make([]Value, 0, len(a)-2)
	for _, f := range a[2:] {
		if e != nil {
			if v, found := e.hash.get(f); found {
				out = append(out, Bulk(v))
				continue
			}
		}
		out = append(out, Null())
	}
	return Array(out...)
}

func cmdHGetAll(c *Conn, a []string) Value {
	e, bad := c.lookupKind(a[1], kHash)
	if !bad.IsZero() {
		return bad
	}
	var kv []Value
	if e != nil {
		for _, f := range e.hash.order {
			kv = append(kv, Bulk(f), Bulk(e.hash.m[f]))
		}
	}
	return Map(kv...)
}

func cmdHDel(c *Conn, a []string) Value {
	e, bad := c.lookupKind(a[1], kHash)
	if !bad.IsZero() {
		return bad
	}
	if e == nil {
		return Int(0)
	}
	var n int64
	for _, f := range a[2:] {
		if e.hash.del(f) {
			n++
		}
	}
	if n > 0 {
		c.modified(a[1], e)
	}
	return Int(n)
}

func cmdHExists(c *Conn, a []string) Value {
	e, bad := c.lookupKind(a[1], kHash)
	if !bad.IsZero() {
		return bad
	}
	if e != nil {
		if _, found := e.hash.get(a[2]); found {
			return Int(1)
		}
	}
	return Int(0)
}

func cmdHLen(c *Conn, a []string) Value {
	e, bad := c.lookupKind(a[1], kHash)
	if !bad.IsZero() {
		return bad
	}
	if e == nil {
		return Int(0)
	}
	return Int(int64(e.hash.len()))
}

func cmdHKeys(c *Conn, a []string) Value {
	e, bad := c.lookupKind(a[1], kHash)
	if !bad.IsZero() {
		return bad
	}
	if e == nil {
		return Array()
	}
	return BulkArray(e.hash.order...)
}

func cmdHVals(c *Conn, a []string) Value {
	e, bad := c.lookupKind(a[1], kHash)
	if !bad.IsZero() {
		return bad
	}
	var out []string
	if e != nil {
		for _, f := range e.hash.order {
			out = append(out, e.hash.m[f])
		}
	}
	return BulkArray(out...)
}

func cmdHIncrBy(c *Conn, a []string) Value {
	incr, isInt := parseInt(a[3])
	if !isInt {
		return errNotInt
	}
	e, created, bad := c.hashForWrite(a[1])
	if !bad.IsZero() {
		return bad
	}
	var cur int64
	if v, found := e.hash.get(a[2]); found {
		n, isInt := parseInt(v)
		if !isInt {
			return Err("ERR hash value is not an integer")
		}
		cur = n
	}
	if (incr > 0 && cur > math.MaxInt64-incr) || (incr < 0 && cur < math.MinInt64-incr) {
		return Err("ERR increment or decrement would overflow")
	}
	cur += incr
	e.hash.set(a[2], itoa(cur))
	c.store(a[1], e, created)
	return Int(cur)
}

func cmdHIncrByFloat(c *Conn, a []string) Value {
	incr, isFloat := parseFloat(a[3])
	if !isFloat {
		return errNotFloat
	}
	e, created, bad := c.hashForWrite(a[1])
	if !bad.IsZero() {
		return bad
	}
	var cur float64
	if v, found := e.hash.get(a[2]); found {
		f, isFloat := parseFloat(v)
		if !isFloat {
			return Err("ERR hash value is not a float")
		}
		cur = f
	}
	cur += incr
	if math.IsNaN(cur) || math.IsInf(cur, 0) {
		return Err("ERR increment would produce NaN or Infinity")
	}
	s := fmtHumanFloat(cur)
	e.hash.set(a[2], s)
	c.store(a[1], e, created)
	return Bulk(s)
}

func cmdHStrlen(c *Conn, a []string) Value {
	e, bad := c.lookupKind(a[1], kHash)
	if !bad.IsZero() {
		return bad
	}
	if e != nil {
		if v, found := e.hash.get(a[2]); found {
			return Int(int64(len(v)))
		}
	}
	return Int(0)
}

func cmdHScan(c *Conn, a []string) Value {
	cursor, err := strconv.ParseUint(a[2], 10, 64)
	if err != nil {
		return Err("ERR invalid cursor")
	}
	count, match, _, bad := scanOptions(a[3:], false)
	if !bad.IsZero() {
		return bad
	}
	e, bad := c.lookupKind(a[1], kHash)
	if !bad.IsZero() {
		return bad
	}
	if e == nil {
		return Array(Bulk("0"), Array())
	}
	fields := e.hash.order
	var out []string
	i := int(min(cursor, uint64(len(fields))))
	for n := 0; i < len(fields) && n < count; i, n = i+1, n+1 {
		if match == "" || globMatch(match, fields[i]) {
			out = append(out, fields[i], e.hash.m[fields[i]])
		}
	}
	next := "0"
	if i < len(fields) {
		next = strconv.Itoa(i)
	}
	return Array(Bulk(next), BulkArray(out...))
}
