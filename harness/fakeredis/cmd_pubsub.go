package fakeredis

func init() {
	reg("SUBSCRIBE", -2, fPubSub|fNoScript, 0, 0, 0, func(c *Conn, a []string) Value { return c.subscribe(kindChannel, a[1:]) })
	reg("PSUBSCRIBE", -2, fPubSub|fNoScript, 0, 0, 0, func(c *Conn, a []string) Value { return c.subscribe(kindPattern, a[1:]) })
	reg("SSUBSCRIBE", -2, fPubSub|fNoScript, 1, -1, 1, func(c *Conn, a []string) Value { return c.subscribe(kindShard, a[1:]) })
	reg("UNSUBSCRIBE", -1, fPubSub|fNoScript, 0, 0, 0, func(c *Conn, a []string) Value { return c.unsubscribe(kindChannel, a[1:]) })
	reg("PUNSUBSCRIBE", -1, fPubSub|fNoScript, 0, 0, 0, func(c *Conn, a []string) Value { return c.unsubscribe(kindPattern, a[1:]) })
	reg("SUNSUBSCRIBE", -1, fPubSub|fNoScript, 1, -1, 1, func(c *Conn, a []string) Value { return c.unsubscribe(kindShard, a[1:]) })
	reg("PUBLISH", 3, 0, 0, 0, 0, func(c *Conn, a []string) Value { return Int(c.s.publish(a[1], a[2], false)) })
	reg("SPUBLISH", 3, 0, 1, 1, 1, func(c *Conn, a []string) Value { return Int(c.s.publish(a[1], a[2], true)) })
	reg("PUBSUB", -2, 0, 0, 0, 0, cmdPubSub)
}

type subKind int

const (
	kindChannel subKind = iota
	kindPattern
	kindShard
)

// subTables returns the connection's list, the server's registry and the
// confirmation words for one subscription kind.
func (c *Conn) subTables(k subKind) (own *[]string, reg map[string][]*Conn, sub, unsub string) {
	switch k {
	case kindPattern:
		return &c.psubs, c.s.patterns, "psubscribe", "punsubscribe"
	case kindShard:
		return &c.ssubs, c.s.shards, "ssubscribe", "sunsubscribe"
	}
	return &c.subs, c.s.channels, "subscribe", "unsubscribe"
}

// subCount is the number Redis reports in (p)subscribe confirmations:
// channels plus patterns. Shard channels are counted separately.
func (c *Conn) subCount() int { return len(c.subs) + len(c.psubs) }

func (c *Conn) confirmCount(k subKind) int64 {
	if k == kindShard {
		return int64(len(c.ssubs))
	}
	return int64(c.subCount())
}

func indexOf(list []string, s string) int {
	for i, x := range list {
		if x == s {
			return i
		}
	}
	return -1
}

// subscribe registers the names and sends one confirmation push per name. The
// command itself has no reply frame.
func (c *Conn) subscribe(k subKind, names []string) Value {
	own, reg, word, _ := c.subTables(k)
	for _, name := range names {
		if indexOf(*own, name) < 0 {
			*own = append(*own, name)
			reg[name] = append(reg[name], c)
		}
		c.sendPush(Push(Bulk(word), Bulk(name), Int(c.confirmCount(k))))
	}
	return Value{}
}

func (c *Conn) dropSub(k subKind, name string) bool {
	own, reg, _, _ := c.subTables(k)
	i := indexOf(*own, name)
	if i < 0 {
		return false
	}
	*own = append((*own)[:i:i], (*own)[i+1:]...)
	list := reg[name]
	for j, x := range list {
		if x == c {
			list = append(list[:j:j], list[j+1:]...)
			break
		}
	}
	if len(list) == 0 {
		delete(reg, name)
	} else {
		reg[name] = list
	}
	return true
}

// unsubscribe removes the names (all when none given) and sends one
// confirmation per name, or a single one with a null name when there was
// nothing to unsubscribe from.
func (c *Conn) unsubscribe(k subKind, names []string) Value {
	own, _, _, word := c.subTables(k)
	if len(names) == 0 {
		names = append([]string(nil), *own...)
		if len(names) == 0 {
			c.sendPush(Push(Bulk(word), Null(), Int(c.confirmCount(k))))
			return Value{}
		}
	}
	for _, name := range names {
		c.dropSub(k, name)
		c.sendPush(Push(Bulk(word), Bulk(name), Int(c.confirmCount(k))))
	}
	return Value{}
}

// unsubscribeAllSilently drops every subscription without confirmations
// (connection teardown).
func (c *Conn) unsubscribeAllSilently() {
	for _, k := range []subKind{kindChannel, kindPattern, kindShard} {
		own, _, _, _ := c.subTables(k)
		for _, name := range append([]string(nil), *own...) {
			c.dropSub(k, name)
		}
	}
}

// publish delivers a message and returns the number of receivers. Channel
// subscribers are served first, then pattern subscribers, each group in
// subscription order.
func (s *Server) publish(channel, payload string, shard bool) int64 {
	var n int64
	if shard {
		for _, c := range append([]*Conn(nil), s.shards[channel]...) {
			c.sendPush(Push(Bulk("smessage"), Bulk(channel), Bulk(payload)))
			n++
		}
		return n
	}
	for _, c := range append([]*Conn(nil), s.channels[channel]...) {
		c.sendPush(Push(Bulk("message"), Bulk(channel), Bulk(payload)))
		n++
	}
	for _, pat := range sortedKeysOf(s.patterns) {
		if !globMatch(pat, channel) {
			continue
		}
		for _, c := range append([]*Conn(nil), s.patterns[pat]...) {
			c.sendPush(Push(Bulk("pmessage"), Bulk(pat), Bulk(channel), Bulk(payload)))
			n++
		}
	}
	return n
}

func cmdPubSub(c *Conn, a []string) Value {
	s := c.s
	switch sub := upper(a[1]); sub {
	case "CHANNELS", "SHARDCHANNELS":
		if len(a) > 3 {
			return errArity("pubsub|" + sub)
		}
		reg := s.channels
		if sub == "SHARDCHANNELS" {
			reg = s.shards
		}
		var out []string
		for _, ch := range sortedKeysOf(reg) {
			if len(a) == 2 || globMatch(a[2], ch) {
				out = append(out, ch)
			}
		}
		return BulkArray(out...)
	case "NUMSUB", "SHARDNUMSUB":
		reg := s.channels
		if sub == "SHARDNUMSUB" {
			reg = s.shards
		}
		out := make([]Value, 0, 2*(len(a)-2))
		for _, ch := range a[2:] {
			out = append(out, Bulk(ch), Int(int64(len(reg[ch]))))
		}
		return Array(out...)
	case "NUMPAT":
		if len(a) != 2 {
			return errArity("pubsub|numpat")
		}
		return Int(int64(len(s.patterns)))
	}
	return Err("ERR unknown subcommand '" + a[1] + "'. Try PUBSUB HELP.")
}
