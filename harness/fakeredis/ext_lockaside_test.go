package fakeredis

import (
	"fmt"
	"sync"
	"testing"
	"time"
)

// Every key must produce exactly one SExpire, whoever notices the expiry first: the 10ms ticker, a lazy lookup, or an
// ExpireNow call made from the intercept of another command (what the lock / cache-aside drivers do).
func TestExpireOnceUnderConcurrentExpireNow(t *testing.T) {
	for round := 0; round < 30; round++ {
		s := NewServer("t", Options{})
		var mu sync.Mutex
		seen := map[string]int{}
		s.SetEventSink(func(ev Event) {
			if ev.Kind == SExpire {
				mu.Lock()
				seen[ev.Argv[0]]++
				mu.Unlock()
			}
		})
		s.SetIntercept(func(c *Conn, argv []string) (Value, Action) {
			s.ExpireNow()
			s.PeekString("k0")
			return Value{}, Pass
		})
		for i := 0; i < 3; i++ {
			s.Do("SET", fmt.Sprintf("k%d", i), "v", "PX", "30")
		}
		var wg sync.WaitGroup
		for g := 0; g < 4; g++ {
			wg.Add(1)
			go func(g int) {
				defer wg.Done()
				c := s.Dial(fmt.Sprintf("c%d", g))
				defer c.Close()
				for j := 0; j < 40; j++ {
					c.Write(EncodeCommand("GET", fmt.Sprintf("k%d", j%3)))
					buf := make([]byte, 64)
					c.SetReadDeadline(time.Now().Add(time.Second))
					c.Read(buf)
					time.Sleep(time.Millisecond)
				}
			}(g)
		}
		wg.Wait()
		s.Close()
		mu.Lock()
		for k, n := range seen {
			if n != 1 {
				t.Fatalf("round %d: key %s expired %d times", round, k, n)
			}
		}
		mu.Unlock()
	}
}
