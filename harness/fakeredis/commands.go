package fakeredis

import "sort"

type cmdFlag uint32

const (
	fWrite    cmdFlag = 1 << iota // modifies the data set
	fRO                           // read-only data command: its keys are remembered for client side caching
	fNoAuth                       // allowed before authentication
	fPubSub                       // allowed on a RESP2 connection in subscribed mode
	fTxCtl                        // executed (not queued) inside MULTI: EXEC DISCARD MULTI WATCH QUIT RESET
	fNoMulti                      // rejected inside MULTI
	fNoScript                     // rejected from Lua scripts
	fNoTrack                      // read-only but its keys are not remembered (EVAL_RO: only the inner commands are)
)

type handler func(c *Conn, a []string) Value

// cmdDef describes one command. Arity follows Redis: positive = exact number
// of arguments including the name, negative = minimum. Keys are located by
// first/last/step like Redis' legacy key specs (last < 0 counts from the end),
// or by keysFn when the layout is irregular.
type cmdDef struct {
	name              string
	arity             int
	flags             cmdFlag
	first, last, step int
	keysFn            func(a []string) []string
	fn                handler
}

var commands = map[string]*cmdDef{}

// reg registers a command; init functions of the cmd_*.go files call it.
func reg(name string, arity int, flags cmdFlag, first, last, step int, fn handler) *cmdDef {
	if _, dup := commands[name]; dup {
		panic("fakeredis: duplicate command " + name)
	}
	d := &cmdDef{name: name, arity: arity, flags: flags, first: first, last: last, step: step, fn: fn}
	commands[name] = d
	return d
}

func (d *cmdDef) arityOK(n int) bool {
	if d.arity >= 0 {
		return n == d.arity
	}
	return n >= -d.arity
}

// keys extracts the key arguments of an invocation.
func (d *cmdDef) keys(a []string) []string {
	if d.keysFn != nil {
		return d.keysFn(a)
	}
	if d.first <= 0 {
		return nil
	}
	last := d.last
	if last < 0 {
		last = len(a) + last
	}
	var out []string
	for i := d.first; i <= last && i < len(a); i += d.step {
		out = append(out, a[i])
	}
	return out
}

// CommandNames returns the implemented command names, sorted.
func CommandNames() []string {
	names := make([]string, 0, len(commands))
	for n := range commands {
		names = append(names, n)
	}
	sort.Strings(names)
	return names
}
