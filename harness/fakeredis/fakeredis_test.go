package fakeredis

import (
	"bufio"
	"bytes"
	"errors"
	"io"
	"net"
	"os"
	"strings"
	"sync"
	"sync/atomic"
	"syscall"
	"testing"
	"time"

	"verifharness/fakeredis/bufconn"
)

// ---------------------------------------------------------------- helpers

// tclient is a raw RESP test client on one connection.
type tclient struct {
	t    *testing.T
	conn net.Conn
	r    *bufio.Reader
}

func dial(t *testing.T, s *Server) *tclient {
	t.Helper()
	conn := s.Dial("client")
	t.Cleanup(func() { conn.Close() })
	return &tclient{t: t, conn: conn, r: bufio.NewReader(conn)}
}

func dial3(t *testing.T, s *Server) *tclient {
	t.Helper()
	c := dial(t, s)
	if v := c.do("HELLO", "3"); v.Typ != TMap {
		t.Fatalf("HELLO 3: %v", v)
	}
	return c
}

func (c *tclient) send(argv ...string) {
	c.t.Helper()
	if _, err := c.conn.Write(EncodeCommand(argv...)); err != nil {
		c.t.Fatalf("write %v: %v", argv, err)
	}
}

func (c *tclient) recvErr() (Value, error) {
	c.conn.SetReadDeadline(time.Now().Add(20 * time.Second))
	return Decode(c.r)
}

func (c *tclient) recv() Value {
	c.t.Helper()
	v, err := c.recvErr()
	if err != nil {
		c.t.Fatalf("read: %v", err)
	}
	return v
}

func (c *tclient) do(argv ...string) Value {
	c.t.Helper()
	c.send(argv...)
	return c.recv()
}

// expectNone asserts that nothing arrives within d.
func (c *tclient) expectNone(d time.Duration) {
	c.t.Helper()
	c.conn.SetReadDeadline(time.Now().Add(d))
	b, err := c.r.Peek(1)
	if err == nil {
		c.t.Fatalf("unexpected data, first byte %q", b)
	}
	if !errors.Is(err, os.ErrDeadlineExceeded) {
		c.t.Fatalf("expected timeout, got %v", err)
	}
}

func want(t *testing.T, got, exp Value) {
	t.Helper()
	if !got.Equal(exp) {
		t.Fatalf("got %v, want %v", got, exp)
	}
}

func wantErrPrefix(t *testing.T, got Value, prefix string) {
	t.Helper()
	if !got.IsError() || !strings.HasPrefix(got.Str, prefix) {
		t.Fatalf("got %v, want error starting with %q", got, prefix)
	}
}

func invalidate(keys ...string) Value { return Push(Bulk("invalidate"), BulkArray(keys...)) }

type recorder struct {
	mu  sync.Mutex
	evs []Event
}

func (r *recorder) add(ev Event) {
	r.mu.Lock()
	r.evs = append(r.evs, ev)
	r.mu.Unlock()
}

func (r *recorder) all() []Event {
	r.mu.Lock()
	defer r.mu.Unlock()
	return append([]Event(nil), r.evs...)
}

// find returns the first event after Seq `after` satisfying pred.
func (r *recorder) find(after int64, pred func(Event) bool) (Event, bool) {
	for _, ev := range r.all() {
		if ev.Seq > after && pred(ev) {
			return ev, true
		}
	}
	return Event{}, false
}

func newServer(t *testing.T, opt Options) (*Server, *recorder) {
	t.Helper()
	s := NewServer("node1", opt)
	rec := &recorder{}
	s.SetEventSink(rec.add)
	t.Cleanup(s.Close)
	return s, rec
}

func waitFor(t *testing.T, what string, cond func() bool) {
	t.Helper()
	deadline := time.Now().Add(20 * time.Second)
	for !cond() {
		if time.Now().After(deadline) {
			t.Fatalf("timeout waiting for %s", what)
		}
		time.Sleep(time.Millisecond)
	}
}

// ---------------------------------------------------------------- bufconn

func TestBufconnBuffering(t *testing.T) {
	c, s := bufconn.Pipe("c:1", "s:1")
	// Writes never wait for a reader.
	for i := 0; i < 1000; i++ {
		if _, err := c.Write([]byte("0123456789")); err != nil {
			t.Fatal(err)
		}
	}
	if s.Buffered() != 10000 {
		t.Fatalf("buffered %d", s.Buffered())
	}
	buf := make([]byte, 10000)
	if _, err := io.ReadFull(s, buf); err != nil {
		t.Fatal(err)
	}
	if c.LocalAddr().String() != "c:1" || c.RemoteAddr().String() != "s:1" || c.LocalAddr().Network() != "tcp" {
		t.Fatalf("addrs %v %v", c.LocalAddr(), c.RemoteAddr())
	}
	if s.LocalAddr().String() != "s:1" || s.RemoteAddr().String() != "c:1" {
		t.Fatalf("addrs %v %v", s.LocalAddr(), s.RemoteAddr())
	}
}

func TestBufconnDeadlines(t *testing.T) {
	c, s := bufconn.Pipe("c", "s")
	_ = s
	c.SetReadDeadline(time.Now().Add(20 * time.Millisecond))
	start := time.Now()
	_, err := c.Read(make([]byte, 1))
	if !errors.Is(err, os.ErrDeadlineExceeded) {
		t.Fatalf("err %v", err)
	}
	var ne net.Error
	if !errors.As(err, &ne) || !ne.Timeout() {
		t.Fatalf("not a timeout net.Error: %v", err)
	}
	if time.Since(start) < 15*time.Millisecond {
		t.Fatal("returned too early")
	}
	// An expired deadline fails immediately, also for writes.
	c.SetDeadline(time.Now().Add(-time.Second))
	if _, err := c.Write([]byte("x")); !errors.Is(err, os.ErrDeadlineExceeded) {
		t.Fatalf("write err %v", err)
	}
	// Clearing the deadline makes the connection usable again.
	c.SetDeadline(time.Time{})
	if _, err := c.Write([]byte("x")); err != nil {
		t.Fatal(err)
	}
	// Setting a new deadline wakes a blocked reader.
	done := make(chan error, 1)
	go func() {
		_, err := c.Read(make([]byte, 1))
		done <- err
	}()
	time.Sleep(10 * time.Millisecond)
	c.SetReadDeadline(time.Now().Add(-time.Second))
	select {
	case err := <-done:
		if !errors.Is(err, os.ErrDeadlineExceeded) {
			t.Fatalf("err %v", err)
		}
	case <-time.After(20 * time.Second):
		t.Fatal("blocked reader was not woken by the new deadline")
	}
}

func TestBufconnCloseDrainsThenEOF(t *testing.T) {
	c, s := bufconn.Pipe("c", "s")
	s.Write([]byte("hello"))
	s.Close()
	got, err := io.ReadAll(c)
	if err != nil || string(got) != "hello" {
		t.Fatalf("got %q err %v", got, err)
	}
	if _, err := c.Write([]byte("x")); !errors.Is(err, syscall.EPIPE) {
		t.Fatalf("peer write err %v", err)
	}
	if _, err := s.Read(make([]byte, 1)); !errors.Is(err, net.ErrClosed) {
		t.Fatalf("closed read err %v", err)
	}
	if _, err := s.Write([]byte("x")); !errors.Is(err, net.ErrClosed) {
		t.Fatalf("closed write err %v", err)
	}
	// Close wakes a reader blocked on the closing side.
	c2, s2 := bufconn.Pipe("c", "s")
	_ = s2
	done := make(chan error, 1)
	go func() { _, err := c2.Read(make([]byte, 1)); done <- err }()
	time.Sleep(5 * time.Millisecond)
	c2.Close()
	if err := <-done; !errors.Is(err, net.ErrClosed) {
		t.Fatalf("err %v", err)
	}
}

func TestBufconnCut(t *testing.T) {
	c, s := bufconn.Pipe("c", "s")
	s.Write([]byte("queued but never delivered"))
	s.Cut()
	if c.Buffered() != 0 {
		t.Fatal("cut must drop queued bytes")
	}
	if _, err := c.Read(make([]byte, 8)); !errors.Is(err, syscall.ECONNRESET) {
		t.Fatalf("peer read err %v", err)
	}
	if _, err := c.Write([]byte("x")); !errors.Is(err, syscall.ECONNRESET) {
		t.Fatalf("peer write err %v", err)
	}
	if _, err := s.Write([]byte("x")); !errors.Is(err, net.ErrClosed) {
		t.Fatalf("cutter write err %v", err)
	}
	if err := c.Close(); err != nil {
		t.Fatalf("closing the victim end once must succeed: %v", err)
	}
}

func TestBufconnChunk(t *testing.T) {
	c, s := bufconn.Pipe("c", "s")
	s.Write([]byte("abcdefgh"))
	c.SetChunk(3)
	var sizes []int
	buf := make([]byte, 64)
	for c.Buffered() > 0 {
		n, err := c.Read(buf)
		if err != nil {
			t.Fatal(err)
		}
		sizes = append(sizes, n)
	}
	if len(sizes) != 3 || sizes[0] != 3 || sizes[1] != 3 || sizes[2] != 2 {
		t.Fatalf("sizes %v", sizes)
	}
}

// ---------------------------------------------------------------- codec

func TestCodecRoundTrip(t *testing.T) {
	values := []Value{
		Simple("OK"), Err("ERR boom"), Int(-42), Bulk(""), Bulk("a\r\nb"), Null(),
		Array(), Array(Int(1), Bulk("x"), Array(Null())),
		Map(Bulk("k"), Int(1), Bulk("j"), Array(Bulk("v"))),
		Set(Bulk("a"), Bulk("b")), Push(Bulk("invalidate"), Array(Bulk("k"))),
		Double(1.5), Double(0.1), Bool(true), Bool(false),
		BigNumber("3492890328409238509324850943850943825024385"),
		Verbatim("txt", "some text"), BlobErr("SYNTAX invalid"),
	}
	var wire []byte
	for _, v := range values {
		wire = append(wire, v.EncodeRESP3()...)
	}
	r := bufio.NewReader(bytes.NewReader(wire))
	for _, exp := range values {
		got, err := Decode(r)
		if err != nil {
			t.Fatalf("decode %v: %v", exp, err)
		}
		want(t, got, exp)
		if got.Typ != exp.Typ {
			t.Fatalf("type %q want %q", got.Typ, exp.Typ)
		}
	}
	if _, err := Decode(r); err != io.EOF {
		t.Fatalf("want EOF, got %v", err)
	}
	// Exact wire forms.
	for _, tc := range []struct {
		v    Value
		wire string
	}{
		{Map(Bulk("a"), Int(1)), "%1\r\n$1\r\na\r\n:1\r\n"},
		{Push(Bulk("invalidate"), Null()), ">2\r\n$10\r\ninvalidate\r\n_\r\n"},
		{Double(1.5), ",1.5\r\n"},
		{Verbatim("txt", "hi"), "=6\r\ntxt:hi\r\n"},
		{NullArray(), "_\r\n"},
	} {
		if got := string(tc.v.EncodeRESP3()); got != tc.wire {
			t.Fatalf("%v encodes to %q, want %q", tc.v, got, tc.wire)
		}
	}
	// Truncated input and attribute frames.
	if _, err := Decode(bufio.NewReader(strings.NewReader("$5\r\nab"))); err != io.ErrUnexpectedEOF {
		t.Fatalf("want unexpected EOF, got %v", err)
	}
	got, err := Decode(bufio.NewReader(strings.NewReader("|1\r\n+ttl\r\n:5\r\n$2\r\nhi\r\n")))
	if err != nil {
		t.Fatal(err)
	}
	want(t, got, Bulk("hi"))
	if _, err := Decode(bufio.NewReader(strings.NewReader("?1\r\n"))); !errors.Is(err, ErrProtocol) {
		t.Fatalf("want protocol error, got %v", err)
	}
}

func TestCodecRESP2Downgrade(t *testing.T) {
	for _, tc := range []struct {
		v    Value
		wire string
	}{
		{Map(Bulk("a"), Int(1)), "*2\r\n$1\r\na\r\n:1\r\n"},
		{Set(Bulk("a")), "*1\r\n$1\r\na\r\n"},
		{Push(Bulk("message"), Bulk("c"), Bulk("p")), "*3\r\n$7\r\nmessage\r\n$1\r\nc\r\n$1\r\np\r\n"},
		{Null(), "$-1\r\n"},
		{NullArray(), "*-1\r\n"},
		{Double(1.5), "$3\r\n1.5\r\n"},
		{Bool(true), ":1\r\n"},
		{Bool(false), ":0\r\n"},
		{BigNumber("123"), "$3\r\n123\r\n"},
		{Verbatim("txt", "hi"), "$2\r\nhi\r\n"},
		{BlobErr("ERR x"), "-ERR x\r\n"},
		{Array(Map(Bulk("k"), Null())), "*1\r\n*2\r\n$1\r\nk\r\n$-1\r\n"},
	} {
		if got := string(tc.v.EncodeRESP2()); got != tc.wire {
			t.Fatalf("%v encodes to %q, want %q", tc.v, got, tc.wire)
		}
	}
	v, err := Decode(bufio.NewReader(strings.NewReader("*-1\r\n")))
	if err != nil || !v.IsNull() || v.Typ != TArray {
		t.Fatalf("null array: %v %v", v, err)
	}
	v, err = Decode(bufio.NewReader(strings.NewReader("$-1\r\n")))
	if err != nil || !v.IsNull() || v.Typ != TBulk {
		t.Fatalf("null bulk: %v %v", v, err)
	}
}

// ---------------------------------------------------------------- basics

func TestPipelinedOrdering(t *testing.T) {
	s, _ := newServer(t, Options{})
	c := dial(t, s)
	c.conn.(*bufconn.Conn).SetChunk(0)
	s.Conns()[0].BufConn().SetChunk(7) // force awkward read boundaries on the server side
	var wire []byte
	const n = 200
	for i := 0; i < n; i++ {
		wire = append(wire, EncodeCommand("INCR", "counter")...)
	}
	wire = append(wire, EncodeCommand("GET", "counter")...)
	if _, err := c.conn.Write(wire); err != nil {
		t.Fatal(err)
	}
	for i := 1; i <= n; i++ {
		want(t, c.recv(), Int(int64(i)))
	}
	want(t, c.recv(), Bulk("200"))
}

func TestHelloAndSetup(t *testing.T) {
	s, _ := newServer(t, Options{AZ: "az-1", Role: "slave"})
	c := dial(t, s)
	v := c.do("HELLO", "3", "SETNAME", "me")
	if v.Typ != TMap {
		t.Fatalf("hello: %v", v)
	}
	m := map[string]Value{}
	for i := 0; i < len(v.Arr); i += 2 {
		m[v.Arr[i].Str] = v.Arr[i+1]
	}
	want(t, m["proto"], Int(3))
	want(t, m["version"], Bulk("7.2.4"))
	want(t, m["role"], Bulk("replica"))
	want(t, m["availability_zone"], Bulk("az-1"))
	want(t, c.do("CLIENT", "SETINFO", "LIB-NAME", "rueidis"), Simple("OK"))
	want(t, c.do("CLIENT", "SETINFO", "LIB-VER", "1.0"), Simple("OK"))
	want(t, c.do("CLIENT", "NO-TOUCH", "ON"), Simple("OK"))
	want(t, c.do("CLIENT", "NO-EVICT", "ON"), Simple("OK"))
	want(t, c.do("CLIENT", "CAPA", "redirect"), Simple("OK"))
	want(t, c.do("SELECT", "3"), Simple("OK"))
	want(t, c.do("READONLY"), Simple("OK"))
	want(t, c.do("ROLE"), Array(Bulk("slave"), Bulk("127.0.0.1"), Int(6379), Bulk("connected"), Int(0)))
	info := c.do("INFO", "SERVER")
	for _, line := range []string{"redis_version:7.2.4", "role:slave", "availability_zone:az-1"} {
		if !strings.Contains(info.Str, line) {
			t.Fatalf("INFO lacks %q: %q", line, info.Str)
		}
	}
	wantErrPrefix(t, c.do("CLUSTER", "SLOTS"), "ERR This instance has cluster support disabled")
	want(t, c.do("PING"), Simple("PONG"))
	want(t, c.do("PING", "x"), Bulk("x"))
	want(t, c.do("ECHO", ""), Bulk(""))
	want(t, c.do("COMMAND"), Array())
	want(t, c.do("GET", "nokey"), Null())

	sc := s.Conns()[0]
	name, ver := sc.LibInfo()
	if sc.Proto() != 3 || sc.Name() != "me" || sc.DB() != 3 || name != "rueidis" || ver != "1.0" ||
		!sc.NoTouch() || !sc.NoEvict() || !sc.ReadOnly() || len(sc.Capa()) != 1 || sc.User() != "default" {
		t.Fatalf("conn state mismatch: proto=%d name=%q db=%d lib=%s/%s", sc.Proto(), sc.Name(), sc.DB(), name, ver)
	}
	if setup := sc.SetupLog(); len(setup) != 8 || setup[0][0] != "HELLO" || setup[7][0] != "READONLY" {
		t.Fatalf("setup log %v", setup)
	}
	if len(sc.Log()) != 16 {
		t.Fatalf("log has %d entries", len(sc.Log()))
	}
	wantErrPrefix(t, c.do("FOO", "a", "b"), "ERR unknown command 'FOO', with args beginning with: 'a' 'b' ")
	wantErrPrefix(t, c.do("GET"), "ERR wrong number of arguments for 'get' command")
	c.do("LPUSH", "l", "x")
	wantErrPrefix(t, c.do("GET", "l"), "WRONGTYPE")
	tm := c.do("TIME")
	if tm.Typ != TArray || len(tm.Arr) != 2 {
		t.Fatalf("TIME %v", tm)
	}
	want(t, c.do("QUIT"), Simple("OK"))
	if _, err := c.recvErr(); err != io.EOF {
		t.Fatalf("after QUIT: %v", err)
	}
}

func TestOldServerAndProtoLimit(t *testing.T) {
	s, _ := newServer(t, Options{NoHello: true})
	c := dial(t, s)
	wantErrPrefix(t, c.do("HELLO", "3"), "ERR unknown command 'HELLO'")
	s2, _ := newServer(t, Options{MaxProto: 2})
	c2 := dial(t, s2)
	wantErrPrefix(t, c2.do("HELLO", "3"), "NOPROTO unsupported protocol version")
	v := c2.do("HELLO", "2")
	if v.Typ != TArray || len(v.Arr) != 14 {
		t.Fatalf("HELLO 2 must be a flat array: %v", v)
	}
}

func TestAuth(t *testing.T) {
	s, _ := newServer(t, Options{Users: map[string]string{"default": "secret", "alice": "pw"}})
	c := dial(t, s)
	wantErrPrefix(t, c.do("GET", "k"), "NOAUTH Authentication required.")
	wantErrPrefix(t, c.do("HELLO", "3"), "NOAUTH HELLO must be called")
	wantErrPrefix(t, c.do("HELLO", "3", "AUTH", "default", "bad"), "WRONGPASS invalid username-password pair or user is disabled.")
	wantErrPrefix(t, c.do("AUTH", "bad"), "WRONGPASS")
	if v := c.do("HELLO", "3", "AUTH", "alice", "pw"); v.Typ != TMap {
		t.Fatalf("hello auth: %v", v)
	}
	want(t, c.do("GET", "k"), Null())
	if u := s.Conns()[0].User(); u != "alice" {
		t.Fatalf("user %q", u)
	}
	c2 := dial(t, s)
	want(t, c2.do("AUTH", "secret"), Simple("OK"))
	want(t, c2.do("PING"), Simple("PONG"))
	// Without any configured password AUTH <pw> is an error, as in Redis.
	s3, _ := newServer(t, Options{})
	wantErrPrefix(t, dial(t, s3).do("AUTH", "x"), "ERR AUTH <password> called without any password configured")
}

func TestEventOrder(t *testing.T) {
	s, rec := newServer(t, Options{})
	a := dial3(t, s) // conn 1: tracks
	b := dial3(t, s) // conn 2: writes
	want(t, a.do("CLIENT", "TRACKING", "ON"), Simple("OK"))
	want(t, a.do("GET", "k"), Null())
	mark := rec.all()[len(rec.all())-1].Seq
	want(t, b.do("SET", "k", "v"), Simple("OK"))
	want(t, a.recv(), invalidate("k"))

	recv, ok1 := rec.find(mark, func(e Event) bool { return e.Kind == SRecv && e.Conn == 2 })
	exec, ok2 := rec.find(mark, func(e Event) bool { return e.Kind == SExec && e.Conn == 2 })
	push, ok3 := rec.find(mark, func(e Event) bool { return e.Kind == SPush && e.Conn == 1 })
	rep, ok4 := rec.find(mark, func(e Event) bool { return e.Kind == SRep && e.Conn == 2 })
	if !ok1 || !ok2 || !ok3 || !ok4 {
		t.Fatalf("missing events: %v", rec.all())
	}
	if !(recv.Seq < exec.Seq && exec.Seq < push.Seq && push.Seq < rep.Seq) {
		t.Fatalf("order recv=%d exec=%d push=%d rep=%d", recv.Seq, exec.Seq, push.Seq, rep.Seq)
	}
	want(t, push.Reply, invalidate("k"))
	if push.Node != "node1" || strings.Join(exec.Argv, " ") != "SET k v" {
		t.Fatalf("event content %+v %+v", push, exec)
	}
	// Frame numbers: per connection, replies and pushes share one counter.
	frames := map[int]int{}
	var last int64
	for _, ev := range rec.all() {
		if ev.Seq <= last {
			t.Fatalf("Seq not increasing at %+v", ev)
		}
		last = ev.Seq
		if ev.Kind == SRep || ev.Kind == SPush {
			frames[ev.Conn]++
			if ev.Frame != frames[ev.Conn] {
				t.Fatalf("conn %d frame %d, want %d", ev.Conn, ev.Frame, frames[ev.Conn])
			}
		}
	}
	if frames[1] != 4 || frames[2] != 2 { // a: HELLO, TRACKING, GET, push; b: HELLO, SET
		t.Fatalf("frame counts %v", frames)
	}
	if first := rec.all()[0]; first.Kind != SConn || first.Conn != 1 {
		t.Fatalf("first event %+v", first)
	}
	// Errors and queued commands have no SExec.
	mark = last
	wantErrPrefix(t, b.do("INCR", "k"), "ERR value is not an integer")
	b.do("MULTI")
	want(t, b.do("SET", "q", "1"), Simple("QUEUED"))
	if _, found := rec.find(mark, func(e Event) bool {
		return e.Kind == SExec && (e.Argv[0] == "INCR" || e.Argv[0] == "SET")
	}); found {
		t.Fatal("SExec emitted for a failed or merely queued command")
	}
	b.do("EXEC")
	if ev, found := rec.find(mark, func(e Event) bool { return e.Kind == SExec && e.Argv[0] == "SET" }); !found || ev.Note != "exec" {
		t.Fatalf("SExec for the queued SET: %+v %v", ev, found)
	}
	// A client closing its end produces SClose.
	b.conn.Close()
	waitFor(t, "SClose", func() bool {
		_, found := rec.find(mark, func(e Event) bool { return e.Kind == SClose && e.Conn == 2 })
		return found
	})
	if len(s.Conns()) != 1 || !s.Conn(2).Closed() {
		t.Fatal("closed connection still listed")
	}
}

// TestEventPrecedesFrame checks that a push frame produced inside a command
// handler (PUBLISH, subscribe confirmation, invalidation) cannot reach the
// client before its SPush event reached the sink: otherwise a driver could log
// the client's reaction ahead of the event that caused it.
func TestEventPrecedesFrame(t *testing.T) {
	s := NewServer("node1", Options{})
	defer s.Close()
	var mu sync.Mutex
	var early []string
	s.SetEventSink(func(ev Event) {
		switch ev.Kind {
		case SExec:
			time.Sleep(10 * time.Millisecond) // give an eager writer time to run ahead
		case SPush:
			if n := s.Conn(ev.Conn).ClientConn().Buffered(); n != 0 {
				mu.Lock()
				early = append(early, ev.Reply.String())
				mu.Unlock()
			}
		}
	})
	c := dial3(t, s)
	c.do("CLIENT", "TRACKING", "ON")
	c.send("SUBSCRIBE", "ch")
	want(t, c.recv(), Push(Bulk("subscribe"), Bulk("ch"), Int(1)))
	want(t, s.Do("PUBLISH", "ch", "m"), Int(1))
	want(t, c.recv(), Push(Bulk("message"), Bulk("ch"), Bulk("m")))
	c.do("GET", "k")
	s.Do("SET", "k", "v")
	want(t, c.recv(), invalidate("k"))
	c.send("UNSUBSCRIBE")
	want(t, c.recv(), Push(Bulk("unsubscribe"), Bulk("ch"), Int(0)))
	// Frames deferred behind a QUIT still arrive, in order, before the close.
	c.send("MULTI")
	c.send("SUBSCRIBE", "late")
	c.send("EXEC")
	c.send("QUIT")
	want(t, c.recv(), Simple("OK"))
	want(t, c.recv(), Simple("QUEUED"))
	want(t, c.recv(), Push(Bulk("subscribe"), Bulk("late"), Int(1)))
	want(t, c.recv(), Array())
	want(t, c.recv(), Simple("OK"))
	if _, err := c.recvErr(); err != io.EOF {
		t.Fatalf("after QUIT: %v", err)
	}
	mu.Lock()
	defer mu.Unlock()
	if len(early) > 0 {
		t.Fatalf("frames visible to the client before their SPush event: %v", early)
	}
}

func TestSharedSequencer(t *testing.T) {
	seq := new(atomic.Int64)
	s1 := NewServer("n1", Options{Seq: seq})
	s2 := NewServer("n2", Options{Seq: seq})
	defer s1.Close()
	defer s2.Close()
	rec := &recorder{}
	s1.SetEventSink(rec.add)
	s2.SetEventSink(rec.add)
	s1.Do("SET", "a", "1")
	s2.Do("SET", "b", "1")
	s1.Do("GET", "a")
	evs := rec.all()
	for i := 1; i < len(evs); i++ {
		if evs[i].Seq != evs[i-1].Seq+1 {
			t.Fatalf("shared sequence has a gap or repeat: %d then %d", evs[i-1].Seq, evs[i].Seq)
		}
	}
	if evs[0].Node != "n1" || evs[len(evs)-1].Node != "n1" {
		t.Fatalf("nodes %v", evs)
	}
}

// ---------------------------------------------------------------- tracking

func TestTrackingOptInAsRueidis(t *testing.T) {
	s, _ := newServer(t, Options{})
	c := dial3(t, s)
	want(t, c.do("CLIENT", "TRACKING", "ON", "OPTIN"), Simple("OK"))
	s.Do("SET", "k", "v1")

	// Not tracked without CLIENT CACHING YES.
	want(t, c.do("GET", "k"), Bulk("v1"))
	s.Do("SET", "k", "v2")
	c.expectNone(20 * time.Millisecond)

	// The exact sequence rueidis pipelines for DoCache.
	c.send("CLIENT", "CACHING", "YES")
	c.send("MULTI")
	c.send("PTTL", "k")
	c.send("GET", "k")
	c.send("EXEC")
	want(t, c.recv(), Simple("OK"))
	want(t, c.recv(), Simple("OK"))
	want(t, c.recv(), Simple("QUEUED"))
	want(t, c.recv(), Simple("QUEUED"))
	want(t, c.recv(), Array(Int(-1), Bulk("v2")))
	if keys := s.Conns()[0].TrackedKeys(); len(keys) != 1 || keys[0] != "k" {
		t.Fatalf("tracked %v", keys)
	}
	s.Do("SET", "k", "v3")
	want(t, c.recv(), invalidate("k"))
	// One invalidation per tracked read.
	s.Do("SET", "k", "v4")
	c.expectNone(20 * time.Millisecond)

	// The flag covers only the immediately following command.
	want(t, c.do("CLIENT", "CACHING", "YES"), Simple("OK"))
	want(t, c.do("GET", "k"), Bulk("v4"))
	want(t, c.do("GET", "other"), Null())
	s.Do("SET", "other", "x")
	c.expectNone(20 * time.Millisecond)
	s.Do("DEL", "k")
	want(t, c.recv(), invalidate("k"))

	// A write by the tracking connection itself: reply first, then the push.
	c.do("CLIENT", "CACHING", "YES")
	c.do("GET", "self")
	c.send("SET", "self", "1")
	want(t, c.recv(), Simple("OK"))
	want(t, c.recv(), invalidate("self"))

	if mode := s.Conns()[0].TrackingMode(); mode != "optin" {
		t.Fatalf("mode %q", mode)
	}
	wantErrPrefix(t, c.do("CLIENT", "CACHING", "NO"), "ERR CLIENT CACHING NO is only valid")
}

func TestTrackingDefaultAndOptOut(t *testing.T) {
	s, _ := newServer(t, Options{})
	c := dial3(t, s)
	c.do("CLIENT", "TRACKING", "ON")
	c.do("MGET", "a", "b")
	s.Do("MSET", "a", "1", "b", "2")
	want(t, c.recv(), invalidate("a"))
	want(t, c.recv(), invalidate("b"))
	// RENAME invalidates both names.
	c.do("GET", "a")
	c.do("GET", "z")
	s.Do("RENAME", "a", "z")
	want(t, c.recv(), invalidate("a"))
	want(t, c.recv(), invalidate("z"))
	// Write commands do not track (GETDEL is a write).
	c.do("GETDEL", "b")
	s.Do("SET", "b", "1")
	c.expectNone(20 * time.Millisecond)
	want(t, c.do("CLIENT", "TRACKING", "OFF"), Simple("OK"))

	o := dial3(t, s)
	want(t, o.do("CLIENT", "TRACKING", "ON", "OPTOUT"), Simple("OK"))
	o.do("GET", "x")
	o.do("CLIENT", "CACHING", "NO")
	o.do("GET", "y")
	s.Do("SET", "y", "1")
	o.expectNone(20 * time.Millisecond)
	s.Do("SET", "x", "1")
	want(t, o.recv(), invalidate("x"))
	wantErrPrefix(t, o.do("CLIENT", "TRACKING", "ON", "OPTIN"), "ERR You can't switch OPTIN/OPTOUT mode")
	wantErrPrefix(t, o.do("CLIENT", "TRACKING", "ON", "BCAST"), "ERR You can't switch BCAST mode")
}

func TestTrackingBcastAndNoLoop(t *testing.T) {
	s, rec := newServer(t, Options{})
	c := dial3(t, s)
	want(t, c.do("CLIENT", "TRACKING", "ON", "BCAST", "PREFIX", "user:", "PREFIX", "order:"), Simple("OK"))
	wantErrPrefix(t, c.do("CLIENT", "TRACKING", "ON", "BCAST", "PREFIX", "user:1"), "ERR Prefix 'user:1' overlaps")
	s.Do("SET", "user:1", "a")
	want(t, c.recv(), invalidate("user:1"))
	s.Do("SET", "other", "a")
	c.expectNone(20 * time.Millisecond)
	// No read is needed, every write is reported; one push per prefix with all keys.
	s.Do("MSET", "user:3", "x", "user:2", "y", "order:9", "z")
	want(t, c.recv(), invalidate("order:9"))
	want(t, c.recv(), invalidate("user:2", "user:3"))
	// Broadcast invalidations follow the writer's reply (Redis sends them from beforeSleep).
	mark := rec.all()[len(rec.all())-1].Seq
	c.send("SET", "user:9", "v")
	want(t, c.recv(), Simple("OK"))
	want(t, c.recv(), invalidate("user:9"))
	rep, _ := rec.find(mark, func(e Event) bool { return e.Kind == SRep && e.Conn == 1 })
	push, _ := rec.find(mark, func(e Event) bool { return e.Kind == SPush && e.Conn == 1 })
	if !(rep.Seq < push.Seq) {
		t.Fatalf("bcast push %d must follow the reply %d", push.Seq, rep.Seq)
	}
	if mode := s.Conns()[0].TrackingMode(); mode != "bcast" {
		t.Fatalf("mode %q", mode)
	}

	// Empty prefix list: all keys. NOLOOP: not for own writes.
	n := dial3(t, s)
	want(t, n.do("CLIENT", "TRACKING", "ON", "BCAST", "NOLOOP"), Simple("OK"))
	want(t, n.do("SET", "mine", "1"), Simple("OK"))
	n.expectNone(20 * time.Millisecond)
	s.Do("SET", "theirs", "1")
	want(t, n.recv(), invalidate("theirs"))
	if !s.Conns()[1].TrackingNoLoop() {
		t.Fatal("noloop flag")
	}

	// NOLOOP in default mode.
	d := dial3(t, s)
	d.do("CLIENT", "TRACKING", "ON", "NOLOOP")
	d.do("GET", "dk")
	want(t, d.do("SET", "dk", "1"), Simple("OK"))
	d.expectNone(20 * time.Millisecond)
	d.do("GET", "dk")
	s.Do("SET", "dk", "2")
	want(t, d.recv(), invalidate("dk"))
}

func TestTrackingFlushAndExpiry(t *testing.T) {
	clock := NewVirtualClock(time.Unix(1_700_000_000, 0))
	s, rec := newServer(t, Options{Clock: clock})
	c := dial3(t, s)
	c.do("CLIENT", "TRACKING", "ON")
	s.Do("SET", "k", "v", "PX", "100")
	want(t, c.do("GET", "k"), Bulk("v"))
	want(t, c.do("PTTL", "k"), Int(100))
	clock.Advance(99 * time.Millisecond)
	s.ExpireNow()
	c.expectNone(20 * time.Millisecond)
	clock.Advance(time.Millisecond)
	s.ExpireNow()
	want(t, c.recv(), invalidate("k"))
	if _, found := rec.find(0, func(e Event) bool { return e.Kind == SExpire && e.Argv[0] == "k" }); !found {
		t.Fatal("no SExpire event")
	}
	want(t, c.do("EXISTS", "k"), Int(0))

	// Lazy expiry on access by another connection also invalidates.
	s.Do("SET", "lazy", "v", "EX", "1")
	c.do("GET", "lazy")
	clock.Advance(time.Second)
	want(t, s.Do("GET", "lazy"), Null())
	want(t, c.recv(), invalidate("lazy"))

	// Lazy expiry by the tracking connection itself: reply first, then the push.
	s.Do("SET", "own", "v", "EX", "1")
	c.do("GET", "own")
	clock.Advance(time.Second)
	c.send("GET", "own")
	want(t, c.recv(), Null())
	want(t, c.recv(), invalidate("own"))

	c.do("GET", "a")
	s.Do("FLUSHALL")
	want(t, c.recv(), Push(Bulk("invalidate"), Null()))
	s.Do("FLUSHDB")
	want(t, c.recv(), Push(Bulk("invalidate"), Null()))

	// RESP2 without redirection: accepted, but nothing can be pushed.
	r2 := dial(t, s)
	want(t, r2.do("CLIENT", "TRACKING", "ON"), Simple("OK"))
	r2.do("GET", "r2k")
	s.Do("SET", "r2k", "1")
	r2.expectNone(20 * time.Millisecond)
}

func TestTrackingRedirect(t *testing.T) {
	s, _ := newServer(t, Options{})
	sink := dial(t, s) // RESP2 subscriber receiving invalidations for others
	sink.send("SUBSCRIBE", "__redis__:invalidate")
	want(t, sink.recv(), Array(Bulk("subscribe"), Bulk("__redis__:invalidate"), Int(1)))
	data := dial(t, s)
	want(t, data.do("CLIENT", "TRACKING", "ON", "REDIRECT", "1"), Simple("OK"))
	data.do("GET", "k")
	s.Do("SET", "k", "1")
	want(t, sink.recv(), Array(Bulk("message"), Bulk("__redis__:invalidate"), Array(Bulk("k"))))
	wantErrPrefix(t, data.do("CLIENT", "TRACKING", "ON", "REDIRECT", "99"), "ERR The client ID you want redirect to does not exist")
}

// ---------------------------------------------------------------- transactions

func TestMultiWatch(t *testing.T) {
	clock := NewVirtualClock(time.Unix(1_700_000_000, 0))
	s, _ := newServer(t, Options{Clock: clock})
	for _, proto := range []int{2, 3} {
		c := dial(t, s)
		if proto == 3 {
			c.do("HELLO", "3")
		}
		// Plain transaction with a runtime error as element.
		s.Do("SET", "str", "x")
		c.do("MULTI")
		want(t, c.do("INCR", "n"), Simple("QUEUED"))
		want(t, c.do("LPUSH", "str", "a"), Simple("QUEUED"))
		res := c.do("EXEC")
		if len(res.Arr) != 2 || res.Arr[0].Typ != TInt || !res.Arr[1].IsError() {
			t.Fatalf("exec: %v", res)
		}
		// Queue-time errors abort.
		c.do("MULTI")
		wantErrPrefix(t, c.do("NOSUCH"), "ERR unknown command")
		want(t, c.do("SET", "a", "1"), Simple("QUEUED"))
		wantErrPrefix(t, c.do("EXEC"), "EXECABORT Transaction discarded because of previous errors.")
		want(t, c.do("GET", "a"), Null())
		c.do("MULTI")
		wantErrPrefix(t, c.do("GET"), "ERR wrong number of arguments")
		wantErrPrefix(t, c.do("EXEC"), "EXECABORT")
		// WATCH: a write by somebody else aborts with a null reply.
		want(t, c.do("WATCH", "w"), Simple("OK"))
		s.Do("SET", "w", "other")
		c.do("MULTI")
		c.do("SET", "w", "mine")
		got := c.do("EXEC")
		if !got.IsNull() {
			t.Fatalf("exec after touched watch: %v", got)
		}
		if proto == 2 && got.Typ != TArray {
			t.Fatalf("RESP2 abort must be a null array, got type %q", got.Typ)
		}
		if proto == 3 && got.Typ != TNull {
			t.Fatalf("RESP3 abort must be a null, got type %q", got.Typ)
		}
		want(t, s.Do("GET", "w"), Bulk("other"))
		// The watch is consumed: the next transaction succeeds.
		c.do("MULTI")
		c.do("SET", "w", "mine")
		want(t, c.do("EXEC"), Array(Simple("OK")))
		// Expiry of a watched key aborts.
		s.Do("SET", "e", "v", "PX", "10")
		c.do("WATCH", "e")
		clock.Advance(10 * time.Millisecond)
		c.do("MULTI")
		c.do("PING")
		if got := c.do("EXEC"); !got.IsNull() {
			t.Fatalf("exec after expired watch: %v", got)
		}
		// UNWATCH and DISCARD.
		c.do("WATCH", "u")
		s.Do("SET", "u", "1")
		want(t, c.do("UNWATCH"), Simple("OK"))
		c.do("MULTI")
		c.do("PING")
		want(t, c.do("EXEC"), Array(Simple("PONG")))
		c.do("MULTI")
		c.do("SET", "d", "1")
		want(t, c.do("DISCARD"), Simple("OK"))
		want(t, c.do("EXISTS", "d"), Int(0))
		wantErrPrefix(t, c.do("EXEC"), "ERR EXEC without MULTI")
		wantErrPrefix(t, c.do("DISCARD"), "ERR DISCARD without MULTI")
		c.do("MULTI")
		wantErrPrefix(t, c.do("MULTI"), "ERR MULTI calls can not be nested")
		wantErrPrefix(t, c.do("WATCH", "x"), "ERR WATCH inside MULTI is not allowed")
		want(t, c.do("EXEC"), Array())
		s.Do("FLUSHALL")
	}
}

// ---------------------------------------------------------------- pub/sub

func TestPubSubRESP3(t *testing.T) {
	s, _ := newServer(t, Options{})
	c := dial3(t, s)
	c.send("SUBSCRIBE", "a", "b")
	want(t, c.recv(), Push(Bulk("subscribe"), Bulk("a"), Int(1)))
	want(t, c.recv(), Push(Bulk("subscribe"), Bulk("b"), Int(2)))
	c.send("PSUBSCRIBE", "n*")
	want(t, c.recv(), Push(Bulk("psubscribe"), Bulk("n*"), Int(3)))
	c.send("SSUBSCRIBE", "sh")
	want(t, c.recv(), Push(Bulk("ssubscribe"), Bulk("sh"), Int(1)))
	// Other commands keep working.
	want(t, c.do("SET", "k", "v"), Simple("OK"))
	want(t, c.do("PING"), Simple("PONG"))
	want(t, s.Do("PUBLISH", "a", "hello"), Int(1))
	want(t, c.recv(), Push(Bulk("message"), Bulk("a"), Bulk("hello")))
	want(t, s.Do("PUBLISH", "news", "x"), Int(1))
	want(t, c.recv(), Push(Bulk("pmessage"), Bulk("n*"), Bulk("news"), Bulk("x")))
	want(t, s.Do("SPUBLISH", "sh", "y"), Int(1))
	want(t, c.recv(), Push(Bulk("smessage"), Bulk("sh"), Bulk("y")))
	want(t, s.Do("PUBLISH", "zzz", "x"), Int(0))
	// A publisher subscribed to the channel gets the message before its reply.
	c.send("PUBLISH", "b", "own")
	want(t, c.recv(), Push(Bulk("message"), Bulk("b"), Bulk("own")))
	want(t, c.recv(), Int(1))
	chans, pats, shards := s.Conns()[0].Subscriptions()
	if len(chans) != 2 || len(pats) != 1 || len(shards) != 1 {
		t.Fatalf("subs %v %v %v", chans, pats, shards)
	}
	want(t, s.Do("PUBSUB", "NUMSUB", "a", "zz"), Array(Bulk("a"), Int(1), Bulk("zz"), Int(0)))
	// UNSUBSCRIBE without arguments: one confirmation per channel.
	c.send("UNSUBSCRIBE")
	want(t, c.recv(), Push(Bulk("unsubscribe"), Bulk("a"), Int(2)))
	want(t, c.recv(), Push(Bulk("unsubscribe"), Bulk("b"), Int(1)))
	// ... and a single null one when there is nothing left (count = remaining patterns).
	c.send("UNSUBSCRIBE")
	want(t, c.recv(), Push(Bulk("unsubscribe"), Null(), Int(1)))
	c.send("PUNSUBSCRIBE")
	want(t, c.recv(), Push(Bulk("punsubscribe"), Bulk("n*"), Int(0)))
	c.send("SUNSUBSCRIBE")
	want(t, c.recv(), Push(Bulk("sunsubscribe"), Bulk("sh"), Int(0)))
	c.send("SUNSUBSCRIBE")
	want(t, c.recv(), Push(Bulk("sunsubscribe"), Null(), Int(0)))
	want(t, s.Do("PUBLISH", "a", "late"), Int(0))
}

func TestPubSubRESP2(t *testing.T) {
	s, _ := newServer(t, Options{})
	c := dial(t, s)
	c.send("SUBSCRIBE", "a")
	got := c.recv()
	if got.Typ != TArray {
		t.Fatalf("RESP2 confirmation must be an array, got %q", got.Typ)
	}
	want(t, got, Array(Bulk("subscribe"), Bulk("a"), Int(1)))
	wantErrPrefix(t, c.do("GET", "k"), "ERR Can't execute 'get': only (P|S)SUBSCRIBE / (P|S)UNSUBSCRIBE / PING / QUIT / RESET are allowed in this context")
	want(t, c.do("PING"), Array(Bulk("pong"), Bulk("")))
	want(t, c.do("PING", "hi"), Array(Bulk("pong"), Bulk("hi")))
	s.Do("PUBLISH", "a", "m")
	want(t, c.recv(), Array(Bulk("message"), Bulk("a"), Bulk("m")))
	c.send("UNSUBSCRIBE", "a")
	want(t, c.recv(), Array(Bulk("unsubscribe"), Bulk("a"), Int(0)))
	// Out of subscribed mode everything works again.
	want(t, c.do("GET", "k"), Null())
	want(t, c.do("PING"), Simple("PONG"))
	c.send("UNSUBSCRIBE")
	got = c.recv()
	if got.Typ != TArray || len(got.Arr) != 3 || !got.Arr[1].IsNull() || got.Arr[2].Int != 0 {
		t.Fatalf("null unsubscribe: %v", got)
	}
}

// ---------------------------------------------------------------- blocking

func TestBlockingPop(t *testing.T) {
	s, rec := newServer(t, Options{})
	c := dial3(t, s)
	// Data already there: no blocking.
	s.Do("RPUSH", "q", "a", "b")
	want(t, c.do("BLPOP", "q", "0"), Array(Bulk("q"), Bulk("a")))
	want(t, c.do("BRPOP", "q", "0"), Array(Bulk("q"), Bulk("b")))
	// Blocks; commands pipelined behind it wait too.
	c.send("BLPOP", "q", "other", "0")
	c.send("PING")
	waitFor(t, "block", func() bool { return s.Conns()[0].Blocked() })
	c.expectNone(20 * time.Millisecond)
	want(t, s.Do("LPUSH", "other", "x"), Int(1))
	want(t, c.recv(), Array(Bulk("other"), Bulk("x")))
	want(t, c.recv(), Simple("PONG"))
	want(t, s.Do("EXISTS", "other"), Int(0))
	if ev, found := rec.find(0, func(e Event) bool { return e.Kind == SExec && e.Conn == 1 && e.Note == "unblocked" }); !found || ev.Argv[0] != "BLPOP" {
		t.Fatalf("no SExec for the unblocked BLPOP: %+v", ev)
	}
	// FIFO among waiters.
	d := dial3(t, s)
	c.send("BLPOP", "fifo", "0")
	waitFor(t, "block c", func() bool { return s.Conns()[0].Blocked() })
	d.send("BLPOP", "fifo", "0")
	waitFor(t, "block d", func() bool { return s.Conns()[1].Blocked() })
	s.Do("RPUSH", "fifo", "1", "2")
	want(t, c.recv(), Array(Bulk("fifo"), Bulk("1")))
	want(t, d.recv(), Array(Bulk("fifo"), Bulk("2")))
	// Timeout with the real clock.
	start := time.Now()
	got := c.do("BLPOP", "never", "0.05")
	if !got.IsNull() {
		t.Fatalf("timeout reply %v", got)
	}
	if el := time.Since(start); el < 40*time.Millisecond || el > 20*time.Second {
		t.Fatalf("timeout took %v", el)
	}
	wantErrPrefix(t, c.do("BLPOP", "q", "-1"), "ERR timeout is negative")
	wantErrPrefix(t, c.do("BLPOP", "q", "abc"), "ERR timeout is not a float")
	// Inside MULTI it does not block.
	c.do("MULTI")
	c.do("BLPOP", "never", "0")
	res := c.do("EXEC")
	if len(res.Arr) != 1 || !res.Arr[0].IsNull() {
		t.Fatalf("BLPOP in MULTI: %v", res)
	}
	// A blocked client going away is cleaned up.
	d.send("BLPOP", "gone", "0")
	waitFor(t, "block d", func() bool { return s.Conns()[1].Blocked() })
	d.conn.Close()
	waitFor(t, "d closed", func() bool { return len(s.Conns()) == 1 })
	want(t, s.Do("RPUSH", "gone", "x"), Int(1))
	want(t, s.Do("LLEN", "gone"), Int(1))
}

func TestBlockingPopVirtualClockTimeout(t *testing.T) {
	clock := NewVirtualClock(time.Unix(1_700_000_000, 0))
	s, _ := newServer(t, Options{Clock: clock})
	c := dial(t, s)
	c.send("BLPOP", "never", "1")
	waitFor(t, "block", func() bool { return s.Conns()[0].Blocked() })
	clock.Advance(999 * time.Millisecond)
	s.ExpireNow()
	c.expectNone(20 * time.Millisecond)
	clock.Advance(time.Millisecond)
	s.ExpireNow()
	got := c.recv()
	if !got.IsNull() || got.Typ != TArray {
		t.Fatalf("want *-1, got %v", got)
	}
}

// ---------------------------------------------------------------- intercept & faults

func TestInterceptActions(t *testing.T) {
	s, rec := newServer(t, Options{})
	s.Do("SET", "k", "0")
	s.SetIntercept(func(c *Conn, argv []string) (Value, Action) {
		if len(argv) < 2 || argv[1] != "k" {
			return Value{}, Pass
		}
		switch argv[0] {
		case "GET":
			return Err("MOVED 1234 127.0.0.1:7001"), Reply
		case "INCR":
			return Simple("FAKE"), ReplyAfterExec
		case "APPEND":
			return Value{}, Drop
		case "INCRBY":
			return Value{}, ExecThenCut
		case "DECR":
			return Value{}, CutNow
		case "STRLEN":
			return Value{}, Park
		case "GETRANGE":
			// Hooks may use the locking API, including Do, re-entrantly.
			if c.Proto() != 2 {
				panic("accessor under the mutex failed")
			}
			c.Server().Do("SET", "k", "77")
			return Value{}, Pass
		}
		return Value{}, Pass
	})
	c := dial(t, s)
	// Pass.
	want(t, c.do("GET", "other"), Null())
	// Reply: nothing executed.
	mark := rec.all()[len(rec.all())-1].Seq
	wantErrPrefix(t, c.do("GET", "k"), "MOVED 1234")
	if _, found := rec.find(mark, func(e Event) bool { return e.Kind == SExec }); found {
		t.Fatal("Reply action must not execute")
	}
	if _, found := rec.find(mark, func(e Event) bool { return e.Kind == SRecv && e.Argv[0] == "GET" }); !found {
		t.Fatal("SRecv must be emitted for intercepted commands")
	}
	// ReplyAfterExec: executed, reply replaced.
	want(t, c.do("INCR", "k"), Simple("FAKE"))
	want(t, s.Do("GET", "k"), Bulk("1"))
	// Drop: nothing executed, nothing sent; the next reply is for the next command.
	c.send("APPEND", "k", "zzz")
	want(t, c.do("PING"), Simple("PONG"))
	want(t, s.Do("GET", "k"), Bulk("1"))
	// Park + Unpark with a scripted reply: later commands wait behind it.
	c.send("STRLEN", "k")
	c.send("PING")
	sc := s.Conns()[0]
	waitFor(t, "park", func() bool { return sc.Parked() != nil })
	c.expectNone(20 * time.Millisecond)
	sc.Unpark(Err("LOADING Redis is loading the dataset in memory"))
	wantErrPrefix(t, c.recv(), "LOADING")
	want(t, c.recv(), Simple("PONG"))
	// Park + UnparkExec.
	c.send("STRLEN", "k")
	waitFor(t, "park", func() bool { return sc.Parked() != nil })
	s.Do("SET", "k", "12345")
	sc.UnparkExec()
	want(t, c.recv(), Int(5))
	// Re-entrant hook: Do from inside the intercept happens before the command.
	want(t, c.do("GETRANGE", "k", "0", "-1"), Bulk("77"))
	// ExecThenCut: executed, no reply, connection reset.
	c.send("INCRBY", "k", "5")
	if _, err := c.recvErr(); !errors.Is(err, syscall.ECONNRESET) {
		t.Fatalf("want ECONNRESET, got %v", err)
	}
	want(t, s.Do("GET", "k"), Bulk("82"))
	if ev, found := rec.find(mark, func(e Event) bool { return e.Kind == SCut }); !found || ev.Conn != 1 {
		t.Fatalf("no SCut: %+v", ev)
	}
	// CutNow: not executed.
	c2 := dial(t, s)
	c2.send("DECR", "k")
	if _, err := c2.recvErr(); !errors.Is(err, syscall.ECONNRESET) {
		t.Fatalf("want ECONNRESET, got %v", err)
	}
	want(t, s.Do("GET", "k"), Bulk("82"))
	if len(s.Conns()) != 0 {
		t.Fatalf("connections left: %d", len(s.Conns()))
	}
}

func TestHoldAndRelease(t *testing.T) {
	s, rec := newServer(t, Options{})
	s.SetOnConnect(func(c *Conn) { c.HoldReplies(true) }) // configured before any byte is read
	c := dial(t, s)
	c.send("SET", "k", "v")
	c.send("GET", "k")
	c.send("PING")
	sc := s.Conns()[0]
	waitFor(t, "3 held", func() bool { return sc.Held() == 3 })
	// Executed and reported, but not delivered.
	want(t, s.Do("GET", "k"), Bulk("v"))
	if _, found := rec.find(0, func(e Event) bool { return e.Kind == SRep && e.Conn == 1 && e.Frame == 3 }); !found {
		t.Fatal("events must be emitted at queue time")
	}
	c.expectNone(20 * time.Millisecond)
	sc.Release(1)
	want(t, c.recv(), Simple("OK"))
	c.expectNone(20 * time.Millisecond)
	if sc.Held() != 2 {
		t.Fatalf("held %d", sc.Held())
	}
	sc.Release(-1)
	want(t, c.recv(), Bulk("v"))
	want(t, c.recv(), Simple("PONG"))
	// Turning holding off flushes in order.
	c.send("ECHO", "1")
	waitFor(t, "held", func() bool { return sc.Held() == 1 })
	sc.HoldReplies(false)
	want(t, c.recv(), Bulk("1"))
	want(t, c.do("ECHO", "2"), Bulk("2"))
}

func TestCutAfterNextReplyBytes(t *testing.T) {
	s, rec := newServer(t, Options{})
	s.Do("SET", "k", "0123456789")
	c := dial(t, s)
	want(t, c.do("PING"), Simple("PONG"))
	s.Conns()[0].CutAfterNextReplyBytes(7) // "$10\r\n01" of "$10\r\n0123456789\r\n"
	c.send("GET", "k")
	c.send("PING")
	c.conn.SetReadDeadline(time.Now().Add(20 * time.Second))
	raw, err := io.ReadAll(c.r)
	if err != nil {
		t.Fatalf("read: %v", err)
	}
	if string(raw) != "$10\r\n01" {
		t.Fatalf("partial frame %q", raw)
	}
	if ev, found := rec.find(0, func(e Event) bool { return e.Kind == SCut }); !found || ev.Note != "after-reply-bytes" {
		t.Fatalf("SCut: %+v", ev)
	}
	if _, err := Decode(bufio.NewReader(bytes.NewReader(raw))); err != io.ErrUnexpectedEOF {
		t.Fatalf("decoding the partial frame: %v", err)
	}
	// The PING behind it was never executed.
	pings := 0
	for _, ev := range rec.all() {
		if ev.Kind == SExec && ev.Conn == 1 && ev.Argv[0] == "PING" {
			pings++
		}
	}
	if pings != 1 {
		t.Fatalf("PING executed %d times; the one behind the cut must not run", pings)
	}
}

func TestServerCutAndClose(t *testing.T) {
	s, rec := newServer(t, Options{})
	c := dial(t, s)
	c.do("PING")
	s.Conns()[0].Cut()
	if _, err := c.recvErr(); !errors.Is(err, syscall.ECONNRESET) {
		t.Fatalf("want ECONNRESET, got %v", err)
	}
	if ev, found := rec.find(0, func(e Event) bool { return e.Kind == SCut }); !found || ev.Note != "cut" {
		t.Fatalf("SCut: %+v", ev)
	}
	c2 := dial(t, s)
	c2.do("PING")
	s.Close()
	if _, err := c2.recvErr(); !errors.Is(err, syscall.ECONNRESET) {
		t.Fatalf("want ECONNRESET, got %v", err)
	}
	// Dialing a closed server yields a dead connection.
	dead := s.Dial("x")
	if _, err := dead.Read(make([]byte, 1)); err == nil {
		t.Fatal("dead connection readable")
	}
}

func TestPanicRecovery(t *testing.T) {
	commands["TESTPANIC"] = &cmdDef{name: "TESTPANIC", arity: -1, fn: func(c *Conn, a []string) Value {
		var m map[string]int
		m["boom"] = 1
		return ok
	}}
	defer delete(commands, "TESTPANIC")
	s, rec := newServer(t, Options{})
	c := dial(t, s)
	wantErrPrefix(t, c.do("TESTPANIC"), "ERR internal")
	if ev, found := rec.find(0, func(e Event) bool { return e.Kind == SPanic }); !found || ev.Note != "panic" {
		t.Fatalf("no panic event: %+v", ev)
	}
	if !strings.Contains(s.LastPanic(), "assignment to entry in nil map") {
		t.Fatalf("LastPanic %q", s.LastPanic())
	}
	// The connection and the server keep working, also inside MULTI.
	want(t, c.do("PING"), Simple("PONG"))
	c.do("MULTI")
	c.do("TESTPANIC")
	c.do("SET", "after", "1")
	want(t, c.do("EXEC"), Array(Err("ERR internal"), Simple("OK")))
	want(t, c.do("PING"), Simple("PONG"))
	want(t, c.do("GET", "after"), Bulk("1"))
}

func TestNetwork(t *testing.T) {
	s, _ := newServer(t, Options{})
	n := NewNetwork()
	n.Add("10.0.0.1:6379", s)
	dialFn := n.DialCtxFn()
	conn, err := dialFn(t.Context(), "10.0.0.1:6379", nil, nil)
	if err != nil {
		t.Fatal(err)
	}
	defer conn.Close()
	if conn.RemoteAddr().String() != "10.0.0.1:6379" {
		t.Fatalf("remote %v", conn.RemoteAddr())
	}
	conn.Write(EncodeCommand("PING"))
	v, err := Decode(bufio.NewReader(conn))
	if err != nil {
		t.Fatal(err)
	}
	want(t, v, Simple("PONG"))
	if _, err := dialFn(t.Context(), "10.0.0.2:6379", nil, nil); !errors.Is(err, syscall.ECONNREFUSED) {
		t.Fatalf("unknown address: %v", err)
	}
	boom := errors.New("boom")
	n.SetDialHook(func(dst string) error {
		if dst == "10.0.0.1:6379" {
			return boom
		}
		return nil
	})
	if _, err := dialFn(t.Context(), "10.0.0.1:6379", nil, nil); !errors.Is(err, boom) {
		t.Fatalf("hook error: %v", err)
	}
	n.SetDialHook(nil)
	n.Remove("10.0.0.1:6379")
	if _, err := dialFn(t.Context(), "10.0.0.1:6379", nil, nil); !errors.Is(err, syscall.ECONNREFUSED) {
		t.Fatalf("removed address: %v", err)
	}
	if d := n.Dials(); len(d) != 4 {
		t.Fatalf("dial log %v", d)
	}
}
