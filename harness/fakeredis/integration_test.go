package fakeredis

import (
	"context"
	"errors"
	"strings"
	"sync"
	"testing"
	"time"

	"github.com/redis/rueidis"
)

// These tests connect the REAL rueidis client to the fake server through
// ClientOption.DialCtxFn.

const testAddr = "127.0.0.1:6379"

func newRueidis(t *testing.T, s *Server, opt rueidis.ClientOption) (rueidis.Client, *Network) {
	t.Helper()
	n := NewNetwork()
	n.Add(testAddr, s)
	opt.InitAddress = []string{testAddr}
	opt.DialCtxFn = n.DialCtxFn()
	opt.ForceSingleClient = true
	client, err := rueidis.NewClient(opt)
	if err != nil {
		t.Fatalf("NewClient: %v", err)
	}
	t.Cleanup(client.Close)
	return client, n
}

func TestRueidisRESP3(t *testing.T) {
	s, rec := newServer(t, Options{})
	client, _ := newRueidis(t, s, rueidis.ClientOption{ClientName: "verif"})
	ctx, cancel := context.WithTimeout(context.Background(), 60*time.Second)
	defer cancel()

	// The connection was set up the way _newPipe does it.
	conns := s.Conns()
	if len(conns) == 0 {
		t.Fatal("no connection")
	}
	sc := conns[0]
	if sc.Proto() != 3 || sc.TrackingMode() != "optin" || sc.Name() != "verif" {
		t.Fatalf("setup: proto=%d tracking=%s name=%q", sc.Proto(), sc.TrackingMode(), sc.Name())
	}
	if lib, ver := sc.LibInfo(); lib != rueidis.LibName || ver != rueidis.LibVer {
		t.Fatalf("lib info %q %q", lib, ver)
	}
	setup := sc.SetupLog()
	if len(setup) < 4 || strings.Join(setup[0], " ") != "HELLO 3 SETNAME verif" || strings.Join(setup[1], " ") != "CLIENT TRACKING ON OPTIN" {
		t.Fatalf("setup log %v", setup)
	}

	// SET / GET.
	if err := client.Do(ctx, client.B().Set().Key("k").Value("v1").Build()).Error(); err != nil {
		t.Fatal(err)
	}
	if got, err := client.Do(ctx, client.B().Get().Key("k").Build()).ToString(); err != nil || got != "v1" {
		t.Fatalf("GET: %q %v", got, err)
	}
	if err := client.Do(ctx, client.B().Get().Key("missing").Build()).Error(); !rueidis.IsRedisNil(err) {
		t.Fatalf("GET missing: %v", err)
	}

	// DoCache: miss, then hit.
	first := client.DoCache(ctx, client.B().Get().Key("k").Cache(), time.Minute)
	if got, err := first.ToString(); err != nil || got != "v1" || first.IsCacheHit() {
		t.Fatalf("first DoCache: %q %v hit=%v", got, err, first.IsCacheHit())
	}
	second := client.DoCache(ctx, client.B().Get().Key("k").Cache(), time.Minute)
	if got, err := second.ToString(); err != nil || got != "v1" || !second.IsCacheHit() {
		t.Fatalf("second DoCache: %q %v hit=%v", got, err, second.IsCacheHit())
	}
	// The server saw exactly one cached read, in rueidis' wire form.
	// (The client multiplexes over several connections; look at all of them.)
	cachedReads := 0
	for _, conn := range s.Conns() {
		var wire []string
		for _, argv := range conn.Log() {
			wire = append(wire, strings.Join(argv, " "))
		}
		cachedReads += strings.Count(strings.Join(wire, " | "), "CLIENT CACHING YES | MULTI | PTTL k | GET k | EXEC")
	}
	if cachedReads != 1 {
		t.Fatalf("want exactly one cached read on the wire, saw %d", cachedReads)
	}

	// A write by another client invalidates; the next DoCache returns the new value.
	want(t, s.Do("SET", "k", "v2"), Simple("OK"))
	waitFor(t, "invalidation to be applied", func() bool {
		r := client.DoCache(ctx, client.B().Get().Key("k").Cache(), time.Minute)
		got, err := r.ToString()
		if err != nil {
			t.Fatalf("DoCache after write: %v", err)
		}
		return got == "v2"
	})
	if _, found := rec.find(0, func(e Event) bool { return e.Kind == SPush && e.Reply.Arr[0].Str == "invalidate" }); !found {
		t.Fatal("no invalidate push was sent")
	}
	third := client.DoCache(ctx, client.B().Get().Key("k").Cache(), time.Minute)
	if got, _ := third.ToString(); got != "v2" || !third.IsCacheHit() {
		t.Fatalf("re-cached value: %q hit=%v", got, third.IsCacheHit())
	}
	// A key with a TTL is cached with it (PTTL inside the transaction).
	s.Do("SET", "ttl", "x", "PX", "60000")
	withTTL := client.DoCache(ctx, client.B().Get().Key("ttl").Cache(), time.Hour)
	if got, err := withTTL.ToString(); err != nil || got != "x" {
		t.Fatalf("DoCache ttl: %q %v", got, err)
	}
	if pttl := withTTL.CachePTTL(); pttl <= 0 || pttl > 60000 {
		t.Fatalf("cache pttl %d", pttl)
	}

	// Pub/Sub: Receive with a PUBLISH from another client.
	subCtx, subCancel := context.WithCancel(ctx)
	got := make(chan rueidis.PubSubMessage, 1)
	recvDone := make(chan error, 1)
	go func() {
		recvDone <- client.Receive(subCtx, client.B().Subscribe().Channel("news").Build(), func(m rueidis.PubSubMessage) {
			select {
			case got <- m:
			default:
			}
		})
	}()
	waitFor(t, "subscription", func() bool { return s.Do("PUBSUB", "NUMSUB", "news").Arr[1].Int == 1 })
	want(t, s.Do("PUBLISH", "news", "hello"), Int(1))
	select {
	case m := <-got:
		if m.Channel != "news" || m.Message != "hello" {
			t.Fatalf("message %+v", m)
		}
	case <-time.After(20 * time.Second):
		t.Fatal("no pub/sub message received")
	}
	subCancel()
	select {
	case err := <-recvDone:
		if !errors.Is(err, context.Canceled) {
			t.Fatalf("Receive returned %v", err)
		}
	case <-time.After(20 * time.Second):
		t.Fatal("Receive did not return after cancel")
	}
	// (rueidis leaves the server side subscription in place when Receive is
	// cancelled; nothing to check on the server here.)

	// Dedicated: WATCH / MULTI / EXEC, first undisturbed, then aborted.
	err := client.Dedicated(func(d rueidis.DedicatedClient) error {
		if err := d.Do(ctx, d.B().Watch().Key("cnt").Build()).Error(); err != nil {
			return err
		}
		res := d.DoMulti(ctx,
			d.B().Multi().Build(),
			d.B().Incr().Key("cnt").Build(),
			d.B().Exec().Build(),
		)
		arr, err := res[2].ToArray()
		if err != nil {
			return err
		}
		if n, _ := arr[0].AsInt64(); len(arr) != 1 || n != 1 {
			t.Errorf("EXEC result %v", arr)
		}
		// Now with interference from another client.
		if err := d.Do(ctx, d.B().Watch().Key("cnt").Build()).Error(); err != nil {
			return err
		}
		s.Do("INCR", "cnt")
		res = d.DoMulti(ctx,
			d.B().Multi().Build(),
			d.B().Incr().Key("cnt").Build(),
			d.B().Exec().Build(),
		)
		if err := res[2].Error(); !rueidis.IsRedisNil(err) {
			t.Errorf("aborted EXEC must be a nil reply, got %v", err)
		}
		return nil
	})
	if err != nil {
		t.Fatal(err)
	}
	want(t, s.Do("GET", "cnt"), Bulk("2"))

	// Lua through the client (EVALSHA with NOSCRIPT fallback to EVAL).
	if probe := s.Do("EVAL", "return 1", "0"); probe.IsError() && strings.Contains(probe.Str, "noluamini") {
		t.Log("built without the Lua interpreter: skipping the script part")
	} else {
		script := rueidis.NewLuaScript("return redis.call('INCRBY',KEYS[1],ARGV[1])")
		if n, err := script.Exec(ctx, client, []string{"cnt"}, []string{"40"}).AsInt64(); err != nil || n != 42 {
			t.Fatalf("lua: %d %v", n, err)
		}
	}

	// Concurrent pipelining keeps request/response pairing.
	var wg sync.WaitGroup
	for i := 0; i < 16; i++ {
		wg.Add(1)
		go func(i int) {
			defer wg.Done()
			key := "p" + string(rune('a'+i))
			for j := 0; j < 50; j++ {
				if err := client.Do(ctx, client.B().Set().Key(key).Value(key).Build()).Error(); err != nil {
					t.Errorf("SET: %v", err)
					return
				}
				if got, err := client.Do(ctx, client.B().Get().Key(key).Build()).ToString(); err != nil || got != key {
					t.Errorf("GET %s: %q %v", key, got, err)
					return
				}
			}
		}(i)
	}
	wg.Wait()
	if p := s.LastPanic(); p != "" {
		t.Fatalf("server panic: %s", p)
	}
}

func TestRueidisRESP2NoCache(t *testing.T) {
	s, _ := newServer(t, Options{})
	client, _ := newRueidis(t, s, rueidis.ClientOption{AlwaysRESP2: true, DisableCache: true})
	ctx, cancel := context.WithTimeout(context.Background(), 60*time.Second)
	defer cancel()
	if err := client.Do(ctx, client.B().Set().Key("k").Value("v").Build()).Error(); err != nil {
		t.Fatal(err)
	}
	if got, err := client.Do(ctx, client.B().Get().Key("k").Build()).ToString(); err != nil || got != "v" {
		t.Fatalf("GET: %q %v", got, err)
	}
	sc := s.Conns()[0]
	if sc.Proto() != 2 || sc.TrackingMode() != "off" {
		t.Fatalf("proto=%d tracking=%s", sc.Proto(), sc.TrackingMode())
	}
	if first := sc.Log()[0]; strings.Join(first, " ") != "HELLO 2" {
		t.Fatalf("first command %v", first)
	}
	// DoCache degrades to a plain read.
	r := client.DoCache(ctx, client.B().Get().Key("k").Cache(), time.Minute)
	if got, err := r.ToString(); err != nil || got != "v" || r.IsCacheHit() {
		t.Fatalf("DoCache: %q %v hit=%v", got, err, r.IsCacheHit())
	}
	m, err := client.Do(ctx, client.B().Hgetall().Key("nohash").Build()).AsStrMap()
	if err != nil || len(m) != 0 {
		t.Fatalf("HGETALL: %v %v", m, err)
	}
	s.Do("HSET", "h", "f", "v")
	m, err = client.Do(ctx, client.B().Hgetall().Key("h").Build()).AsStrMap()
	if err != nil || m["f"] != "v" {
		t.Fatalf("HGETALL: %v %v", m, err)
	}
	// RESP2 pub/sub uses a second connection in subscribed mode.
	subCtx, subCancel := context.WithCancel(ctx)
	defer subCancel()
	got := make(chan rueidis.PubSubMessage, 1)
	go client.Receive(subCtx, client.B().Subscribe().Channel("ch").Build(), func(m rueidis.PubSubMessage) {
		select {
		case got <- m:
		default:
		}
	})
	waitFor(t, "subscription", func() bool { return s.Do("PUBSUB", "NUMSUB", "ch").Arr[1].Int == 1 })
	s.Do("PUBLISH", "ch", "m2")
	select {
	case m := <-got:
		if m.Channel != "ch" || m.Message != "m2" {
			t.Fatalf("message %+v", m)
		}
	case <-time.After(20 * time.Second):
		t.Fatal("no RESP2 pub/sub message")
	}
	// Regular commands still work on the main connection meanwhile.
	if got, err := client.Do(ctx, client.B().Get().Key("k").Build()).ToString(); err != nil || got != "v" {
		t.Fatalf("GET while subscribed: %q %v", got, err)
	}
}

func TestRueidisOldServerFallsBackToRESP2(t *testing.T) {
	s, _ := newServer(t, Options{NoHello: true})
	n := NewNetwork()
	n.Add(testAddr, s)
	// With the cache enabled an old server is unusable: ErrNoCache.
	_, err := rueidis.NewClient(rueidis.ClientOption{InitAddress: []string{testAddr}, DialCtxFn: n.DialCtxFn(), ForceSingleClient: true})
	if !errors.Is(err, rueidis.ErrNoCache) {
		t.Fatalf("want ErrNoCache, got %v", err)
	}
	client, err := rueidis.NewClient(rueidis.ClientOption{InitAddress: []string{testAddr}, DialCtxFn: n.DialCtxFn(), ForceSingleClient: true, DisableCache: true})
	if err != nil {
		t.Fatal(err)
	}
	defer client.Close()
	if err := client.Do(context.Background(), client.B().Ping().Build()).Error(); err != nil {
		t.Fatal(err)
	}
}

func TestRueidisAuthAndFaults(t *testing.T) {
	s, _ := newServer(t, Options{Users: map[string]string{"default": "pw"}})
	n := NewNetwork()
	n.Add(testAddr, s)
	base := rueidis.ClientOption{InitAddress: []string{testAddr}, DialCtxFn: n.DialCtxFn(), ForceSingleClient: true, DisableRetry: true}
	bad := base
	bad.Password = "nope"
	if _, err := rueidis.NewClient(bad); err == nil || !strings.Contains(err.Error(), "WRONGPASS") {
		t.Fatalf("want WRONGPASS, got %v", err)
	}
	good := base
	good.Password = "pw"
	client, err := rueidis.NewClient(good)
	if err != nil {
		t.Fatal(err)
	}
	defer client.Close()
	ctx, cancel := context.WithTimeout(context.Background(), 60*time.Second)
	defer cancel()
	if err := client.Do(ctx, client.B().Set().Key("k").Value("v").Build()).Error(); err != nil {
		t.Fatal(err)
	}
	// A scripted redirection error reaches the caller verbatim.
	s.SetIntercept(func(c *Conn, argv []string) (Value, Action) {
		if argv[0] == "GET" && argv[1] == "moved" {
			return Err("MOVED 3999 127.0.0.1:6381"), Reply
		}
		return Value{}, Pass
	})
	err = client.Do(ctx, client.B().Get().Key("moved").Build()).Error()
	re, isRedisErr := rueidis.IsRedisErr(err)
	if !isRedisErr {
		t.Fatalf("want MOVED, got %v", err)
	}
	if addr, moved := re.IsMoved(); !moved || addr != "127.0.0.1:6381" {
		t.Fatalf("want MOVED to 127.0.0.1:6381, got %v", err)
	}
	// A mid-reply cut surfaces as a transport error, and the client reconnects.
	// (Armed from the intercept because the client multiplexes connections.)
	var once sync.Once
	s.SetIntercept(func(c *Conn, argv []string) (Value, Action) {
		if argv[0] == "GET" && argv[1] == "k" {
			once.Do(func() { c.CutAfterNextReplyBytes(3) })
		}
		return Value{}, Pass
	})
	if err := client.Do(ctx, client.B().Get().Key("k").Build()).Error(); err == nil {
		t.Fatal("want a transport error after a truncated reply")
	} else if _, isRedisErr := rueidis.IsRedisErr(err); isRedisErr {
		t.Fatalf("want a transport error, got redis error %v", err)
	}
	waitFor(t, "reconnect", func() bool {
		got, err := client.Do(ctx, client.B().Get().Key("k").Build()).ToString()
		return err == nil && got == "v"
	})
	if len(n.Dials()) < 3 {
		t.Fatalf("dials %v", n.Dials())
	}
}
