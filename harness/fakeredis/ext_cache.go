package fakeredis

// Extension used by the client-side-caching drivers (harness/cmd/cachedrv).

// FailTx flags the open transaction of the connection as failed, exactly as a
// command rejected at queueing time does in Redis (flagTransaction): the
// following EXEC answers EXECABORT and discards the queue without executing
// anything. It is a no-op outside MULTI. Meant to be called from an
// InterceptFn (which runs under the dispatcher mutex), typically together
// with Reply(Err(...)) for the command that is to be "rejected".
func (c *Conn) FailTx() {
	defer c.locked()()
	c.flagTx()
}

// InjectNow hands a push frame to the writer immediately, ahead of whatever
// is still held by HoldReplies: on the wire it follows exactly the frames
// released so far. Drivers use it as a barrier ("the reader of the client has
// consumed everything released so far once it has seen this push"). The frame
// is numbered and reported (SPush) like any other.
func (c *Conn) InjectNow(v Value) {
	defer c.locked()()
	if c.closed || v.IsZero() {
		return
	}
	c.frames++
	c.s.emit(Event{Kind: SPush, Conn: c.id, Reply: v, Frame: c.frames})
	c.handToWriter(frame{data: v.Encode(c.proto)})
}
