package fakeredis

import (
	"sort"
	"strconv"
	"strings"
)

type kind uint8

const (
	kString kind = iota + 1
	kHash
	kList
	kSet
	kZSet
	kJSON
)

func (k kind) String() string {
	switch k {
	case kString:
		return "string"
	case kHash:
		return "hash"
	case kList:
		return "list"
	case kSet:
		return "set"
	case kZSet:
		return "zset"
	case kJSON:
		return "ReJSON-RL"
	}
	return "none"
}

// entry is one key's value. Exactly the field matching kind is meaningful.
type entry struct {
	kind     kind
	str      string
	hash     *omap
	list     []string
	set      map[string]struct{}
	zset     map[string]float64
	json     any
	expireAt int64 // unix milliseconds, 0 = no expiry
}

type db struct {
	id   int
	keys map[string]*entry
}

// omap is an insertion ordered string map (small Redis hashes iterate in
// insertion order; keeping that makes replies deterministic).
type omap struct {
	order []string
	m     map[string]string
}

func newOmap() *omap { return &omap{m: map[string]string{}} }

func (o *omap) get(k string) (string, bool) { v, ok := o.m[k]; return v, ok }

// set stores k and reports whether it was newly created.
func (o *omap) set(k, v string) bool {
	_, existed := o.m[k]
	o.m[k] = v
	if !existed {
		o.order = append(o.order, k)
	}
	return !existed
}

func (o *omap) del(k string) bool {
	if _, ok := o.m[k]; !ok {
		return false
	}
	delete(o.m, k)
	for i, x := range o.order {
		if x == k {
			o.order = append(o.order[:i], o.order[i+1:]...)
			break
		}
	}
	return true
}

func (o *omap) len() int { return len(o.m) }

// ---------------------------------------------------------------- access

func (c *Conn) db() *db { return c.s.dbs[c.dbi] }

// lookup returns the live entry for key, expiring it lazily first.
func (s *Server) lookup(d *db, key string) *entry {
	e := d.keys[key]
	if e == nil {
		return nil
	}
	if e.expireAt != 0 && e.expireAt <= s.nowMs() {
		s.expireKey(d, key)
		return nil
	}
	return e
}

// expireKey deletes an expired key: watchers fail, caches are invalidated.
func (s *Server) expireKey(d *db, key string) {
	delete(d.keys, key)
	s.emit(Event{Kind: SExpire, Argv: []string{key}, Note: "db" + strconv.Itoa(d.id)})
	s.touch(d, key)
}

// touch is Redis' signalModifiedKey: WATCHers of the key are flagged and
// client side caches are invalidated.
func (s *Server) touch(d *db, key string) {
	for _, w := range s.watchers[dbKey{d.id, key}] {
		w.dirtyCAS = true
	}
	s.invalidateKey(key)
}

// lookupKind returns the entry when it exists and has the wanted kind. A nil
// entry with a zero Value means "no such key".
func (c *Conn) lookupKind(key string, k kind) (*entry, Value) {
	e := c.s.lookup(c.db(), key)
	if e != nil && e.kind != k {
		return nil, errWrongType
	}
	return e, Value{}
}

// put stores e under key (replacing any previous value) and signals the change.
func (c *Conn) put(key string, e *entry) {
	d := c.db()
	d.keys[key] = e
	c.s.touch(d, key)
	c.s.keyReady(d, key, e)
}

// modified signals that the value under key was changed in place; empty
// aggregates are removed as Redis does.
func (c *Conn) modified(key string, e *entry) {
	d := c.db()
	if e.empty() {
		delete(d.keys, key)
	}
	c.s.touch(d, key)
	c.s.keyReady(d, key, e)
}

// remove deletes key and reports whether it existed.
func (c *Conn) remove(key string) bool {
	d := c.db()
	if c.s.lookup(d, key) == nil {
		return false
	}
	delete(d.keys, key)
	c.s.touch(d, key)
	return true
}

func (e *entry) empty() bool {
	switch e.kind {
	case kHash:
		return e.hash.len() == 0
	case kList:
		return len(e.list) == 0
	case kSet:
		return len(e.set) == 0
	case kZSet:
		return len(e.zset) == 0
	}
	return false
}

// ttlMs returns the remaining time to live in ms: -2 missing, -1 no expiry.
func (s *Server) ttlMs(d *db, key string) int64 {
	e := s.lookup(d, key)
	if e == nil {
		return -2
	}
	if e.expireAt == 0 {
		return -1
	}
	return max(e.expireAt-s.nowMs(), 0)
}

func (d *db) sortedKeys() []string {
	keys := make([]string, 0, len(d.keys))
	for k := range d.keys {
		keys = append(keys, k)
	}
	sort.Strings(keys)
	return keys
}

// liveKeys returns the non-expired keys in sorted order, expiring the others.
func (s *Server) liveKeys(d *db) []string {
	keys := d.sortedKeys()
	out := keys[:0]
	for _, k := range keys {
		if s.lookup(d, k) != nil {
			out = append(out, k)
		}
	}
	return out
}

// flushDB empties one database. Watchers of existing keys are flagged; the
// tracking side (null invalidation) is handled by the caller once.
func (s *Server) flushDB(d *db) {
	for k := range d.keys {
		for _, w := range s.watchers[dbKey{d.id, k}] {
			w.dirtyCAS = true
		}
	}
	d.keys = map[string]*entry{}
}

// ---------------------------------------------------------------- helpers

func upper(s string) string { return strings.ToUpper(s) }
func lower(s string) string { return strings.ToLower(s) }

func parseInt(s string) (int64, bool) {
	if s == "" || len(s) > 20 || s[0] == '+' || s[0] == ' ' {
		return 0, false
	}
	if len(s) > 1 && (s[0] == '0' || (s[0] == '-' && s[1] == '0')) {
		return 0, false // Redis' string2ll rejects leading zeros
	}
	n, err := strconv.ParseInt(s, 10, 64)
	return n, err == nil
}

func parseFloat(s string) (float64, bool) {
	if s == "" || s[0] == ' ' || s[len(s)-1] == ' ' {
		return 0, false
	}
	f, err := parseDouble(s)
	if err != nil || f != f {
		return 0, false
	}
	return f, true
}

// fmtFloat renders a float the way Redis does for INCRBYFLOAT / ZSCORE in
// RESP2: shortest representation, no exponent for integral values.
func fmtFloat(f float64) string {
	if f == float64(int64(f)) && f > -1e17 && f < 1e17 {
		return strconv.FormatInt(int64(f), 10)
	}
	return formatDouble(f)
}

// globMatch implements Redis' stringmatchlen glob: * ? [set] [^set] [a-z] \x.
func globMatch(pat, s string) bool {
	for len(pat) > 0 {
		switch pat[0] {
		case '*':
			for len(pat) > 1 && pat[1] == '*' {
				pat = pat[1:]
			}
			if len(pat) == 1 {
				return true
			}
			for i := 0; i <= len(s); i++ {
				if globMatch(pat[1:], s[i:]) {
					return true
				}
			}
			return false
		case '?':
			if len(s) == 0 {
				return false
			}
			s = s[1:]
			pat = pat[1:]
		case '[':
			if len(s) == 0 {
				return false
			}
			pat = pat[1:]
			not := len(pat) > 0 && pat[0] == '^'
			if not {
				pat = pat[1:]
			}
			match := false
			for {
				if len(pat) == 0 {
					break
				}
				if pat[0] == '\\' && len(pat) >= 2 {
					pat = pat[1:]
					if pat[0] == s[0] {
						match = true
					}
				} else if pat[0] == ']' {
					break
				} else if len(pat) >= 3 && pat[1] == '-' {
					lo, hi := pat[0], pat[2]
					if lo > hi {
						lo, hi = hi, lo
					}
					pat = pat[2:]
					if s[0] >= lo && s[0] <= hi {
						match = true
					}
				} else if pat[0] == s[0] {
					match = true
				}
				pat = pat[1:]
			}
			if len(pat) > 0 {
				pat = pat[1:] // skip ']'
			}
			if match == not {
				return false
			}
			s = s[1:]
		case '\\':
			if len(pat) >= 2 {
				pat = pat[1:]
			}
			fallthrough
		default:
			if len(s) == 0 || pat[0] != s[0] {
				return false
			}
			s = s[1:]
			pat = pat[1:]
		}
	}
	return len(s) == 0
}
