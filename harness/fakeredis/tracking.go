package fakeredis

import (
	"sort"
	"strings"
)

// Server assisted client side caching, modelled on Redis 7's tracking.c.
//
// Default / OPTIN / OPTOUT modes: the keys of read-only commands are
// remembered per connection in a global table keyed by key name (not by
// database, as in Redis). When a key is modified every connection that
// remembered it receives one "invalidate" push and the key is forgotten.
// Pushes to other connections are queued immediately, i.e. before the reply
// of the writing command; a push addressed to the connection that is itself
// executing the command is deferred until after that command's reply (and
// after a whole EXEC or script), as Redis 7 does.
//
// BCAST mode: nothing is remembered; every modified key matching one of the
// connection's prefixes is reported. Redis collects those keys and sends them
// from beforeSleep, i.e. after the writing command's reply, one push per
// prefix carrying all keys; flushBcast reproduces that.

// invalidation is one pending "invalidate" push: a list of keys, or the null
// payload sent on FLUSHALL / FLUSHDB.
type invalidation struct {
	keys []string
	all  bool
}

type bcastKey struct {
	key string
	by  *Conn // the connection whose command modified the key, nil for expiry
}

func sortedKeysOf[V any](m map[string]V) []string {
	out := make([]string, 0, len(m))
	for k := range m {
		out = append(out, k)
	}
	sort.Strings(out)
	return out
}

// rememberKeys records that c read keys (Redis' trackingRememberKeys).
func (s *Server) rememberKeys(c *Conn, keys []string) {
	if c == nil || !c.tracking || c.bcast || len(keys) == 0 {
		return
	}
	if (c.optin && !c.caching) || (c.optout && c.caching) {
		return
	}
	for _, k := range keys {
		m := s.track[k]
		if m == nil {
			m = map[*Conn]struct{}{}
			s.track[k] = m
		}
		m[c] = struct{}{}
	}
}

// invalidateKey is Redis' trackingInvalidateKey: called for every modified,
// deleted or expired key.
func (s *Server) invalidateKey(key string) {
	if s.anyBcast() {
		s.bcastKeys = append(s.bcastKeys, bcastKey{key, s.current})
	}
	m := s.track[key]
	if m == nil {
		return
	}
	delete(s.track, key) // everybody forgets the key, notified or not
	targets := make([]*Conn, 0, len(m))
	for c := range m {
		targets = append(targets, c)
	}
	sort.Slice(targets, func(i, j int) bool { return targets[i].id < targets[j].id })
	for _, c := range targets {
		if !c.tracking || c.bcast || c.closed {
			continue
		}
		if c.noloop && c == s.current {
			continue
		}
		inv := invalidation{keys: []string{key}}
		if c == s.current && s.depth > 0 {
			s.selfInval = append(s.selfInval, inv)
			continue
		}
		s.sendInvalidation(c, inv)
	}
}

// invalidateAll is Redis' trackingInvalidateKeysOnFlush: every tracking
// connection (any mode) receives a null invalidation and the table is reset.
func (s *Server) invalidateAll() {
	for _, c := range append([]*Conn(nil), s.live...) {
		if !c.tracking {
			continue
		}
		inv := invalidation{all: true}
		if c == s.current && s.depth > 0 {
			s.selfInval = append(s.selfInval, inv)
			continue
		}
		s.sendInvalidation(c, inv)
	}
	s.track = map[string]map[*Conn]struct{}{}
}

// sendInvalidation is Redis' sendTrackingMessage: it resolves redirection and
// picks the frame shape the receiver can understand.
func (s *Server) sendInvalidation(c *Conn, inv invalidation) {
	target := c
	redirected := c.redirect != 0
	if redirected {
		target = s.byID[c.redirect]
		if target == nil || target.closed {
			if c.proto >= 3 {
				c.sendPush(Push(Bulk("tracking-redir-broken"), Int(int64(c.redirect))))
			}
			return
		}
	}
	payload := Null()
	if !inv.all {
		payload = BulkArray(inv.keys...)
	}
	switch {
	case target.proto >= 3:
		target.sendPush(Push(Bulk("invalidate"), payload))
	case redirected && indexOf(target.subs, invalidateChannel) >= 0:
		target.sendPush(Push(Bulk("message"), Bulk(invalidateChannel), payload))
	default:
		// A RESP2 connection without redirection cannot receive pushes.
	}
}

const invalidateChannel = "__redis__:invalidate"

func (s *Server) anyBcast() bool {
	for _, c := range s.live {
		if c.tracking && c.bcast {
			return true
		}
	}
	return false
}

// flushBcast sends the broadcast-mode invalidations collected since the last
// flush: per connection and per prefix one push with all matching keys in
// lexicographic order. It reports whether anything was sent.
func (s *Server) flushBcast() bool {
	if len(s.bcastKeys) == 0 {
		return false
	}
	pending := s.bcastKeys
	s.bcastKeys = nil
	sent := false
	for _, c := range append([]*Conn(nil), s.live...) {
		if !c.tracking || !c.bcast {
			continue
		}
		for _, prefix := range c.prefixes {
			seen := map[string]bool{}
			var keys []string
			for _, bk := range pending {
				if !strings.HasPrefix(bk.key, prefix) || seen[bk.key] {
					continue
				}
				if c.noloop && bk.by == c {
					continue
				}
				seen[bk.key] = true
				keys = append(keys, bk.key)
			}
			if len(keys) == 0 {
				continue
			}
			sort.Strings(keys)
			s.sendInvalidation(c, invalidation{keys: keys})
			sent = true
		}
	}
	return sent
}

// disableTracking turns tracking off and forgets everything remembered for c.
func (c *Conn) disableTracking() {
	if !c.tracking {
		return
	}
	c.tracking, c.bcast, c.optin, c.optout, c.noloop, c.caching = false, false, false, false, false, false
	c.redirect, c.prefixes = 0, nil
	for k, m := range c.s.track {
		if _, found := m[c]; found {
			delete(m, c)
			if len(m) == 0 {
				delete(c.s.track, k)
			}
		}
	}
}
