// Package fakeredis is an in-process fake Redis server used as the test double
// of a model-based verification harness for the rueidis client. It speaks
// RESP2/RESP3 over in-memory connections (see the bufconn sub-package), follows
// documented Redis 7 semantics for the implemented command surface, emits a
// totally ordered event stream and offers scripting hooks (intercept, hold,
// cut, park) so that drivers can force arbitrary interleavings and faults.
//
// Concurrency model: one goroutine per connection parses requests and, holding
// the single dispatcher mutex, executes them one at a time; replies and pushes
// are appended to per-connection output queues which a per-connection writer
// goroutine drains to the socket. Everything observable (events) happens under
// the dispatcher mutex and is therefore totally ordered.
package fakeredis

import (
	"fmt"
	"net"
	"runtime/debug"
	"sort"
	"strconv"
	"sync"
	"sync/atomic"
	"time"

	"verifharness/fakeredis/bufconn"
)

// Clock is the server's time source (expiry, TIME, blocking timeouts).
type Clock interface{ Now() time.Time }

type realClock struct{}

func (realClock) Now() time.Time { return time.Now() }

// VirtualClock is a manually advanced Clock.
type VirtualClock struct {
	mu  sync.Mutex
	now time.Time
}

// NewVirtualClock returns a clock frozen at start.
func NewVirtualClock(start time.Time) *VirtualClock { return &VirtualClock{now: start} }

// Now returns the current virtual time.
func (c *VirtualClock) Now() time.Time {
	c.mu.Lock()
	defer c.mu.Unlock()
	return c.now
}

// Advance moves the clock forward by d. Call Server.ExpireNow afterwards to
// make the server act on the new time.
func (c *VirtualClock) Advance(d time.Duration) {
	c.mu.Lock()
	c.now = c.now.Add(d)
	c.mu.Unlock()
}

// Options configures a Server.
type Options struct {
	Clock    Clock             // default: real time (with a 10ms active-expiry ticker)
	Version  string            // reported by HELLO and INFO, default "7.2.4"
	NoHello  bool              // HELLO answers "-ERR unknown command 'HELLO'..." (old server)
	MaxProto int               // 3 default; 2 => HELLO 3 answers -NOPROTO
	Users    map[string]string // username -> password; "default" is requirepass; empty = no auth
	Role     string            // "master" (default) or "slave"
	AZ       string            // availability zone reported by HELLO and INFO
	Seq      *atomic.Int64     // optional shared event sequencer (one total order over several servers)
}

// Action is the verdict of an InterceptFn.
type Action int

const (
	Pass           Action = iota // execute normally
	Reply                        // send the given reply instead, execute nothing
	ReplyAfterExec               // execute normally, discard the real reply, send the given one
	Drop                         // execute nothing, send nothing
	ExecThenCut                  // execute, do not send the reply, cut the connection
	CutNow                       // cut the connection before executing
	Park                         // execute nothing now; resumed by Conn.Unpark / Conn.UnparkExec
)

// InterceptFn is consulted, under the dispatcher mutex, for every command
// received on a client connection after its SRecv event and before execution.
type InterceptFn func(c *Conn, argv []string) (reply Value, action Action)

// Event kinds.
const (
	SConn   = "SConn"   // connection created
	SRecv   = "SRecv"   // a complete command is about to be dispatched
	SExec   = "SExec"   // the command took effect (reply is not an error)
	SRep    = "SRep"    // reply frame queued to the connection
	SPush   = "SPush"   // push frame queued to the connection
	SCut    = "SCut"    // the server cut the connection
	SClose  = "SClose"  // the connection ended (client closed / EOF / QUIT)
	SExpire = "SExpire" // a key expired (Argv = [key], Note = "db<N>"); extension
	SPanic  = "SPanic"  // a command handler panicked (Note = "panic"); the reply is -ERR internal
)

// Event is one entry of the server's totally ordered observation stream.
type Event struct {
	Seq   int64
	Kind  string
	Node  string
	Conn  int
	Argv  []string // SRecv, SExec, SExpire, SPanic
	Reply Value    // SRep, SPush
	Frame int      // SRep/SPush: per-connection output frame number starting at 1
	Note  string
}

const numDBs = 16

// Server is one fake Redis instance.
type Server struct {
	mu remutex // the dispatcher mutex

	name  string
	opt   Options
	clock Clock
	seq   *atomic.Int64
	role  string

	dbs    [numDBs]*db
	byID   map[int]*Conn // every connection ever created, including closed ones
	live   []*Conn       // open client connections in creation order
	nextID int
	admin  *Conn
	closed bool
	stop   chan struct{}

	sink      func(Event)
	intercept InterceptFn
	onConnect func(*Conn)

	evstack  [][]Event       // event buffers of the commands currently executing
	deferred []deferredFrame // frames kept back until the buffered events are delivered
	current  *Conn           // connection whose top-level command is executing
	depth    int             // execution nesting (EXEC, scripts, nested Do)
	inAfter  bool            // afterCommand is running

	track     map[string]map[*Conn]struct{} // tracking table: key -> connections that may cache it
	selfInval []invalidation                // invalidations owed to s.current, sent after its reply
	bcastKeys []bcastKey                    // keys modified since the last broadcast flush

	channels map[string][]*Conn
	patterns map[string][]*Conn
	shards   map[string][]*Conn

	watchers  map[dbKey][]*Conn
	blockedOn map[dbKey][]*Conn
	ready     []dbKey

	scripts map[string]*scriptEntry

	lastPanic string
}

type dbKey struct {
	db  int
	key string
}

// NewServer creates a server. name is reported as Event.Node.
func NewServer(name string, opt Options) *Server {
	if opt.Version == "" {
		opt.Version = "7.2.4"
	}
	if opt.MaxProto == 0 {
		opt.MaxProto = 3
	}
	if opt.Role == "" {
		opt.Role = "master"
	}
	s := &Server{
		name:      name,
		opt:       opt,
		clock:     opt.Clock,
		seq:       opt.Seq,
		role:      opt.Role,
		byID:      map[int]*Conn{},
		track:     map[string]map[*Conn]struct{}{},
		channels:  map[string][]*Conn{},
		patterns:  map[string][]*Conn{},
		shards:    map[string][]*Conn{},
		watchers:  map[dbKey][]*Conn{},
		blockedOn: map[dbKey][]*Conn{},
		scripts:   map[string]*scriptEntry{},
		stop:      make(chan struct{}),
	}
	if s.seq == nil {
		s.seq = new(atomic.Int64)
	}
	for i := range s.dbs {
		s.dbs[i] = &db{id: i, keys: map[string]*entry{}}
	}
	s.admin = &Conn{s: s, id: 0, proto: 3, authed: true, user: "default", admin: true, cutAfter: -1}
	s.byID[0] = s.admin
	if s.clock == nil {
		s.clock = realClock{}
		go s.ticker()
	}
	return s
}

func (s *Server) ticker() {
	t := time.NewTicker(10 * time.Millisecond)
	defer t.Stop()
	for {
		select {
		case <-s.stop:
			return
		case <-t.C:
			s.ExpireNow()
		}
	}
}

// Name returns the node name given to NewServer.
func (s *Server) Name() string { return s.name }

// Lock acquires the dispatcher mutex, giving the caller an atomic view of the
// server. The mutex is re-entrant: every public method may be called while
// holding it, also from hooks.
func (s *Server) Lock() { s.mu.Lock() }

// Unlock releases the dispatcher mutex.
func (s *Server) Unlock() { s.mu.Unlock() }

// SetEventSink installs the event consumer. fn runs under the dispatcher
// mutex, which yields a total order; it should be quick and must not block.
func (s *Server) SetEventSink(fn func(Event)) {
	s.mu.Lock()
	s.sink = fn
	s.mu.Unlock()
}

// SetIntercept installs the command intercept (nil removes it).
func (s *Server) SetIntercept(fn InterceptFn) {
	s.mu.Lock()
	s.intercept = fn
	s.mu.Unlock()
}

// SetOnConnect installs a hook called under the mutex when a connection is
// created, before any byte is read from it.
func (s *Server) SetOnConnect(fn func(c *Conn)) {
	s.mu.Lock()
	s.onConnect = fn
	s.mu.Unlock()
}

// SetRole switches the reported role ("master" or "slave").
func (s *Server) SetRole(role string) {
	s.mu.Lock()
	s.role = role
	s.mu.Unlock()
}

// Role returns the reported role.
func (s *Server) Role() string {
	s.mu.Lock()
	defer s.mu.Unlock()
	return s.role
}

// LastPanic returns the message and stack of the most recent handler panic.
func (s *Server) LastPanic() string {
	s.mu.Lock()
	defer s.mu.Unlock()
	return s.lastPanic
}

// Dial creates a connection, starts its goroutines and returns the client end.
// On a closed server the returned connection is already cut.
func (s *Server) Dial(clientAddr string) net.Conn { return s.dial(clientAddr, s.name) }

// dial is Dial with an explicit server side address (what the client dialed).
func (s *Server) dial(clientAddr, serverAddr string) net.Conn {
	cc, sc := bufconn.Pipe(clientAddr, serverAddr)
	s.mu.Lock()
	defer s.mu.Unlock()
	if s.closed {
		sc.Cut()
		return cc
	}
	s.nextID++
	c := &Conn{s: s, id: s.nextID, sc: sc, cc: cc, proto: 2, cutAfter: -1}
	c.authed = !s.authRequired()
	c.user = "default"
	c.ocond = sync.NewCond(&c.omu)
	s.byID[c.id] = c
	s.live = append(s.live, c)
	s.emit(Event{Kind: SConn, Conn: c.id, Note: clientAddr})
	if s.onConnect != nil {
		s.onConnect(c)
	}
	go c.reader()
	go c.writer()
	return cc
}

// Close cuts all connections and stops the server. Further Dial calls return
// dead connections.
func (s *Server) Close() {
	s.mu.Lock()
	defer s.mu.Unlock()
	if s.closed {
		return
	}
	s.closed = true
	close(s.stop)
	for _, c := range append([]*Conn(nil), s.live...) {
		c.shutdown(SCut, "server-close", modeCut)
	}
}

// Conns returns the open client connections in creation order.
func (s *Server) Conns() []*Conn {
	s.mu.Lock()
	defer s.mu.Unlock()
	return append([]*Conn(nil), s.live...)
}

// Conn returns the connection with the given id (open or closed), or nil.
// Id 0 is the internal admin connection used by Do.
func (s *Server) Conn(id int) *Conn {
	s.mu.Lock()
	defer s.mu.Unlock()
	return s.byID[id]
}

// Do runs a command on the internal admin connection (id 0, RESP3, always
// authenticated, database selected with SELECT like any client, no tracking)
// and returns its reply. It simulates another client: it goes through the same
// dispatcher, so invalidations and pub/sub messages reach the real connections
// and events are emitted (Conn 0). The intercept is not consulted. Blocking
// commands never block on the admin connection. Do may be called from hooks,
// in which case it executes nested inside the command being dispatched.
func (s *Server) Do(argv ...string) Value {
	if len(argv) == 0 {
		return Err("ERR empty command")
	}
	s.mu.Lock()
	defer s.mu.Unlock()
	a := s.admin
	a.adminReply = Value{}
	s.emit(Event{Kind: SRecv, Conn: 0, Argv: argv})
	a.execute(argv, nil, true)
	return a.adminReply
}

// ExpireNow scans all keys against the clock and deletes the expired ones
// (sending invalidations, failing WATCHes), then times out blocked clients
// whose deadline passed. Drivers call it after advancing a VirtualClock; with
// the real clock it runs from a 10ms ticker.
func (s *Server) ExpireNow() {
	s.mu.Lock()
	defer s.mu.Unlock()
	if s.closed {
		return
	}
	now := s.nowMs()
	for _, d := range s.dbs {
		var expired []string
		for k, e := range d.keys {
			if e.expireAt != 0 && e.expireAt <= now {
				expired = append(expired, k)
			}
		}
		sort.Strings(expired)
		for _, k := range expired {
			s.expireKey(d, k)
		}
	}
	s.timeoutBlocked()
	s.afterCommand()
}

func (s *Server) nowMs() int64 { return s.clock.Now().UnixMilli() }

func (s *Server) authRequired() bool {
	if len(s.opt.Users) == 0 {
		return false
	}
	pw, ok := s.opt.Users["default"]
	return !ok || pw != ""
}

// ---------------------------------------------------------------- events

// emit delivers an event, or buffers it when a command is executing so that
// the command's SExec can be placed in front of its consequences.
func (s *Server) emit(ev Event) {
	if n := len(s.evstack); n > 0 {
		s.evstack[n-1] = append(s.evstack[n-1], ev)
		return
	}
	ev.Seq = s.seq.Add(1)
	ev.Node = s.name
	if s.sink != nil {
		s.sink(ev)
	}
}

func (s *Server) beginBuf() { s.evstack = append(s.evstack, nil) }

// endBuf closes the innermost buffer and emits first (when non-nil) followed
// by the buffered events into the enclosing buffer or the sink.
func (s *Server) endBuf(first *Event) {
	n := len(s.evstack) - 1
	buf := s.evstack[n]
	s.evstack = s.evstack[:n]
	if first != nil {
		s.emit(*first)
	}
	for _, ev := range buf {
		s.emit(ev)
	}
	if len(s.evstack) == 0 {
		s.flushDeferred() // the events are out: now the frames may follow
	}
}

// ---------------------------------------------------------------- dispatch

// dispatch handles one command received from a client connection.
func (c *Conn) dispatch(argv []string) {
	s := c.s
	s.emit(Event{Kind: SRecv, Conn: c.id, Argv: argv})
	c.log = append(c.log, argv)
	reply, action := Value{}, Pass
	if s.intercept != nil {
		reply, action = s.intercept(c, argv)
		if c.closed { // the hook cut the connection itself
			return
		}
	}
	switch action {
	case Pass:
		c.execute(argv, nil, true)
	case Reply:
		c.sendReply(reply)
	case ReplyAfterExec:
		c.execute(argv, &reply, true)
	case Drop:
	case ExecThenCut:
		c.execute(argv, nil, false)
		c.shutdown(SCut, "intercept:exec-then-cut", modeCut)
	case CutNow:
		c.shutdown(SCut, "intercept:cut-now", modeCut)
	case Park:
		c.parked = argv
	default:
		panic(fmt.Sprintf("fakeredis: unknown intercept action %d", action))
	}
}

// execute runs one top-level command: processing, reply, and the
// after-command phase (deferred invalidations, blocked clients, broadcasts).
func (c *Conn) execute(argv []string, override *Value, send bool) {
	s := c.s
	prev := s.current
	prevSelf := s.selfInval
	s.current, s.selfInval = c, nil
	s.depth++

	v := c.process(argv)

	s.depth--
	// Redis' resetClient: the CACHING flag given by CLIENT CACHING survives
	// only CLIENT commands and the span of a MULTI block.
	if !c.multi && upper(argv[0]) != "CLIENT" {
		c.caching = false
	}
	if override != nil {
		v = *override
	}
	if send && !v.IsZero() {
		c.sendReply(v)
	}
	if c.quit {
		c.quit = false
		c.shutdown(SClose, "quit", modeDrain)
	}
	// Redis 7 defers invalidations addressed to the connection that is
	// executing the command until after its reply (and never interleaves
	// them with a transaction or script result).
	owed := s.selfInval
	s.current, s.selfInval = prev, prevSelf
	for _, inv := range owed {
		s.sendInvalidation(c, inv)
	}
	if s.depth == 0 {
		s.afterCommand()
	}
}

// afterCommand is Redis' "before sleep" work: serve clients blocked on keys
// that became ready, then flush broadcast-mode invalidations.
func (s *Server) afterCommand() {
	if s.inAfter {
		return // commands resumed from here are picked up by the loop below
	}
	s.inAfter = true
	defer func() { s.inAfter = false }()
	for {
		served := s.serveBlocked()
		flushed := s.flushBcast()
		if !served && !flushed {
			return
		}
	}
}

// process is the equivalent of Redis' processCommand: lookup, arity, auth and
// context checks, MULTI queueing, and finally the call. It never panics.
func (c *Conn) process(argv []string) (v Value) {
	s := c.s
	defer c.recoverPanic(argv, &v)()

	name := upper(argv[0])
	cmd := commands[name]
	if cmd == nil || (name == "HELLO" && s.opt.NoHello) {
		c.flagTx()
		return errUnknownCommand(argv)
	}
	if !cmd.arityOK(len(argv)) {
		c.flagTx()
		return errArity(cmd.name)
	}
	if !c.authed && cmd.flags&fNoAuth == 0 {
		c.flagTx()
		return Err("NOAUTH Authentication required.")
	}
	if c.proto == 2 && c.subCount()+len(c.ssubs) > 0 && cmd.flags&fPubSub == 0 {
		return Err("ERR Can't execute '" + lower(cmd.name) + "': only (P|S)SUBSCRIBE / (P|S)UNSUBSCRIBE / PING / QUIT / RESET are allowed in this context")
	}
	if c.multi && cmd.flags&fTxCtl == 0 {
		if cmd.flags&fNoMulti != 0 {
			c.flagTx()
			return Err("ERR Command not allowed inside a transaction")
		}
		c.queued = append(c.queued, argv)
		return Simple("QUEUED")
	}
	return c.call(cmd, argv, "")
}

// call invokes a command handler, wraps its events behind an SExec event
// (unless it failed or blocked), and records the keys read for client side
// caching.
func (c *Conn) call(cmd *cmdDef, argv []string, note string) Value {
	s := c.s
	s.beginBuf()
	v := c.invoke(cmd, argv)
	force := c.forceExec
	note = joinNote(note, c.execNote)
	c.execNote, c.forceExec = "", false
	if (v.IsError() || c.blocked != nil) && !force {
		s.endBuf(nil)
	} else {
		s.endBuf(&Event{Kind: SExec, Conn: c.id, Argv: argv, Note: note})
	}
	// Redis remembers the keys of every read-only command, whatever its
	// outcome, on behalf of the connection that issued it.
	if cmd.flags&fRO != 0 && cmd.flags&fNoTrack == 0 {
		s.rememberKeys(c, cmd.keys(argv))
	}
	return v
}

// invoke runs a handler, converting a panic into "-ERR internal".
func (c *Conn) invoke(cmd *cmdDef, argv []string) (v Value) {
	defer c.recoverPanic(argv, &v)()
	return cmd.fn(c, argv)
}

// recoverPanic returns a function to defer: on panic it restores the
// execution state captured now, records the panic (SPanic event, LastPanic)
// and turns the reply into "-ERR internal". The server never crashes because
// of a handler bug; the oracle sees the event and can fail the run.
func (c *Conn) recoverPanic(argv []string, v *Value) func() {
	s := c.s
	base, depth, inScript, scriptRO := len(s.evstack), s.depth, c.inScript, c.scriptRO
	return func() {
		r := recover()
		if r == nil {
			return
		}
		for len(s.evstack) > base {
			s.endBuf(nil)
		}
		s.depth, c.inScript, c.scriptRO = depth, inScript, scriptRO
		c.execNote, c.forceExec = "", false
		s.lastPanic = fmt.Sprintf("%v\n%s", r, debug.Stack())
		s.emit(Event{Kind: SPanic, Conn: c.id, Argv: argv, Note: "panic"})
		*v = Err("ERR internal")
	}
}

func joinNote(a, b string) string {
	if a == "" || b == "" {
		return a + b
	}
	return a + " " + b
}

// flagTx marks an open transaction as failed (Redis' flagTransaction).
func (c *Conn) flagTx() {
	if c.multi {
		c.dirtyExec = true
	}
}

func errUnknownCommand(argv []string) Value {
	msg := "ERR unknown command '" + trunc(argv[0], 128) + "', with args beginning with: "
	for _, a := range argv[1:] {
		if len(msg) > 128+40+128 {
			break
		}
		msg += "'" + trunc(a, 128) + "' "
	}
	return Err(msg)
}

func errArity(name string) Value {
	return Err("ERR wrong number of arguments for '" + lower(name) + "' command")
}

func trunc(s string, n int) string {
	if len(s) > n {
		return s[:n]
	}
	return s
}

var (
	errWrongType = Err("WRONGTYPE Operation against a key holding the wrong kind of value")
	errSyntax    = Err("ERR syntax error")
	errNotInt    = Err("ERR value is not an integer or out of range")
	errNotFloat  = Err("ERR value is not a valid float")
	errNoKey     = Err("ERR no such key")
	ok           = Simple("OK")
)

func itoa(n int64) string { return strconv.FormatInt(n, 10) }
