package bufconn

import (
	"bytes"
	"crypto/sha256"
	"io"
	"sync"
	"testing"
	"time"
)

// TestConcurrentDuplex streams data in both directions at once with forced
// small read chunks and concurrent deadline updates; meant to run under -race.
func TestConcurrentDuplex(t *testing.T) {
	c, s := Pipe("c", "s")
	c.SetChunk(13)
	s.SetChunk(7)
	payload := bytes.Repeat([]byte("0123456789abcdef"), 4096)
	wantSum := sha256.Sum256(payload)

	var wg sync.WaitGroup
	stream := func(from, to *Conn) {
		wg.Add(2)
		go func() {
			defer wg.Done()
			for off := 0; off < len(payload); off += 1000 {
				end := min(off+1000, len(payload))
				if _, err := from.Write(payload[off:end]); err != nil {
					t.Errorf("write: %v", err)
					return
				}
			}
		}()
		go func() {
			defer wg.Done()
			got := make([]byte, len(payload))
			if _, err := io.ReadFull(to, got); err != nil {
				t.Errorf("read: %v", err)
				return
			}
			if sha256.Sum256(got) != wantSum {
				t.Error("payload corrupted")
			}
		}()
	}
	stream(c, s)
	stream(s, c)
	stop := make(chan struct{})
	go func() {
		for {
			select {
			case <-stop:
				return
			default:
				c.SetReadDeadline(time.Now().Add(time.Hour))
				s.SetDeadline(time.Now().Add(time.Hour))
				_ = c.Buffered()
			}
		}
	}()
	wg.Wait()
	close(stop)
	if c.Buffered() != 0 || s.Buffered() != 0 {
		t.Fatalf("left over bytes: %d %d", c.Buffered(), s.Buffered())
	}
	c.Close()
	if _, err := s.Read(make([]byte, 1)); err != io.EOF {
		t.Fatalf("want EOF, got %v", err)
	}
	if !c.Closed() || s.Closed() {
		t.Fatal("Closed() state")
	}
}
