// Package bufconn provides an in-memory, full-duplex net.Conn pair with
// buffered (socket-like) semantics. Unlike net.Pipe a Write never waits for a
// matching Read: each direction is an unbounded byte queue. On top of the
// net.Conn contract it offers fault controls (Cut, SetChunk) used by the fake
// Redis server to script transport failures and read boundaries.
package bufconn

import (
	"io"
	"net"
	"os"
	"sync"
	"syscall"
	"time"
)

// Addr is a textual network address reporting the "tcp" network.
type Addr string

// Network always returns "tcp".
func (a Addr) Network() string { return "tcp" }

// String returns the address text.
func (a Addr) String() string { return string(a) }

// timeoutError is returned for expired deadlines. It unwraps to
// os.ErrDeadlineExceeded and reports Timeout()==true.
type timeoutError struct{}

func (timeoutError) Error() string   { return "i/o timeout" }
func (timeoutError) Timeout() bool   { return true }
func (timeoutError) Temporary() bool { return true }
func (timeoutError) Is(err error) bool {
	return err == os.ErrDeadlineExceeded
}

var errTimeout error = timeoutError{}

// shared is the state common to both ends of a pair. One mutex and one
// condition variable protect everything; the pair is small and contention is
// irrelevant for a test double.
type shared struct {
	mu   sync.Mutex
	cond *sync.Cond
}

type state uint8

const (
	stOpen   state = iota
	stClosed       // this end called Close, or initiated a Cut
	stReset        // the peer cut the connection
)

// Conn is one end of a buffered in-memory connection.
type Conn struct {
	sh    *shared
	peer  *Conn
	local Addr
	rem   Addr

	// All fields below are protected by sh.mu.
	in    []byte // bytes queued toward this end (written by the peer)
	state state  // open, closed (own Close or own Cut) or reset (peer's Cut)
	chunk int    // maximum bytes returned per Read, 0 = unlimited

	rdl, wdl     time.Time
	rtimer, wtmr *time.Timer
}

// Pipe creates a connected pair. client.LocalAddr() is clientAddr and
// client.RemoteAddr() is serverAddr; the server end mirrors that.
func Pipe(clientAddr, serverAddr string) (client, server *Conn) {
	sh := &shared{}
	sh.cond = sync.NewCond(&sh.mu)
	client = &Conn{sh: sh, local: Addr(clientAddr), rem: Addr(serverAddr)}
	server = &Conn{sh: sh, local: Addr(serverAddr), rem: Addr(clientAddr)}
	client.peer, server.peer = server, client
	return client, server
}

func opErr(op string, c *Conn, err error) error {
	return &net.OpError{Op: op, Net: "tcp", Source: c.local, Addr: c.rem, Err: err}
}

// Read returns buffered bytes, blocking until some are available, the peer
// closes (io.EOF after the buffer is drained), the connection is cut
// (ECONNRESET), this end is closed (net.ErrClosed) or the read deadline
// expires.
func (c *Conn) Read(p []byte) (int, error) {
	c.sh.mu.Lock()
	defer c.sh.mu.Unlock()
	for {
		if err := c.usable("read", c.rdl); err != nil {
			return 0, err
		}
		if len(p) == 0 {
			return 0, nil
		}
		if len(c.in) > 0 {
			n := len(p)
			if c.chunk > 0 && n > c.chunk {
				n = c.chunk
			}
			n = copy(p[:n], c.in)
			c.in = c.in[n:]
			if len(c.in) == 0 {
				c.in = nil // release the backing array
			}
			return n, nil
		}
		if c.peer.state != stOpen {
			return 0, io.EOF
		}
		c.sh.cond.Wait()
	}
}

// usable reports why this end cannot perform op right now, or nil.
func (c *Conn) usable(op string, deadline time.Time) error {
	switch c.state {
	case stClosed:
		return opErr(op, c, net.ErrClosed)
	case stReset:
		return opErr(op, c, syscall.ECONNRESET)
	}
	if !deadline.IsZero() && !time.Now().Before(deadline) {
		return opErr(op, c, errTimeout)
	}
	return nil
}

// Write appends p to the peer's inbound queue. It never blocks.
func (c *Conn) Write(p []byte) (int, error) {
	c.sh.mu.Lock()
	defer c.sh.mu.Unlock()
	if err := c.usable("write", c.wdl); err != nil {
		return 0, err
	}
	if c.peer.state != stOpen {
		return 0, opErr("write", c, syscall.EPIPE)
	}
	c.peer.in = append(c.peer.in, p...)
	c.sh.cond.Broadcast()
	return len(p), nil
}

// Close closes this end. Further Read/Write on it fail with net.ErrClosed;
// the peer drains what was already queued toward it and then reads io.EOF,
// and its writes fail with EPIPE. Closing an end twice returns net.ErrClosed
// (closing the victim end of a Cut succeeds once).
func (c *Conn) Close() error {
	c.sh.mu.Lock()
	defer c.sh.mu.Unlock()
	if c.state == stClosed {
		return opErr("close", c, net.ErrClosed)
	}
	c.state = stClosed
	c.in = nil
	c.stopTimers()
	c.sh.cond.Broadcast()
	return nil
}

// Cut abruptly tears the connection down: bytes queued in either direction
// and not yet read are dropped and both ends stop working. The peer's pending
// and future reads and writes fail immediately with ECONNRESET (nothing is
// drained). The cutting end observes net.ErrClosed, as after Close.
func (c *Conn) Cut() {
	c.sh.mu.Lock()
	defer c.sh.mu.Unlock()
	c.state = stClosed
	if c.peer.state == stOpen {
		c.peer.state = stReset
	}
	c.in, c.peer.in = nil, nil
	c.stopTimers()
	c.peer.stopTimers()
	c.sh.cond.Broadcast()
}

// SetChunk limits every Read from this end to at most n bytes (0 =
// unlimited) so that read boundaries can be forced.
func (c *Conn) SetChunk(n int) {
	c.sh.mu.Lock()
	if n < 0 {
		n = 0
	}
	c.chunk = n
	c.sh.mu.Unlock()
}

// Buffered reports the number of bytes queued toward this end and not yet
// read.
func (c *Conn) Buffered() int {
	c.sh.mu.Lock()
	defer c.sh.mu.Unlock()
	return len(c.in)
}

// Closed reports whether this end is no longer usable (closed by Close or by
// a Cut from either side).
func (c *Conn) Closed() bool {
	c.sh.mu.Lock()
	defer c.sh.mu.Unlock()
	return c.state != stOpen
}

// LocalAddr returns this end's address.
func (c *Conn) LocalAddr() net.Addr { return c.local }

// RemoteAddr returns the peer's address.
func (c *Conn) RemoteAddr() net.Addr { return c.rem }

// SetDeadline sets both the read and the write deadline.
func (c *Conn) SetDeadline(t time.Time) error {
	c.sh.mu.Lock()
	defer c.sh.mu.Unlock()
	if c.state == stClosed {
		return opErr("set", c, net.ErrClosed)
	}
	c.setRead(t)
	c.setWrite(t)
	return nil
}

// SetReadDeadline sets the read deadline; the zero time disables it. Blocked
// readers are woken to re-evaluate.
func (c *Conn) SetReadDeadline(t time.Time) error {
	c.sh.mu.Lock()
	defer c.sh.mu.Unlock()
	if c.state == stClosed {
		return opErr("set", c, net.ErrClosed)
	}
	c.setRead(t)
	return nil
}

// SetWriteDeadline sets the write deadline; the zero time disables it. Since
// writes never block it only matters when already expired at Write time.
func (c *Conn) SetWriteDeadline(t time.Time) error {
	c.sh.mu.Lock()
	defer c.sh.mu.Unlock()
	if c.state == stClosed {
		return opErr("set", c, net.ErrClosed)
	}
	c.setWrite(t)
	return nil
}

func (c *Conn) setRead(t time.Time) {
	c.rdl = t
	c.rtimer = c.arm(c.rtimer, t)
	c.sh.cond.Broadcast()
}

func (c *Conn) setWrite(t time.Time) {
	c.wdl = t
	c.wtmr = c.arm(c.wtmr, t)
	c.sh.cond.Broadcast()
}

// arm replaces old with a timer that wakes all waiters when t is reached.
func (c *Conn) arm(old *time.Timer, t time.Time) *time.Timer {
	if old != nil {
		old.Stop()
	}
	if t.IsZero() {
		return nil
	}
	d := time.Until(t)
	if d <= 0 {
		return nil
	}
	sh := c.sh
	return time.AfterFunc(d, func() {
		sh.mu.Lock()
		sh.cond.Broadcast()
		sh.mu.Unlock()
	})
}

func (c *Conn) stopTimers() {
	if c.rtimer != nil {
		c.rtimer.Stop()
		c.rtimer = nil
	}
	if c.wtmr != nil {
		c.wtmr.Stop()
		c.wtmr = nil
	}
}

var _ net.Conn = (*Conn)(nil)
