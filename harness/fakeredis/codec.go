package fakeredis

// An independent RESP2/RESP3 codec written from the protocol specification
// (https://redis.io/docs/latest/develop/reference/protocol-spec/). It is the
// oracle side of the harness and deliberately shares no code with the client
// under test.

import (
	"bufio"
	"errors"
	"fmt"
	"io"
	"math"
	"strconv"
	"strings"
)

// RESP type bytes used in Value.Typ.
const (
	TSimple   byte = '+'
	TError    byte = '-'
	TInt      byte = ':'
	TBulk     byte = '$'
	TArray    byte = '*'
	TMap      byte = '%'
	TSet      byte = '~'
	TPush     byte = '>'
	TNull     byte = '_'
	TDouble   byte = ','
	TBool     byte = '#'
	TBigNum   byte = '('
	TVerbatim byte = '='
	TBlobErr  byte = '!'
)

// Value is a reply tree.
//
//   - Simple, Error, Bulk, BlobErr, BigNumber: text in Str.
//   - Verbatim: Str holds "fmt:text" (the three letter format, a colon, the text).
//   - Double: Str holds the wire representation ("1.5", "inf", "-inf", "nan").
//   - Int: Int. Bool: Int is 1 or 0.
//   - Array, Set, Push: elements in Arr. Map: Arr holds key, value, key, value...
//   - Null: Typ '_' and Null true. A RESP2 null bulk / null array decodes to
//     Typ '$' / '*' with Null true; Null true on any type encodes as null.
//
// The zero Value (Typ 0) means "no reply".
type Value struct {
	Typ  byte
	Str  string
	Int  int64
	Arr  []Value
	Null bool
}

// Constructors.

func Simple(s string) Value  { return Value{Typ: TSimple, Str: s} }
func Err(s string) Value     { return Value{Typ: TError, Str: s} }
func Int(n int64) Value      { return Value{Typ: TInt, Int: n} }
func Bulk(s string) Value    { return Value{Typ: TBulk, Str: s} }
func Null() Value            { return Value{Typ: TNull, Null: true} }
func NullArray() Value       { return Value{Typ: TArray, Null: true} }
func Array(v ...Value) Value { return Value{Typ: TArray, Arr: nonNil(v)} }
func Set(v ...Value) Value   { return Value{Typ: TSet, Arr: nonNil(v)} }
func Push(v ...Value) Value  { return Value{Typ: TPush, Arr: nonNil(v)} }
func BigNumber(s string) Value {
	return Value{Typ: TBigNum, Str: s}
}
func BlobErr(s string) Value { return Value{Typ: TBlobErr, Str: s} }

// Map builds a map from alternating keys and values; it panics on an odd count.
func Map(kv ...Value) Value {
	if len(kv)%2 != 0 {
		panic("fakeredis: Map needs an even number of values")
	}
	return Value{Typ: TMap, Arr: nonNil(kv)}
}

// Double builds a RESP3 double.
func Double(f float64) Value { return Value{Typ: TDouble, Str: formatDouble(f)} }

// Bool builds a RESP3 boolean.
func Bool(b bool) Value {
	if b {
		return Value{Typ: TBool, Int: 1}
	}
	return Value{Typ: TBool}
}

// Verbatim builds a verbatim string; format must be three characters ("txt", "mkd").
func Verbatim(format, s string) Value {
	if len(format) != 3 {
		panic("fakeredis: verbatim format must be 3 characters")
	}
	return Value{Typ: TVerbatim, Str: format + ":" + s}
}

// BulkArray builds an array of bulk strings.
func BulkArray(ss ...string) Value {
	arr := make([]Value, len(ss))
	for i, s := range ss {
		arr[i] = Bulk(s)
	}
	return Value{Typ: TArray, Arr: arr}
}

func nonNil(v []Value) []Value {
	if v == nil {
		return []Value{}
	}
	return v
}

// IsError reports whether v is a simple or blob error.
func (v Value) IsError() bool { return v.Typ == TError || v.Typ == TBlobErr }

// IsNull reports whether v encodes as a null.
func (v Value) IsNull() bool { return v.Null || v.Typ == TNull }

// IsZero reports whether v is the "no reply" value.
func (v Value) IsZero() bool { return v.Typ == 0 }

// Float returns the numeric value of a Double.
func (v Value) Float() float64 {
	f, _ := parseDouble(v.Str)
	return f
}

// Equal reports deep equality, treating the three null spellings as equal and
// nil and empty Arr as equal.
func (v Value) Equal(o Value) bool {
	if v.IsNull() || o.IsNull() {
		return v.IsNull() == o.IsNull()
	}
	if v.Typ != o.Typ || v.Str != o.Str || v.Int != o.Int || len(v.Arr) != len(o.Arr) {
		return false
	}
	for i := range v.Arr {
		if !v.Arr[i].Equal(o.Arr[i]) {
			return false
		}
	}
	return true
}

// String renders v in a compact human readable form for logs and test output.
func (v Value) String() string {
	var b strings.Builder
	v.render(&b)
	return b.String()
}

func (v Value) render(b *strings.Builder) {
	if v.Typ == 0 {
		b.WriteString("<none>")
		return
	}
	if v.IsNull() {
		b.WriteString("_")
		return
	}
	switch v.Typ {
	case TInt:
		fmt.Fprintf(b, ":%d", v.Int)
	case TBool:
		if v.Int != 0 {
			b.WriteString("#t")
		} else {
			b.WriteString("#f")
		}
	case TArray, TSet, TPush, TMap:
		b.WriteByte(v.Typ)
		b.WriteByte('[')
		for i, e := range v.Arr {
			if i > 0 {
				b.WriteByte(' ')
			}
			e.render(b)
		}
		b.WriteByte(']')
	case TBulk:
		fmt.Fprintf(b, "%q", v.Str)
	default:
		b.WriteByte(v.Typ)
		b.WriteString(v.Str)
	}
}

// ---------------------------------------------------------------- encoding

// EncodeRESP3 serialises v using RESP3 types.
func (v Value) EncodeRESP3() []byte { return v.appendTo(nil, 3) }

// EncodeRESP2 serialises v after applying the downgrade Redis itself applies
// for RESP2 clients: map -> flat array, set and push -> array, null -> "$-1"
// (or "*-1" for a null array), double, big number and verbatim -> bulk string,
// boolean -> :1 / :0, blob error -> simple error.
func (v Value) EncodeRESP2() []byte { return v.appendTo(nil, 2) }

// Encode serialises v for the given protocol version (2 or 3).
func (v Value) Encode(proto int) []byte { return v.appendTo(nil, proto) }

func (v Value) appendTo(b []byte, proto int) []byte {
	if v.IsNull() {
		switch {
		case proto >= 3:
			return append(b, "_\r\n"...)
		case v.Typ == TArray || v.Typ == TMap || v.Typ == TSet || v.Typ == TPush:
			return append(b, "*-1\r\n"...)
		default:
			return append(b, "$-1\r\n"...)
		}
	}
	switch v.Typ {
	case TSimple:
		return appendLine(b, TSimple, oneLine(v.Str))
	case TError:
		return appendLine(b, TError, oneLine(v.Str))
	case TInt:
		return appendLine(b, TInt, strconv.FormatInt(v.Int, 10))
	case TBulk:
		return appendBlob(b, TBulk, v.Str)
	case TArray:
		return appendAgg(b, TArray, len(v.Arr), v.Arr, proto)
	case TSet, TPush:
		if proto < 3 {
			return appendAgg(b, TArray, len(v.Arr), v.Arr, proto)
		}
		return appendAgg(b, v.Typ, len(v.Arr), v.Arr, proto)
	case TMap:
		if proto < 3 {
			return appendAgg(b, TArray, len(v.Arr), v.Arr, proto)
		}
		return appendAgg(b, TMap, len(v.Arr)/2, v.Arr, proto)
	case TDouble:
		if proto < 3 {
			return appendBlob(b, TBulk, v.Str)
		}
		return appendLine(b, TDouble, v.Str)
	case TBool:
		if proto < 3 {
			if v.Int != 0 {
				return append(b, ":1\r\n"...)
			}
			return append(b, ":0\r\n"...)
		}
		if v.Int != 0 {
			return append(b, "#t\r\n"...)
		}
		return append(b, "#f\r\n"...)
	case TBigNum:
		if proto < 3 {
			return appendBlob(b, TBulk, v.Str)
		}
		return appendLine(b, TBigNum, v.Str)
	case TVerbatim:
		if proto < 3 {
			s := v.Str
			if len(s) >= 4 && s[3] == ':' {
				s = s[4:]
			}
			return appendBlob(b, TBulk, s)
		}
		return appendBlob(b, TVerbatim, v.Str)
	case TBlobErr:
		if proto < 3 {
			return appendLine(b, TError, oneLine(v.Str))
		}
		return appendBlob(b, TBlobErr, v.Str)
	}
	panic(fmt.Sprintf("fakeredis: cannot encode value type %q", v.Typ))
}

func appendLine(b []byte, typ byte, s string) []byte {
	b = append(b, typ)
	b = append(b, s...)
	return append(b, '\r', '\n')
}

func appendBlob(b []byte, typ byte, s string) []byte {
	b = append(b, typ)
	b = strconv.AppendInt(b, int64(len(s)), 10)
	b = append(b, '\r', '\n')
	b = append(b, s...)
	return append(b, '\r', '\n')
}

func appendAgg(b []byte, typ byte, n int, elems []Value, proto int) []byte {
	b = append(b, typ)
	b = strconv.AppendInt(b, int64(n), 10)
	b = append(b, '\r', '\n')
	for _, e := range elems {
		b = e.appendTo(b, proto)
	}
	return b
}

// oneLine makes s safe for a line-framed type: CR and LF become spaces.
func oneLine(s string) string {
	if !strings.ContainsAny(s, "\r\n") {
		return s
	}
	return strings.NewReplacer("\r", " ", "\n", " ").Replace(s)
}

func formatDouble(f float64) string {
	switch {
	case math.IsInf(f, 1):
		return "inf"
	case math.IsInf(f, -1):
		return "-inf"
	case math.IsNaN(f):
		return "nan"
	}
	return strconv.FormatFloat(f, 'g', -1, 64) // shortest form, as Redis 7.2 (fpconv_dtoa)
}

func parseDouble(s string) (float64, error) {
	switch strings.ToLower(s) {
	case "inf", "+inf":
		return math.Inf(1), nil
	case "-inf":
		return math.Inf(-1), nil
	case "nan":
		return math.NaN(), nil
	}
	return strconv.ParseFloat(s, 64)
}

// ---------------------------------------------------------------- decoding

// ErrProtocol is wrapped by every framing error reported by Decode and
// ReadCommand.
var ErrProtocol = errors.New("fakeredis: protocol error")

func protoErr(format string, a ...any) error {
	return fmt.Errorf("%w: "+format, append([]any{ErrProtocol}, a...)...)
}

// maxAggregate bounds declared lengths so that a corrupt stream cannot make the
// decoder allocate absurd amounts of memory.
const (
	maxAggregate = 1 << 24
	maxBlob      = 512 << 20
)

// Decode reads one complete RESP2 or RESP3 value. Attribute frames ('|') are
// read and discarded; the value that follows them is returned. io.EOF is
// returned only when the stream ends cleanly before the first byte of a value;
// a stream ending inside a value yields io.ErrUnexpectedEOF.
func Decode(r *bufio.Reader) (Value, error) {
	typ, err := r.ReadByte()
	if err != nil {
		return Value{}, err
	}
	v, err := decodeBody(r, typ)
	if err == io.EOF {
		err = io.ErrUnexpectedEOF
	}
	return v, err
}

func decodeNested(r *bufio.Reader) (Value, error) {
	typ, err := r.ReadByte()
	if err != nil {
		return Value{}, err
	}
	return decodeBody(r, typ)
}

func decodeBody(r *bufio.Reader, typ byte) (Value, error) {
	line, err := readLine(r)
	if err != nil {
		return Value{}, err
	}
	switch typ {
	case TSimple, TError, TBigNum:
		return Value{Typ: typ, Str: line}, nil
	case TInt:
		n, err := strconv.ParseInt(line, 10, 64)
		if err != nil {
			return Value{}, protoErr("bad integer %q", line)
		}
		return Value{Typ: TInt, Int: n}, nil
	case TNull:
		if line != "" {
			return Value{}, protoErr("bad null %q", line)
		}
		return Null(), nil
	case TBool:
		switch line {
		case "t":
			return Bool(true), nil
		case "f":
			return Bool(false), nil
		}
		return Value{}, protoErr("bad boolean %q", line)
	case TDouble:
		if _, err := parseDouble(line); err != nil {
			return Value{}, protoErr("bad double %q", line)
		}
		return Value{Typ: TDouble, Str: line}, nil
	case TBulk, TVerbatim, TBlobErr:
		n, err := parseLen(line, maxBlob)
		if err != nil {
			return Value{}, err
		}
		if n < 0 {
			if typ != TBulk {
				return Value{}, protoErr("negative length for %q", typ)
			}
			return Value{Typ: TBulk, Null: true}, nil
		}
		buf := make([]byte, n+2)
		if _, err := io.ReadFull(r, buf); err != nil {
			return Value{}, err
		}
		if buf[n] != '\r' || buf[n+1] != '\n' {
			return Value{}, protoErr("blob not terminated by CRLF")
		}
		if typ == TVerbatim && (n < 4 || buf[3] != ':') {
			return Value{}, protoErr("bad verbatim string")
		}
		return Value{Typ: typ, Str: string(buf[:n])}, nil
	case TArray, TSet, TPush, TMap, '|':
		n, err := parseLen(line, maxAggregate)
		if err != nil {
			return Value{}, err
		}
		if n < 0 {
			if typ != TArray {
				return Value{}, protoErr("negative length for %q", typ)
			}
			return NullArray(), nil
		}
		count := n
		if typ == TMap || typ == '|' {
			count = 2 * n
		}
		arr := make([]Value, 0, min(count, 1024))
		for i := 0; i < count; i++ {
			e, err := decodeNested(r)
			if err != nil {
				return Value{}, err
			}
			arr = append(arr, e)
		}
		if typ == '|' {
			return decodeNested(r) // the attribute is dropped, the real value follows
		}
		return Value{Typ: typ, Arr: arr}, nil
	}
	return Value{}, protoErr("unknown type byte %q", typ)
}

func parseLen(line string, limit int) (int, error) {
	n, err := strconv.Atoi(line)
	if err != nil || n < -1 || n > limit {
		return 0, protoErr("bad length %q", line)
	}
	return n, nil
}

// readLine reads up to CRLF and returns the line without it.
func readLine(r *bufio.Reader) (string, error) {
	var acc []byte
	for {
		frag, err := r.ReadSlice('\n')
		if err == bufio.ErrBufferFull {
			acc = append(acc, frag...)
			continue
		}
		if err != nil {
			return "", err
		}
		acc = append(acc, frag...)
		break
	}
	if len(acc) < 2 || acc[len(acc)-2] != '\r' {
		return "", protoErr("line not terminated by CRLF")
	}
	return string(acc[:len(acc)-2]), nil
}

// ReadCommand reads one request: a RESP array of bulk strings. Empty arrays
// are skipped as Redis does. Inline commands are not supported.
func ReadCommand(r *bufio.Reader) ([]string, error) {
	for {
		typ, err := r.ReadByte()
		if err != nil {
			return nil, err
		}
		if typ != TArray {
			return nil, protoErr("expected '*', got %q", typ)
		}
		argv, err := readCommandBody(r)
		if err == io.EOF {
			err = io.ErrUnexpectedEOF
		}
		if err != nil {
			return nil, err
		}
		if len(argv) > 0 {
			return argv, nil
		}
	}
}

func readCommandBody(r *bufio.Reader) ([]string, error) {
	line, err := readLine(r)
	if err != nil {
		return nil, err
	}
	n, err := parseLen(line, maxAggregate)
	if err != nil {
		return nil, err
	}
	if n <= 0 {
		return nil, nil
	}
	argv := make([]string, 0, min(n, 1024))
	for i := 0; i < n; i++ {
		typ, err := r.ReadByte()
		if err != nil {
			return nil, err
		}
		if typ != TBulk {
			return nil, protoErr("expected '$', got %q", typ)
		}
		v, err := decodeBody(r, TBulk)
		if err != nil {
			return nil, err
		}
		if v.Null {
			return nil, protoErr("null bulk string in a request")
		}
		argv = append(argv, v.Str)
	}
	return argv, nil
}

// EncodeCommand serialises a request as an array of bulk strings.
func EncodeCommand(argv ...string) []byte {
	return BulkArray(argv...).EncodeRESP2()
}
