package fakeredis

import (
	"fmt"
	"strings"
)

// Built-in defaults for server / cluster level commands. Drivers override
// them per test through the intercept (MOVED/ASK, CLUSTER SLOTS, SENTINEL ...).

func init() {
	reg("PING", -1, fPubSub, 0, 0, 0, cmdPing)
	reg("ECHO", 2, 0, 0, 0, 0, func(c *Conn, a []string) Value { return Bulk(a[1]) })
	reg("ROLE", 1, fNoScript, 0, 0, 0, cmdRole)
	reg("CLUSTER", -2, fNoScript, 0, 0, 0, cmdCluster)
	reg("READONLY", 1, fNoScript, 0, 0, 0, func(c *Conn, a []string) Value { c.readOnly = true; return ok })
	reg("READWRITE", 1, fNoScript, 0, 0, 0, func(c *Conn, a []string) Value { c.readOnly = false; return ok })
	reg("ASKING", 1, fNoScript, 0, 0, 0, func(c *Conn, a []string) Value { return ok })
	reg("INFO", -1, 0, 0, 0, 0, cmdInfo)
	reg("COMMAND", -1, 0, 0, 0, 0, cmdCommand)
	reg("TIME", 1, 0, 0, 0, 0, cmdTime)
	reg("WAIT", 3, fNoScript, 0, 0, 0, func(c *Conn, a []string) Value { return Int(0) })
}

func cmdPing(c *Conn, a []string) Value {
	if len(a) > 2 {
		return errArity("ping")
	}
	if c.proto == 2 && c.subCount()+len(c.ssubs) > 0 {
		msg := ""
		if len(a) == 2 {
			msg = a[1]
		}
		return Array(Bulk("pong"), Bulk(msg))
	}
	if len(a) == 2 {
		return Bulk(a[1])
	}
	return Simple("PONG")
}

func cmdRole(c *Conn, a []string) Value {
	if c.s.role == "slave" {
		return Array(Bulk("slave"), Bulk("127.0.0.1"), Int(6379), Bulk("connected"), Int(0))
	}
	return Array(Bulk("master"), Int(0), Array())
}

func cmdCluster(c *Conn, a []string) Value {
	return Err("ERR This instance has cluster support disabled")
}

func cmdInfo(c *Conn, a []string) Value {
	s := c.s
	var b strings.Builder
	b.WriteString("# Server\r\n")
	fmt.Fprintf(&b, "redis_version:%s\r\n", s.opt.Version)
	b.WriteString("redis_mode:standalone\r\n")
	fmt.Fprintf(&b, "availability_zone:%s\r\n", s.opt.AZ)
	b.WriteString("\r\n# Replication\r\n")
	fmt.Fprintf(&b, "role:%s\r\n", s.role)
	b.WriteString("\r\n# Keyspace\r\n")
	for _, d := range s.dbs {
		if n := len(d.keys); n > 0 {
			fmt.Fprintf(&b, "db%d:keys=%d,expires=0,avg_ttl=0\r\n", d.id, n)
		}
	}
	return Verbatim("txt", b.String())
}

func cmdCommand(c *Conn, a []string) Value {
	if len(a) >= 2 && upper(a[1]) == "COUNT" {
		return Int(int64(len(commands)))
	}
	return Array()
}

func cmdTime(c *Conn, a []string) Value {
	now := c.s.clock.Now()
	return BulkArray(itoa(now.Unix()), itoa(int64(now.Nanosecond()/1000)))
}
