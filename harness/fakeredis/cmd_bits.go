package fakeredis

import (
	"math"
	"math/bits"
)

func init() {
	reg("SETBIT", 4, fWrite, 1, 1, 1, cmdSetBit)
	reg("GETBIT", 3, fRO, 1, 1, 1, cmdGetBit)
	reg("BITCOUNT", -2, fRO, 1, 1, 1, cmdBitCount)
	reg("BITFIELD", -2, fWrite, 1, 1, 1, func(c *Conn, a []string) Value { return bitfield(c, a, false) })
	reg("BITFIELD_RO", -2, fRO, 1, 1, 1, func(c *Conn, a []string) Value { return bitfield(c, a, true) })
}

var errBitOffset = Err("ERR bit offset is not an integer or out of range")

// bitOffset parses a bit offset. With hash true a leading '#' multiplies the
// number by width (BITFIELD's positional form).
func bitOffset(s string, hash bool, width int64) (int64, bool) {
	mul := int64(1)
	if hash && len(s) > 0 && s[0] == '#' {
		s, mul = s[1:], width
	}
	n, isInt := parseInt(s)
	if !isInt || n < 0 || n > math.MaxInt64/mul {
		return 0, false
	}
	n *= mul
	if n>>3 >= maxStringLen {
		return 0, false
	}
	return n, true
}

func cmdSetBit(c *Conn, a []string) Value {
	off, good := bitOffset(a[2], false, 1)
	if !good {
		return errBitOffset
	}
	if a[3] != "0" && a[3] != "1" {
		return Err("ERR bit is not an integer or out of range")
	}
	e, bad := c.lookupKind(a[1], kString)
	if !bad.IsZero() {
		return bad
	}
	var buf []byte
	if e != nil {
		buf = []byte(e.str)
	}
	buf = growTo(buf, int(off>>3)+1)
	mask := byte(1) << (7 - uint(off&7))
	old := int64(0)
	if buf[off>>3]&mask != 0 {
		old = 1
	}
	if a[3] == "1" {
		buf[off>>3] |= mask
	} else {
		buf[off>>3] &^= mask
	}
	c.storeString(a[1], e, string(buf))
	return Int(old)
}

func growTo(buf []byte, n int) []byte {
	if len(buf) < n {
		buf = append(buf, make([]byte, n-len(buf))...)
	}
	return buf
}

// storeString writes s under key, keeping the TTL of an existing entry.
func (c *Conn) storeString(key string, e *entry, s string) {
	if e == nil {
		c.put(key, strEntry(s))
		return
	}
	e.str = s
	c.modified(key, e)
}

func cmdGetBit(c *Conn, a []string) Value {
	off, good := bitOffset(a[2], false, 1)
	if !good {
		return errBitOffset
	}
	e, bad := c.lookupKind(a[1], kString)
	if !bad.IsZero() {
		return bad
	}
	if e == nil || int(off>>3) >= len(e.str) {
		return Int(0)
	}
	return Int(int64(e.str[off>>3] >> (7 - uint(off&7)) & 1))
}

func cmdBitCount(c *Conn, a []string) Value {
	if len(a) == 3 || len(a) > 5 {
		return errSyntax
	}
	e, bad := c.lookupKind(a[1], kString)
	if !bad.IsZero() {
		return bad
	}
	var start, end int64
	byBit := false
	if len(a) >= 4 {
		var ok1, ok2 bool
		start, ok1 = parseInt(a[2])
		end, ok2 = parseInt(a[3])
		if !ok1 || !ok2 {
			return errNotInt
		}
		if len(a) == 5 {
			switch upper(a[4]) {
			case "BIT":
				byBit = true
			case "BYTE":
			default:
				return errSyntax
			}
		}
	}
	if e == nil {
		return Int(0)
	}
	n := int64(len(e.str))
	if byBit {
		n *= 8
	}
	if len(a) == 2 {
		start, end = 0, n-1
	}
	if start < 0 && end < 0 && start > end {
		return Int(0)
	}
	lo, hi, empty := clampRange(start, end, n)
	if empty {
		return Int(0)
	}
	var count int64
	if byBit {
		for i := lo; i < hi; i++ {
			count += int64(e.str[i>>3] >> (7 - uint(i&7)) & 1)
		}
	} else {
		for i := lo; i < hi; i++ {
			count += int64(bits.OnesCount8(e.str[i]))
		}
	}
	return Int(count)
}

// ---------------------------------------------------------------- BITFIELD

type overflowMode int

const (
	ovWrap overflowMode = iota
	ovSat
	ovFail
)

type bfOp struct {
	op     string // GET, SET, INCRBY
	signed bool
	width  int64
	offset int64
	arg    int64
	ov     overflowMode
}

func parseBitfieldType(s string) (signed bool, width int64, good bool) {
	if len(s) < 2 || (s[0] != 'i' && s[0] != 'u') {
		return false, 0, false
	}
	n, isInt := parseInt(s[1:])
	signed = s[0] == 'i'
	if !isInt || n < 1 || (signed && n > 64) || (!signed && n > 63) {
		return false, 0, false
	}
	return signed, n, true
}

func bitfield(c *Conn, a []string, readOnly bool) Value {
	var ops []bfOp
	ov := ovWrap
	write := false
	highest := int64(0)
	for i := 2; i < len(a); {
		op := upper(a[i])
		var need int
		switch op {
		case "GET":
			need = 2
		case "SET", "INCRBY":
			need = 3
		case "OVERFLOW":
			need = 1
		default:
			return errSyntax
		}
		if i+need >= len(a) {
			return errSyntax
		}
		if op == "OVERFLOW" {
			switch upper(a[i+1]) {
			case "WRAP":
				ov = ovWrap
			case "SAT":
				ov = ovSat
			case "FAIL":
				ov = ovFail
			default:
				return Err("ERR Invalid OVERFLOW type specified")
			}
			i += 2
			continue
		}
		signed, width, good := parseBitfieldType(a[i+1])
		if !good {
			return Err("ERR Invalid bitfield type. Use something like i16 u8. Note that u64 is not supported but i64 is.")
		}
		off, good := bitOffset(a[i+2], true, width)
		if !good || (off+width-1)>>3 >= maxStringLen {
			return errBitOffset
		}
		o := bfOp{op: op, signed: signed, width: width, offset: off, ov: ov}
		if op != "GET" {
			if readOnly {
				return Err("ERR BITFIELD_RO only supports the GET subcommand")
			}
			arg, isInt := parseInt(a[i+3])
			if !isInt {
				return errNotInt
			}
			o.arg = arg
			write = true
			highest = max(highest, off+width)
		}
		ops = append(ops, o)
		i += need + 1
	}
	e, bad := c.lookupKind(a[1], kString)
	if !bad.IsZero() {
		return bad
	}
	var buf []byte
	if e != nil {
		buf = []byte(e.str)
	}
	if write {
		buf = growTo(buf, int((highest+7)>>3))
	}
	out := make([]Value, 0, len(ops))
	changed := false
	for _, o := range ops {
		raw := getBits(buf, o.offset, o.width)
		cur := int64(raw)
		if o.signed && o.width < 64 && raw>>(uint(o.width)-1)&1 == 1 {
			cur = int64(raw | ^uint64(0)<<uint(o.width))
		}
		if o.op == "GET" {
			out = append(out, Int(cur))
			continue
		}
		base, incr, ret := cur, o.arg, int64(0)
		if o.op == "SET" {
			base, incr = o.arg, 0
		}
		var next int64
		var overflow bool
		if o.signed {
			next, overflow = signedAdd(base, incr, o.width, o.ov)
		} else {
			next, overflow = unsignedAdd(uint64(base), incr, o.width, o.ov)
		}
		if overflow && o.ov == ovFail {
			out = append(out, Null())
			continue
		}
		if o.op == "SET" {
			ret = cur
		} else {
			ret = next
		}
		setBits(buf, o.offset, o.width, uint64(next))
		changed = true
		out = append(out, Int(ret))
	}
	if changed || (write && e == nil) {
		c.storeString(a[1], e, string(buf))
	}
	return Array(out...)
}

func getBits(buf []byte, off, width int64) uint64 {
	var v uint64
	for i := int64(0); i < width; i++ {
		p := off + i
		var bit uint64
		if int(p>>3) < len(buf) {
			bit = uint64(buf[p>>3] >> (7 - uint(p&7)) & 1)
		}
		v = v<<1 | bit
	}
	return v
}

func setBits(buf []byte, off, width int64, v uint64) {
	for i := int64(0); i < width; i++ {
		p := off + i
		mask := byte(1) << (7 - uint(p&7))
		if v>>(uint(width-1-i))&1 == 1 {
			buf[p>>3] |= mask
		} else {
			buf[p>>3] &^= mask
		}
	}
}

// signedAdd adds incr to value within a signed integer of the given width,
// applying the overflow policy (Redis' checkSignedBitfieldOverflow).
func signedAdd(value, incr, width int64, ov overflowMode) (int64, bool) {
	hi := int64(math.MaxInt64)
	if width < 64 {
		hi = int64(1)<<(uint(width)-1) - 1
	}
	lo := -hi - 1
	maxIncr := int64(uint64(hi) - uint64(value))
	minIncr := int64(uint64(lo) - uint64(value))
	over := value > hi || (width != 64 && incr > maxIncr) || (value >= 0 && incr > 0 && incr > maxIncr)
	under := value < lo || (width != 64 && incr < minIncr) || (value < 0 && incr < 0 && incr < minIncr)
	if !over && !under {
		return value + incr, false
	}
	if ov == ovSat {
		if over {
			return hi, true
		}
		return lo, true
	}
	sum := uint64(value) + uint64(incr)
	if width < 64 {
		mask := ^uint64(0) << uint(width)
		if sum>>(uint(width)-1)&1 == 1 {
			sum |= mask
		} else {
			sum &^= mask
		}
	}
	return int64(sum), true
}

// unsignedAdd is the unsigned counterpart (width <= 63).
func unsignedAdd(value uint64, incr, width int64, ov overflowMode) (int64, bool) {
	hi := uint64(1)<<uint(width) - 1
	maxIncr := int64(hi - value)
	minIncr := -int64(value)
	over := value > hi || (incr > 0 && incr > maxIncr)
	under := !over && incr < 0 && incr < minIncr
	if !over && !under {
		return int64(value + uint64(incr)), false
	}
	if ov == ovSat {
		if over {
			return int64(hi), true
		}
		return 0, true
	}
	return int64((value + uint64(incr)) & hi), true
}
