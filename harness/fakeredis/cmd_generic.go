package fakeredis

import (
	"math"
	"strconv"
)

func init() {
	reg("DEL", -2, fWrite, 1, -1, 1, cmdDel)
	reg("UNLINK", -2, fWrite, 1, -1, 1, cmdDel)
	reg("EXISTS", -2, fRO, 1, -1, 1, cmdExists)
	reg("TOUCH", -2, fRO, 1, -1, 1, cmdExists)
	reg("EXPIRE", -3, fWrite, 1, 1, 1, func(c *Conn, a []string) Value { return expireGeneric(c, a, 1000, false) })
	reg("PEXPIRE", -3, fWrite, 1, 1, 1, func(c *Conn, a []string) Value { return expireGeneric(c, a, 1, false) })
	reg("EXPIREAT", -3, fWrite, 1, 1, 1, func(c *Conn, a []string) Value { return expireGeneric(c, a, 1000, true) })
	reg("PEXPIREAT", -3, fWrite, 1, 1, 1, func(c *Conn, a []string) Value { return expireGeneric(c, a, 1, true) })
	reg("PERSIST", 2, fWrite, 1, 1, 1, cmdPersist)
	reg("TTL", 2, fRO, 1, 1, 1, cmdTTL)
	reg("PTTL", 2, fRO, 1, 1, 1, cmdPTTL)
	reg("EXPIRETIME", 2, fRO, 1, 1, 1, func(c *Conn, a []string) Value { return expireTime(c, a[1], 1000) })
	reg("PEXPIRETIME", 2, fRO, 1, 1, 1, func(c *Conn, a []string) Value { return expireTime(c, a[1], 1) })
	reg("TYPE", 2, fRO, 1, 1, 1, cmdType)
	reg("RENAME", 3, fWrite, 1, 2, 1, func(c *Conn, a []string) Value { return rename(c, a, false) })
	reg("RENAMENX", 3, fWrite, 1, 2, 1, func(c *Conn, a []string) Value { return rename(c, a, true) })
	reg("KEYS", 2, fRO, 0, 0, 0, cmdKeys)
	reg("SCAN", -2, fRO, 0, 0, 0, cmdScan)
	reg("RANDOMKEY", 1, fRO, 0, 0, 0, cmdRandomKey)
	reg("DBSIZE", 1, fRO, 0, 0, 0, cmdDBSize)
	reg("FLUSHALL", -1, fWrite, 0, 0, 0, cmdFlushAll)
	reg("FLUSHDB", -1, fWrite, 0, 0, 0, cmdFlushDB)
}

func cmdDel(c *Conn, a []string) Value {
	var n int64
	for _, k := range a[1:] {
		if c.remove(k) {
			n++
		}
	}
	return Int(n)
}

func cmdExists(c *Conn, a []string) Value {
	var n int64
	for _, k := range a[1:] {
		if c.s.lookup(c.db(), k) != nil {
			n++
		}
	}
	return Int(n)
}

// expireGeneric implements EXPIRE, PEXPIRE, EXPIREAT and PEXPIREAT with the
// Redis 7 NX | XX | GT | LT flags.
func expireGeneric(c *Conn, a []string, unit int64, absolute bool) Value {
	n, isInt := parseInt(a[2])
	if !isInt {
		return errNotInt
	}
	var nx, xx, gt, lt bool
	for _, f := range a[3:] {
		switch upper(f) {
		case "NX":
			nx = true
		case "XX":
			xx = true
		case "GT":
			gt = true
		case "LT":
			lt = true
		default:
			return Err("ERR Unsupported option " + f)
		}
	}
	if nx && (xx || gt || lt) {
		return Err("ERR NX and XX, GT or LT options at the same time are not compatible")
	}
	if gt && lt {
		return Err("ERR GT and LT options at the same time are not compatible")
	}
	bad := Err("ERR invalid expire time in '" + lower(a[0]) + "' command")
	if unit > 1 && (n > math.MaxInt64/unit || n < math.MinInt64/unit) {
		return bad
	}
	when := n * unit
	now := c.s.nowMs()
	if !absolute {
		if when > 0 && when > math.MaxInt64-now {
			return bad
		}
		when += now
	}
	e := c.s.lookup(c.db(), a[1])
	if e == nil {
		return Int(0)
	}
	cur := e.expireAt // 0 = persistent, which GT/LT treat as infinite
	switch {
	case nx && cur != 0, xx && cur == 0:
		return Int(0)
	case gt && (cur == 0 || when <= cur):
		return Int(0)
	case lt && cur != 0 && when >= cur:
		return Int(0)
	}
	if when <= now {
		c.remove(a[1])
		return Int(1)
	}
	e.expireAt = when
	c.modified(a[1], e)
	return Int(1)
}

func cmdPersist(c *Conn, a []string) Value {
	e := c.s.lookup(c.db(), a[1])
	if e == nil || e.expireAt == 0 {
		return Int(0)
	}
	e.expireAt = 0
	c.modified(a[1], e)
	return Int(1)
}

func cmdTTL(c *Conn, a []string) Value {
	ms := c.s.ttlMs(c.db(), a[1])
	if ms < 0 {
		return Int(ms)
	}
	return Int((ms + 500) / 1000)
}

func cmdPTTL(c *Conn, a []string) Value { return Int(c.s.ttlMs(c.db(), a[1])) }

func expireTime(c *Conn, key string, unit int64) Value {
	e := c.s.lookup(c.db(), key)
	switch {
	case e == nil:
		return Int(-2)
	case e.expireAt == 0:
		return Int(-1)
	}
	return Int(e.expireAt / unit)
}

func cmdType(c *Conn, a []string) Value {
	e := c.s.lookup(c.db(), a[1])
	if e == nil {
		return Simple("none")
	}
	return Simple(e.kind.String())
}

func rename(c *Conn, a []string, nx bool) Value {
	src, dst := a[1], a[2]
	d := c.db()
	e := c.s.lookup(d, src)
	if e == nil {
		return errNoKey
	}
	if src == dst {
		if nx {
			return Int(0)
		}
		return ok
	}
	if nx && c.s.lookup(d, dst) != nil {
		return Int(0)
	}
	delete(d.keys, src)
	c.s.touch(d, src)
	c.put(dst, e)
	if nx {
		return Int(1)
	}
	return ok
}

func cmdKeys(c *Conn, a []string) Value {
	var out []string
	for _, k := range c.s.liveKeys(c.db()) {
		if globMatch(a[1], k) {
			out = append(out, k)
		}
	}
	return BulkArray(out...)
}

// cmdScan pages through the sorted key list; the cursor is the index of the
// next key. This is simpler than Redis' reverse-binary cursor but honours the
// same contract (full iteration ends with cursor 0).
func cmdScan(c *Conn, a []string) Value {
	cursor, err := strconv.ParseUint(a[1], 10, 64)
	if err != nil {
		return Err("ERR invalid cursor")
	}
	count, match, typ, bad := scanOptions(a[2:], true)
	if !bad.IsZero() {
		return bad
	}
	keys := c.s.liveKeys(c.db())
	var out []string
	i := int(min(cursor, uint64(len(keys))))
	for n := 0; i < len(keys) && n < count; i, n = i+1, n+1 {
		k := keys[i]
		if match != "" && !globMatch(match, k) {
			continue
		}
		if typ != "" && c.db().keys[k].kind.String() != typ {
			continue
		}
		out = append(out, k)
	}
	next := "0"
	if i < len(keys) {
		next = strconv.Itoa(i)
	}
	return Array(Bulk(next), BulkArray(out...))
}

// scanOptions parses [MATCH p] [COUNT n] [TYPE t] (TYPE only for SCAN).
func scanOptions(a []string, allowType bool) (count int, match, typ string, bad Value) {
	count = 10
	for i := 0; i < len(a); i += 2 {
		if i+1 >= len(a) {
			return 0, "", "", errSyntax
		}
		switch upper(a[i]) {
		case "COUNT":
			n, isInt := parseInt(a[i+1])
			if !isInt {
				return 0, "", "", errNotInt
			}
			if n < 1 {
				return 0, "", "", errSyntax
			}
			count = int(min(n, 1<<30))
		case "MATCH":
			match = a[i+1]
		case "TYPE":
			if !allowType {
				return 0, "", "", errSyntax
			}
			typ = lower(a[i+1])
		default:
			return 0, "", "", errSyntax
		}
	}
	return count, match, typ, Value{}
}

// cmdRandomKey is deterministic on purpose: the smallest live key.
func cmdRandomKey(c *Conn, a []string) Value {
	keys := c.s.liveKeys(c.db())
	if len(keys) == 0 {
		return Null()
	}
	return Bulk(keys[0])
}

func cmdDBSize(c *Conn, a []string) Value {
	return Int(int64(len(c.s.liveKeys(c.db()))))
}

func flushMode(a []string) Value {
	switch {
	case len(a) == 1:
	case len(a) == 2 && (upper(a[1]) == "SYNC" || upper(a[1]) == "ASYNC"):
	default:
		return errSyntax
	}
	return Value{}
}

func cmdFlushAll(c *Conn, a []string) Value {
	if bad := flushMode(a); !bad.IsZero() {
		return bad
	}
	for _, d := range c.s.dbs {
		c.s.flushDB(d)
	}
	c.s.invalidateAll()
	return ok
}

func cmdFlushDB(c *Conn, a []string) Value {
	if bad := flushMode(a); !bad.IsZero() {
		return bad
	}
	c.s.flushDB(c.db())
	c.s.invalidateAll()
	return ok
}
