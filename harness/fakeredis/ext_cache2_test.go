package fakeredis

import (
	"testing"
	"time"
)

// Untrack + ExecSplit are what a driver needs to script the Redis 6 wire shape (redis/redis#8935): a key changes
// without a push, the next transaction that touches it carries the push inside its EXEC array and the displaced
// element follows as a message of its own.
func TestUntrackAndExecSplit(t *testing.T) {
	s, rec := newServer(t, Options{Version: "6.2.0"})
	c := dial3(t, s)
	want(t, c.do("CLIENT", "TRACKING", "ON", "OPTIN"), Simple("OK"))
	s.Do("SET", "k", "v1")
	c.do("CLIENT", "CACHING", "YES")
	want(t, c.do("GET", "k"), Bulk("v1"))
	conn := s.Conns()[0]
	if !conn.Untrack("k") {
		t.Fatal("k was tracked")
	}
	if conn.Untrack("k") {
		t.Fatal("k is not tracked any more")
	}
	s.Do("SET", "k", "v2")
	c.expectNone(20 * time.Millisecond) // the change is not reported

	s.SetIntercept(func(cn *Conn, argv []string) (Value, Action) {
		if argv[0] != "EXEC" {
			return Value{}, Pass
		}
		cn.ExecSplit(argv, func(reply Value) []Value {
			// *2 >invalidate[k] :pttl  |  $value
			return []Value{Array(invalidate("k"), reply.Arr[0]), reply.Arr[1]}
		})
		return Value{}, Drop
	})
	for _, argv := range [][]string{{"CLIENT", "CACHING", "YES"}, {"MULTI"}, {"PTTL", "k"}, {"GET", "k"}, {"EXEC"}, {"PING"}} {
		c.send(argv...)
	}
	want(t, c.recv(), Simple("OK"))
	want(t, c.recv(), Simple("OK"))
	want(t, c.recv(), Simple("QUEUED"))
	want(t, c.recv(), Simple("QUEUED"))
	want(t, c.recv(), Array(invalidate("k"), Int(-1)))
	want(t, c.recv(), Bulk("v2"))
	want(t, c.recv(), Simple("PONG"))
	// the transaction was executed like any other: MULTI is over, the read is remembered again
	if conn.InMulti() {
		t.Fatal("still in MULTI")
	}
	if keys := conn.TrackedKeys(); len(keys) != 1 || keys[0] != "k" {
		t.Fatalf("tracked %v", keys)
	}
	// both frames were reported as replies, in order
	var reps int
	for _, ev := range rec.all() {
		if ev.Kind == SRep && ev.Conn == conn.ID() && (ev.Reply.Equal(Array(invalidate("k"), Int(-1))) || ev.Reply.Equal(Bulk("v2"))) {
			reps++
		}
	}
	if reps != 2 {
		t.Fatalf("%d SRep events for the split reply", reps)
	}
	s.Do("SET", "k", "v3")
	want(t, c.recv(), invalidate("k"))
}
