package fakeredis

import (
	"context"
	"crypto/tls"
	"fmt"
	"net"
	"sync"
	"syscall"
)

// Network is an address registry connecting client dialers to fake servers.
type Network struct {
	mu      sync.Mutex
	servers map[string]*Server
	hook    func(dst string) error
	nextSrc int
	dials   []string
}

// NewNetwork returns an empty registry.
func NewNetwork() *Network { return &Network{servers: map[string]*Server{}} }

// Add registers s under addr ("host:port"), replacing any previous entry.
func (n *Network) Add(addr string, s *Server) {
	n.mu.Lock()
	n.servers[addr] = s
	n.mu.Unlock()
}

// Remove unregisters addr; later dials to it are refused. Established
// connections are not affected.
func (n *Network) Remove(addr string) {
	n.mu.Lock()
	delete(n.servers, addr)
	n.mu.Unlock()
}

// Server returns the server registered under addr, or nil.
func (n *Network) Server(addr string) *Server {
	n.mu.Lock()
	defer n.mu.Unlock()
	return n.servers[addr]
}

// SetDialHook installs a function consulted before every dial; a non-nil
// error fails the dial with that error (nil removes the hook).
func (n *Network) SetDialHook(fn func(dst string) error) {
	n.mu.Lock()
	n.hook = fn
	n.mu.Unlock()
}

// Dials returns the destination of every dial attempted so far, in order.
func (n *Network) Dials() []string {
	n.mu.Lock()
	defer n.mu.Unlock()
	return append([]string(nil), n.dials...)
}

// Dial connects to the server registered under dst. Unknown addresses fail
// like a refused TCP connection.
func (n *Network) Dial(ctx context.Context, dst string) (net.Conn, error) {
	if err := ctx.Err(); err != nil {
		return nil, &net.OpError{Op: "dial", Net: "tcp", Addr: addrOf(dst), Err: err}
	}
	n.mu.Lock()
	n.dials = append(n.dials, dst)
	hook := n.hook
	s := n.servers[dst]
	n.nextSrc++
	src := fmt.Sprintf("127.0.0.1:%d", 40000+n.nextSrc)
	n.mu.Unlock()
	if hook != nil {
		if err := hook(dst); err != nil {
			return nil, &net.OpError{Op: "dial", Net: "tcp", Addr: addrOf(dst), Err: err}
		}
	}
	if s == nil {
		return nil, &net.OpError{Op: "dial", Net: "tcp", Addr: addrOf(dst), Err: syscall.ECONNREFUSED}
	}
	return s.dial(src, dst), nil
}

// DialCtxFn adapts the registry to rueidis.ClientOption.DialCtxFn. The dialer
// and TLS configuration are ignored: connections are in-memory and plain.
func (n *Network) DialCtxFn() func(context.Context, string, *net.Dialer, *tls.Config) (net.Conn, error) {
	return func(ctx context.Context, dst string, _ *net.Dialer, _ *tls.Config) (net.Conn, error) {
		return n.Dial(ctx, dst)
	}
}

type netAddr string

func (a netAddr) Network() string { return "tcp" }
func (a netAddr) String() string  { return string(a) }

func addrOf(s string) net.Addr { return netAddr(s) }
