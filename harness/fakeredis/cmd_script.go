package fakeredis

import (
	"crypto/sha1"
	"encoding/hex"
)

// Scripting commands. The Lua interpreter itself lives behind the two
// functions luaCompile and luaRun (lua.go), so that this file is independent
// of the interpreter package.

func init() {
	reg("EVAL", -3, fWrite|fNoScript, 0, 0, 0, func(c *Conn, a []string) Value { return eval(c, a, false, false) }).keysFn = evalKeys
	reg("EVALSHA", -3, fWrite|fNoScript, 0, 0, 0, func(c *Conn, a []string) Value { return eval(c, a, true, false) }).keysFn = evalKeys
	reg("EVAL_RO", -3, fRO|fNoTrack|fNoScript, 0, 0, 0, func(c *Conn, a []string) Value { return eval(c, a, false, true) }).keysFn = evalKeys
	reg("EVALSHA_RO", -3, fRO|fNoTrack|fNoScript, 0, 0, 0, func(c *Conn, a []string) Value { return eval(c, a, true, true) }).keysFn = evalKeys
	reg("SCRIPT", -2, fNoScript, 0, 0, 0, cmdScript)
}

type scriptEntry struct {
	sha      string
	src      string
	compiled any // opaque handle owned by lua.go
}

func scriptSHA(src string) string {
	sum := sha1.Sum([]byte(src))
	return hex.EncodeToString(sum[:])
}

func evalKeys(a []string) []string {
	if len(a) < 3 {
		return nil
	}
	n, isInt := parseInt(a[2])
	if !isInt || n <= 0 || int(n) > len(a)-3 {
		return nil
	}
	return a[3 : 3+n]
}

// loadScript compiles and caches a script body.
func (s *Server) loadScript(src string) (*scriptEntry, Value) {
	sha := scriptSHA(src)
	if e := s.scripts[sha]; e != nil {
		return e, Value{}
	}
	compiled, err := luaCompile(src)
	if err != nil {
		return nil, Err("ERR Error compiling script (new function): " + err.Error())
	}
	e := &scriptEntry{sha: sha, src: src, compiled: compiled}
	s.scripts[sha] = e
	return e, Value{}
}

func eval(c *Conn, a []string, bySHA, readOnly bool) Value {
	numKeys, isInt := parseInt(a[2])
	if !isInt {
		return errNotInt
	}
	if numKeys < 0 {
		return Err("ERR Number of keys can't be negative")
	}
	if int(numKeys) > len(a)-3 {
		return Err("ERR Number of keys can't be greater than number of args")
	}
	var script *scriptEntry
	if bySHA {
		script = c.s.scripts[lower(a[1])]
		if script == nil {
			return Err("NOSCRIPT No matching script. Please use EVAL.")
		}
	} else {
		var bad Value
		if script, bad = c.s.loadScript(a[1]); !bad.IsZero() {
			return bad
		}
	}
	keys, argv := a[3:3+numKeys], a[3+numKeys:]

	prevIn, prevRO := c.inScript, c.scriptRO
	c.inScript, c.scriptRO = true, readOnly
	c.s.depth++
	defer func() {
		c.s.depth--
		c.inScript, c.scriptRO = prevIn, prevRO
	}()
	v := luaRun(script.compiled, keys, argv, c.scriptCall)
	// The body ran: the EVAL itself is reported as executed even when the
	// script ends with an error, because earlier redis.call writes stand.
	c.execNote = "body:" + script.sha
	c.forceExec = true
	return v
}

// scriptCall executes one redis.call / redis.pcall from a running script.
func (c *Conn) scriptCall(args []string) Value {
	if len(args) == 0 {
		return Err("ERR Please specify at least one argument for this redis lib call")
	}
	cmd := commands[upper(args[0])]
	switch {
	case cmd == nil:
		return Err("ERR Unknown Redis command called from script")
	case !cmd.arityOK(len(args)):
		return Err("ERR Wrong number of args calling Redis command from script")
	case cmd.flags&fNoScript != 0:
		return Err("ERR This Redis command is not allowed from script")
	case c.scriptRO && cmd.flags&fWrite != 0:
		return Err("ERR Write commands are not allowed from read-only scripts.")
	}
	return c.call(cmd, args, "lua")
}

func cmdScript(c *Conn, a []string) Value {
	s := c.s
	switch sub := upper(a[1]); sub {
	case "LOAD":
		if len(a) != 3 {
			return errArity("script|load")
		}
		e, bad := s.loadScript(a[2])
		if !bad.IsZero() {
			return bad
		}
		return Bulk(e.sha)
	case "EXISTS":
		if len(a) < 3 {
			return errArity("script|exists")
		}
		out := make([]Value, 0, len(a)-2)
		for _, sha := range a[2:] {
			n := int64(0)
			if s.scripts[lower(sha)] != nil {
				n = 1
			}
			out = append(out, Int(n))
		}
		return Array(out...)
	case "FLUSH":
		if len(a) > 3 || (len(a) == 3 && upper(a[2]) != "SYNC" && upper(a[2]) != "ASYNC") {
			return Err("ERR SCRIPT FLUSH only support SYNC|ASYNC option")
		}
		s.scripts = map[string]*scriptEntry{}
		return ok
	case "KILL":
		return Err("NOTBUSY No scripts in execution right now.")
	}
	return Err("ERR unknown subcommand '" + a[1] + "'. Try SCRIPT HELP.")
}
