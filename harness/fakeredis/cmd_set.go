package fakeredis

import "sort"

func init() {
	reg("SADD", -3, fWrite, 1, 1, 1, cmdSAdd)
	reg("SREM", -3, fWrite, 1, 1, 1, cmdSRem)
	reg("SMEMBERS", 2, fRO, 1, 1, 1, cmdSMembers)
	reg("SISMEMBER", 3, fRO, 1, 1, 1, cmdSIsMember)
	reg("SMISMEMBER", -3, fRO, 1, 1, 1, cmdSMIsMember)
	reg("SCARD", 2, fRO, 1, 1, 1, cmdSCard)
}

func cmdSAdd(c *Conn, a []string) Value {
	e, bad := c.lookupKind(a[1], kSet)
	if !bad.IsZero() {
		return bad
	}
	created := e == nil
	if created {
		e = &entry{kind: kSet, set: map[string]struct{}{}}
	}
	var added int64
	for _, m := range a[2:] {
		if _, exists := e.set[m]; !exists {
			e.set[m] = struct{}{}
			added++
		}
	}
	if created || added > 0 {
		c.store(a[1], e, created)
	}
	return Int(added)
}

func cmdSRem(c *Conn, a []string) Value {
	e, bad := c.lookupKind(a[1], kSet)
	if !bad.IsZero() {
		return bad
	}
	if e == nil {
		return Int(0)
	}
	var n int64
	for _, m := range a[2:] {
		if _, exists := e.set[m]; exists {
			delete(e.set, m)
			n++
		}
	}
	if n > 0 {
		c.modified(a[1], e)
	}
	return Int(n)
}

// sortedMembers makes set replies deterministic (Redis' order is unspecified).
func sortedMembers(set map[string]struct{}) []string {
	out := make([]string, 0, len(set))
	for m := range set {
		out = append(out, m)
	}
	sort.Strings(out)
	return out
}

func cmdSMembers(c *Conn, a []string) Value {
	e, bad := c.lookupKind(a[1], kSet)
	if !bad.IsZero() {
		return bad
	}
	if e == nil {
		return Set()
	}
	v := BulkArray(sortedMembers(e.set)...)
	v.Typ = TSet
	return v
}

func cmdSIsMember(c *Conn, a []string) Value {
	e, bad := c.lookupKind(a[1], kSet)
	if !bad.IsZero() {
		return bad
	}
	if e != nil {
		if _, exists := e.set[a[2]]; exists {
			return Int(1)
		}
	}
	return Int(0)
}

func cmdSMIsMember(c *Conn, a []string) Value {
	e, bad := c.lookupKind(a[1], kSet)
	if !bad.IsZero() {
		return bad
	}
	out := make([]Value, 0, len(a)-2)
	for _, m := range a[2:] {
		n := int64(0)
		if e != nil {
			if _, exists := e.set[m]; exists {
				n = 1
			}
		}
		out = append(out, Int(n))
	}
	return Array(out...)
}

func cmdSCard(c *Conn, a []string) Value {
	e, bad := c.lookupKind(a[1], kSet)
	if !bad.IsZero() {
		return bad
	}
	if e == nil {
		return Int(0)
	}
	return Int(int64(len(e.set)))
}
