package fakeredis

// Extensions needed by the cluster family of the verification harness (harness/clustersim, cmd/clusterdrv).

func init() {
	// JSON.MSET key path value [key path value ...]: atomic, all-or-nothing on validation errors (RedisJSON 2.6).
	reg("JSON.MSET", -4, fWrite, 1, -1, 3, cmdJSONMSet)
}

// FlagTx marks the connection's open MULTI block as failed, exactly as Redis does when a command is rejected at
// queueing time (for example with -MOVED or -ASK in cluster mode): the following EXEC answers -EXECABORT. It is
// meant to be called from an InterceptFn that answers a queued command with an error. No effect outside MULTI.
func (c *Conn) FlagTx() {
	defer c.locked()()
	c.flagTx()
}

func cmdJSONMSet(c *Conn, a []string) Value {
	if (len(a)-1)%3 != 0 {
		return errArity("json.mset")
	}
	// validate everything first: nothing is written when one triplet is bad
	for i := 1; i < len(a); i += 3 {
		if _, good := parseJSONPath(a[i+1]); !good {
			return Err("ERR invalid path '" + a[i+1] + "'")
		}
		if _, err := jsonParse(a[i+2]); err != nil {
			return Err("ERR invalid JSON: " + err.Error())
		}
		e, bad := c.lookupKind(a[i], kJSON)
		if !bad.IsZero() {
			return bad
		}
		if p, _ := parseJSONPath(a[i+1]); !p.root() && e == nil {
			return Err("ERR new objects must be created at the root")
		}
	}
	for i := 1; i < len(a); i += 3 {
		if v := cmdJSONSet(c, []string{"JSON.SET", a[i], a[i+1], a[i+2]}); v.IsError() {
			return v
		}
	}
	return ok
}
