package fakeredis

import "math"

func init() {
	reg("LPUSH", -3, fWrite, 1, 1, 1, func(c *Conn, a []string) Value { return push(c, a, true, false) })
	reg("RPUSH", -3, fWrite, 1, 1, 1, func(c *Conn, a []string) Value { return push(c, a, false, false) })
	reg("LPUSHX", -3, fWrite, 1, 1, 1, func(c *Conn, a []string) Value { return push(c, a, true, true) })
	reg("RPUSHX", -3, fWrite, 1, 1, 1, func(c *Conn, a []string) Value { return push(c, a, false, true) })
	reg("LPOP", -2, fWrite, 1, 1, 1, func(c *Conn, a []string) Value { return pop(c, a, true) })
	reg("RPOP", -2, fWrite, 1, 1, 1, func(c *Conn, a []string) Value { return pop(c, a, false) })
	reg("LLEN", 2, fRO, 1, 1, 1, cmdLLen)
	reg("LRANGE", 4, fRO, 1, 1, 1, cmdLRange)
	reg("LINDEX", 3, fRO, 1, 1, 1, cmdLIndex)
	reg("LREM", 4, fWrite, 1, 1, 1, cmdLRem)
	reg("LSET", 4, fWrite, 1, 1, 1, cmdLSet)
	reg("LTRIM", 4, fWrite, 1, 1, 1, cmdLTrim)
	reg("BLPOP", -3, fWrite, 1, -2, 1, func(c *Conn, a []string) Value { return blockingPop(c, a, true) })
	reg("BRPOP", -3, fWrite, 1, -2, 1, func(c *Conn, a []string) Value { return blockingPop(c, a, false) })
}

func push(c *Conn, a []string, left, onlyIfExists bool) Value {
	e, bad := c.lookupKind(a[1], kList)
	if !bad.IsZero() {
		return bad
	}
	created := e == nil
	if created {
		if onlyIfExists {
			return Int(0)
		}
		e = &entry{kind: kList}
	}
	for _, v := range a[2:] {
		if left {
			e.list = append([]string{v}, e.list...)
		} else {
			e.list = append(e.list, v)
		}
	}
	c.store(a[1], e, created)
	return Int(int64(len(e.list)))
}

func popOne(e *entry, left bool) string {
	var v string
	if left {
		v, e.list = e.list[0], e.list[1:]
	} else {
		v, e.list = e.list[len(e.list)-1], e.list[:len(e.list)-1]
	}
	return v
}

func pop(c *Conn, a []string, left bool) Value {
	if len(a) > 3 {
		return errArity(a[0])
	}
	count, hasCount := int64(1), len(a) == 3
	if hasCount {
		n, isInt := parseInt(a[2])
		if !isInt || n < 0 {
			return Err("ERR value is out of range, must be positive")
		}
		count = n
	}
	e, bad := c.lookupKind(a[1], kList)
	if !bad.IsZero() {
		return bad
	}
	if e == nil {
		if hasCount {
			return NullArray()
		}
		return Null()
	}
	if !hasCount {
		v := popOne(e, left)
		c.modified(a[1], e)
		return Bulk(v)
	}
	var out []string
	for ; count > 0 && len(e.list) > 0; count-- {
		out = append(out, popOne(e, left))
	}
	if len(out) > 0 {
		c.modified(a[1], e)
	}
	return BulkArray(out...)
}

func cmdLLen(c *Conn, a []string) Value {
	e, bad := c.lookupKind(a[1], kList)
	if !bad.IsZero() {
		return bad
	}
	if e == nil {
		return Int(0)
	}
	return Int(int64(len(e.list)))
}

// clampRange converts Redis inclusive start/stop indexes (negative = from the
// end) into a Go half-open range over n elements; empty reports no overlap.
func clampRange(start, stop, n int64) (lo, hi int64, empty bool) {
	if start < 0 {
		start = max(n+start, 0)
	}
	if stop < 0 {
		stop = n + stop
	}
	if stop >= n {
		stop = n - 1
	}
	if start > stop || start >= n {
		return 0, 0, true
	}
	return start, stop + 1, false
}

func cmdLRange(c *Conn, a []string) Value {
	start, ok1 := parseInt(a[2])
	stop, ok2 := parseInt(a[3])
	if !ok1 || !ok2 {
		return errNotInt
	}
	e, bad := c.lookupKind(a[1], kList)
	if !bad.IsZero() {
		return bad
	}
	if e == nil {
		return Array()
	}
	lo, hi, empty := clampRange(start, stop, int64(len(e.list)))
	if empty {
		return Array()
	}
	return BulkArray(e.list[lo:hi]...)
}

func cmdLIndex(c *Conn, a []string) Value {
	idx, isInt := parseInt(a[2])
	if !isInt {
		return errNotInt
	}
	e, bad := c.lookupKind(a[1], kList)
	if !bad.IsZero() {
		return bad
	}
	if e == nil {
		return Null()
	}
	if idx < 0 {
		idx += int64(len(e.list))
	}
	if idx < 0 || idx >= int64(len(e.list)) {
		return Null()
	}
	return Bulk(e.list[idx])
}

func cmdLRem(c *Conn, a []string) Value {
	count, isInt := parseInt(a[2])
	if !isInt {
		return errNotInt
	}
	e, bad := c.lookupKind(a[1], kList)
	if !bad.IsZero() {
		return bad
	}
	if e == nil {
		return Int(0)
	}
	limit := int64(math.MaxInt64)
	if count != 0 {
		limit = count
		if limit < 0 {
			limit = -limit
		}
	}
	var removed int64
	keep := make([]string, 0, len(e.list))
	if count >= 0 {
		for _, v := range e.list {
			if v == a[3] && removed < limit {
				removed++
				continue
			}
			keep = append(keep, v)
		}
	} else {
		for i := len(e.list) - 1; i >= 0; i-- {
			if v := e.list[i]; v == a[3] && removed < limit {
				removed++
				continue
			}
			keep = append(keep, e.list[i])
		}
		for i, j := 0, len(keep)-1; i < j; i, j = i+1, j-1 {
			keep[i], keep[j] = keep[j], keep[i]
		}
	}
	if removed > 0 {
		e.list = keep
		c.modified(a[1], e)
	}
	return Int(removed)
}

func cmdLSet(c *Conn, a []string) Value {
	idx, isInt := parseInt(a[2])
	if !isInt {
		return errNotInt
	}
	e, bad := c.lookupKind(a[1], kList)
	if !bad.IsZero() {
		return bad
	}
	if e == nil {
		return errNoKey
	}
	if idx < 0 {
		idx += int64(len(e.list))
	}
	if idx < 0 || idx >= int64(len(e.list)) {
		return Err("ERR index out of range")
	}
	e.list[idx] = a[3]
	c.modified(a[1], e)
	return ok
}

func cmdLTrim(c *Conn, a []string) Value {
	start, ok1 := parseInt(a[2])
	stop, ok2 := parseInt(a[3])
	if !ok1 || !ok2 {
		return errNotInt
	}
	e, bad := c.lookupKind(a[1], kList)
	if !bad.IsZero() {
		return bad
	}
	if e == nil {
		return ok
	}
	lo, hi, empty := clampRange(start, stop, int64(len(e.list)))
	if empty {
		e.list = nil
	} else {
		e.list = append([]string(nil), e.list[lo:hi]...)
	}
	c.modified(a[1], e)
	return ok
}

// ---------------------------------------------------------------- blocking

// blockState describes a connection parked in BLPOP / BRPOP.
type blockState struct {
	argv     []string
	db       int
	keys     []string
	left     bool
	deadline int64 // unix ms per the server clock, 0 = wait forever
}

func blockingPop(c *Conn, a []string, left bool) Value {
	timeout, isFloat := parseFloat(a[len(a)-1])
	if !isFloat {
		return Err("ERR timeout is not a float or out of range")
	}
	if timeout < 0 {
		return Err("ERR timeout is negative")
	}
	keys := a[1 : len(a)-1]
	for _, k := range keys {
		e, bad := c.lookupKind(k, kList)
		if !bad.IsZero() {
			return bad
		}
		if e != nil {
			v := popOne(e, left)
			c.modified(k, e)
			return BulkArray(k, v)
		}
	}
	// Inside MULTI, scripts and on the admin connection the command does not
	// block (Redis behaves as if the timeout expired immediately).
	if c.admin || c.inScript || c.s.depth > 1 {
		return NullArray()
	}
	b := &blockState{argv: a, db: c.dbi, keys: keys, left: left}
	if timeout > 0 {
		b.deadline = c.s.nowMs() + int64(math.Ceil(timeout*1000))
	}
	c.blocked = b
	for _, k := range keys {
		dk := dbKey{c.dbi, k}
		c.s.blockedOn[dk] = append(c.s.blockedOn[dk], c)
	}
	return Value{}
}

// unblock removes the connection from every wait queue.
func (c *Conn) unblock() {
	b := c.blocked
	if b == nil {
		return
	}
	c.blocked = nil
	for _, k := range b.keys {
		dk := dbKey{b.db, k}
		q := c.s.blockedOn[dk]
		for i, x := range q {
			if x == c {
				q = append(q[:i:i], q[i+1:]...)
				break
			}
		}
		if len(q) == 0 {
			delete(c.s.blockedOn, dk)
		} else {
			c.s.blockedOn[dk] = q
		}
	}
}

// keyReady notes that a list key received elements while clients wait on it.
func (s *Server) keyReady(d *db, key string, e *entry) {
	if e.kind != kList || len(e.list) == 0 {
		return
	}
	dk := dbKey{d.id, key}
	if len(s.blockedOn[dk]) == 0 {
		return
	}
	for _, r := range s.ready {
		if r == dk {
			return
		}
	}
	s.ready = append(s.ready, dk)
}

// serveBlocked hands elements of ready keys to the clients blocked on them in
// FIFO order, then lets those clients continue with their pipelined commands.
// It reports whether anything happened.
func (s *Server) serveBlocked() bool {
	var resumed []*Conn
	for len(s.ready) > 0 {
		dk := s.ready[0]
		s.ready = s.ready[1:]
		d := s.dbs[dk.db]
		for len(s.blockedOn[dk]) > 0 {
			e := s.lookup(d, dk.key)
			if e == nil || e.kind != kList || len(e.list) == 0 {
				break
			}
			c := s.blockedOn[dk][0]
			b := c.blocked
			c.unblock()
			v := popOne(e, b.left)
			if len(e.list) == 0 {
				delete(d.keys, dk.key)
			}
			s.emit(Event{Kind: SExec, Conn: c.id, Argv: b.argv, Note: "unblocked"})
			s.touch(d, dk.key)
			c.sendReply(BulkArray(dk.key, v))
			resumed = append(resumed, c)
		}
	}
	for _, c := range resumed {
		c.drain()
	}
	return len(resumed) > 0
}

// timeoutBlocked answers blocked clients whose deadline has passed.
func (s *Server) timeoutBlocked() {
	now := s.nowMs()
	for _, c := range append([]*Conn(nil), s.live...) {
		if b := c.blocked; b != nil && b.deadline != 0 && b.deadline <= now {
			c.unblock()
			s.emit(Event{Kind: SExec, Conn: c.id, Argv: b.argv, Note: "timeout"})
			c.sendReply(NullArray())
			c.drain()
		}
	}
}
