package fakeredis

import (
	"strings"
	"testing"
	"time"
)

func TestStrings(t *testing.T) {
	clock := NewVirtualClock(time.UnixMilli(1_700_000_000_000))
	s, _ := newServer(t, Options{Clock: clock})
	do := s.Do
	want(t, do("SET", "k", "v"), Simple("OK"))
	want(t, do("SET", "k", "w", "NX"), Null())
	want(t, do("SET", "k", "w", "XX", "GET"), Bulk("v"))
	want(t, do("SET", "nk", "1", "XX"), Null())
	wantErrPrefix(t, do("SET", "k", "v", "NX", "XX"), "ERR syntax error")
	wantErrPrefix(t, do("SET", "k", "v", "EX", "0"), "ERR invalid expire time in 'set' command")
	wantErrPrefix(t, do("SET", "k", "v", "EX", "abc"), "ERR value is not an integer")
	want(t, do("SET", "t", "v", "PX", "1500"), Simple("OK"))
	want(t, do("PTTL", "t"), Int(1500))
	want(t, do("TTL", "t"), Int(2))
	want(t, do("SET", "t", "v2", "KEEPTTL"), Simple("OK"))
	want(t, do("PTTL", "t"), Int(1500))
	want(t, do("SET", "t", "v3"), Simple("OK"))
	want(t, do("PTTL", "t"), Int(-1))
	want(t, do("SET", "t", "v", "EXAT", "1700000010"), Simple("OK"))
	want(t, do("EXPIRETIME", "t"), Int(1700000010))
	want(t, do("PEXPIRETIME", "t"), Int(1700000010000))
	want(t, do("SET", "t", "v", "PXAT", "1700000000500"), Simple("OK"))
	want(t, do("PTTL", "t"), Int(500))
	want(t, do("PTTL", "missing"), Int(-2))
	want(t, do("SETNX", "k", "zz"), Int(0))
	want(t, do("SETNX", "nx", "zz"), Int(1))
	want(t, do("SETEX", "se", "10", "v"), Simple("OK"))
	want(t, do("TTL", "se"), Int(10))
	want(t, do("PSETEX", "pse", "10", "v"), Simple("OK"))
	want(t, do("PTTL", "pse"), Int(10))
	wantErrPrefix(t, do("SETEX", "se", "0", "v"), "ERR invalid expire time in 'setex' command")
	want(t, do("MSET", "a", "1", "b", "2"), Simple("OK"))
	want(t, do("MGET", "a", "nope", "b"), Array(Bulk("1"), Null(), Bulk("2")))
	want(t, do("MSETNX", "a", "9", "c", "3"), Int(0))
	want(t, do("MSETNX", "c", "3", "d", "4"), Int(1))
	wantErrPrefix(t, do("MSET", "a", "1", "b"), "ERR wrong number of arguments for 'mset' command")
	want(t, do("SET", "s", "Hello World"), Simple("OK"))
	want(t, do("GETRANGE", "s", "0", "4"), Bulk("Hello"))
	want(t, do("GETRANGE", "s", "-5", "-1"), Bulk("World"))
	want(t, do("GETRANGE", "s", "5", "2"), Bulk(""))
	want(t, do("GETRANGE", "s", "0", "100"), Bulk("Hello World"))
	want(t, do("SETRANGE", "s", "6", "Redis"), Int(11))
	want(t, do("GET", "s"), Bulk("Hello Redis"))
	want(t, do("SETRANGE", "pad", "3", "x"), Int(4))
	want(t, do("GET", "pad"), Bulk("\x00\x00\x00x"))
	want(t, do("STRLEN", "s"), Int(11))
	want(t, do("STRLEN", "missing"), Int(0))
	want(t, do("APPEND", "s", "!"), Int(12))
	want(t, do("APPEND", "newapp", "x"), Int(1))
	want(t, do("INCR", "n"), Int(1))
	want(t, do("INCRBY", "n", "41"), Int(42))
	want(t, do("DECR", "n"), Int(41))
	want(t, do("DECRBY", "n", "40"), Int(1))
	wantErrPrefix(t, do("INCR", "s"), "ERR value is not an integer or out of range")
	want(t, do("SET", "big", "9223372036854775807"), Simple("OK"))
	wantErrPrefix(t, do("INCR", "big"), "ERR increment or decrement would overflow")
	want(t, do("INCRBYFLOAT", "f", "10.5"), Bulk("10.5"))
	want(t, do("INCRBYFLOAT", "f", "0.1"), Bulk("10.6"))
	want(t, do("INCRBYFLOAT", "f", "-10.6"), Bulk("0"))
	wantErrPrefix(t, do("INCRBYFLOAT", "s", "1"), "ERR value is not a valid float")
	want(t, do("GETSET", "gs", "1"), Null())
	want(t, do("GETSET", "gs", "2"), Bulk("1"))
	want(t, do("GETDEL", "gs"), Bulk("2"))
	want(t, do("GETDEL", "gs"), Null())
	want(t, do("SET", "gx", "v"), Simple("OK"))
	want(t, do("GETEX", "gx", "PX", "100"), Bulk("v"))
	want(t, do("PTTL", "gx"), Int(100))
	want(t, do("GETEX", "gx", "PERSIST"), Bulk("v"))
	want(t, do("PTTL", "gx"), Int(-1))
	wantErrPrefix(t, do("GETEX", "gx", "BAD"), "ERR syntax error")
	// INCR keeps the TTL; SET drops it.
	do("SET", "ttl", "1", "PX", "1000")
	do("INCR", "ttl")
	want(t, do("PTTL", "ttl"), Int(1000))
}

func TestGenericAndExpire(t *testing.T) {
	clock := NewVirtualClock(time.UnixMilli(1_700_000_000_000))
	s, _ := newServer(t, Options{Clock: clock})
	do := s.Do
	do("MSET", "a", "1", "b", "2", "c", "3")
	want(t, do("DEL", "a", "zz"), Int(1))
	want(t, do("UNLINK", "b"), Int(1))
	want(t, do("EXISTS", "c", "c", "a"), Int(2))
	want(t, do("EXPIRE", "c", "10"), Int(1))
	want(t, do("TTL", "c"), Int(10))
	want(t, do("EXPIRE", "c", "20", "NX"), Int(0))
	want(t, do("EXPIRE", "c", "20", "XX"), Int(1))
	want(t, do("EXPIRE", "c", "5", "GT"), Int(0))
	want(t, do("EXPIRE", "c", "5", "LT"), Int(1))
	want(t, do("PEXPIRE", "c", "1500"), Int(1))
	want(t, do("PTTL", "c"), Int(1500))
	want(t, do("PERSIST", "c"), Int(1))
	want(t, do("PERSIST", "c"), Int(0))
	want(t, do("TTL", "c"), Int(-1))
	want(t, do("EXPIRE", "c", "5", "GT"), Int(0)) // a persistent key counts as infinite
	want(t, do("EXPIREAT", "c", "1700000100"), Int(1))
	want(t, do("TTL", "c"), Int(100))
	want(t, do("PEXPIREAT", "c", "1700000000001"), Int(1))
	want(t, do("PTTL", "c"), Int(1))
	want(t, do("EXPIRE", "missing", "5"), Int(0))
	want(t, do("EXPIRE", "c", "-1"), Int(1)) // a past deadline deletes
	want(t, do("EXISTS", "c"), Int(0))
	wantErrPrefix(t, do("EXPIRE", "c", "x"), "ERR value is not an integer")
	wantErrPrefix(t, do("EXPIRE", "c", "1", "NX", "XX"), "ERR NX and XX, GT or LT options at the same time are not compatible")

	want(t, do("TYPE", "none"), Simple("none"))
	do("SET", "s", "1")
	do("HSET", "h", "f", "v")
	do("RPUSH", "l", "x")
	do("SADD", "st", "x")
	do("ZADD", "z", "1", "x")
	want(t, do("TYPE", "s"), Simple("string"))
	want(t, do("TYPE", "h"), Simple("hash"))
	want(t, do("TYPE", "l"), Simple("list"))
	want(t, do("TYPE", "st"), Simple("set"))
	want(t, do("TYPE", "z"), Simple("zset"))
	want(t, do("DBSIZE"), Int(5))
	want(t, do("KEYS", "*"), BulkArray("h", "l", "s", "st", "z"))
	want(t, do("KEYS", "s*"), BulkArray("s", "st"))
	want(t, do("KEYS", "[hl]"), BulkArray("h", "l"))
	want(t, do("KEYS", "?t"), BulkArray("st"))
	want(t, do("RANDOMKEY"), Bulk("h"))
	want(t, do("RENAME", "s", "s2"), Simple("OK"))
	wantErrPrefix(t, do("RENAME", "s", "s3"), "ERR no such key")
	want(t, do("RENAMENX", "s2", "h"), Int(0))
	want(t, do("RENAMENX", "s2", "s"), Int(1))
	// SCAN pages through everything exactly once.
	for i := 0; i < 25; i++ {
		do("SET", "scan:"+string(rune('a'+i)), "1")
	}
	seen := map[string]int{}
	cursor := "0"
	for rounds := 0; ; rounds++ {
		page := do("SCAN", cursor, "MATCH", "scan:*", "COUNT", "7")
		for _, k := range page.Arr[1].Arr {
			seen[k.Str]++
		}
		cursor = page.Arr[0].Str
		if cursor == "0" {
			break
		}
		if rounds > 20 {
			t.Fatal("SCAN does not terminate")
		}
	}
	if len(seen) != 25 {
		t.Fatalf("SCAN saw %d keys", len(seen))
	}
	want(t, do("SCAN", "0", "TYPE", "hash", "COUNT", "100"), Array(Bulk("0"), BulkArray("h")))
	wantErrPrefix(t, do("SCAN", "x"), "ERR invalid cursor")
	// Databases are separate.
	want(t, do("SELECT", "1"), Simple("OK"))
	want(t, do("DBSIZE"), Int(0))
	do("SET", "only1", "1")
	want(t, do("FLUSHDB"), Simple("OK"))
	want(t, do("SELECT", "0"), Simple("OK"))
	if do("DBSIZE").Int == 0 {
		t.Fatal("FLUSHDB emptied another database")
	}
	want(t, do("FLUSHALL"), Simple("OK"))
	want(t, do("DBSIZE"), Int(0))
	want(t, do("RANDOMKEY"), Null())
	wantErrPrefix(t, do("SELECT", "16"), "ERR DB index is out of range")
}

func TestBits(t *testing.T) {
	s, _ := newServer(t, Options{})
	do := s.Do
	want(t, do("SETBIT", "b", "7", "1"), Int(0))
	want(t, do("GET", "b"), Bulk("\x01"))
	want(t, do("SETBIT", "b", "7", "0"), Int(1))
	want(t, do("SETBIT", "b", "0", "1"), Int(0))
	want(t, do("GETBIT", "b", "0"), Int(1))
	want(t, do("GETBIT", "b", "100"), Int(0))
	wantErrPrefix(t, do("SETBIT", "b", "-1", "1"), "ERR bit offset is not an integer or out of range")
	wantErrPrefix(t, do("SETBIT", "b", "1", "2"), "ERR bit is not an integer or out of range")
	do("SET", "c", "foobar")
	want(t, do("BITCOUNT", "c"), Int(26))
	want(t, do("BITCOUNT", "c", "0", "0"), Int(4))
	want(t, do("BITCOUNT", "c", "1", "1"), Int(6))
	want(t, do("BITCOUNT", "c", "5", "30", "BIT"), Int(17))
	want(t, do("BITCOUNT", "missing"), Int(0))
	// BITFIELD, examples from the Redis documentation.
	want(t, do("BITFIELD", "bf", "INCRBY", "i5", "100", "1", "GET", "u4", "0"), Array(Int(1), Int(0)))
	want(t, do("BITFIELD", "ov", "INCRBY", "u2", "100", "1", "OVERFLOW", "SAT", "INCRBY", "u2", "102", "1"), Array(Int(1), Int(1)))
	want(t, do("BITFIELD", "ov", "INCRBY", "u2", "100", "1", "OVERFLOW", "SAT", "INCRBY", "u2", "102", "1"), Array(Int(2), Int(2)))
	want(t, do("BITFIELD", "ov", "INCRBY", "u2", "100", "1", "OVERFLOW", "SAT", "INCRBY", "u2", "102", "1"), Array(Int(3), Int(3)))
	want(t, do("BITFIELD", "ov", "INCRBY", "u2", "100", "1", "OVERFLOW", "SAT", "INCRBY", "u2", "102", "1"), Array(Int(0), Int(3)))
	want(t, do("BITFIELD", "ov", "OVERFLOW", "FAIL", "INCRBY", "u2", "102", "1"), Array(Null()))
	want(t, do("BITFIELD", "sg", "SET", "i8", "0", "-100"), Array(Int(0)))
	want(t, do("BITFIELD", "sg", "GET", "i8", "0", "GET", "u8", "0"), Array(Int(-100), Int(156)))
	want(t, do("BITFIELD", "sg", "INCRBY", "i8", "0", "-100"), Array(Int(56))) // wraps
	want(t, do("BITFIELD", "sg", "OVERFLOW", "SAT", "INCRBY", "i8", "0", "100"), Array(Int(127)))
	want(t, do("BITFIELD", "sg", "OVERFLOW", "SAT", "INCRBY", "i8", "0", "-300"), Array(Int(-128)))
	want(t, do("BITFIELD", "sg", "SET", "u8", "#1", "255", "GET", "u8", "8"), Array(Int(0), Int(255)))
	want(t, do("BITFIELD", "w", "SET", "i64", "0", "-1", "GET", "i64", "0", "GET", "u63", "1"), Array(Int(0), Int(-1), Int(9223372036854775807)))
	want(t, do("BITFIELD", "w", "INCRBY", "i64", "0", "-9223372036854775808"), Array(Int(9223372036854775807)))
	want(t, do("BITFIELD_RO", "sg", "GET", "u8", "#1"), Array(Int(255)))
	wantErrPrefix(t, do("BITFIELD_RO", "sg", "SET", "u8", "0", "1"), "ERR BITFIELD_RO only supports the GET subcommand")
	wantErrPrefix(t, do("BITFIELD", "sg", "GET", "u64", "0"), "ERR Invalid bitfield type")
	wantErrPrefix(t, do("BITFIELD", "sg", "OVERFLOW", "NOPE"), "ERR Invalid OVERFLOW type specified")
	wantErrPrefix(t, do("BITFIELD", "sg", "GET", "u8"), "ERR syntax error")
}

func TestHashes(t *testing.T) {
	s, _ := newServer(t, Options{})
	do := s.Do
	want(t, do("HSET", "h", "a", "1", "b", "2"), Int(2))
	want(t, do("HSET", "h", "a", "9", "c", "3"), Int(1))
	want(t, do("HMSET", "h", "d", "4"), Simple("OK"))
	want(t, do("HSETNX", "h", "a", "x"), Int(0))
	want(t, do("HSETNX", "h", "e", "5"), Int(1))
	want(t, do("HGET", "h", "a"), Bulk("9"))
	want(t, do("HGET", "h", "zz"), Null())
	want(t, do("HGET", "nokey", "a"), Null())
	want(t, do("HMGET", "h", "a", "zz", "b"), Array(Bulk("9"), Null(), Bulk("2")))
	all := do("HGETALL", "h")
	if all.Typ != TMap || len(all.Arr) != 10 || all.Arr[0].Str != "a" || all.Arr[8].Str != "e" {
		t.Fatalf("HGETALL %v", all)
	}
	want(t, do("HKEYS", "h"), BulkArray("a", "b", "c", "d", "e"))
	want(t, do("HVALS", "h"), BulkArray("9", "2", "3", "4", "5"))
	want(t, do("HLEN", "h"), Int(5))
	want(t, do("HEXISTS", "h", "a"), Int(1))
	want(t, do("HEXISTS", "h", "zz"), Int(0))
	want(t, do("HSTRLEN", "h", "a"), Int(1))
	want(t, do("HINCRBY", "h", "a", "-10"), Int(-1))
	want(t, do("HINCRBY", "h", "new", "5"), Int(5))
	want(t, do("HINCRBYFLOAT", "h", "fl", "1.5"), Bulk("1.5"))
	do("HSET", "h", "str", "abc")
	wantErrPrefix(t, do("HINCRBY", "h", "str", "1"), "ERR hash value is not an integer")
	wantErrPrefix(t, do("HINCRBYFLOAT", "h", "str", "1"), "ERR hash value is not a float")
	want(t, do("HDEL", "h", "a", "b", "zz"), Int(2))
	page := do("HSCAN", "h", "0", "MATCH", "*", "COUNT", "100")
	if page.Arr[0].Str != "0" || len(page.Arr[1].Arr) != 2*int(do("HLEN", "h").Int) {
		t.Fatalf("HSCAN %v", page)
	}
	// Removing the last field removes the key.
	do("HSET", "one", "f", "v")
	want(t, do("HDEL", "one", "f"), Int(1))
	want(t, do("EXISTS", "one"), Int(0))
	do("SET", "s", "x")
	wantErrPrefix(t, do("HSET", "s", "f", "v"), "WRONGTYPE")
	wantErrPrefix(t, do("HGETALL", "s"), "WRONGTYPE")
	wantErrPrefix(t, do("HSET", "h", "f"), "ERR wrong number of arguments for 'hset' command")
	// RESP2 sees HGETALL as a flat array.
	c := dial(t, s)
	flat := c.do("HGETALL", "one2")
	if flat.Typ != TArray {
		t.Fatalf("RESP2 HGETALL type %q", flat.Typ)
	}
}

func TestLists(t *testing.T) {
	s, _ := newServer(t, Options{})
	do := s.Do
	want(t, do("RPUSH", "l", "a", "b", "c"), Int(3))
	want(t, do("LPUSH", "l", "x", "y"), Int(5))
	want(t, do("LRANGE", "l", "0", "-1"), BulkArray("y", "x", "a", "b", "c"))
	want(t, do("LRANGE", "l", "1", "2"), BulkArray("x", "a"))
	want(t, do("LRANGE", "l", "-2", "100"), BulkArray("b", "c"))
	want(t, do("LRANGE", "l", "3", "1"), Array())
	want(t, do("LRANGE", "nokey", "0", "-1"), Array())
	want(t, do("LLEN", "l"), Int(5))
	want(t, do("LINDEX", "l", "0"), Bulk("y"))
	want(t, do("LINDEX", "l", "-1"), Bulk("c"))
	want(t, do("LINDEX", "l", "9"), Null())
	want(t, do("LPOP", "l"), Bulk("y"))
	want(t, do("RPOP", "l"), Bulk("c"))
	want(t, do("LPOP", "l", "2"), BulkArray("x", "a"))
	want(t, do("LPOP", "nokey"), Null())
	nullArr := do("LPOP", "nokey", "2")
	if !nullArr.IsNull() || nullArr.Typ != TArray {
		t.Fatalf("LPOP count on a missing key: %v", nullArr)
	}
	want(t, do("RPOP", "l", "5"), BulkArray("b"))
	want(t, do("EXISTS", "l"), Int(0))
	do("RPUSH", "r", "a", "b", "a", "c", "a")
	want(t, do("LREM", "r", "2", "a"), Int(2))
	want(t, do("LRANGE", "r", "0", "-1"), BulkArray("b", "c", "a"))
	do("RPUSH", "r2", "a", "b", "a", "c", "a")
	want(t, do("LREM", "r2", "-2", "a"), Int(2))
	want(t, do("LRANGE", "r2", "0", "-1"), BulkArray("a", "b", "c"))
	want(t, do("LREM", "r2", "0", "zz"), Int(0))
	want(t, do("LSET", "r2", "1", "B"), Simple("OK"))
	wantErrPrefix(t, do("LSET", "r2", "9", "B"), "ERR index out of range")
	want(t, do("LTRIM", "r2", "1", "-1"), Simple("OK"))
	want(t, do("LRANGE", "r2", "0", "-1"), BulkArray("B", "c"))
	want(t, do("LPUSHX", "nolist", "x"), Int(0))
	want(t, do("RPUSHX", "r2", "x"), Int(3))
	do("SET", "s", "x")
	wantErrPrefix(t, do("LPUSH", "s", "v"), "WRONGTYPE")
	wantErrPrefix(t, do("LPOP", "l", "-1"), "ERR value is out of range, must be positive")
}

func TestSetsAndSortedSets(t *testing.T) {
	s, _ := newServer(t, Options{})
	do := s.Do
	want(t, do("SADD", "s", "b", "a", "b"), Int(2))
	members := do("SMEMBERS", "s")
	if members.Typ != TSet {
		t.Fatalf("SMEMBERS type %q", members.Typ)
	}
	want(t, members, Set(Bulk("a"), Bulk("b")))
	want(t, do("SISMEMBER", "s", "a"), Int(1))
	want(t, do("SISMEMBER", "s", "z"), Int(0))
	want(t, do("SMISMEMBER", "s", "a", "z"), Array(Int(1), Int(0)))
	want(t, do("SCARD", "s"), Int(2))
	want(t, do("SREM", "s", "a", "z"), Int(1))
	want(t, do("SREM", "s", "b"), Int(1))
	want(t, do("EXISTS", "s"), Int(0))
	want(t, do("SMEMBERS", "s"), Set())

	want(t, do("ZADD", "z", "2", "b", "1", "a", "3", "c"), Int(3))
	want(t, do("ZADD", "z", "5", "a", "4", "d"), Int(1))
	want(t, do("ZADD", "z", "CH", "6", "a", "4", "d"), Int(1))
	want(t, do("ZADD", "z", "NX", "9", "a"), Int(0))
	want(t, do("ZADD", "z", "XX", "9", "new"), Int(0))
	want(t, do("ZADD", "z", "GT", "CH", "1", "a"), Int(0))
	want(t, do("ZADD", "z", "INCR", "1", "a"), Double(7))
	want(t, do("ZADD", "z", "NX", "INCR", "1", "a"), Null())
	wantErrPrefix(t, do("ZADD", "z", "NX", "XX", "1", "a"), "ERR XX and NX options at the same time are not compatible")
	wantErrPrefix(t, do("ZADD", "z", "x", "a"), "ERR value is not a valid float")
	want(t, do("ZSCORE", "z", "a"), Double(7))
	want(t, do("ZSCORE", "z", "zz"), Null())
	want(t, do("ZCARD", "z"), Int(4))
	want(t, do("ZRANGE", "z", "0", "-1"), BulkArray("b", "c", "d", "a"))
	want(t, do("ZRANGE", "z", "0", "1", "REV"), BulkArray("a", "d"))
	want(t, do("ZRANGE", "z", "0", "1", "WITHSCORES"), Array(Array(Bulk("b"), Double(2)), Array(Bulk("c"), Double(3))))
	want(t, do("ZRANGE", "z", "(2", "4", "BYSCORE"), BulkArray("c", "d"))
	want(t, do("ZRANGE", "z", "+inf", "-inf", "BYSCORE", "REV", "LIMIT", "1", "2"), BulkArray("d", "c"))
	want(t, do("ZRANGEBYSCORE", "z", "-inf", "+inf", "LIMIT", "1", "2"), BulkArray("c", "d"))
	want(t, do("ZINCRBY", "z", "0.5", "b"), Double(2.5))
	want(t, do("ZREM", "z", "a", "b", "zz"), Int(2))
	// RESP2 shapes: flat member/score list, scores as bulk strings.
	c := dial(t, s)
	want(t, c.do("ZRANGE", "z", "0", "-1", "WITHSCORES"), BulkArray("c", "3", "d", "4"))
	want(t, c.do("ZSCORE", "z", "c"), Bulk("3"))
	want(t, c.do("SMEMBERS", "nope"), Array())
	// Equal scores order by member.
	do("ZADD", "eq", "1", "b", "1", "a", "1", "c")
	want(t, do("ZRANGE", "eq", "0", "-1"), BulkArray("a", "b", "c"))
}

func TestJSON(t *testing.T) {
	s, _ := newServer(t, Options{})
	do := s.Do
	doc := `{"ver":1,"name":"x","nested":{"n":2.5,"list":[1,2,3]}}`
	want(t, do("JSON.SET", "j", "$", doc), Simple("OK"))
	want(t, do("TYPE", "j"), Simple("ReJSON-RL"))
	want(t, do("JSON.GET", "j"), Bulk(doc)) // member order is preserved
	want(t, do("JSON.GET", "j", "."), Bulk(doc))
	want(t, do("JSON.GET", "j", "$"), Bulk("["+doc+"]"))
	want(t, do("JSON.GET", "j", "$.ver"), Bulk("[1]"))
	want(t, do("JSON.GET", "j", ".ver"), Bulk("1"))
	want(t, do("JSON.GET", "j", "ver"), Bulk("1"))
	want(t, do("JSON.GET", "j", "$.nested.list[1]"), Bulk("[2]"))
	want(t, do("JSON.GET", "j", ".name"), Bulk(`"x"`))
	want(t, do("JSON.GET", "j", "$.missing"), Bulk("[]"))
	wantErrPrefix(t, do("JSON.GET", "j", ".missing"), "ERR Path '.missing' does not exist")
	want(t, do("JSON.GET", "nokey", "$"), Null())
	want(t, do("JSON.NUMINCRBY", "j", "ver", "1"), Bulk("2"))
	want(t, do("JSON.NUMINCRBY", "j", "$.ver", "1"), Bulk("[3]"))
	want(t, do("JSON.NUMINCRBY", "j", "$.nested.n", "0.5"), Bulk("[3.0]"))
	wantErrPrefix(t, do("JSON.NUMINCRBY", "j", ".name", "1"), "ERR WRONGTYPE")
	want(t, do("JSON.SET", "j", "$.name", `"y"`), Simple("OK"))
	want(t, do("JSON.SET", "j", "$.added", `[true,null]`), Simple("OK"))
	want(t, do("JSON.GET", "j", "$.added"), Bulk("[[true,null]]"))
	want(t, do("JSON.SET", "j", "$", "{}", "NX"), Null())
	wantErrPrefix(t, do("JSON.SET", "j2", "$.a", "1"), "ERR new objects must be created at the root")
	wantErrPrefix(t, do("JSON.SET", "j2", "$", "{bad"), "ERR invalid JSON")
	do("JSON.SET", "k2", "$", `{"ver":7}`)
	want(t, do("JSON.MGET", "j", "nokey", "k2", "$.ver"), Array(Bulk("[3]"), Null(), Bulk("[7]")))
	want(t, do("JSON.MGET", "j", "k2", ".ver"), Array(Bulk("3"), Bulk("7")))
	want(t, do("JSON.TYPE", "j", "$.ver"), Array(Bulk("integer")))
	want(t, do("JSON.DEL", "j", "$.added"), Int(1))
	want(t, do("JSON.DEL", "j", "$.added"), Int(0))
	want(t, do("JSON.DEL", "j"), Int(1))
	want(t, do("EXISTS", "j"), Int(0))
	do("SET", "str", "x")
	wantErrPrefix(t, do("JSON.GET", "str"), "WRONGTYPE")
	// JSON.GET participates in client side caching.
	c := dial3(t, s)
	c.do("CLIENT", "TRACKING", "ON")
	c.do("JSON.GET", "k2", ".")
	do("JSON.NUMINCRBY", "k2", "ver", "1")
	want(t, c.recv(), invalidate("k2"))
}

func TestScripting(t *testing.T) {
	s, rec := newServer(t, Options{})
	if v := s.Do("EVAL", "return 1", "0"); v.IsError() && strings.Contains(v.Str, "noluamini") {
		t.Skip("built without the Lua interpreter")
	}
	do := s.Do
	want(t, do("EVAL", "return 1", "0"), Int(1))
	want(t, do("EVAL", "return {KEYS[1],ARGV[1],ARGV[2]}", "1", "k", "a", "b"), BulkArray("k", "a", "b"))
	want(t, do("EVAL", "return redis.call('SET',KEYS[1],ARGV[1])", "1", "k", "v"), Simple("OK"))
	want(t, do("GET", "k"), Bulk("v"))
	want(t, do("EVAL", "return redis.call('GET',KEYS[1])", "1", "k"), Bulk("v"))
	want(t, do("EVAL", "return redis.call('GET',KEYS[1])", "1", "missing"), Null())
	want(t, do("EVAL", "return redis.call('INCR',KEYS[1])", "1", "n"), Int(1))
	do("HSET", "h", "a", "1", "b", "2")
	want(t, do("EVAL", "return redis.call('HGETALL',KEYS[1])", "1", "h"), BulkArray("a", "1", "b", "2")) // RESP2 shape inside scripts
	// sha1 of the body, lower-case hex.
	sha := do("SCRIPT", "LOAD", "return ARGV[1]")
	want(t, sha, Bulk(scriptSHA("return ARGV[1]")))
	if len(sha.Str) != 40 || sha.Str != strings.ToLower(sha.Str) {
		t.Fatalf("sha %q", sha.Str)
	}
	want(t, do("EVALSHA", sha.Str, "0", "hi"), Bulk("hi"))
	want(t, do("EVALSHA", strings.ToUpper(sha.Str), "0", "hi"), Bulk("hi"))
	want(t, do("SCRIPT", "EXISTS", sha.Str, strings.Repeat("0", 40)), Array(Int(1), Int(0)))
	wantErrPrefix(t, do("EVALSHA", strings.Repeat("0", 40), "0"), "NOSCRIPT No matching script. Please use EVAL.")
	// EVAL caches the body for EVALSHA.
	want(t, do("EVALSHA", scriptSHA("return 1"), "0"), Int(1))
	want(t, do("SCRIPT", "FLUSH"), Simple("OK"))
	wantErrPrefix(t, do("EVALSHA", sha.Str, "0"), "NOSCRIPT")
	wantErrPrefix(t, do("EVAL", "return 1", "-1"), "ERR Number of keys can't be negative")
	wantErrPrefix(t, do("EVAL", "return 1", "2", "k"), "ERR Number of keys can't be greater than number of args")
	wantErrPrefix(t, do("EVAL", "this is not lua", "0"), "ERR Error compiling script")
	// Read-only variants.
	want(t, do("EVAL_RO", "return redis.call('GET',KEYS[1])", "1", "k"), Bulk("v"))
	ro := do("EVAL_RO", "return redis.call('SET',KEYS[1],'x')", "1", "k")
	if !ro.IsError() || !strings.Contains(ro.Str, "Write commands are not allowed from read-only scripts") {
		t.Fatalf("EVAL_RO write: %v", ro)
	}
	want(t, do("GET", "k"), Bulk("v"))
	notAllowed := do("EVAL", "return redis.call('MULTI')", "0")
	if !notAllowed.IsError() || !strings.Contains(notAllowed.Str, "not allowed from script") {
		t.Fatalf("MULTI from script: %v", notAllowed)
	}

	// Events: the EVAL itself (with the body sha) and each inner command (Note "lua").
	mark := rec.all()[len(rec.all())-1].Seq
	body := "redis.call('SET',KEYS[1],'1') return redis.call('INCR',KEYS[1])"
	want(t, do("EVAL", body, "1", "ev"), Int(2))
	var order []string
	for _, ev := range rec.all() {
		if ev.Seq > mark && ev.Kind == SExec {
			order = append(order, ev.Argv[0]+"/"+ev.Note)
		}
	}
	if got := strings.Join(order, " "); got != "EVAL/body:"+scriptSHA(body)+" SET/lua INCR/lua" {
		t.Fatalf("script events: %s", got)
	}
	// A script whose body ran but ended in an error still reports the EVAL as executed.
	mark = rec.all()[len(rec.all())-1].Seq
	failing := "redis.call('SET',KEYS[1],'kept') return redis.call('INCR',KEYS[1])"
	if v := do("EVAL", failing, "1", "partial"); !v.IsError() {
		t.Fatalf("want error, got %v", v)
	}
	want(t, do("GET", "partial"), Bulk("kept"))
	if _, found := rec.find(mark, func(e Event) bool { return e.Kind == SExec && e.Argv[0] == "EVAL" }); !found {
		t.Fatal("no SExec for an EVAL whose body ran")
	}

	// Scripts are atomic and their writes invalidate; reads inside track.
	c := dial3(t, s)
	c.do("CLIENT", "TRACKING", "ON")
	c.do("GET", "sk")
	do("EVAL", "return redis.call('SET',KEYS[1],ARGV[1])", "1", "sk", "x")
	want(t, c.recv(), invalidate("sk"))
	want(t, c.do("EVAL", "return redis.call('GET',KEYS[1])", "1", "sk"), Bulk("x"))
	do("DEL", "sk")
	want(t, c.recv(), invalidate("sk"))
	// A script's own write to a key the caller tracks: result first, then the push.
	c.do("GET", "own")
	c.send("EVAL", "redis.call('SET',KEYS[1],'1') return 'done'", "1", "own")
	want(t, c.recv(), Bulk("done"))
	want(t, c.recv(), invalidate("own"))

	// The save script of the om add-on (version check then bump).
	om := `
if (ARGV[1] == '')
then
  redis.call('JSON.SET',KEYS[1],'$',ARGV[3])
  return ARGV[2]
end
local v = redis.call('JSON.GET',KEYS[1],ARGV[1])
if (not v or v == ARGV[2])
then
  redis.call('JSON.SET',KEYS[1],'$',ARGV[3])
  local v = redis.call('JSON.NUMINCRBY',KEYS[1],ARGV[1],1)
  return v
end
return nil
`
	want(t, do("EVAL", om, "1", "om:1", "ver", "0", `{"ver":0,"f":"a"}`), Bulk("1"))
	want(t, do("EVAL", om, "1", "om:1", "ver", "1", `{"ver":1,"f":"b"}`), Bulk("2"))
	want(t, do("EVAL", om, "1", "om:1", "ver", "1", `{"ver":1,"f":"c"}`), Null()) // stale version
	want(t, do("JSON.GET", "om:1", ".f"), Bulk(`"b"`))
}
