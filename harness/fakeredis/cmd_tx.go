package fakeredis

func init() {
	reg("MULTI", 1, fTxCtl|fNoScript, 0, 0, 0, cmdMulti)
	reg("EXEC", 1, fTxCtl|fNoScript, 0, 0, 0, cmdExec)
	reg("DISCARD", 1, fTxCtl|fNoScript, 0, 0, 0, cmdDiscard)
	reg("WATCH", -2, fTxCtl|fNoScript, 1, -1, 1, cmdWatch)
	reg("UNWATCH", 1, fNoScript, 0, 0, 0, cmdUnwatch)
}

func cmdMulti(c *Conn, a []string) Value {
	if c.multi {
		return Err("ERR MULTI calls can not be nested")
	}
	c.multi = true
	return ok
}

func cmdDiscard(c *Conn, a []string) Value {
	if !c.multi {
		return Err("ERR DISCARD without MULTI")
	}
	c.discardTx()
	return ok
}

// discardTx leaves the MULTI state and forgets the watched keys.
func (c *Conn) discardTx() {
	c.multi, c.dirtyExec, c.queued = false, false, nil
	c.unwatchAll()
}

func cmdWatch(c *Conn, a []string) Value {
	if c.multi {
		return Err("ERR WATCH inside MULTI is not allowed")
	}
	for _, k := range a[1:] {
		// A key that is already logically expired is removed first, so that
		// its later deletion does not count as a modification (Redis records
		// this case with the watchedKey.expired flag).
		c.s.lookup(c.db(), k)
		dk := dbKey{c.dbi, k}
		if c.isWatching(dk) {
			continue
		}
		c.watched = append(c.watched, dk)
		c.s.watchers[dk] = append(c.s.watchers[dk], c)
	}
	return ok
}

func (c *Conn) isWatching(dk dbKey) bool {
	for _, w := range c.watched {
		if w == dk {
			return true
		}
	}
	return false
}

func cmdUnwatch(c *Conn, a []string) Value {
	c.unwatchAll()
	return ok
}

func (c *Conn) unwatchAll() {
	for _, dk := range c.watched {
		ws := c.s.watchers[dk]
		for i, w := range ws {
			if w == c {
				ws = append(ws[:i:i], ws[i+1:]...)
				break
			}
		}
		if len(ws) == 0 {
			delete(c.s.watchers, dk)
		} else {
			c.s.watchers[dk] = ws
		}
	}
	c.watched = nil
	c.dirtyCAS = false
}

func cmdExec(c *Conn, a []string) Value {
	if !c.multi {
		return Err("ERR EXEC without MULTI")
	}
	// A watched key that expired since WATCH counts as modified: looking it
	// up expires it, which flags this connection through touch().
	for _, dk := range c.watched {
		c.s.lookup(c.s.dbs[dk.db], dk.key)
	}
	if c.dirtyExec {
		c.discardTx()
		return Err("EXECABORT Transaction discarded because of previous errors.")
	}
	if c.dirtyCAS {
		c.discardTx()
		c.execNote = "abort"
		return NullArray()
	}
	queued := c.queued
	c.queued = nil
	c.unwatchAll() // Redis unwatches before running the queue
	c.s.depth++
	out := make([]Value, 0, len(queued))
	for _, argv := range queued {
		cmd := commands[upper(argv[0])]
		v := c.call(cmd, argv, "exec")
		if v.IsZero() { // a push-only command such as SUBSCRIBE has no element
			continue
		}
		out = append(out, v)
	}
	c.s.depth--
	c.discardTx()
	return Array(out...)
}
