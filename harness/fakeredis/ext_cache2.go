package fakeredis

// Second extension used by the client-side-caching drivers (harness/cmd/cachedrv): the two primitives a driver
// needs to script a Redis 6 server, whose invalidation pushes for lazily expired keys are written in the middle of
// the array reply of the command (EXEC, MGET ...) that touched the key (https://github.com/redis/redis/issues/8935).

// Untrack removes key from the tracking table for this connection only, without sending anything, and reports
// whether the connection was remembered for it.  A driver uses it to make a key "change without a push" (Redis 6: the
// key expired logically, no expiry cycle has deleted it yet): the report is then owed to the connection and the driver
// delivers it in whatever shape it scripts.
func (c *Conn) Untrack(key string) bool {
	defer c.locked()()
	m := c.s.track[key]
	if _, found := m[c]; !found {
		return false
	}
	delete(m, c)
	if len(m) == 0 {
		delete(c.s.track, key)
	}
	return true
}

// ExecSplit executes argv as the top-level command of the connection exactly as the Pass action of an intercept
// would (processing, MULTI queueing, CLIENT CACHING reset, deferred self-invalidations, after-command phase), but
// instead of queueing the single reply it queues the frames split(reply) returns, in order and without anything in
// between.  Every frame is numbered and reported as SRep.  It must be called from an InterceptFn, which then
// returns Drop.  A Redis 6 style broken array is split(reply) = [array whose announced elements contain pushes,
// the displaced tail elements as top-level frames...].
func (c *Conn) ExecSplit(argv []string, split func(reply Value) []Value) {
	defer c.locked()()
	s := c.s
	prev := s.current
	prevSelf := s.selfInval
	s.current, s.selfInval = c, nil
	s.depth++

	v := c.process(argv)

	s.depth--
	if !c.multi && upper(argv[0]) != "CLIENT" {
		c.caching = false
	}
	if !v.IsZero() {
		for _, f := range split(v) {
			c.sendReply(f)
		}
	}
	if c.quit {
		c.quit = false
		c.shutdown(SClose, "quit", modeDrain)
	}
	owed := s.selfInval
	s.current, s.selfInval = prev, prevSelf
	for _, inv := range owed {
		s.sendInvalidation(c, inv)
	}
	if s.depth == 0 {
		s.afterCommand()
	}
}
