package fakeredis

import "sync"

// Extension for the cache-store drivers (harness/cmd/storedrv, property C07): a scripted PTTL and FCALL_RO.
//
// The real clock of the fake server never produces the PTTL values that matter most for the "earlier of client and
// server TTL" rule (0: the key is in its last millisecond; 1; exactly the client TTL), because lookup() expires a key
// as soon as expireAt <= now. SetPTTLScript lets a driver decide what PTTL answers for a key name, wherever the
// command is executed (top level or inside EXEC); everything else about the command (queueing inside MULTI, events,
// key tracking) is unchanged.

var (
	ext2mu    sync.Mutex
	ext2pttl  = map[*Server]func(key string, real int64) int64{}
	ext2funcs = map[*Server]map[string]string{}
)

// SetPTTLScript installs fn (nil removes it): every PTTL executed by the server answers fn(key, real) where real is
// the value the server would have answered. fn runs under the dispatcher mutex.
func (s *Server) SetPTTLScript(fn func(key string, real int64) int64) {
	ext2mu.Lock()
	defer ext2mu.Unlock()
	if fn == nil {
		delete(ext2pttl, s)
	} else {
		ext2pttl[s] = fn
	}
}

// RegisterROFunction makes FCALL_RO <name> <numkeys> keys... args... run the Lua body (as EVAL_RO would run it).
// It stands for FUNCTION LOAD of a library with one no-writes function.
func (s *Server) RegisterROFunction(name, body string) {
	ext2mu.Lock()
	defer ext2mu.Unlock()
	m := ext2funcs[s]
	if m == nil {
		m = map[string]string{}
		ext2funcs[s] = m
	}
	m[name] = body
}

// ForgetExt2 drops the per-server tables of this extension (call it when the server is closed).
func (s *Server) ForgetExt2() {
	ext2mu.Lock()
	defer ext2mu.Unlock()
	delete(ext2pttl, s)
	delete(ext2funcs, s)
}

func init() {
	d := commands["PTTL"]
	orig := d.fn
	d.fn = func(c *Conn, a []string) Value {
		v := orig(c, a)
		ext2mu.Lock()
		fn := ext2pttl[c.s]
		ext2mu.Unlock()
		if fn != nil && v.Typ == TInt {
			return Int(fn(a[1], v.Int))
		}
		return v
	}
	reg("FCALL_RO", -3, fRO|fNoTrack|fNoScript, 0, 0, 0, func(c *Conn, a []string) Value {
		ext2mu.Lock()
		body, ok := ext2funcs[c.s][a[1]]
		ext2mu.Unlock()
		if !ok {
			return Err("ERR Function not found")
		}
		b := append([]string{"EVAL_RO", body}, a[2:]...)
		return eval(c, b, false, true)
	}).keysFn = evalKeys
}
