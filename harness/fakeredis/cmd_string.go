package fakeredis

import (
	"math"
	"strconv"
)

func init() {
	reg("GET", 2, fRO, 1, 1, 1, cmdGet)
	reg("SET", -3, fWrite, 1, 1, 1, cmdSet)
	reg("SETNX", 3, fWrite, 1, 1, 1, cmdSetNX)
	reg("SETEX", 4, fWrite, 1, 1, 1, func(c *Conn, a []string) Value { return setWithTTL(c, a, 1000) })
	reg("PSETEX", 4, fWrite, 1, 1, 1, func(c *Conn, a []string) Value { return setWithTTL(c, a, 1) })
	reg("MGET", -2, fRO, 1, -1, 1, cmdMGet)
	reg("MSET", -3, fWrite, 1, -1, 2, cmdMSet)
	reg("MSETNX", -3, fWrite, 1, -1, 2, cmdMSetNX)
	reg("GETRANGE", 4, fRO, 1, 1, 1, cmdGetRange)
	reg("SUBSTR", 4, fRO, 1, 1, 1, cmdGetRange)
	reg("SETRANGE", 4, fWrite, 1, 1, 1, cmdSetRange)
	reg("STRLEN", 2, fRO, 1, 1, 1, cmdStrlen)
	reg("APPEND", 3, fWrite, 1, 1, 1, cmdAppend)
	reg("INCR", 2, fWrite, 1, 1, 1, func(c *Conn, a []string) Value { return incrBy(c, a[1], 1) })
	reg("DECR", 2, fWrite, 1, 1, 1, func(c *Conn, a []string) Value { return incrBy(c, a[1], -1) })
	reg("INCRBY", 3, fWrite, 1, 1, 1, cmdIncrBy)
	reg("DECRBY", 3, fWrite, 1, 1, 1, cmdDecrBy)
	reg("INCRBYFLOAT", 3, fWrite, 1, 1, 1, cmdIncrByFloat)
	reg("GETDEL", 2, fWrite, 1, 1, 1, cmdGetDel)
	reg("GETSET", 3, fWrite, 1, 1, 1, cmdGetSet)
	reg("GETEX", -2, fWrite, 1, 1, 1, cmdGetEx)
}

const maxStringLen = 512 << 20

func strEntry(s string) *entry { return &entry{kind: kString, str: s} }

func cmdGet(c *Conn, a []string) Value {
	e, bad := c.lookupKind(a[1], kString)
	if !bad.IsZero() {
		return bad
	}
	if e == nil {
		return Null()
	}
	return Bulk(e.str)
}

// expireOption parses "EX n", "PX n", "EXAT n", "PXAT n" into an absolute
// unix-millisecond deadline. ok is false on a bad or non-positive value.
func (c *Conn) expireOption(opt, val string) (at int64, ok bool) {
	n, isInt := parseInt(val)
	if !isInt || n <= 0 {
		return 0, false
	}
	now := c.s.nowMs()
	switch opt {
	case "EX":
		if n > (math.MaxInt64-now)/1000 {
			return 0, false
		}
		return now + n*1000, true
	case "PX":
		if n > math.MaxInt64-now {
			return 0, false
		}
		return now + n, true
	case "EXAT":
		if n > math.MaxInt64/1000 {
			return 0, false
		}
		return n * 1000, true
	case "PXAT":
		return n, true
	}
	return 0, false
}

func cmdSet(c *Conn, a []string) Value {
	key, val := a[1], a[2]
	var nx, xx, get, keepTTL, hasExp bool
	var expireAt int64
	for i := 3; i < len(a); i++ {
		switch opt := upper(a[i]); opt {
		case "NX":
			nx = true
		case "XX":
			xx = true
		case "GET":
			get = true
		case "KEEPTTL":
			keepTTL = true
		case "EX", "PX", "EXAT", "PXAT":
			if hasExp || i+1 >= len(a) {
				return errSyntax
			}
			at, good := c.expireOption(opt, a[i+1])
			if !good {
				if _, isInt := parseInt(a[i+1]); !isInt {
					return errNotInt
				}
				return Err("ERR invalid expire time in 'set' command")
			}
			hasExp, expireAt = true, at
			i++
		default:
			return errSyntax
		}
	}
	if (nx && xx) || (keepTTL && hasExp) {
		return errSyntax
	}
	old := c.s.lookup(c.db(), key)
	prev := Null()
	if get {
		if old != nil && old.kind != kString {
			return errWrongType
		}
		if old != nil {
			prev = Bulk(old.str)
		}
	}
	if (nx && old != nil) || (xx && old == nil) {
		if get {
			return prev
		}
		return Null()
	}
	e := strEntry(val)
	if keepTTL && old != nil {
		e.expireAt = old.expireAt
	}
	if hasExp {
		e.expireAt = expireAt
	}
	c.put(key, e)
	if get {
		return prev
	}
	return ok
}

func cmdSetNX(c *Conn, a []string) Value {
	if c.s.lookup(c.db(), a[1]) != nil {
		return Int(0)
	}
	c.put(a[1], strEntry(a[2]))
	return Int(1)
}

// setWithTTL implements SETEX (unit 1000) and PSETEX (unit 1): key ttl value.
func setWithTTL(c *Conn, a []string, unit int64) Value {
	n, isInt := parseInt(a[2])
	if !isInt {
		return errNotInt
	}
	now := c.s.nowMs()
	if n <= 0 || n > (math.MaxInt64-now)/unit {
		return Err("ERR invalid expire time in '" + lower(a[0]) + "' command")
	}
	e := strEntry(a[3])
	e.expireAt = now + n*unit
	c.put(a[1], e)
	return ok
}

func cmdMGet(c *Conn, a []string) Value {
	out := make([]Value, 0, len(a)-1)
	for _, k := range a[1:] {
		e := c.s.lookup(c.db(), k)
		if e == nil || e.kind != kString {
			out = append(out, Null())
		} else {
			out = append(out, Bulk(e.str))
		}
	}
	return Array(out...)
}

func cmdMSet(c *Conn, a []string) Value {
	if len(a)%2 != 1 {
		return errArity("MSET")
	}
	for i := 1; i < len(a); i += 2 {
		c.put(a[i], strEntry(a[i+1]))
	}
	return ok
}

func cmdMSetNX(c *Conn, a []string) Value {
	if len(a)%2 != 1 {
		return errArity("MSETNX")
	}
	for i := 1; i < len(a); i += 2 {
		if c.s.lookup(c.db(), a[i]) != nil {
			return Int(0)
		}
	}
	for i := 1; i < len(a); i += 2 {
		c.put(a[i], strEntry(a[i+1]))
	}
	return Int(1)
}

func cmdGetRange(c *Conn, a []string) Value {
	start, ok1 := parseInt(a[2])
	end, ok2 := parseInt(a[3])
	if !ok1 || !ok2 {
		return errNotInt
	}
	e, bad := c.lookupKind(a[1], kString)
	if !bad.IsZero() {
		return bad
	}
	if e == nil {
		return Bulk("")
	}
	n := int64(len(e.str))
	if start < 0 && end < 0 && start > end {
		return Bulk("")
	}
	if start < 0 {
		start = max(n+start, 0)
	}
	if end < 0 {
		end = max(n+end, 0)
	}
	if end >= n {
		end = n - 1
	}
	if n == 0 || start > end {
		return Bulk("")
	}
	return Bulk(e.str[start : end+1])
}

func cmdSetRange(c *Conn, a []string) Value {
	off, isInt := parseInt(a[2])
	if !isInt {
		return errNotInt
	}
	if off < 0 {
		return Err("ERR offset is out of range")
	}
	e, bad := c.lookupKind(a[1], kString)
	if !bad.IsZero() {
		return bad
	}
	val := a[3]
	if len(val) == 0 {
		if e == nil {
			return Int(0)
		}
		return Int(int64(len(e.str)))
	}
	if off+int64(len(val)) > maxStringLen {
		return Err("ERR string exceeds maximum allowed size (proto-max-bulk-len)")
	}
	var cur string
	if e != nil {
		cur = e.str
	}
	buf := []byte(cur)
	if need := int(off) + len(val); need > len(buf) {
		buf = append(buf, make([]byte, need-len(buf))...)
	}
	copy(buf[off:], val)
	if e == nil {
		c.put(a[1], strEntry(string(buf)))
	} else {
		e.str = string(buf)
		c.modified(a[1], e)
	}
	return Int(int64(len(buf)))
}

func cmdStrlen(c *Conn, a []string) Value {
	e, bad := c.lookupKind(a[1], kString)
	if !bad.IsZero() {
		return bad
	}
	if e == nil {
		return Int(0)
	}
	return Int(int64(len(e.str)))
}

func cmdAppend(c *Conn, a []string) Value {
	e, bad := c.lookupKind(a[1], kString)
	if !bad.IsZero() {
		return bad
	}
	if e == nil {
		c.put(a[1], strEntry(a[2]))
		return Int(int64(len(a[2])))
	}
	if len(e.str)+len(a[2]) > maxStringLen {
		return Err("ERR string exceeds maximum allowed size (proto-max-bulk-len)")
	}
	e.str += a[2]
	c.modified(a[1], e)
	return Int(int64(len(e.str)))
}

func incrBy(c *Conn, key string, delta int64) Value {
	e, bad := c.lookupKind(key, kString)
	if !bad.IsZero() {
		return bad
	}
	var cur int64
	if e != nil {
		n, isInt := parseInt(e.str)
		if !isInt {
			return errNotInt
		}
		cur = n
	}
	if (delta > 0 && cur > math.MaxInt64-delta) || (delta < 0 && cur < math.MinInt64-delta) {
		return Err("ERR increment or decrement would overflow")
	}
	cur += delta
	if e == nil {
		c.put(key, strEntry(itoa(cur)))
	} else {
		e.str = itoa(cur)
		c.modified(key, e)
	}
	return Int(cur)
}

func cmdIncrBy(c *Conn, a []string) Value {
	n, isInt := parseInt(a[2])
	if !isInt {
		return errNotInt
	}
	return incrBy(c, a[1], n)
}

func cmdDecrBy(c *Conn, a []string) Value {
	n, isInt := parseInt(a[2])
	if !isInt {
		return errNotInt
	}
	if n == math.MinInt64 {
		return Err("ERR decrement would overflow")
	}
	return incrBy(c, a[1], -n)
}

func cmdIncrByFloat(c *Conn, a []string) Value {
	e, bad := c.lookupKind(a[1], kString)
	if !bad.IsZero() {
		return bad
	}
	var cur float64
	if e != nil {
		f, isFloat := parseFloat(e.str)
		if !isFloat {
			return errNotFloat
		}
		cur = f
	}
	incr, isFloat := parseFloat(a[2])
	if !isFloat {
		return errNotFloat
	}
	cur += incr
	if math.IsNaN(cur) || math.IsInf(cur, 0) {
		return Err("ERR increment would produce NaN or Infinity")
	}
	s := fmtHumanFloat(cur)
	if e == nil {
		c.put(a[1], strEntry(s))
	} else {
		e.str = s
		c.modified(a[1], e)
	}
	return Bulk(s)
}

// fmtHumanFloat is Redis' LD_STR_HUMAN rendering: fixed notation, no trailing
// zeros, no exponent.
func fmtHumanFloat(f float64) string { return strconv.FormatFloat(f, 'f', -1, 64) }

func cmdGetDel(c *Conn, a []string) Value {
	e, bad := c.lookupKind(a[1], kString)
	if !bad.IsZero() {
		return bad
	}
	if e == nil {
		return Null()
	}
	c.remove(a[1])
	return Bulk(e.str)
}

func cmdGetSet(c *Conn, a []string) Value {
	e, bad := c.lookupKind(a[1], kString)
	if !bad.IsZero() {
		return bad
	}
	c.put(a[1], strEntry(a[2]))
	if e == nil {
		return Null()
	}
	return Bulk(e.str)
}

func cmdGetEx(c *Conn, a []string) Value {
	var persist, hasExp bool
	var expireAt int64
	switch len(a) {
	case 2:
	case 3:
		if upper(a[2]) != "PERSIST" {
			return errSyntax
		}
		persist = true
	case 4:
		opt := upper(a[2])
		if opt != "EX" && opt != "PX" && opt != "EXAT" && opt != "PXAT" {
			return errSyntax
		}
		at, good := c.expireOption(opt, a[3])
		if !good {
			if _, isInt := parseInt(a[3]); !isInt {
				return errNotInt
			}
			return Err("ERR invalid expire time in 'getex' command")
		}
		hasExp, expireAt = true, at
	default:
		return errSyntax
	}
	e, bad := c.lookupKind(a[1], kString)
	if !bad.IsZero() {
		return bad
	}
	if e == nil {
		return Null()
	}
	val := Bulk(e.str)
	switch {
	case hasExp && expireAt <= c.s.nowMs():
		c.remove(a[1])
	case hasExp:
		e.expireAt = expireAt
		c.modified(a[1], e)
	case persist && e.expireAt != 0:
		e.expireAt = 0
		c.modified(a[1], e)
	}
	return val
}
