"""Shared machinery of /verif/bin/check: TLC runner and output parser, Go harness builder/runner,
known-findings matcher, evidence writer and the verdict policy of DESIGN.md section 2.3."""
import json, os, re, shutil, subprocess, sys, tempfile, time, hashlib

VERIF = os.path.dirname(os.path.dirname(os.path.abspath(__file__)))
# /repo normally; a builder's scratch sandbox (/var/tmp/ws/<name>/{verif,repo}, see bin/mksandbox) uses its sibling copy
_sib = os.path.normpath(os.path.join(VERIF, '..', 'repo'))
REPO = _sib if (VERIF.startswith('/var/tmp/ws/') and os.path.isdir(_sib)) else '/repo'
SPEC = os.path.join(VERIF, 'spec')
HARNESS = os.path.join(VERIF, 'harness')
BUILD = os.path.join(VERIF, '.build')
SCRATCH_ROOT = '/var/tmp'
GOENV = dict(GOFLAGS='-mod=mod', GOPROXY='off', GOSUMDB='off', GOTOOLCHAIN='local')
GO = 'go1.26'


class Inconclusive(Exception):
    pass


def goenv():
    e = dict(os.environ)
    e.update(GOENV)
    return e


def sync_gosum():
    """go.sum of the harness = union of the repository's go.sum files (no network)."""
    lines = set()
    for root in ['', 'mock', 'om', 'rueidisaside', 'rueidiscompat', 'rueidishook', 'rueidislimiter', 'rueidisprob']:
        p = os.path.join(REPO, root, 'go.sum')
        if os.path.exists(p):
            lines.update(l for l in open(p).read().splitlines() if l.strip())
    p = os.path.join(HARNESS, 'go.sum')
    old = set(open(p).read().splitlines()) if os.path.exists(p) else set()
    if not lines <= old:
        open(p, 'w').write('\n'.join(sorted(lines | old)) + '\n')


def build(cmd_name, race=False):
    """(Re)build harness/cmd/<cmd_name> against /repo's working tree with the verif tag. Returns the binary path."""
    os.makedirs(BUILD, exist_ok=True)
    sync_gosum()
    out = os.path.join(BUILD, cmd_name + ('-race' if race else ''))
    args = [GO, 'build', '-tags', 'verif']
    if race:
        args.append('-race')
    args += ['-o', out, './cmd/' + cmd_name]
    p = subprocess.run(args, cwd=HARNESS, env=goenv(), stdout=subprocess.PIPE, stderr=subprocess.STDOUT, text=True)
    if p.returncode != 0:
        raise Inconclusive('harness build failed for %s:\n%s' % (cmd_name, p.stdout[-4000:]))
    return out


# ------------------------------------------------------------------------------------------------- TLC
class TlcResult:
    def __init__(self):
        self.ok = False            # finished without error
        self.generated = 0
        self.distinct = 0
        self.violated = None       # name of violated invariant/property
        self.error = None          # other error text
        self.output = ''
        self.cases = []            # parsed PrintT(<<"CASE", json>>) payloads
        self.wall = 0.0
        self.cfg = ''
        self.module = ''
        self.finished = False      # exhaustive search completed (or simulation ended normally)
        self.depth = 0

    def summary(self):
        return dict(module=self.module, cfg=self.cfg, generated=self.generated, distinct=self.distinct,
                    violated=self.violated, finished=self.finished, depth=self.depth, wall_s=round(self.wall, 2))


_CASE_RE = re.compile(r'^<<"CASE", "(.*)">>\s*$')


def _unescape_tla(s):
    return s.replace('\\"', '"').replace('\\\\', '\\')


def tlc(family, module, cfg, workers=None, timeout=900, extra=None, env=None, files=None, simulate=None, depth=None,
        seed=None, collect_cases=False, deque=False, keep=False):
    """Run TLC on spec/<family>/<module>.tla with <cfg> in a scratch copy. files: extra files to copy (path list)."""
    r = TlcResult()
    r.module, r.cfg = module, cfg
    scratch = tempfile.mkdtemp(prefix='verif-tlc-', dir=SCRATCH_ROOT)
    try:
        src = os.path.join(SPEC, family)
        for f in os.listdir(src):
            if f.endswith('.tla') or f.endswith('.cfg'):
                shutil.copy(os.path.join(src, f), scratch)
        common = os.path.join(SPEC, 'common')
        if os.path.isdir(common):
            for f in os.listdir(common):
                if f.endswith('.tla'):
                    shutil.copy(os.path.join(common, f), scratch)
        for f in files or []:
            shutil.copy(f, scratch)
        args = ['tlc', '-metadir', os.path.join(scratch, 'meta'), '-config', cfg]
        if simulate is not None:
            args += ['-simulate', 'num=%d' % simulate]
            if depth:
                args += ['-depth', str(depth)]
            workers = workers or 1
        if seed is not None:
            args += ['-seed', str(seed)]
        args += ['-workers', str(workers or 'auto')]
        args += extra or []
        args.append(module + '.tla')
        e = dict(os.environ)
        if deque:
            e['JAVA_TOOL_OPTIONS'] = (e.get('JAVA_TOOL_OPTIONS', '') + ' -Dtlc2.tool.queue.IStateQueue=StateDeque').strip()
        e.update(env or {})
        t0 = time.time()
        try:
            p = subprocess.run(args, cwd=scratch, env=e, stdout=subprocess.PIPE, stderr=subprocess.STDOUT, text=True,
                               timeout=timeout)
            out = p.stdout
        except subprocess.TimeoutExpired as ex:
            subprocess.run(['pkill', '-f', scratch], stdout=subprocess.DEVNULL, stderr=subprocess.DEVNULL)
            out = (ex.stdout or b'').decode('utf-8', 'replace') if isinstance(ex.stdout, bytes) else (ex.stdout or '')
            r.error = 'timeout after %ds' % timeout
        r.wall = time.time() - t0
        r.output = out
        for line in out.splitlines():
            m = re.search(r'(\d+) states generated, (\d+) distinct states found', line)
            if m:
                r.generated, r.distinct = int(m.group(1)), int(m.group(2))
            m = re.search(r'The depth of the complete state graph search is (\d+)', line)
            if m:
                r.depth = int(m.group(1))
            m = re.search(r'Invariant (\S+) is violated', line)
            if m:
                r.violated = m.group(1)
            m = re.search(r'(?:Temporal|Action) propert(?:y|ies) (\S+)(?:,? (?:and )?\S+)*? (?:was|were|is) violated', line)
            if m:
                r.violated = m.group(1)
            if 'Temporal properties were violated' in line:
                r.violated = r.violated or 'temporal'
            if 'Model checking completed. No error has been found.' in line:
                r.finished = True
            if line.startswith('Error:') and r.error is None and 'violated' not in line:
                r.error = line
            if 'Deadlock reached' in line:
                r.violated = 'Deadlock'
            if collect_cases:
                m = _CASE_RE.match(line)
                if m:
                    try:
                        r.cases.append(json.loads(_unescape_tla(m.group(1))))
                    except Exception as ex:
                        r.error = r.error or ('bad CASE line: %s' % ex)
        if simulate is not None and r.error is None and r.violated is None and 'Error' not in out:
            r.finished = True
        r.ok = r.finished and r.violated is None and r.error is None
        return r
    finally:
        if not keep:
            shutil.rmtree(scratch, ignore_errors=True)


# ------------------------------------------------------------------------------------------------- check context
class Ctx:
    """Accumulates what one check run covered and decides the verdict."""

    def __init__(self, pid, tier, seed, level):
        self.pid, self.tier, self.seed, self.level = pid, tier, seed, level
        self.t0 = time.time()
        self.states = 0
        self.transitions = 0
        self.tlc_runs = []
        self.traces = 0
        self.evaluations = 0
        self.distinct = 0
        self.rules = []
        self.samples = []
        self.violations = []     # dict(signature, what, replay)
        self.inconclusive = []
        self.assumptions = []
        self.extra = {}
        self.exhaustive = None
        self.notes = []

    # --- TLC
    def run_tlc(self, family, module, cfg, expect_violation=None, **kw):
        """Model-check; a violation of the *model* is inconclusive for the code (verdicts come from real code only)
        unless expect_violation names the invariant a negative config is supposed to break."""
        r = tlc(family, module, cfg, **kw)
        self.tlc_runs.append(r.summary())
        self.states += r.distinct
        self.transitions += r.generated
        if expect_violation is not None:
            if r.violated != expect_violation and r.violated != 'temporal':   # 'temporal': TLC did not name the property
                self.inconclusive.append('negative config %s/%s: expected violation of %s, got %s %s' % (
                    family, cfg, expect_violation, r.violated, r.error or ''))
        elif not r.ok:
            self.inconclusive.append('TLC %s/%s %s: violated=%s error=%s\n%s' % (
                family, module, cfg, r.violated, r.error, r.output[-3000:]))
        return r

    # --- Go drivers
    def run_driver(self, binary, args, timeout=900, env=None, stdin=None):
        """Run a harness binary; it must write a JSON report to the path given after -out."""
        fd, out = tempfile.mkstemp(prefix='verif-drv-', suffix='.json', dir=SCRATCH_ROOT)
        os.close(fd)
        e = goenv()
        e['VERIF_SEED'] = str(self.seed)
        e['VERIF_TIER'] = self.tier
        e.update(env or {})
        try:
            try:
                p = subprocess.run([binary] + args + ['-out', out], env=e, stdout=subprocess.PIPE,
                                   stderr=subprocess.STDOUT, text=True, timeout=timeout, input=stdin)
            except subprocess.TimeoutExpired:
                self.inconclusive.append('driver %s %s timed out after %ds' % (os.path.basename(binary), args, timeout))
                return None
            try:
                rep = json.load(open(out))
            except Exception:
                self.inconclusive.append('driver %s %s produced no report (exit %d):\n%s' % (
                    os.path.basename(binary), args, p.returncode, p.stdout[-3000:]))
                return None
            self.absorb(rep)
            return rep
        finally:
            if os.path.exists(out):
                os.unlink(out)

    def absorb(self, rep):
        self.evaluations += int(rep.get('evaluations', 0))
        self.distinct += int(rep.get('distinct_nontrivial', 0))
        self.traces += int(rep.get('traces', 0))
        if rep.get('rule') and rep['rule'] not in self.rules:
            self.rules.append(rep['rule'])
        for s in (rep.get('samples') or [])[:4]:
            if len(self.samples) < 12:
                self.samples.append(s)
        for v in (rep.get('violations') or []):
            self.violations.append(v)
        for i in (rep.get('inconclusive') or []):
            self.inconclusive.append(i)
        for a in (rep.get('assumptions') or []):
            if a not in self.assumptions:
                self.assumptions.append(a)

    def violation(self, signature, what, replay=None):
        self.violations.append(dict(signature=signature, what=what, replay=replay))

    # --- verdict
    def finish(self):
        known = load_known()
        os.makedirs(os.path.join(VERIF, 'replays', self.pid), exist_ok=True)
        unlisted, listed = [], {}
        for v in self.violations:
            k = match_known(known, self.pid, v.get('signature', ''))
            if k is not None:
                listed.setdefault(k['signature'], (k, []))[1].append(v)
            else:
                unlisted.append(v)
        for sig, (k, vs) in listed.items():
            print('KNOWN-FINDING: property=%s %s [%s] (%d occurrence(s) this run)' % (self.pid, k['what'], sig, len(vs)))
        seen = set()
        n = 0
        for v in unlisted:
            if v.get('signature') in seen:
                continue
            seen.add(v.get('signature'))
            n += 1
            path = os.path.join(VERIF, 'replays', self.pid, '%s-%d.json' % (self.tier, n))
            json.dump(v, open(path, 'w'), indent=1, default=str)
            print('VIOLATION property=%s replay=%s' % (self.pid, path))
            print('  signature: %s' % v.get('signature'))
            print('  what: %s' % str(v.get('what'))[:600])
        self.write_evidence(len(unlisted))
        if unlisted:
            return 1
        if self.inconclusive:
            for i in self.inconclusive[:10]:
                print('INCONCLUSIVE property=%s %s' % (self.pid, str(i)[:1500]))
            return 2
        print('OK property=%s tier=%s states=%d transitions=%d traces=%d evaluations=%d wall=%.1fs' % (
            self.pid, self.tier, self.states, self.transitions, self.traces, self.evaluations, time.time() - self.t0))
        return 0

    def write_evidence(self, nviol):
        cov = dict(evaluations=self.evaluations, distinct_nontrivial=self.distinct,
                   rule=' | '.join(self.rules) or 'see samples',
                   samples=self.samples or [dict(note='no sample recorded')],
                   states=self.states, transitions=self.transitions,
                   traces_validated_against_impl=self.traces, tlc_runs=self.tlc_runs)
        if self.exhaustive is not None:
            cov['exhaustive'] = bool(self.exhaustive)
        cov.update(self.extra)
        ev = dict(property_id=self.pid, tier=self.tier, seed=int(self.seed), level=self.level, coverage=cov,
                  assumptions=self.assumptions, wall_s=round(time.time() - self.t0, 2), violations=nviol,
                  known_findings_reported=len(self.violations) - nviol, inconclusive=len(self.inconclusive))
        os.makedirs(os.path.join(VERIF, 'evidence'), exist_ok=True)
        json.dump(ev, open(os.path.join(VERIF, 'evidence', self.pid + '.json'), 'w'), indent=1, default=str)


def load_known():
    p = os.path.join(VERIF, 'known_findings.json')
    if not os.path.exists(p):
        return []
    return json.load(open(p))


def match_known(known, pid, signature):
    """A listed finding suppresses exactly the violations whose signature matches its regular expression."""
    for k in known:
        if k.get('property') != pid or k.get('status') != 'known':
            continue
        if re.fullmatch(k['signature'], signature or ''):
            return k
    return None


def write_ndjson(path, events):
    with open(path, 'w') as f:
        for e in events:
            f.write(json.dumps(e, separators=(',', ':')) + '\n')
