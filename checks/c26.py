"""C26: Pub/Sub delivers exactly the subscribed messages in order; Receive return values; SetPubSubHooks channels."""
import threading
from checks import pipecommon, subscommon
LEVEL = 'model_checking'


def run(ctx):
    # the subscription registry behind Receive (pubsub.go): Subs.tla + hook-level trace validation of the real `subs`;
    # independent of the client-level part below, so the two run side by side
    t = threading.Thread(target=subscommon.run, args=(ctx,))
    t.start()
    try:
        pipecommon.run_family(
            ctx, 'C26',
            mc=['MC_pubsub.cfg', 'MC_pubsub_own.cfg', 'MC_dedicated.cfg'],
            negs=[('MC_neg_unsubfirst.cfg', 'AllReturnedAtQuiesce'), ('MC_neg_skipmsg.cfg', 'PubSubOrder'),
                  ('MC_neg_unsubwrong.cfg', 'ReceiveReturn')],
            # Genpubown: Receives of own channels that start after another one was ended by the server while a third is alive
            gens=[('Genpub_q.cfg', 50, 600), ('Genpubown_q.cfg', 40, 400)],
            modes=['pubsub', 'dedicated'],
            neg_traces=['drop-callback', 'nil-return-without-unsubscribe', 'hook-channel-not-closed'],
            runs_quick=3, runs_thorough=30, hookseq=True)
    finally:
        t.join()
