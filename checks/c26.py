"""C26: Pub/Sub delivers exactly the subscribed messages in order; Receive return values; SetPubSubHooks channels."""
from checks import pipecommon, subscommon
LEVEL = 'model_checking'


def run(ctx):
    pipecommon.run_family(
        ctx, 'C26',
        mc=['MC_pubsub.cfg', 'MC_dedicated.cfg'],
        negs=[('MC_neg_unsubfirst.cfg', 'AllReturnedAtQuiesce'), ('MC_neg_skipmsg.cfg', 'PubSubOrder')],
        gens=[('Genpub_q.cfg', 60, 600)],
        modes=['pubsub', 'dedicated'],
        neg_traces=['drop-callback', 'nil-return-without-unsubscribe', 'hook-channel-not-closed'],
        runs_quick=3, runs_thorough=30)
    # the subscription registry behind Receive (pubsub.go): Subs.tla + hook-level trace validation of the real `subs`
    subscommon.run(ctx)
