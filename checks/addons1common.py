"""Helpers shared by the add-on protocol checks C30 C38 C41 C43 (spec/addons: Lua, Limiter, TxPipe, Hook)."""
import json, os, re, shutil, tempfile
from lib import vlib

FAMILY = 'addons'


def scratch():
    return tempfile.mkdtemp(prefix='verif-addons1-', dir=vlib.SCRATCH_ROOT)


def gen_cases(ctx, module, cfg, timeout=900, simulate=None, depth=None, seed=None, dedup=True):
    """Run a generation config (-workers 1, CASE lines) and return the records; a failing run is inconclusive."""
    r = vlib.tlc(FAMILY, module, cfg, workers=1, timeout=timeout, collect_cases=True, simulate=simulate, depth=depth,
                 seed=seed)
    ctx.tlc_runs.append(dict(r.summary(), cases=len(r.cases)))
    ctx.states += r.distinct
    ctx.transitions += r.generated
    if not r.ok and not (simulate is not None and r.violated is None and r.error is None):
        ctx.inconclusive.append('generation %s/%s failed: violated=%s error=%s\n%s' % (module, cfg, r.violated, r.error,
                                                                                     r.output[-2000:]))
        return [], r
    cases = r.cases
    if dedup:
        seen, out = set(), []
        for c in cases:
            k = json.dumps(c, sort_keys=True)
            if k not in seen:
                seen.add(k)
                out.append(c)
        cases = out
    return cases, r


def write_cases(path, cases):
    with open(path, 'w') as f:
        for c in cases:
            f.write(json.dumps(c, separators=(',', ':')) + '\n')


def validate_trace(ctx, module, cfg_text, trace_path, label, sig_prefix, timeout=900):
    """Validate one ndjson trace file with <module>.tla; a rejected trace is real-code behaviour the specification
    forbids -> violation whose signature names the event kind (and, when the trace carries one, the scenario class)."""
    d = os.path.dirname(trace_path)
    cfgp = os.path.join(d, 'Trace-%s.cfg' % label)
    open(cfgp, 'w').write(cfg_text)
    n = sum(1 for _ in open(trace_path))
    if n == 0:
        return True
    r = vlib.tlc(FAMILY, module, os.path.basename(cfgp), workers=1, timeout=timeout, files=[cfgp],
                 env={'VERIF_TRACE': trace_path, 'JAVA_TOOL_OPTIONS': '-Xss64m'})
    ctx.tlc_runs.append(dict(r.summary(), trace_events=n, label=label))
    ctx.states += r.distinct
    ctx.transitions += r.generated
    if r.ok:
        return True
    if r.violated or 'REJECTED-AT' in r.output:
        what = 'trace of the real code rejected by %s.tla (%s): ' % (module, label)
        detail = ''
        m2 = re.search(r'"REJECTED-AT",\s*(\d+),\s*\[(.*?)\]\s*>>', r.output, re.S)
        if r.violated and r.violated != 'TraceAccepted':
            what += 'invariant %s violated on the recorded behaviour' % r.violated
            sig = '%s-trace-invariant-%s' % (sig_prefix, r.violated)
        else:
            evname, cls = '', ''
            if m2:
                body = ' '.join(m2.group(2).split())
                m3 = re.search(r'ev \|-> "([^"]+)"', body)
                evname = m3.group(1) if m3 else ''
                m4 = re.search(r'cls \|-> "([^"]*)"', body)
                cls = m4.group(1) if m4 else ''
                what += 'no action of the specification explains recorded event #%s (%s): %s' % (m2.group(1), evname, body)
            else:
                what += 'no action of the specification explains the next recorded event'
            sig = '%s-trace-rejected-at-%s' % (sig_prefix, evname or 'unknown')
            if cls:
                sig += ' class=' + cls
        keep = os.path.join(vlib.VERIF, 'replays', ctx.pid)
        os.makedirs(keep, exist_ok=True)
        dst = os.path.join(keep, '%s-%s.ndjson' % (ctx.tier, label))
        shutil.copy(trace_path, dst)
        ctx.violation(sig, what + '\n' + r.output[-1500:], dict(trace=dst, cfg=cfg_text))
        return False
    ctx.inconclusive.append('trace validation %s failed to run: %s\n%s' % (label, r.error, r.output[-2000:]))
    return False
