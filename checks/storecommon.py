"""C10 / C07 at the level of the cache store objects: Lru.tla / Adapter.tla model checking (+ negative configs), TLC-generated
behaviours replayed through the real lru / SimpleCache adapter (harness/cmd/storedrv), random histories of the real lru
validated by LruTrace.tla, CacheTtl.tla accessor cases, the end-to-end expiry observations checked by CacheTtlObs.tla, and
(round 2) CacheFill.tla: the wire between store and server (which key the PTTL probe names, how the answer - 0, 1, small,
exactly the client ttl, -1, -2 - is applied) generated as cases for `storedrv -mode fill`."""
import hashlib, json, os, pickle, re, shutil, tempfile, time
from concurrent.futures import ThreadPoolExecutor
from lib import vlib

FAMILY = 'cache'
LRU_PROPS = ('SizeWithinMaxAfterUpdate EvictedIsLruPrefix PendingNeverEvicted OrderPreserved ExpiryIsMin NoHitAtOrAfterExpiry '
             'ExpiryStable WaitersGetFlightOutcome')


def _spec_hash(cfg):
    h = hashlib.sha1()
    d = os.path.join(vlib.SPEC, FAMILY)
    for f in sorted(os.listdir(d)):
        if f.endswith('.tla') or f == cfg:
            h.update(f.encode())
            h.update(open(os.path.join(d, f), 'rb').read())
    return h.hexdigest()[:16]


def tlc_cached(module, cfg, **kw):
    """vlib.tlc for runs whose result depends on the specification only (model checking, case generation).  With
    VERIF_STORE_CACHE=<dir> set (development aid for mutation loops, off by default) such results are reused while no module of
    spec/cache and not that configuration changes; runs that read recorded behaviour of the library are never cached."""
    cdir = os.environ.get('VERIF_STORE_CACHE')
    if not cdir:
        return vlib.tlc(FAMILY, module, cfg, **kw)
    os.makedirs(cdir, exist_ok=True)
    key = hashlib.sha1(json.dumps([_spec_hash(cfg), module, cfg, sorted((k, str(v)) for k, v in kw.items() if k not in ('timeout', 'workers'))]).encode()).hexdigest()[:20]
    path = os.path.join(cdir, key + '.pickle')
    if os.path.exists(path):
        return pickle.load(open(path, 'rb'))
    r = vlib.tlc(FAMILY, module, cfg, **kw)
    m = re.search(r'Action property (\S+) is violated', r.output)
    if m:
        r.violated = m.group(1)
    if r.error is None or r.violated is not None:   # a time-out or a crash is not a result
        pickle.dump(r, open(path, 'wb'))
    return r


def run_tlc(ctx, module, cfg, expect=None, **kw):
    """Ctx.run_tlc, also recognising TLC's "Action property X is violated" (the properties of Lru.tla about steps)."""
    r = tlc_cached(module, cfg, **kw)
    m = re.search(r'Action property (\S+) is violated', r.output)
    if m:
        r.violated = m.group(1)
    ctx.tlc_runs.append(r.summary())
    ctx.states += r.distinct
    ctx.transitions += r.generated
    if expect is not None:
        if r.violated != expect:
            ctx.inconclusive.append('negative config %s/%s: expected violation of %s, got %s %s' % (FAMILY, cfg, expect, r.violated, r.error or ''))
    elif not r.ok or r.violated:
        ctx.inconclusive.append('TLC %s %s: violated=%s error=%s\n%s' % (module, cfg, r.violated, r.error, r.output[-3000:]))
    return r


def tlc_many(ctx, jobs, parallel=3):
    """jobs: list of dict(module=, cfg=, expect=None, workers=4, timeout=...). Runs them concurrently (each is its own JVM)."""
    def one(j):
        return run_tlc(ctx, j['module'], j['cfg'], expect=j.get('expect'), workers=j.get('workers', 4), timeout=j.get('timeout', 900))
    with ThreadPoolExecutor(max_workers=parallel) as ex:
        return list(ex.map(one, jobs))


def model_lru(ctx, which, thorough):
    """which: 'size' (C10) or 'expiry' (C07)."""
    jobs = []
    if which == 'size':
        jobs += [dict(module='Lru', cfg='MC_size.cfg'), dict(module='Lru', cfg='MC_inter.cfg'),
                 dict(module='Lru', cfg='MC_neg_evict.cfg', expect='SizeWithinMax'),
                 dict(module='Lru', cfg='MC_neg_purge.cfg', expect='SizeIsSumOfDone'),
                 dict(module='Lru', cfg='MC_neg_delpending.cfg', expect='PendingNeverEvicted')]
        if thorough:
            jobs += [dict(module='Lru', cfg='MC_size_thorough.cfg', timeout=3000), dict(module='Lru', cfg='MC_inter_thorough.cfg', timeout=3000)]
    else:
        jobs += [dict(module='Lru', cfg='MC_expiry.cfg'),
                 dict(module='Lru', cfg='MC_neg_later.cfg', expect='ExpiryIsMin'),
                 dict(module='Lru', cfg='MC_neg_hitexp.cfg', expect='NoHitAtOrAfterExpiry'),
                 dict(module='Adapter', cfg='MCA_quick.cfg'),
                 dict(module='Adapter', cfg='MCA_neg_later.cfg', expect='ExpiryIsMin'),
                 dict(module='Adapter', cfg='MCA_neg_hitexp.cfg', expect='NoHitAtOrAfterExpiry'),
                 dict(module='Adapter', cfg='MCA_neg_delpending.cfg', expect='PendingNeverEvicted'),
                 # CacheFill.tla (wire between store and server): the positive run is the generation config of fill_cases
                 dict(module='CacheFill', cfg='MCF_neg_zero.cfg', expect='EarlierOfBoth'),
                 dict(module='CacheFill', cfg='MCF_neg_probe.cfg', expect='ProbesNameKeys'),
                 dict(module='CacheFill', cfg='MCF_neg_mget.cfg', expect='ProbeShape')]
        if thorough:
            jobs += [dict(module='Lru', cfg='MC_expiry_thorough.cfg', timeout=3000), dict(module='Adapter', cfg='MCA_thorough.cfg', timeout=3000),
                     dict(module='CacheFill', cfg='MCF_thorough.cfg', timeout=3000)]
    tlc_many(ctx, jobs)


def _consts(cfg):
    """MaxSize / MoveEvery of a generation config (handed to the driver, which scales them to bytes / to the 1024 threshold)."""
    txt = open(os.path.join(vlib.SPEC, FAMILY, cfg)).read()
    mx = re.search(r'MaxSize\s*=\s*(\d+)', txt)
    mv = re.search(r'MoveEvery\s*=\s*(\d+)', txt)
    return (mx.group(1) if mx else '6'), (mv.group(1) if mv else '2')


def generate(ctx, module, cfg, scratch, simulate=None, depth=None, seed=None, timeout=1500, workers=4):
    """Run a generation config; the CASE lines stay in TLC's output, which the Go driver reads directly."""
    r = tlc_cached(module, cfg, workers=(1 if simulate else workers), timeout=timeout, simulate=simulate, depth=depth, seed=seed)
    ctx.tlc_runs.append(dict(r.summary(), cases=r.output.count('<<"CASE"')))
    ctx.states += r.distinct
    ctx.transitions += r.generated
    if r.error or r.violated or not (r.finished or simulate):
        ctx.inconclusive.append('generation %s/%s failed: violated=%s error=%s\n%s' % (module, cfg, r.violated, r.error, _tail(r.output)))
        return None, r
    path = os.path.join(scratch, '%s-%s.txt' % (cfg, seed if seed is not None else 'x'))
    with open(path, 'w') as f:
        f.write('\n'.join(l for l in r.output.splitlines() if l.startswith('<<"CASE"')) + '\n')
    return path, r


def _tail(out):
    return '\n'.join(l for l in out.splitlines() if not l.startswith('<<"CASE"'))[-2000:]


def replay(ctx, binp, store, cfg, path):
    if path is None:
        return None
    mx, mv = _consts(cfg)
    return ctx.run_driver(binp, ['-mode', 'replay', '-store', store, '-cases', path, '-max', mx, '-moveevery', mv], timeout=3000)


def gen_and_replay(ctx, binp, scratch, specs):
    """specs: list of (module, cfg, store, kwargs). Generation runs concurrently, replays afterwards."""
    def g(s):
        return generate(ctx, s[0], s[1], scratch, **s[3])
    with ThreadPoolExecutor(max_workers=3) as ex:
        outs = list(ex.map(g, specs))
    exhaustive = True
    for s, (path, r) in zip(specs, outs):
        rep = replay(ctx, binp, s[2], s[1], path)
        if rep is None or rep.get('violations') or rep.get('inconclusive'):
            exhaustive = False
    return exhaustive


def trace_validate(ctx, binp, scratch, runs, steps):
    """code -> spec: random histories on the real lru, every event explained by LruTrace.tla."""
    tdir = tempfile.mkdtemp(prefix='tr-', dir=scratch)
    rep = ctx.run_driver(binp, ['-mode', 'trace', '-runs', str(runs), '-steps', str(steps), '-tracedir', tdir], timeout=1800)
    f = os.path.join(tdir, 'lru-trace.ndjson')
    if rep is None or not os.path.exists(f) or os.path.getsize(f) == 0:
        return
    n = sum(1 for _ in open(f))
    r = vlib.tlc(FAMILY, 'LruTrace', 'Trace.cfg', workers=1, timeout=1800, env={'VERIF_TRACE': f})
    ctx.tlc_runs.append(dict(r.summary(), trace_events=n))
    ctx.states += r.distinct
    ctx.transitions += r.generated
    if r.ok:
        return
    if r.violated or 'Postcondition TraceAccepted' in r.output:
        what = 'history of the real lru rejected by LruTrace.tla: '
        if r.violated:
            what += 'property %s violated on the recorded behaviour' % r.violated
            sig = 'store=lru trace-violates=' + r.violated
        else:
            m = re.search(r'"REJECTED-AT",\s*(\d+),\s*\[(.*?)\]\s*>>', r.output, re.S)
            op = ''
            if m:
                m2 = re.search(r'op \|-> "([^"]+)"', m.group(2))
                op = m2.group(1) if m2 else ''
                what += 'no action of the specification with these arguments yields the logged results and state; event #%s: %s' % (
                    m.group(1), ' '.join(m.group(2).split())[:1500])
            sig = 'store=lru trace-rejected-at=' + (op or 'unknown')
        keep = os.path.join(vlib.VERIF, 'replays', ctx.pid)
        os.makedirs(keep, exist_ok=True)
        dst = os.path.join(keep, 'lru-trace-%s.ndjson' % ctx.seed)
        shutil.copy(f, dst)
        ctx.violation(sig, what, dict(trace=dst))
    else:
        ctx.inconclusive.append('trace validation failed to run: %s\n%s' % (r.error, r.output[-2000:]))


def ttl_cases(ctx, binp, scratch):
    r = tlc_cached('CacheTtl', 'CacheTtl.cfg', workers=1, timeout=300)
    ctx.tlc_runs.append(r.summary())
    if not r.ok:
        ctx.inconclusive.append('CacheTtl.tla: %s %s' % (r.violated, r.error))
        return
    path = os.path.join(scratch, 'ttlcases.txt')
    open(path, 'w').write(r.output)
    ctx.run_driver(binp, ['-mode', 'ttl', '-cases', path], timeout=300)


def fill_generate(ctx, scratch, thorough):
    """All complete behaviours of CacheFill.tla as cases (the same run checks the invariants of the module)."""
    return generate(ctx, 'CacheFill', 'GenF_thorough.cfg' if thorough else 'GenF_quick.cfg', scratch, workers=1, timeout=900)[0]


def fill_cases(ctx, binp, scratch, thorough, path=None):
    """C07 between store and server (spec -> code): every complete behaviour of CacheFill.tla (command shape x call path x
    store x static tags x cached items x server key state, PTTL answers scripted) is one call of the real client; the
    driver compares the wire token by token and logs the expiries for CacheTtlObs.tla.  Returns the observation file."""
    if path is None:
        path = fill_generate(ctx, scratch, thorough)
    elif hasattr(path, 'result'):
        path = path.result()
    if path is None:
        return None
    tdir = tempfile.mkdtemp(prefix='fill-', dir=scratch)
    rep = ctx.run_driver(binp, ['-mode', 'fill', '-cases', path, '-tracedir', tdir], timeout=900)
    f = os.path.join(tdir, 'fill-obs.ndjson')
    if rep is None or not os.path.exists(f) or os.path.getsize(f) == 0:
        if rep is not None:
            ctx.inconclusive.append('fill produced no observations')
        return None
    return f


def e2e(ctx, binp, scratch, rounds):
    """C07 end to end: observations of the real client over fakeredis (real server expiry).  Returns the observation file."""
    tdir = tempfile.mkdtemp(prefix='e2e-', dir=scratch)
    rep = ctx.run_driver(binp, ['-mode', 'e2e', '-runs', str(rounds), '-tracedir', tdir], timeout=900)
    f = os.path.join(tdir, 'e2e-obs.ndjson')
    if rep is None or not os.path.exists(f) or os.path.getsize(f) == 0:
        if rep is not None:
            ctx.inconclusive.append('e2e produced no observations')
        return None
    return f


def judge_obs(ctx, scratch, files):
    """The observation records of the modes e2e and fill, judged by CacheTtlObs.tla in one run."""
    files = [f for f in files if f]
    if not files:
        return
    f = os.path.join(scratch, 'obs-all.ndjson')
    with open(f, 'w') as out:
        for g in files:
            out.write(open(g).read())
    r = vlib.tlc(FAMILY, 'CacheTtlObs', 'CacheTtlObs.cfg', workers=1, timeout=900, env={'VERIF_TRACE': f})
    ctx.tlc_runs.append(dict(r.summary(), observations=sum(1 for _ in open(f))))
    if '"CHECKED"' not in r.output:
        ctx.inconclusive.append('CacheTtlObs.tla did not finish: %s\n%s' % (r.error, r.output[-1500:]))
        return
    for m in re.finditer(r'<<"BAD", (\d+), "([^"]+)", "(.*)">>', r.output):
        rec = json.loads(vlib._unescape_tla(m.group(3)))
        srv = 'none' if rec['srvP'] < 0 and rec['exists'] else ('missing-key' if not rec['exists'] else 'px')
        sig = 'e2e %s store=%s static=%s call=%s server-expiry=%s shape=%s' % (m.group(2), rec['store'], str(rec['static']).lower(),
                                                                              rec['multi'], srv, rec['shape'])
        if rec['mode'] == 'scripted':   # the PTTL answer was scripted: name the class of the answer (p0, p1, small, eq, large)
            sig += ' pttl-answer=' + rec['srv']
        ctx.violation(sig, 'observation #%s of the real client contradicts CacheTtlObs.tla (%s): %s' % (m.group(1), m.group(2), json.dumps(rec)),
                      dict(observation=rec))


def replay_recorded(ctx, binp, scratch, path):
    """bin/check Cxx --replay <file>: re-run the recorded history of a violation on the real store (monitors decide)."""
    v = json.load(open(path))
    rp = v.get('replay') or {}
    if 'history' not in rp:
        ctx.inconclusive.append('replay file %s holds no store history (trace and e2e findings are re-run by the check itself)' % path)
        return
    f = os.path.join(scratch, 'replay.ndjson')
    open(f, 'w').write(json.dumps(dict(pre=rp['history'], steps=[])) + '\n')
    ctx.run_driver(binp, ['-mode', 'replay', '-store', rp.get('store', 'lru'), '-cases', f, '-max', str(rp.get('max_units', 6)),
                          '-moveevery', str(rp.get('move_every', 2)), '-unit', str(rp.get('unit_bytes', 0))], timeout=600)


def run(ctx, which):
    th = ctx.tier == 'thorough'
    scratch = tempfile.mkdtemp(prefix='verif-store-', dir=vlib.SCRATCH_ROOT)
    bg = None
    try:
        binp = vlib.build('storedrv')
        if getattr(ctx, 'replay', None):
            replay_recorded(ctx, binp, scratch, ctx.replay)
            return
        bg = ThreadPoolExecutor(max_workers=1)
        fillgen = bg.submit(fill_generate, ctx, scratch, th) if which == 'expiry' else None   # runs beside the model checking
        model_lru(ctx, which, th)
        if which == 'size':
            specs = [('LruGen', 'Gen_size_thorough.cfg' if th else 'Gen_size.cfg', 'lru', {}),
                     ('LruGen', 'Gen_fill_thorough.cfg' if th else 'Gen_fill.cfg', 'lru', {})]
        else:
            specs = [('LruGen', 'Gen_expiry_thorough.cfg' if th else 'Gen_expiry.cfg', 'lru', {}),
                     ('AdapterGen', 'GenA_edges_thorough.cfg' if th else 'GenA_edges.cfg', 'adapter', {})]
        if th:   # random walks of the full configuration (TLC -simulate enumerates every successor at every step: slow)
            specs.append(('LruGen', 'Gen_walk.cfg', 'lru', dict(simulate=120, depth=26, seed=int(ctx.seed), timeout=3000)))
            if which == 'expiry':
                specs.append(('AdapterGen', 'GenA_walk.cfg', 'adapter', dict(simulate=300, depth=26, seed=int(ctx.seed), timeout=3000)))
        ctx.exhaustive = gen_and_replay(ctx, binp, scratch, specs)
        if which == 'size':
            ctx.run_driver(binp, ['-mode', 'scenario'], timeout=300)
        else:
            ttl_cases(ctx, binp, scratch)
            judge_obs(ctx, scratch, [e2e(ctx, binp, scratch, 96 if th else 30), fill_cases(ctx, binp, scratch, th, fillgen)])
        trace_validate(ctx, binp, scratch, *((600, 60) if th else (120, 40)))
    finally:
        if bg is not None:
            bg.shutdown(wait=True)
        shutil.rmtree(scratch, ignore_errors=True)
    ctx.assumptions += ['TLC and the CommunityModules Json/IOUtils operators are trusted',
                        'the export wrappers of verif_export_store.go read the stores under their own locks',
                        'exhaustive = every transition of the bounded generation configs was replayed through the real store; '
                        'random walks and random histories are samples',
                        'fill: the PTTL answers of fakeredis are scripted per key name (harness/fakeredis/ext_store2.go); one '
                        'connection (PipelineMultiplex -1), so the split of a batch over connections is not part of the cases']

