"""C17 - cache serialization round trip: CacheMarshal / CacheUnmarshalView / CacheSize and every truncation."""
from checks import respcommon
LEVEL = 'exploration'


def run(ctx):
    respcommon.run(ctx, 'c17', ['cache', 'cachewide'], ['MC_neg_null2.cfg'])
