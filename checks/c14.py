"""C14 - commands are written as RESP arrays of bulk strings that decode (independent parser) to the same argv."""
from checks import respcommon
LEVEL = 'exploration'


def run(ctx):
    respcommon.run(ctx, 'c14', ['cmd'], ['MC_neg_chunklen.cfg'], par=2)
