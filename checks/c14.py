"""C14 - commands are written as RESP arrays of bulk strings that decode (independent parser) to the same argv."""
import shutil, tempfile
from checks import respcommon, pipecommon
from lib import vlib
LEVEL = 'exploration'


def run(ctx):
    respcommon.run(ctx, 'c14', ['cmd'], ['MC_neg_chunklen.cfg'], par=2)
    # "every command written to the wire ... equals the command's arguments": also for commands whose call was abandoned
    # or failed while they were still queued (the gated-write mode of the pipeline driver, shared with C33: the server's
    # independently decoded argv must equal the argv the caller built; validated against PipeObs!ArgvImmutable)
    tracedir = tempfile.mkdtemp(prefix='verif-pipe-', dir=vlib.SCRATCH_ROOT)
    try:
        pipecommon.drive(ctx, ['c33'], 10 if ctx.tier == 'thorough' else 2, 'thorough' if ctx.tier == 'thorough' else 'quick', [], tracedir)
        pipecommon.validate(ctx, tracedir, ['ArgvImmutable', 'BatchContiguousOnWire'])
    finally:
        shutil.rmtree(tracedir, ignore_errors=True)
