"""C24 / C05(pool part): Pool.tla exhaustive + negative configs, real pool driven by pooldrv, traces validated
against PoolTrace.tla."""
import glob, json, os, re, shutil, tempfile
from lib import vlib


def model(ctx, thorough):
    cfgs = ['MC_quick.cfg', 'MC_quick2.cfg', 'MC_cap2.cfg']
    if thorough:
        cfgs.append('MC_thorough.cfg')
    for c in cfgs:
        ctx.run_tlc('pool', 'Pool', c, workers=16, timeout=1500)
    ctx.run_tlc('pool', 'Pool', 'MC_live.cfg', workers=4, timeout=600)
    # the invariants are not vacuous: the two defects of the pinned commit break them in the model
    ctx.run_tlc('pool', 'Pool', 'MC_neg_bcast.cfg', expect_violation='NoLostWakeup', workers=4, timeout=300)
    ctx.run_tlc('pool', 'Pool', 'MC_neg_dead.cfg', expect_violation='Accounting', workers=4, timeout=300)
    ctx.run_tlc('pool', 'Pool', 'MC_live_neg.cfg', expect_violation='CtxDoneReturns', workers=4, timeout=300)


def validate_traces(ctx, tracedir):
    """One TLC run per (cap, minsize, procs) group; a rejected trace is real-code behaviour the specification forbids."""
    tmpl = open(os.path.join(vlib.SPEC, 'pool', 'Trace.cfg.tmpl')).read()
    for f in sorted(glob.glob(os.path.join(tracedir, 'pool-cap*.ndjson'))):
        m = re.search(r'cap(\d+)-min(\d+)-procs(\d+)', f)
        cap, mn, procs = int(m.group(1)), int(m.group(2)), int(m.group(3))
        cfg = (tmpl.replace('%PROCS%', ','.join(str(i) for i in range(1, procs + 1)))
               .replace('%CAP%', str(cap)).replace('%MINSIZE%', str(mn))
               .replace('%CANCELABLE%', ','.join(str(i) for i in range(1, procs + 1, 2))))
        cfgp = os.path.join(tracedir, 'Trace-%d-%d-%d.cfg' % (cap, mn, procs))
        open(cfgp, 'w').write(cfg)
        n = sum(1 for _ in open(f))
        r = vlib.tlc('pool', 'PoolTrace', os.path.basename(cfgp), workers=1, timeout=900, files=[cfgp],
                     env={'VERIF_TRACE': f})
        ctx.tlc_runs.append(dict(r.summary(), trace_events=n))
        ctx.states += r.distinct
        ctx.transitions += r.generated
        if r.ok:
            continue
        if r.violated or 'Postcondition TraceAccepted' in r.output:
            # find the longest accepted prefix: depth of the search = number of matched lines (+ silent steps)
            what = 'trace of the real pool rejected by PoolTrace.tla (cap=%d minsize=%d procs=%d): ' % (cap, mn, procs)
            if r.violated:
                what += 'invariant %s violated on the recorded behaviour' % r.violated
                sig = 'pool-trace-invariant-' + r.violated
            else:
                m2 = re.search(r'"REJECTED-AT",\s*(\d+),\s*\[(.*?)\]', r.output, re.S)
                evname = ''
                if m2:
                    m3 = re.search(r'ev \|-> "([^"]+)"', m2.group(2))
                    evname = m3.group(1) if m3 else ''
                    what += 'no action of the specification explains recorded event #%s (%s): %s' % (
                        m2.group(1), evname, ' '.join(m2.group(2).split()))
                else:
                    what += 'no action of the specification explains the next recorded event'
                sig = 'pool-trace-rejected-at-' + (evname or 'unknown')
            keep = os.path.join(vlib.VERIF, 'replays', ctx.pid)
            os.makedirs(keep, exist_ok=True)
            dst = os.path.join(keep, os.path.basename(f))
            shutil.copy(f, dst)
            ctx.violation(sig, what + '\n' + r.output[-1500:], dict(trace=dst, cfg=cfg))
        else:
            ctx.inconclusive.append('trace validation failed to run: %s\n%s' % (r.error, r.output[-2000:]))


def drive(ctx, thorough, modes=('stress', 'lostwake', 'deadstore', 'integ')):
    binp = vlib.build('pooldrv')
    tracedir = tempfile.mkdtemp(prefix='verif-pool-', dir=vlib.SCRATCH_ROOT)
    try:
        for m in modes:
            args = ['-mode', m]
            if m == 'stress':
                args += ['-runs', '400' if thorough else '60', '-tracedir', tracedir]
            ctx.run_driver(binp, args, timeout=1800)
        if 'stress' in modes:
            validate_traces(ctx, tracedir)
    finally:
        shutil.rmtree(tracedir, ignore_errors=True)
    ctx.assumptions += ['stub wires stand for connections (pool.go only uses StopTimer/ResetTimer/Error/Close of a wire)',
                        'hook events are emitted while the pool mutex is held; goroutine scheduling is perturbed by seeded yields, not controlled']
