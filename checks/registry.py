"""Single source of the MANIFEST.json entries: bin/mkmanifest renders it."""

HOOK_COMMITS = ['83fd8f2', '713b01e']

CHECKS = {
 'C24': dict(
    level='model_checking', technique='TLA+ spec of pool.go checked by TLC + trace validation of hook-instrumented real pool runs + TLC counterexample schedules replayed with blocking hooks',
    text='Pool.tla (one action per critical section of pool.go) is model-checked exhaustively for 2-3 acquirers, caps 1-2, '
         'cancellation, broken/expired wires, idle cleanup and Close (Accounting, Bound, Exclusive, NoLeak, NoLostWakeup, liveness under '
         'fairness), with negative configs re-introducing the two repaired defects. The real pool is then driven with stub wires under seeded '
         'schedule perturbation; every hook event (emitted under the pool mutex, with size/idle/down) must be explained by PoolTrace.tla with '
         'all invariants evaluated at every step, and the TLC counterexample schedules are forced through the real Acquire.',
    design_ref='DESIGN.md 4.4, 5 C24',
    note='Trusted: TLC, the hook placement (under the pool mutex), stub wires standing for connections. Bounded: <=3 processes in TLC; '
         'real runs perturb but do not control the Go scheduler.'),
}

NOT_APPLICABLE = {
 'C32': 'needs an independent classification of Redis commands (side-effect free / blocking); none exists offline, a table typed into a TLA+ constant would verify nothing',
 'C42': 'differential property against go-redis v9, which is not in the module cache; there is no state machine to specify',
}
