"""Single source of the MANIFEST.json entries: bin/mkmanifest renders it.  Every family keeps its entries in
checks/reg/<family>.py (CHECKS = {...}); hook commits are read from /repo's history (subjects starting with "verif:")."""
import importlib, os, pkgutil, subprocess

CHECKS = {}
_d = os.path.join(os.path.dirname(os.path.abspath(__file__)), 'reg')
for _m in sorted(pkgutil.iter_modules([_d]), key=lambda m: m.name):
    _mod = importlib.import_module('checks.reg.' + _m.name)
    for _k, _v in getattr(_mod, 'CHECKS', {}).items():
        if _k in CHECKS:
            raise RuntimeError('duplicate registry entry %s (%s)' % (_k, _m.name))
        CHECKS[_k] = _v


def hook_commits():
    try:
        out = subprocess.run(['git', '-C', '/repo', 'log', '--format=%h %s'], stdout=subprocess.PIPE, text=True).stdout
        return [l.split()[0] for l in reversed(out.splitlines()) if l.split(' ', 1)[1].startswith('verif:')]
    except Exception:
        return []


HOOK_COMMITS = hook_commits()

NOT_APPLICABLE = {
 'C32': 'needs an independent classification of Redis commands (side-effect free / blocking); none exists offline, a table typed into a TLA+ constant would verify nothing',
 'C42': 'differential property against go-redis v9, which is not in the module cache; there is no state machine to specify',
}
