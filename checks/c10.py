"""C10 - client-side cache memory stays within CacheSizeEachConn (lru.go): see checks/storecommon.py."""
from checks import storecommon
LEVEL = 'model_checking'


def run(ctx):
    storecommon.run(ctx, 'size')
