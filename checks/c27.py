"""C27: invalidation callbacks observe exactly the server's invalidation pushes; nil at connection loss; tracking off on release."""
from checks import pipecommon
LEVEL = 'model_checking'


def run(ctx):
    pipecommon.run_family(
        ctx, 'C27',
        mc=['MC_inval.cfg', 'MC_dedicated.cfg'],
        negs=[('MC_neg_nolossnil.cfg', 'LossNilOnce'), ('MC_neg_skipinval.cfg', 'InvalidationLog'), ('MC_neg_notrackingoff.cfg', 'TrackingOffOnRelease'),
              # the nil at connection loss does not depend on the client-side cache (option callback / session hook)
              ('MC_neg_lossnilcache.cfg', 'LossNilOnce'), ('MC_neg_lossnilcache_hook.cfg', 'LossNilOnce', 'th')],
        gens=[('Geninv_q.cfg', 50, 400)],
        modes=['inval', 'dedicated'],
        neg_traces=['drop-loss-nil', 'tracking-left-on', 'duplicate-invalidation'],
        runs_quick=4, runs_thorough=40)
