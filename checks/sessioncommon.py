"""Shared by C25 and C29: PoolSessions.tla model checking, sessiondrv runs, SessionTrace.tla validation, and the
family's proposed known-findings list (applied here until it is merged into known_findings.json)."""
import json, os, re, shutil, tempfile, threading
from lib import vlib


def apply_proposed_known(ctx):
    """proposed/known_findings_session.json lists findings of this family that cannot be repaired by a small patch.
    Until the list is merged into the shared known_findings.json (vlib then does the same) the check reports them as
    KNOWN-FINDING itself; any other violation of the property is left for vlib to report."""
    p = os.path.join(vlib.VERIF, 'proposed', 'known_findings_session.json')
    if not os.path.exists(p):
        return
    known = [k for k in json.load(open(p)) if k.get('property') == ctx.pid and k.get('status') == 'known']
    shared = vlib.load_known()
    rest, n = [], 0
    for v in ctx.violations:
        k = next((k for k in known if re.fullmatch(k['signature'], v.get('signature', '') or '')), None)
        if k is not None and vlib.match_known(shared, ctx.pid, v.get('signature', '')) is None:
            print('KNOWN-FINDING: property=%s %s [%s]' % (ctx.pid, k['what'], k['signature']))
            n += 1
        else:
            rest.append(v)
    ctx.violations = rest
    if n:
        ctx.extra['known_findings_reported_by_check'] = n


def background(ctx, runs):
    """Run small TLC configs one after the other in a background thread: runs = [(module, cfg, expected or None)]."""
    def work():
        for module, cfg, inv in runs:
            ctx.run_tlc('pool', module, cfg, expect_violation=inv, workers=2, timeout=900)
    t = threading.Thread(target=work)
    t.start()
    return t


def validate_session_trace(ctx, tracedir):
    f = os.path.join(tracedir, 'sessions.ndjson')
    if not os.path.exists(f):
        ctx.inconclusive.append('no session trace was written')
        return
    n = sum(1 for _ in open(f))
    r = vlib.tlc('pool', 'SessionTrace', 'SessionTrace.cfg', workers=1, timeout=1800, env={'VERIF_TRACE': f})
    ctx.tlc_runs.append(dict(r.summary(), trace_events=n))
    ctx.states += r.distinct
    ctx.transitions += r.generated
    if r.ok:
        return
    if r.violated or 'Postcondition TraceAccepted' in r.output:
        what = 'trace of real dedicated sessions rejected by SessionTrace.tla: '
        if r.violated:
            what += 'invariant %s violated on the recorded behaviour' % r.violated
            sig = 'session-trace-invariant-' + r.violated
        else:
            m2 = re.search(r'"REJECTED-AT",\s*(\d+),\s*\[(.*?)\]', r.output, re.S)
            evname = ''
            if m2:
                m3 = re.search(r'ev \|-> "([^"]+)"', m2.group(2))
                evname = m3.group(1) if m3 else ''
                what += 'no action of the specification explains recorded event #%s (%s): %s' % (
                    m2.group(1), evname, ' '.join(m2.group(2).split()))
            sig = 'session-trace-rejected-at-' + (evname or 'unknown')
        keep = os.path.join(vlib.VERIF, 'replays', ctx.pid)
        os.makedirs(keep, exist_ok=True)
        dst = os.path.join(keep, 'sessions.ndjson')
        shutil.copy(f, dst)
        ctx.violation(sig, what + '\n' + r.output[-1500:], dict(trace=dst))
    else:
        ctx.inconclusive.append('session trace validation failed to run: %s\n%s' % (r.error, r.output[-2000:]))
