"""C34 rueidislock: Lock.tla (exhaustive + negative configs + liveness), TLC-generated and counterexample-derived
scenarios driven through real lockers over fakeredis (lockdrv), traces judged by LockTrace.tla."""
import json, os, random, re, shutil, tempfile, threading
from lib import vlib
from checks import lockaside_common

LEVEL = 'model_checking'
FAMILY = 'addons'
CLIENT = {1: 1, 2: 1, 3: 2}           # MC_lock_gen.cfg: ClientOf = <<1, 1, 2>>
CLIENT2 = {1: 1, 2: 2}                # counterexample configs: ClientOf = <<1, 2>>

# quick: small exhaustive configurations (q3, 160 394 states, moved to the thorough tier in round 2: t1 and q8 cover the
# third-party delete in the quick tier's budget)
QUICK = ['MC_lock_q1.cfg', 'MC_lock_q2.cfg', 'MC_lock_q5.cfg', 'MC_lock_q6.cfg', 'MC_lock_q7.cfg', 'MC_lock_q8.cfg',
         'MC_lock_q9.cfg']
THOROUGH = ['MC_lock_q3.cfg', 'MC_lock_t1.cfg', 'MC_lock_t2.cfg', 'MC_lock_t3.cfg', 'MC_lock_t4.cfg', 'MC_lock_t5.cfg',
            'MC_lock_t7.cfg', 'MC_lock_t8.cfg']
# negative configurations whose counterexample is replayed against the real lockers (run first, by the driver side)
CEXNEG = [('MC_lock_neg_order1.cfg', 'DoneBeforeRelease'), ('MC_lock_neg_order2.cfg', 'MutualExclusion'),
          ('MC_lock_neg_acqerr.cfg', 'NoLostWakeup'), ('MC_lock_neg_nilinval.cfg', 'NoLostWakeup')]
NEG = [('MC_lock_neg_handoff.cfg', 'NoLostWakeup'), ('MC_lock_neg_token.cfg', 'ExtendsOwnKeyOnly'),
       ('MC_lock_neg_thresh.cfg', 'CancelAtMajorityLoss'), ('MC_lock_neg_inval.cfg', 'NoLostWakeup'),
       ('MC_lock_neg_mixed.cfg', 'CancelAtMajorityLoss')]
# the time side (LockTime.tla): the extend protocol keeps the key alive and implies the rule LockTrace.tla applies
TIME = [('MC_locktime.cfg', None), ('MC_locktime_additive.cfg', 'KeyAliveWhileExtending'),
        ('MC_locktime_stale.cfg', 'KeyAliveWhileExtending'), ('MC_locktime_short.cfg', 'FreshExpiry')]


CEX = {}      # negative config -> TLC result (its error trace is replayed against the real code)
_LOCK = threading.Lock()


def _tlc(ctx, module, cfg, expect=None, **kw):
    """ctx.run_tlc, safe to call from the model thread while the driver side runs."""
    r = vlib.tlc(FAMILY, module, cfg, **kw)
    with _LOCK:
        ctx.tlc_runs.append(r.summary())
        ctx.states += r.distinct
        ctx.transitions += r.generated
        if expect is not None:
            if r.violated != expect and r.violated != 'temporal':
                ctx.inconclusive.append('negative config %s/%s: expected violation of %s, got %s %s' % (
                    FAMILY, cfg, expect, r.violated, r.error or ''))
        elif not r.ok:
            ctx.inconclusive.append('TLC %s/%s %s: violated=%s error=%s\n%s' % (
                FAMILY, module, cfg, r.violated, r.error, r.output[-3000:]))
    return r


def model(ctx, th):
    """The pure model part; runs in its own thread next to the scenario generation and the driver."""
    try:
        for c in QUICK + (THOROUGH if th else []):
            _tlc(ctx, 'MCLock', c, workers=4, timeout=1500)
        for c, inv in NEG:
            _tlc(ctx, 'MCLock', c, expect=inv, workers=4, timeout=600)
        for c, inv in TIME:
            _tlc(ctx, 'LockTime', c, expect=inv, workers=2, timeout=600)
        _tlc(ctx, 'MCLock', 'MC_lock_live_prompt.cfg', workers=2, timeout=600)
        if th:
            _tlc(ctx, 'MCLock', 'MC_lock_live_wait.cfg', workers=4, timeout=1500)
            _tlc(ctx, 'MCLock', 'MC_lock_live_prompt2.cfg', workers=4, timeout=1500)
        _tlc(ctx, 'MCLock', 'MC_lock_live_neg.cfg', expect='Prompt', workers=2, timeout=600)
        _tlc(ctx, 'MCLock', 'MC_lock_live_mixed.cfg', expect='Prompt', workers=2, timeout=600)
    except Exception as ex:                                   # pragma: no cover
        with _LOCK:
            ctx.inconclusive.append('model part crashed: %r' % (ex,))


def cex_models(ctx):
    for c, inv in CEXNEG:
        CEX[c] = _tlc(ctx, 'MCLock', c, expect=inv, workers=4, timeout=600)


# ------------------------------------------------------------------------------------ TLC behaviour -> driver scenario
def project(hist, client, sid, cls, noretry=False, relat='first'):
    """Keeps the environment-controlled steps of a behaviour of Lock.tla, in order. A delkey whose effect is followed
    by another caller's progress before the local bookkeeping (Count) becomes a delayed delkey reply."""
    steps, lastacq, begun, relpend = [], {}, {}, []
    # The user's release: cancel() and the DELs of the keys are one burst in the real code, several steps in the model.
    # What matters is the order of the DELs relative to the environment's steps: the burst is placed where the model
    # gives up the first (relat='first') or the last (relat='last') key of that try.
    relpos = {}
    for n, r in enumerate(hist):
        if r['a'] == 'Release':
            dk = []
            for j in range(n + 1, len(hist)):
                if hist[j]['p'] == r['p'] and hist[j]['a'] == 'Begin':
                    break
                if hist[j]['p'] == r['p'] and hist[j]['a'] == 'DelKey':
                    dk.append(j)
            if dk:
                relpos[dk[0] if relat == 'first' else dk[-1]] = r['p']
    for n, r in enumerate(hist):
        a, p, i, m = r['a'], r['p'], r['i'], r['m']
        if relpos.get(n) in relpend:
            relpend.remove(relpos[n])
            steps.append(dict(op='rel', h=client[relpos[n]]))
        if a == 'Begin':
            begun[p] = m                     # the call is placed where its first acquisition step happens
        elif a in ('LoopStep', 'AcqErr') and p in begun:
            lastacq[p] = len(steps)
            steps.append(dict(op='acq', h=client[p], m=begun.pop(p)))
        if a == 'Release':
            relpend.append(p)
        elif a == 'IoErr':
            gap = False
            dk = next((j for j in range(n + 1, len(hist)) if hist[j]['a'] == 'DelKey' and hist[j]['p'] == p and hist[j]['i'] == i), None)
            if dk is not None:
                cn = next((j for j in range(dk + 1, len(hist)) if hist[j]['a'] == 'Count' and hist[j]['p'] == p and hist[j]['i'] == i), len(hist))
                gap = any(hist[j]['p'] != p and hist[j]['a'] in ('LoopStep', 'Locked', 'Begin') for j in range(dk + 1, cn))
            if gap:
                steps.append(dict(op='holddel', h=client[p], ms=250))
            steps.append(dict(op='fail', h=client[p], k=i, m='cut' if noretry else 'err'))
        elif a == 'AcqErr':
            at = lastacq.get(p, len(steps))
            steps.insert(at, dict(op='failacq', h=client[p]))
            for q in lastacq:
                if lastacq[q] >= at:
                    lastacq[q] += 1
        elif a == 'ExtDelete':
            steps.append(dict(op='xdel', k=i))
        elif a == 'Expire':
            steps.append(dict(op='expire', k=i))
        elif a == 'Disconnect':
            steps.append(dict(op='sleep', ms=60))       # whoever is about to park has parked
            steps.append(dict(op='cut', h=p))
            steps.append(dict(op='sleep', ms=60))
        elif a == 'SrcCancel':
            steps.append(dict(op='cancel', h=client[p]))
    for p in relpend:
        steps.append(dict(op='rel', h=client[p]))
    return dict(id=sid, lockers=max(client.values()), noretry=noretry, noloop=True, steps=steps, **{'class': cls})


_STATE = re.compile(r'^State (\d+): <(\w+)(?:\(([^)]*)\))? line', re.M)


def hist_of_counterexample(out, modes):
    """Rebuilds the behaviour (same records as the `hist` variable of Lock.tla) from the error trace TLC printed:
    action names with their arguments, the outcome of a step from the change of the environment counters."""
    heads = list(_STATE.finditer(out))
    hist, prev = [], dict(ioerrs=0, acqerrs=0)
    for n, h in enumerate(heads):
        body = out[h.end():heads[n + 1].start() if n + 1 < len(heads) else len(out)]
        cur = {k: int(m.group(1)) for k in prev for m in [re.search(r'/\\ %s = (\d+)' % k, body)] if m}
        cur = dict(prev, **cur)
        act = h.group(2)
        args = [int(x) for x in (h.group(3) or '').replace(' ', '').split(',') if x.lstrip('-').isdigit()]
        p = args[0] if args else 0
        i = args[1] if len(args) > 1 else -1
        a = None
        if act == 'Begin':
            a, i, m = 'Begin', -1, modes[p - 1]
        elif act == 'UserRelease':
            a, m = 'Release', ''
        elif act in ('TimerExtend', 'CscExtend'):
            a, m = ('IoErr' if cur['ioerrs'] > prev['ioerrs'] else 'Ext'), ''
        elif act in ('LoopStep', 'BgStep'):
            a, m = ('AcqErr' if cur['acqerrs'] > prev['acqerrs'] else 'LoopStep'), ''
        elif act == 'LoopEnd':
            a, m = 'Locked', ''
        elif act in ('ExtDelete', 'Expire'):
            a, p, i, m = act, 0, args[0], ''
        elif act in ('Disconnect', 'SrcCancel', 'DelKey', 'Count'):
            a, m = act, ''
        elif act == 'Finish':                 # repaired order: the delkey and the counter update are one step
            a, m = 'DelKey', ''
        if a:
            hist.append(dict(a=a, p=p, i=i, m=m))
        prev = cur
    return hist


def scenarios(ctx, th):
    scs = []
    # 1. the counterexamples of the negative configurations (the code as found), replayed several times because the
    #    real run only approximates the order of the behaviour
    for cfg, cls in (('MC_lock_neg_order1.cfg', 'cex-order1'), ('MC_lock_neg_order2.cfg', 'cex-order2'),
                     ('MC_lock_neg_acqerr.cfg', 'cex-acqerr'), ('MC_lock_neg_nilinval.cfg', 'cex-nilinval')):
        r = CEX.get(cfg)
        if r is None:
            r = vlib.tlc(FAMILY, 'MCLock', cfg, workers=4, timeout=600)
            ctx.tlc_runs.append(r.summary())
        hist = hist_of_counterexample(r.output, ('with', 'try'))
        if not any(x['a'] in ('IoErr', 'AcqErr', 'Disconnect') for x in hist):
            ctx.inconclusive.append('no counterexample behaviour from %s: %s' % (cfg, r.error))
            continue
        for rep in range(4 if th else 3):
            scs.append(project(hist, CLIENT2, '%s-%d' % (cls, rep), cls, relat='first' if rep == 1 else 'last'))
        scs.append(project(hist, CLIENT2, '%s-cut' % cls, cls, noretry=True))
    # 1b. the counterexample of MC_lock_neg_handoff (two WithContext callers on one NOLOOP locker, the source context of
    #     one ends in the middle of its try): the race needs sub-millisecond timing, so the delay of the cancellation is swept
    for n in range(30 if th else 16):
        scs.append(dict(id='cex-handoff-%d' % n, lockers=1, noretry=False, noloop=True, **{'class': 'cex-handoff'},
                        steps=[dict(op='acq', h=1, m='try'), dict(op='rel', h=1), dict(op='sleep', ms=40),
                               dict(op='acqcancel', h=1, ms=40 + 90 * n), dict(op='acq', h=1, m='with'), dict(op='sleep', ms=100)]))
    # 1c. every combination of causes by which a held lock loses its majority (MC_lock_lossgen: exhaustive, one holder);
    #     the specification predicts the context cancelled at the crossing step (`done`), LockTrace.tla holds the real
    #     locker to it (CancelAtKnownLoss); the lock is then held for longer than KnownMs
    scs += loss_scenarios(ctx, th)
    # 1d. slow extend round trips over several ticks (LockTime.tla: the key must stay alive; LockTrace.tla: ExtendsInTime)
    for n in range(4 if th else 3):
        scs.append(dict(id='slowext-%d' % n, lockers=1, noretry=False, noloop=n != 2, **{'class': 'slowext'},
                        steps=[dict(op='acq', h=1, m='with'), dict(op='slowext', h=1, ms=30 + 15 * n), dict(op='sleep', ms=750)]))
    # 2. random behaviours of the model with every kind of environment step
    r = vlib.tlc(FAMILY, 'MCLock', 'MC_lock_gen.cfg', simulate=(400 if th else 90), depth=40, seed=ctx.seed,
                 collect_cases=True, timeout=900)
    ctx.tlc_runs.append(r.summary())
    seen = set()
    for n, hist in enumerate(r.cases):
        sc = project(hist, CLIENT, 'gen%d' % n, 'generated', noretry=(n % 5 == 4), relat='first' if n % 2 else 'last')
        key = json.dumps(sc['steps'], sort_keys=True)
        if key in seen or not any(s['op'] not in ('acq', 'rel') for s in sc['steps']):
            continue
        seen.add(key)
        sc['noloop'] = n % 3 != 0
        scs.append(sc)
    if not r.cases:
        ctx.inconclusive.append('scenario generation produced nothing: %s\n%s' % (r.error, r.output[-1500:]))
    return scs


HOLD_MS = 2000        # > KnownMs of LockTrace.cfg


def loss_scenarios(ctx, th):
    r = vlib.tlc(FAMILY, 'MCLock', 'MC_lock_lossgen3.cfg' if th else 'MC_lock_lossgen.cfg', workers=1, collect_cases=True, timeout=900)
    with _LOCK:
        ctx.tlc_runs.append(r.summary())
    if not r.ok or not r.cases:
        ctx.inconclusive.append('majority-loss case generation failed: %s\n%s' % (r.error or r.violated, r.output[-1500:]))
        return []
    byenv = {}
    for c in r.cases:
        if c['done'] is not True:
            ctx.inconclusive.append('Lock.tla does not predict a cancelled context for %s' % json.dumps(c['h']))
            continue
        env = tuple((x['a'], x['i']) for x in c['h'] if x['a'] in ('ExtDelete', 'Expire', 'IoErr'))
        byenv.setdefault(env, c['h'])
    envs = sorted(byenv)
    rng = random.Random(ctx.seed)
    if not th:
        # quick: every sequence of causes once (keys chosen by the seed), the rest in the thorough tier
        bycause = {}
        for e in envs:
            bycause.setdefault(tuple(a for a, _ in e), []).append(e)
        envs = [rng.choice(v) for _, v in sorted(bycause.items())]
    else:
        # thorough: every minimal case (two environment steps), a seeded sample of the longer ones
        longer = [e for e in envs if len(e) > 2]
        envs = [e for e in envs if len(e) <= 2] + rng.sample(longer, min(len(longer), 70))
    scs = []
    for n, env in enumerate(envs):
        steps = [dict(op='acq', h=1, m='with'), dict(op='sleep', ms=130)]
        for a, i in env:
            if a == 'ExtDelete':
                steps.append(dict(op='xdel', k=i))
            elif a == 'Expire':
                steps.append(dict(op='expire', k=i))
            else:
                steps.append(dict(op='fail', h=1, k=i, m='cut' if n % 4 == 3 else 'err'))
        steps.append(dict(op='sleep', ms=HOLD_MS))
        scs.append(dict(id='loss-%d' % n, lockers=1, noretry=n % 4 == 3, noloop=n % 3 != 2, steps=steps, **{'class': 'loss'}))
    return scs


# ------------------------------------------------------------------------------------ traces -> LockTrace.tla
def signature(prop, evs):
    faults = [e for e in evs if e['ev'] == 'Fault']
    if prop == 'DoneBeforeRelease':
        d = next((e for e in evs if e['ev'] == 'Del' and e['res'] == 'ok' and e['live'] == 'live'), None)
        cause = 'other'
        if d is not None:
            f = [x for x in faults if x['tok'] == d['tok'] and x['k'] == d['k']]
            if f:
                cause = {'err': 'extend-error=reply', 'cut': 'extend-error=transport', 'acqerr': 'acquire-error'}.get(f[-1]['res'], f[-1]['res'])
        return 'lock-delkey-before-cancel ' + cause
    if prop == 'MutualExclusion':
        own = any(e['ev'] == 'Del' and e['res'] == 'ok' and e['live'] == 'live' for e in evs)
        return 'lock-two-live-contexts ' + ('after-own-delkey' if own else 'other')
    if prop == 'Prompt':
        return 'lock-context-live-after-majority-loss'
    if prop == 'CancelAtKnownLoss':
        # which causes made up the majority the holder was told of
        causes = set()
        for e in evs:
            if e['ev'] == 'Fault' and e['res'] in ('err', 'cut', 'acqerr') and e['k'] >= 0:
                causes.add('io')
            elif e['ev'] in ('Ext', 'Acq') and e['res'] == 'no':
                causes.add('notlocked')
        return 'lock-context-live-after-known-majority-loss causes=' + '+'.join(sorted(causes))
    if prop == 'ExtendsInTime':
        return 'lock-extend-expiry-not-send-time-plus-validity'
    if prop == 'NoStuckWaiter':
        if any(e['ev'] == 'Stuck' and e['res'] == 'hung' for e in evs):
            return 'lock-call-never-returns'
        if any(e['ev'] == 'Cut' for e in evs) and not any(f['res'] == 'acqerr' for f in faults):
            return 'lock-waiter-parked-on-free-lock after-connection-loss'
        return 'lock-waiter-parked-on-free-lock ' + ('after-acquire-errors' if any(f['res'] == 'acqerr' for f in faults) else 'missed-wakeup')
    return 'lock-' + prop


def validate(ctx, tracefile, index):
    return lockaside_common.validate(ctx, 'LockTrace', 'LockTrace.cfg', 'lock', tracefile, index)


def drive(ctx, th, scs):
    binp = vlib.build('lockdrv')
    tmp = tempfile.mkdtemp(prefix='verif-lock-', dir=vlib.SCRATCH_ROOT)
    try:
        sf = os.path.join(tmp, 'scen.ndjson')
        vlib.write_ndjson(sf, scs)
        rep = ctx.run_driver(binp, ['-mode', 'both', '-scen', sf, '-runs', '120' if th else '36', '-tracedir', tmp,
                                    '-par', '16'], timeout=1500)
        if rep is None:
            return
        index = json.load(open(os.path.join(tmp, 'lock-index.json')))
        verdicts, events = validate(ctx, os.path.join(tmp, 'lock-traces.ndjson'), index)
        for j, props in sorted(verdicts.items()):
            e = index[j]
            evs = events[e['first'] - 1:e['last']]
            for prop in sorted(props):
                sig = signature(prop, evs)
                if prop in ('Prompt', 'NoStuckWaiter', 'CancelAtKnownLoss') and not confirm(ctx, binp, e['scenario'], prop, tmp):
                    ctx.notes.append('%s on scenario %s did not reproduce (timing)' % (prop, e['scenario']['id']))
                    continue
                keep = os.path.join(vlib.VERIF, 'replays', ctx.pid)
                os.makedirs(keep, exist_ok=True)
                dst = os.path.join(keep, '%s-%s.ndjson' % (prop, e['scenario']['id']))
                vlib.write_ndjson(dst, evs)
                ctx.violation(sig, 'real lockers, scenario %s: LockTrace.tla reports %s violated on the recorded trace' % (
                    json.dumps(e['scenario']), prop), dict(trace=dst, scenario=e['scenario']))
    finally:
        shutil.rmtree(tmp, ignore_errors=True)
    ctx.assumptions += ['fakeredis + luamini stand for Redis: OPTOUT/NOLOOP tracking, invalidation on write and expiry, PXAT keys on the real clock, scripts executed from the text the library sends',
                        'a scenario only approximates the order of the TLC behaviour it comes from; verdicts are taken from the recorded trace alone',
                        'contexts are read inside the server event sink right after a script took effect (monotone, hence sound without hooks)']


def confirm(ctx, binp, sc, prop, tmp):
    """Timing dependent verdicts (promptness, parked waiter) must reproduce in both of two further runs of the same scenario,
    run one after the other (a starved machine makes such a verdict once in a while; a defect makes it every time)."""
    d = tempfile.mkdtemp(prefix='confirm-', dir=tmp)
    sf = os.path.join(d, 'scen.ndjson')
    vlib.write_ndjson(sf, [dict(sc, id='%s-r%d' % (sc['id'], n)) for n in range(2)])
    sub = vlib.Ctx(ctx.pid, ctx.tier, ctx.seed, ctx.level)
    rep = sub.run_driver(binp, ['-mode', 'scen', '-scen', sf, '-tracedir', d, '-par', '1'], timeout=600)
    if rep is None:
        return False
    index = json.load(open(os.path.join(d, 'lock-index.json')))
    verdicts, _ = validate(sub, os.path.join(d, 'lock-traces.ndjson'), index)
    return sum(1 for props in verdicts.values() if prop in props) >= 2


def run(ctx):
    th = ctx.tier == 'thorough'
    mt = None
    if os.environ.get('VERIF_ONLY') != 'drive':      # development aid (mutation self-tests): skip the pure model part
        # the pure model part and the driver side are independent: they run side by side (two jobs at a time)
        mt = threading.Thread(target=model, args=(ctx, th))
        mt.start()
    try:
        if os.environ.get('VERIF_ONLY') != 'model':
            cex_models(ctx)
            scs = scenarios(ctx, th)
            drive(ctx, th, scs)
    finally:
        if mt is not None:
            mt.join()
