"""C05 - calls honour context deadlines and cancellation (pipeline queue, cache flight, retry back-off, done contexts;
the blocking pool part is checks/poolcommon.py)."""
from checks import faultcommon as fc
from checks import poolcommon
LEVEL = 'model_checking'


def run(ctx):
    if getattr(ctx, 'replay', None):
        return fc.replay(ctx, lambda w: w in fc.C05_RETRY_WHATS, lambda w: w in fc.C05_FAULT_WHATS)
    th = ctx.tier == 'thorough'
    # pipeline wait: leads-to under fairness of the caller's own steps; MC_live_ring shows the ring's documented limitation
    fc.run_tlc_many(ctx, fc.pipe_model_jobs(th, 'c05') + [fc.J('client', 'Retry', 'MC_neg_afterctx.cfg', 'NoSpin', 2)], threads=4)
    # pool wait: Pool.tla liveness + the lost wake-up schedule through the real pool
    ctx.run_tlc('pool', 'Pool', 'MC_live.cfg', workers=4, timeout=600)
    ctx.run_tlc('pool', 'Pool', 'MC_live_neg.cfg', expect_violation='CtxDoneReturns', workers=2, timeout=300)
    poolcommon.drive(ctx, th, modes=('lostwake',) if not th else ('lostwake', 'stress'))
    # waiting places on the real client: stalled server with both queue implementations, cache flight of another caller,
    # contexts that are already done
    cases = fc.gen_fault_cases(ctx)
    ctxcases = [c for c in cases if c['fault'] == 'ctxend' or any(v == 'done' for v in c['ctx'].values())]
    n = 600 if th else 70
    always = lambda c: c['small']
    verdicts = []
    for q in ('ring', 'flowbuffer'):
        verdicts += fc.run_fault_scenarios(ctx, fc.select_fault_cases(ctxcases, n, ctx.seed, always=always), q)
    fc.report_fault_verdicts(ctx, verdicts, lambda w: w in fc.C05_FAULT_WHATS, cases)
    # retry back-off: RetryDelay far beyond the deadline, contexts ending between attempts
    rcases = [c for c in fc.gen_retry_cases(ctx, 30000 if th else 6000, ctx.seed) if c['ctxKind'] != 'none']
    sel = fc.select_retry_cases(rcases, 800 if th else 100, ctx.seed)
    rv, rep = fc.run_retry_scenarios(ctx, sel)
    fc.report_retry_verdicts(ctx, rv, lambda w: w in fc.C05_RETRY_WHATS, sel)
    ctx.extra['scenarios_run'] = dict(fault=2 * n, retry=len(sel))
    ctx.exhaustive = False
    ctx.assumptions += [
        'promptness: a return later than 5 s after the context ended is late, a call still pending after 12 s hangs; both are re-run before '
        'they are reported',
        'deadlines are real timers (400 ms); cancel() is called by the driver while the server holds every reply']
