"""C05 - calls honour context deadlines and cancellation (pipeline queue, cache flight, blocking pool, retry back-off, handshake
of a new connection, done contexts; the model of the blocking pool is checks/poolcommon.py)."""
from checks import faultcommon as fc
from checks import poolcommon
LEVEL = 'model_checking'


def run(ctx):
    if getattr(ctx, 'replay', None):
        return fc.replay(ctx, lambda w: w in fc.C05_RETRY_WHATS, lambda w: w in fc.C05_FAULT_WHATS)
    th = ctx.tier == 'thorough'
    n = 600 if th else 80
    always = lambda c: c['small']
    newkind = lambda c: bool(set(c['pend']) & set(fc.NEW_WAITING_KINDS))
    out = {}

    def models():
        # pipeline wait: leads-to under fairness of the caller's own steps; MC_live_ring shows the ring's documented limitation;
        # pool wait: Pool.tla liveness
        fc.run_tlc_many(ctx, fc.pipe_model_jobs(th, 'c05') + [fc.J('client', 'Retry', 'MC_neg_afterctx.cfg', 'NoSpin', 2),
                                                              fc.J('pool', 'Pool', 'MC_live.cfg', workers=4, timeout=600),
                                                              fc.J('pool', 'Pool', 'MC_live_neg.cfg', 'CtxDoneReturns', 2, timeout=300)],
                        threads=4)

    def pool():
        # the lost wake-up schedule through the real pool
        poolcommon.drive(ctx, th, modes=('lostwake',) if not th else ('lostwake', 'stress'))

    def places():
        # waiting places on the real client: every waiting place (reply, queue slot, cache flight, blocking pool, retry back-off,
        # handshake of a new connection) with every kind of context (deadline, cancel-only, deadline cancelled by hand), contexts
        # that are already done; stalled server with both queue implementations (the places that do not depend on the queue
        # implementation are visited once)
        cases = fc.gen_fault_cases(ctx)
        ctxcases = [c for c in cases if c['fault'] == 'ctxend' or any(v == 'done' for v in c['ctx'].values())]
        sels = {q: fc.select_ctx_cases(ctxcases, n, ctx.seed, allow=(None if q == 'ring' else (lambda c: not newkind(c))), always=always)
                for q in ('ring', 'flowbuffer')}
        vs = fc.parallel(ctx, lambda: fc.run_fault_scenarios(ctx, sels['ring'], 'ring'),
                         lambda: fc.run_fault_scenarios(ctx, sels['flowbuffer'], 'flowbuffer', par=12))
        out['fault'] = (vs[0] + vs[1], cases, sum(len(x) for x in sels.values()))

    def backoff():
        # retry scripts: RetryDelay far beyond the deadline, contexts ending between attempts
        rcases = [c for c in fc.gen_retry_cases(ctx, 30000 if th else 6000, ctx.seed) if c['ctxKind'] != 'none']
        sel = fc.select_retry_cases(rcases, 800 if th else 100, ctx.seed)
        rv, rep = fc.run_retry_scenarios(ctx, sel, par=8)
        out['retry'] = (rv, sel)

    fc.parallel(ctx, models, pool, places, backoff)
    verdicts, cases, nrun = out['fault']
    fc.report_fault_verdicts(ctx, verdicts, lambda w: w in fc.C05_FAULT_WHATS, cases)
    rv, sel = out['retry']
    fc.report_retry_verdicts(ctx, rv, lambda w: w in fc.C05_RETRY_WHATS, sel)
    ctx.extra['scenarios_run'] = dict(fault=nrun, retry=len(sel))
    ctx.exhaustive = False
    ctx.assumptions += [
        'promptness: a return later than 5 s after the context ended is late, a call still pending after 12 s hangs; both are re-run before '
        'they are reported',
        'deadlines are real timers (400 ms); cancel() is called by the driver while the server holds every reply, answers LOADING '
        '(back-off of 9 s) or leaves the HELLO of a new connection unanswered (Dialer.Timeout 60 s)',
        'manual cancellation of a context that also has a deadline is only required where the README promises it (pipeline mode, and the '
        'waiting places that select on ctx.Done() themselves); during the handshake of a new connection only deadlines are required',
        'one connection in the making per scenario: callers that share a dial wait for the first caller\'s handshake (not scripted)']
