"""Entries for checks/registry.py proposed by the failure / cancellation / retry family (C03, C04, C05, C28)."""

HOOK_COMMITS = ['7ff1bc5',   # verif: export wrapper VerifPipeState (new file verif_export_faults.go)
                'cbde64d']   # verif: hook pipe.sync at the entry of pipe.syncDo/syncDoMulti (sandbox faults2; round 2)

CHECKS = {
 'C03': dict(
    level='model_checking',
    technique='TLA+ specs of the retry wrappers (Retry.tla, policy in RetryPolicy.tla) and of the expiry path of pipe.go (Pipe.tla) checked '
              'by TLC + TLC-generated outcome scripts replayed into the real clients against fakeredis, the servers\' execution log '
              'judged by RetryTrace.tla',
    text='Retry.tla models the decision logic of singleClient/standalone/sentinel/dedicated/cluster Do and one member of a cluster DoMulti '
         '(attempt outcomes: ok, nil, error reply, LOADING, TRYAGAIN, CLUSTERDOWN, MOVED, ASK, REDIRECT, cut before exec / after exec / '
         'mid-reply, connection expired before / after the write, context done, closing; RetryDelay negative/zero/positive, DisableRetry, '
         'contexts ending and Close at any step) and is checked exhaustively for AtMostOnceNonRetryable (MOVED/ASK/REDIRECT are not '
         'executions); the as-is config with errConnExpired reaching written commands violates it, and Pipe.tla (MC_expiry_asis) shows that '
         'pipe.go can indeed hand errConnExpired to an executed command. TLC simulation of the same module generates outcome scripts with '
         'the predicted number of receptions/executions and result; faultdrv plays each script into the real client (fault placed by the fake '
         'server at the n-th reception of the tagged request; expiry by a 500 ms ConnLifetime and a held reply) and RetryTrace.tla counts '
         'executions per request id on the recorded trace. Round 2 (design/faults.md): calls are one command, a two-command DoMulti of '
         'every combination of member classes, or MULTI, two commands, EXEC, on every wrapper (each member judged on its own; breaks '
         'before / after execution and in the middle of the reply stream of the batch); the connection mode (synchronous path / pipelined) '
         'is a dimension of every script and is observed through the hook pipe.sync: ConnLifetime expiry under a request in flight is '
         'errConnExpired when pipelined (known finding) and an I/O error on the synchronous path (a re-send there is a violation).',
    design_ref='DESIGN.md 4.2, 4.5, 5 C03, 7 #10; design/faults.md round 2',
    note='Trusted: TLC, fakeredis (an execution is an SExec event of the tagged request; a member of a block is executed when EXEC runs '
         'it). Bounded: <=2 members per batch / block, <=3 transmissions in quick scripts; scripts are sampled by seeded simulation and '
         'strata (expiry on the synchronous path and mixed batches are mandatory strata), not exhaustive; LOADING-like refusals and '
         'lifetime expiry inside a cluster block are not scripted. Known finding #10 (expiry after write on a *pipelined* connection, '
         'signature with path=pipelined) is reported as KNOWN-FINDING.'),
 'C04': dict(
    level='model_checking',
    technique='TLA+ spec of the call path of pipe.go (Pipe.tla) checked by TLC incl. liveness + the TLC counterexample schedule of the '
              'entry race replayed through a real pipe with a blocking hook + TLC-enumerated break/Close scenarios run on the real client, '
              'traces judged by FaultTrace.tla',
    text='Pipe.tla (one action per atomic step of Do/DoMulti entry, syncDo, queue, writer, reader with its deferred error, clean-up loop, '
         '_exit, Close with the PING grace, expired) is checked for NoHang (no terminal state with a pending caller once the connection is '
         'gone or Close returned), OwnReplies, ErrorAfterBreak, ClosingAfterClose, ProtocolOk and, under fairness of the client\'s own '
         'goroutines only, pending ~> returned after a break/Close; negative configs re-introduce the entry race of the pinned commit, a '
         'clean-up loop that does not drain, the removed deferred error and a Close that keeps the connection. The schedule of the entry-race '
         'counterexample is parsed from TLC\'s output and forced through a real pipe (hook pipe.enter holds a caller between incrWaits and '
         'the state load). FaultGen.tla enumerates 4 566 scenarios (round 2: + an unsolicited unsubscribe push before the break, steady new short-lived calls '
         'on a silently dead connection, a dedicated client whose command connection breaks while its Receive waits - RESP2: on the second '
         'connection of the wire - and which is then released; the round-1 space: mix of pending Do/DoMulti/DoCache owner+waiter/BLPOP/Receive x cut of all '
         'connections, cut before exec / after exec / mid-reply of a trigger batch, silent server with keep-alive watchdog, Close, '
         'DedicatedClient.Close, failed dial then Close x sync/pipelined x warm); a stratified sample runs on the real client and FaultTrace.tla '
         'decides from the trace which calls must have returned, which results are allowed (no fabricated value, errors need a cause), that '
         'calls after Close get ErrClosing and calls after a break are served again.',
    design_ref='DESIGN.md 4.2, 5 C04, 7 #15',
    note='Trusted: TLC, fakeredis/bufconn, the placement of the pipe.enter hook. Bounded: Pipe.tla 2 callers x <=2 calls (3 callers x 1 in '
         'thorough), abstract FIFO queue, no Pub/Sub state; real scenarios are sampled (150 quick / 1 200 thorough per queue type); a hang is '
         '"not returned 12 s after the obliging event", confirmed by a second run.'),
 'C05': dict(
    level='model_checking',
    technique='leads-to properties of Pipe.tla and Pool.tla under fairness checked by TLC + lost-wake-up schedule replay on the real pool + '
              'TLC-enumerated context scenarios run on the real client with both queue implementations, traces judged by FaultTrace.tla and '
              'RetryTrace.tla',
    text='Pipe.tla: (pending and context done) ~> returned with fairness only on the client\'s own steps (queue wait with a stalled server, '
         'flow buffer vs ring: MC_live_ring shows the ring\'s documented limitation in the model); Pool.tla liveness and the lost-wake-up '
         'schedule on the real pool (poolcommon). On the real client: every FaultGen.tla scenario whose contexts end (cancel / 400 ms '
         'deadline / deadline far away cancelled by hand) while the server holds all replies, answers LOADING or leaves the HELLO of a new '
         'connection unanswered - pipeline wait, cache flight of another caller, blocking command, second blocking command with a pool of '
         'one, retry back-off of Do and DoMulti (9 s), handshake of a new connection (first blocking command, DisableAutoPipelining pool, '
         're-dial after a break; Dialer.Timeout 60 s), queue of 2 slots with four calls - in a process with RUEIDIS_QUEUE_TYPE unset and another with flowbuffer; FaultTrace.tla requires a return within '
         '5 s of the context\'s end (12 s = hang), the context\'s error, and no SRecv for calls whose context was already done. Retry back-off: '
         'Retry.tla scripts with contexts ending between attempts and a RetryDelay (120 s) beyond the deadline (60 s) must return at once '
         'and must not spin.',
    design_ref='DESIGN.md 4.2, 4.4, 5 C05, 7 #3 #11',
    note='Trusted: TLC, fakeredis, real timers (thresholds generous; late/hanging calls are re-run before they are reported). Known finding '
         '#11 (ring: a call waiting for a free slot ignores its context) is reported as KNOWN-FINDING; the same symptom with the flow buffer '
         'or while waiting for a reply is a violation. Manual cancellation of a context with a deadline is only required where the README promises it '
         '(pipeline mode, and the places that select on ctx.Done() themselves); during a handshake only deadlines are required.'),
 'C28': dict(
    level='model_checking',
    technique='TLA+ spec of the retry wrappers checked by TLC against the policy predicates of RetryPolicy.tla + TLC-generated outcome '
              'scripts replayed into the real clients, every re-send judged by RetryTrace.tla with the same predicates',
    text='RetryPolicy.tla states the policy on a re-send justification (client kind, command class, DisableRetry, previous outcome, '
         'RetryDelay verdict, context done, closed): RetryOnlyWhenSafe, WithinPolicy, NoRetryAfterCtxOrClose, PlainRepliesFinal. Retry.tla '
         '(decision logic of the six wrappers) satisfies them exhaustively; negative configs: retry ignoring IsRetryable, retry on plain '
         'error replies, retry after context done / after Close (NoSpin), cluster batch re-sending an entry whose delay was negative. '
         'Generated scripts (380 quick / 3 000 thorough, all client kinds: single, standalone with REDIRECT, sentinel, dedicated, 2-node '
         'cluster with MOVED/ASK, cluster DoMulti with a redirected sibling; round 2: + 160 DoMulti batches / MULTI ... EXEC blocks of every mix '
         'of member classes, synchronous and pipelined connections) run on the real client with a logging RetryDelay function; '
         'RetryTrace.tla rebuilds the justification of every second SRecv of a request id from the trace and evaluates the predicates, '
         'checks that returned values/errors are the last reply unchanged, and flags wrappers that keep consulting RetryDelay after the '
         'context ended or Close returned.',
    design_ref='DESIGN.md 4.5, 5 C28, 7 #14',
    note='Trusted: TLC, fakeredis. Contexts end / Close is called from inside the server intercept or the RetryDelay callback (causally '
         'before the decision); other timings are covered by the model only. Sampled, not exhaustive. The re-send after errConnExpired of a '
         'non-retryable command (known finding #10) is reported as KNOWN-FINDING for client kinds single/standalone/sentinel/cluster.'),
}
