"""Entries for checks/registry.py (family data/resp: C12 C13 C14 C17). Same format as checks/registry.py CHECKS."""

FIX_COMMITS = ['2f0e4ad', '8464aa4', '39960f6', '2c1a5f0']          # resp.go, see known_findings.json
EXPORT_COMMITS = ['297da19', 'a86b006']                             # verif_export_resp.go (build tag verif), no hooks

_COMMON = ('Resp.tla is the RESP2/RESP3 grammar as TLA+ operators: value trees over all type bytes, Encode(tree) as a token sequence, '
           'Expected(tree) / StreamExpected(tree) as the oracle, and a strict reference decoder Parse with the invariant '
           'Parse(Encode(x)) = Expected(x) (negative configs break it). RespGen.tla lets TLC enumerate the cases (one state per case, printed '
           'with the predicted outcome); harness/cmd/respdrv expands tokens to bytes and applies them to the real code in child processes. ')

CHECKS = {
 'C12': dict(
    level='exploration', technique='TLA+ grammar + oracle (Resp.tla), TLC as exhaustive case generator, replay into the real readNextMessage / streamTo',
    text=_COMMON + 'C12: every tree with <= 3 nodes (thorough: <= 4) and depth <= 3 over 4 leaf kinds and all aggregate forms (* ~ % fixed and '
         'streamed, > at top level), a seeded TLC sample of the next size, every leaf variant (14 type bytes, RESP2 nulls, streamed strings with 9 chunkings, '
         '18 binary payload classes incl. CR/LF/0x00/0xFF and protocol look-alikes, integer texts up to +-2^63, doubles and big numbers as text) in 11-14 contexts, an attribute frame at '
         'every node of small trees, payload lengths around 16/32/4096/512Ki/1Mi, push-then-reply. Each encoding is read through bufio readers of 32 and 4096 bytes with every single split point '
         '(<= 64 bytes; token boundaries +-1, payload interiors and seeded split sets beyond), byte-wise, and through fakeredis/bufconn chunking; the decoded tree (raw RedisMessage fields incl. attrs) must equal Expected, '
         'a sentinel message behind the reply must decode next (exact consumption), and streamTo must write exactly the payload / integer text, return Nil or the RedisError, skip pushes and attributes.',
    design_ref='DESIGN.md 4.7, 5 C12; design/resp.md',
    note='Trusted: TLC, the driver\'s token expansion (decimal rendering, filler bytes), the export wrapper VerifTreeOf. Bounded: trees <= 4-5 nodes, depth <= 3, payload classes not all bytes; '
         'numeric accuracy of doubles is not examined (text only). Pipe-level delivery (real client) is not part of this check.'),
 'C13': dict(
    level='exploration', technique='TLA+ mutation operators over the grammar (Resp.tla), TLC as case generator, replay into the real decoder in memory-limited child processes',
    text=_COMMON + 'C13: 3 584 malformed inputs (thorough 4 047) = every mutation of 52 base replies: truncation at every token boundary and inside tokens, declared length in {-5, -1, 0, rest+1, 3e6, 1e8, 2^31, 2^62+5, 2^63, 10^20-1, 2^64+k}, '
         'non-digits in a length, unknown / misplaced type bytes, missing or damaged CRLF, odd streamed maps, unterminated nested streams, bad integer / boolean texts; nesting depths 1e3, 5e4, (2e5,) 3e6 with debug.SetMaxStack(256 MB); plus all well-formed leaf and long cases as byte sequences. '
         'Oracle from the spec: class error -> an error must be returned, class any -> value or error; always: no panic, no fatal error, TotalAlloc delta <= 64 * bytes received + 1 MiB. '
         'Children run under GOMEMLIMIT and RLIMIT_AS (+2 GiB); a child that dies is re-run on the case in flight alone and a second death is attributed to that case. '
         'Round 2: RespAlloc.tla states the allocation rule as a process over time (header declares D units, the peer delivers sent < D and closes; accumulator capacity / filled / cumulative allocation; '
         'invariant AllocBounded: allocated <= 8 * bytes received + 1 MiB for payload bytes, 128 * for 3-byte elements that become 48-byte structs; reference decoders with growth ratios 2, 1.5, 1.25 keep it, the negative configs '
         '"allocate the declared length on the header" and "extend to the declared length once the first window is full" break it) and generates 480 inputs (thorough 1 920): oversized length {3e7, 1e8, 2^62-1, 2^63-1 bytes; 3e6, 1e7 elements} in 15 frames '
         '($ ! = top level / in an array / behind an attribute, first and later chunk of a streamed string, * ~ > % | top level / nested / inside a streamed array) x a ladder of really delivered units '
         '{0, 1, W/8+1, W-1, W, W+1, W+W/128, 2W-1, 2W+1, 4W+1} (W = 512 KiB of bytes or of elements; thorough up to 16W+7), each with the allocation the rule permits for its bytes.',
    design_ref='DESIGN.md 5 C13, 7 #7; design/resp.md (Round 2)',
    note='Class coverage of a grammar-mutation model, not all byte sequences. Goroutine stack is not part of the allocation measure (see the known finding on nesting depth). Trusted: runtime.MemStats.'),
 'C14': dict(
    level='exploration', technique='TLA+ EncodeCmd (Resp.tla), TLC as case generator, real writeCmd / flushCmd / pipeline writer decoded by the independent fakeredis parser',
    text=_COMMON + 'C14: 229 command sequences (thorough 241): argument counts {1,2,9,10,11,99,100,101,999,1000,1001} (thorough up to 1e5), argument lengths at every decimal digit boundary up to 1e7+1, '
         'contents empty / CR / LF / CRLF / NUL / 0xFF / protocol look-alikes, two commands in a row. The bytes written by writeCmd and flushCmd through bufio writers of 16, 64, 4096 and 512Ki bytes must equal the expansion of EncodeCmd '
         'and decode with fakeredis.ReadCommand to the same argv with nothing left over; sequences <= 4 MiB are also sent with DoMulti through a real client (AlwaysPipelining, _backgroundWrite) to the fake server, whose parser must receive the same argv.',
    design_ref='DESIGN.md 5 C14; design/resp.md',
    note='Trusted: fakeredis codec (independent implementation), strconv for the decimal expansion of lengths. Argument lengths above 1e7+1 and counts above 1e5 are not generated.'),
 'C17': dict(
    level='exploration', technique='TLA+ value trees x expiry classes (Resp.tla / RespGen.tla), TLC as case generator, real CacheMarshal / CacheUnmarshalView / CacheSize',
    text=_COMMON + 'C17: all trees with <= 4 nodes (thorough 5) over arrays, sets, maps (fixed and streamed on the wire) and 4 leaf kinds, every scalar type in 4 contexts (2.6k replies) x expiry {0, 1, now, 2^55, 2^56-1}. '
         'The reply is produced by the real decoder, given the expiry, marshalled; len = CacheSize, marshalling into a provided buffer appends the same bytes, CacheUnmarshalView reconstructs Expected(tree), expiry (raw and CachePXAT) and the cache-hit mark, '
         'and every strict prefix of the buffer yields ErrCacheUnmarshal without panic.',
    design_ref='DESIGN.md 5 C17; design/resp.md',
    note='Wide aggregates (arrays, sets, maps of 13107 / 13108 / 20000 equal elements; thorough also 4096 and 65537) are generated and expected run-length encoded (mode cachewide) and their truncations are sampled (first and last KiB, every 9973rd position, 300 seeded positions). Attributes and push frames are not cacheable and not generated; corrupted (not merely truncated) buffers are outside the property.'),
}
