"""Proposed entries for checks/registry.py (family pure1: spec/data, harness/cmd/puredrv, checks/purecommon.py)."""

# commits in the sandbox repository (to be cherry-picked in this order)
HOOK_COMMITS = ['d19dbe1']            # verif: export wrappers for builder kinds, key slot and cache identity (C08, C18)
FIX_COMMITS = ['56c82f6', 'd9baad0', 'caf667c']

_TRUST = ('Trusted: TLC, the Json/Bitwise community modules, the transport of the CASE lines, and the Go code of puredrv that '
          'applies a case and compares (it never computes an expected value). ')

CHECKS = {
 'C44': dict(
    level='exploration', technique='TLA+ decision table (Url.tla) enumerated by TLC, every case applied to the real ParseURL with the table as oracle',
    text='Url.tla maps the forms of every URL component (6 schemes incl. an invalid one, 4 credential forms, 6 host forms incl. port-only and IPv6, '
         '4 path forms, 10 query parameters with absent/valid/invalid forms, repeated addr) to the option record or to "error". TLC checks NonInterference '
         '(removing a parameter changes only the option it owns; negative config: write_timeout stored in Dialer.Timeout) and prints every case; the driver '
         'assembles the URL (also with the query permuted), calls ParseURL and compares every mapped field plus a set of unmapped ones. quick: all structural '
         'combinations, every pair of parameters in all forms, every subset of parameters with at most one invalid (13 336 URLs); thorough: the full parameter '
         'product for four base URLs (311 524 URLs).',
    design_ref='DESIGN.md 4.7, 5 C44',
    note=_TRUST + 'Bounded: one or two texts per form (e.g. 5s/150ms), no percent-encoding, no trailing-slash path; ?db= winning over the path and '
         'skip_verify being ignored without TLS are modelled as coded.'),
 'C22': dict(
    level='exploration', technique='TLA+ contract + algorithm model (Selector.tla) checked by TLC; contract sets per case compared with the results of the real selectors',
    text='Selector.tla states the documented contract as sets (Admissible, Rotating) and transcribes the counter/modulo algorithm; TLC checks for every node '
         'list of length 0..5 over AZ {a,b,""} (0..6 thorough), every client AZ, long lists (254/255/256/300 nodes, 13 same-AZ patterns incl. matches only at '
         'index >= 255 and more than 8 matches) and call sequences of 6 (20 for long lists; 8/320 thorough) that the algorithm stays admissible and rotates '
         '(negative config: the uint32 underflow on an empty list). The driver calls the three public constructors: every result must be in the admissible set, '
         'every window of |Rotating| consecutive calls must return each rotating candidate, and one selector instance reused across random node lists must stay admissible.',
    design_ref='DESIGN.md 4.7, 5 C22',
    note=_TRUST + 'Bounded: sequential calls only (the atomic counter is not raced), no counter wrap-around; rotation is only required over the first 8 '
         'same-AZ replicas among the first 255 nodes (the caps the code documents).'),
 'C46': dict(
    level='model_checking', technique='TLA+ state machine of one Scanner iteration model-checked exhaustively; every TLC behaviour replayed on the real Scanner with a scripted next',
    text='Scanner.tla: Fetch / Deliver / EndPage over scripted pages (0..2 live pages of 0..3 elements, and 0..1 live pages of 0..5 elements, with cursors {5,7} incl. a repeated cursor, a final '
         'page with cursor 0 or a failure, an optional sentinel page that must never be requested; 0..3 live pages thorough), Iter and Iter2, consumer stop at '
         'every item. Invariants InOrder, CursorChain, NeverBeyondScript, NoFetchAfterStop, NoItemAfterStop, Complete hold on all states (38 256 + 9 488 quick, '
         '485 293 thorough); three negative configs break them. Every finished behaviour (6 846 quick / 54 500+ thorough) is replayed: yielded items, cursors passed to next and Err() must equal the predicted ones.',
    design_ref='DESIGN.md 4.7, 5 C46',
    note=_TRUST + 'Bounded: one iteration per Scanner object, at most 4 requested pages, at most 3 (5 with at most 2 pages) elements per page.'),
 'C45': dict(
    level='exploration', technique='TLA+ little-endian packing of opaque float words (Vector.tla, Bitwise) and a JSON serialiser as oracle for binary.go',
    text='Vector.tla packs float32/float64 words given as 16-bit halves (zero, -0, quiet/signalling NaNs with payloads, all ones, denormal, 1.0) little-endian and '
         'unpacks them (RoundTrip, KnownAnswers; negative config: big-endian). For all vectors of length 0..3 (0..4 thorough) the driver checks VectorStringN = Pack, '
         'ToVectorN(Pack) = the words bit for bit, and the round trip; BinaryString on all byte strings of length 0..3 (0..5) over 8 byte classes; JSON(x) against '
         'the TLA+ serialisation and encoding/json for 929 value trees of depth <= 2.',
    design_ref='DESIGN.md 4.7, 5 C45',
    note=_TRUST + 'Bit transport only; nothing numeric. JSON strings are limited to letters, a quote and a backslash (no HTML escaping, no non-ASCII). '
         'ToVectorN is not applied to strings whose length is not a multiple of the word size.'),
 'C18': dict(
    level='exploration', technique='TLA+ bit-serial CRC16-XMODEM and hash-tag rule (Slot.tla) as oracle for Slot() of commands built by both builder kinds',
    text='Slot.tla defines the CRC bit by bit (polynomial 0x1021, Bitwise module, no table) and the hash-tag rule twice (scan and declarative; TagRuleOK, '
         'the examples of the cluster specification and the XMODEM check value are invariants; two negative configs). TLC enumerates every key of length <= 6 over '
         '{ "{", "}", a, b } (quick; {"{","}",a,0x00,0xFF} thorough), every single byte also inside a tag, and 294 multi-key combinations. The driver builds 22 single-key '
         'and 26 multi-key command shapes of a dozen gen_*.go families plus Arbitrary.Keys and SetSlot with cmds.NewBuilder(InitSlot) and (NoSlot) and with B() of a real '
         'cluster client and a real single client on fakeredis: Slot() must be the predicted slot (plus the no-slot flag), differing slots must panic with the cluster builder only.',
    design_ref='DESIGN.md 4.7, 5 C18',
    note=_TRUST + 'Bounded: key length <= 6 over a 4/5 letter alphabet plus all single bytes; not every generated builder is exercised (48 shapes).'),
 'C08': dict(
    level='exploration', technique='TLA+ transcription of the cache identity (CacheKey.tla) with TLC finding the non-injective pairs; binding to cmds.CacheKey and DoCache end to end against fakeredis',
    text='CacheKey.tla transcribes cmds.CacheKey / MGetCacheCmd (identity (key, name+args) of the built-in store) and the adapter key key+cmd. Over 10 command shapes '
         '(18 thorough) with arguments over {1,2} of length <= 2 and command-name tokens in key tails / first arguments TLC shows InjectiveLru and InjectiveAdapter '
         'violated by the identity as coded and holding for an identity that keeps the argument structure, and prints each command with its identities and colliding '
         'partners (classes arg-, name-, key-boundary-shift). The driver compares the real cmds.CacheKey for every command built with the typed Cache() builders, the '
         'cluster builder and Arbitrary, then runs every colliding ordered pair and a seeded sample of non-colliding pairs through DoCache on a real client against '
         'fakeredis with the built-in store and a NewSimpleCacheAdapter store: B answered from the cache with A\'s reply is the violation.',
    design_ref='DESIGN.md 4.3 (CacheKey), 5 C08',
    note=_TRUST + 'Also trusted: fakeredis (replies must differ for the pair to be decided; undecidable pairs are counted, not reported). The five collision classes '
         'found are listed as known findings; any other class, store or an unpredicted collision is reported.'),
}
