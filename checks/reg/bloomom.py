"""Proposed checks/registry.py entries of the family "probabilistic filters and object mapping" (C35 C36 C37 C40)."""

HOOK_COMMITS = ['046b0c8']     # verif: export wrappers for rueidisprob (rueidisprob/verif_export.go, build tag verif); no hooks
FIX_COMMITS = ['9610330']      # fix: rueidisprob filters must use at least one hash function

_BLOOM_NOTE = ('Trusted: TLC; fakeredis + luamini as the Redis server that executes the real script texts (BITFIELD, HINCRBY, HMGET, RENAME, '
               'SET PX NX, TIME, key expiry on a virtual clock); murmur3 and the float sizing formulas as given functions (their outputs are '
               'read through rueidisprob/verif_export.go and observed, not verified). Bounded: all hash functions only for 2-3 items, 3-4 '
               'indexes, K <= 3; histories exhaustive to depth 3-5 for one or two tiny real sizes, simulated (depth 10-14) for the others; the '
               'sweep samples each configuration class with fixed representatives plus seeded picks; bitmaps above 128 KiB are sized but not '
               'exercised. Differences from the exact prediction that do not contradict the property (unpredicted false positive, Count '
               'value) are divergences (exit 2), not violations.')

_R2_FAULTS = (' Round 2: every script call takes a reply class (ok / refused with an error reply / connection lost before / lost after '
              'execution); obligations arise only from calls that returned nil; action property AddNilMeansPresent; bloomdrv injects the class '
              'with a one-shot fakeredis intercept on EVALSHA/EVAL. A difference from the exact prediction no longer ends a history: it continues '
              'in loose mode where only the property obligations are judged (premises - which adds returned nil, which removals succeeded - are '
              'watched).')

CHECKS = {
 'C35': dict(
    level='model_checking',
    technique='TLA+ spec of the Bloom filter scripts checked by TLC over all hash functions of a tiny size + configuration sweep of the real '
              'constructor judged by TLC against the interface obligation + TLC-generated histories replayed on the real filter with the hash '
              'function induced by the real index computation',
    text='Bloom.tla transcribes bloomFilterAddMultiScript / ExistsMultiScript / Reset / Delete loop by loop as atomic actions over an abstract '
         'hash H: Item -> Seq(Index). TLC checks NoFalseNegative, AnswersHonourObligations, AnswersPerKey (every key sequence in every state) '
         'and the action property CountMonotone for ALL hash functions of 3 items into 3-4 indexes with K in {1,2} (thorough: 4096 functions, '
         'K = 3); four negative configs (K = 0 without the ASSUME, add skipping a bit, counter overwritten, oneBits not reset) break the '
         'expected property. BloomCfg.tla enumerates 56 configuration classes (expected items x rate incl. rates up to the largest float below '
         '1); bloomdrv concretises them (about 790 configurations), builds the real filter, reads size/hashIterations and runs Add/AddMulti '
         'then Exists/ExistsMulti; TLC judges every accepted configuration against Obligation(K, Size). For several real sizes the driver '
         'reports the indexes the filter computes for candidate strings; TLC, with H fixed to that function, generates all histories of depth 3 '
         '(tiny sizes) and simulated ones of depth 10; each step carries the predicted answers (single and batch), obligations and Count; the '
         'real NewBloomFilter over a real client on fakeredis must agree: a must-present item reported absent, batch answers differing from '
         'per-key answers, or a decreasing Count is a violation.' + _R2_FAULTS +
         ' Batches with repeated keys are queried as one call after every step (QS); AddMulti/ExistsMulti calls with more than 2^15 indexes '
         '(K = 3, 5, 6, 7, 10; thorough 2^16) are compared position by position with the per-key rule evaluated by TLC on the real index '
         'function (Big = TRUE); negative configs: error reply swallowed, repeated keys de-duplicated, batches cut regardless of key boundaries.',
    design_ref='DESIGN.md 4.6 Bloom.tla, 5 C35-C37, 7 #9; design/bloomom.md',
    note=_BLOOM_NOTE),
 'C36': dict(
    level='model_checking',
    technique='same machinery as C35 for the counting Bloom filter: Bloom.tla (Kind = "counting") + sweep + exact-prediction replay',
    text='The remove script is transcribed with its local counter table, per-item decrement, failure test and rollback; the Go aggregation '
         'loops of ExistsMulti and ItemMinCountMulti as well. TLC checks NoNegativeCounter, MinCountAtLeastNet, PresentWhileNetPositive, '
         'AnswersPerKey and the action property FailedRemoveChangesNothing (the outcome of a RemoveMulti equals removing, in order, exactly '
         'the keys whose counters all stay >= 0: a failed removal changes neither the counters nor the fate of the other keys) for all hash '
         'functions of 3 items into 3-4 indexes; negative configs: rollback dropped, below-zero test dropped. The premise "only previously '
         'added items are removed" is a history variable (legit): a successful removal of a not-added item (possible through collisions) '
         'suspends the obligations until Delete. Replay compares, after every step, Exists / ExistsMulti / ItemMinCount / ItemMinCountMulti / '
         'Count and the raw hash counters (HGETALL on the fake server) with the prediction; histories contain batches with repeated keys, items '
         'with repeated indexes, colliding items, removals predicted to fail.' + _R2_FAULTS +
         ' Negative configs added: rollback of all K counters, add counting a key once per slot, error reply swallowed.',
    design_ref='DESIGN.md 4.6 Bloom.tla, 5 C35-C37; design/bloomom.md',
    note=_BLOOM_NOTE + ' Counting histories are generated for sizes up to 400 (quick) / 1000 (thorough) counters.'),
 'C37': dict(
    level='model_checking',
    technique='same machinery for the sliding-window filter: Bloom.tla (Kind = "sliding") over a discrete clock + sweep + replay on a virtual '
              'server clock',
    text='Two rotating filters, the rotation lock key with its expiry (SET lr PX windowHalf NX: the key expiry, i.e. the server clock, decides; '
         'the TIME value is only stored), rotation by any Add/Exists, Reset (rotation without the lock), Delete (after which the first script '
         'run fails on RENAME but takes the lock). TLC checks PresentForHalfWindow (an item added at t is reported present by an Exists at any '
         't\' <= t + half) and the action property SlidingAnswers for all hash functions of 2 items into 3 indexes, clock 0..6, half = 2 '
         'ticks, under both lock-expiry conventions (now >= set+half as fakeredis, now > set+half as Redis); negative configs: rotation '
         'emptying both filters, rotation clearing the current filter. Replay: fakeredis.VirtualClock stepped by the scenario (tick = half '
         'window / 2), all histories of depth 5 over Tick/Add/Exists/AddMulti/ExistsMulti/Reset/Delete for a tiny real size plus simulated '
         'ones of depth 14; Exists answers and Count compared with the prediction.' + _R2_FAULTS +
         ' Action SNewHandle (the initialize script on an existing name: creates keys only when none of the five exists); (window, Half) pairs '
         '(2000 ms, 2), (1500 ms, 3), (2500 ms, 5), (3000 ms, 3), (61 s, 2) so that a wrong rotation period falls between ticks; negative '
         'configs added: initialise when any key is missing, exists reading the next generation, error reply swallowed.',
    design_ref='DESIGN.md 4.6 Bloom.tla, 5 C35-C37; design/bloomom.md',
    note=_BLOOM_NOTE + ' Sliding Reset returns the Redis-nil error on success (its script has no return statement; the repository test '
         'tolerates it): taken as success, not part of C37.'),
 'C40': dict(
    level='model_checking',
    technique='TLA+ spec of the versioned save scripts checked by TLC over all interleavings of 3 savers + TLC-generated behaviours replayed '
              'on the real om repositories + generated field values round-tripped',
    text='Om.tla: one stored document [ver, f1, f2, f3] per key, savers holding entities obtained by NewEntity or Fetch, Save = the Lua script '
         'of om/hash.go resp. om/json.go as one atomic action followed by the Go side (nil -> ErrVersionMismatch, version written back). TLC '
         'checks AtMostOneWinner (per base version), VersionPlusOne, AllFieldsStored, FailedSaveChangesNothing, FetchEqualsSaved for hash and '
         'JSON repositories, 3 savers x (1 obtain, 2 saves) and 2 savers x (2, 2) in quick, 3 x (2, 2) in thorough, 3 initial documents; '
         'negative configs: ~= instead of ==, version not incremented, a field not written; the hash repository as it is violates the '
         'unconditional FetchEqualsSaved (nil pointer over a stored value) - that config is expected to fail and documents the known finding. '
         'omdrv replays all 12960 behaviours per repository in which each of 3 savers obtains an entity once and saves once (every '
         'interleaving, NewEntity or Fetch, pointer fields nil or set) plus simulated retry behaviours on real NewHashRepository / '
         'NewJSONRepository over fakeredis: outcome of every Save, entity version, stored document read back with Fetch and FetchCache. '
         'Round trip: generated values of string (empty, control characters, binary for raw hash fields), int64 extremes, bool, []byte, '
         '[]string, []float32/[]float64 vectors, nested/pointer/slice-of struct, map, *string/*int64/*bool/*float64, time.Time expiry tag, '
         'over 4 successive versions of an entity.',
    design_ref='DESIGN.md 4.6 Om.tla, 5 C40; design/bloomom.md',
    note='Trusted: TLC; fakeredis + luamini executing the real script texts, RedisJSON emulated on encoding/json (root path, one numeric '
         'member). Concurrency = order of atomic script executions by savers holding copies of the same version (the server serialises '
         'scripts); the client is a single connection. Entities compared field by field with nil and empty slices identified; JSON-encoded '
         'fields only with valid UTF-8 and exactly representable floats. FT.* index commands are not exercised. Known finding: hash Save '
         'of nil *string/*int64/*bool over a stored value keeps the old value.'),
}

# round 2 (om2): replaces the C40 entry above
CHECKS.update({
 'C40': dict(
    level='model_checking',
    technique='TLA+ spec of the versioned save scripts (single Save, SaveMulti batches over several keys, expiry on a server clock) checked '
              'by TLC over all interleavings of 2-3 savers + TLC-generated behaviours replayed on the real om repositories over fakeredis '
              'with a virtual clock + TLC-enumerated (repository, place, field type, boundary class) cells round-tripped',
    text='Om.tla: stored documents docs[k] = [ver, f1, f2, f3, fexp, ttl], a clock, savers holding entities obtained by NewEntity or Fetch. '
         'Apply = one execution of the Lua script of om/hash.go resp. om/json.go (version test, HSET of the non-nil fields / replacement of '
         'the JSON document, PEXPIREAT only for a non-zero exat, a time <= now removes the key) followed by the Go side; Save = Apply, '
         'SaveMulti = fold of Apply over the batch in order; Tick expires keys. TLC checks AtMostOneWinner (per key and incarnation), '
         'VersionPlusOne, SavedIsFetchable (exists afterwards iff the saved expiry is zero or in the future), AllFieldsStored (incl. exat '
         'and TTL), FailedSaveChangesNothing, FetchEqualsSaved[ButNil], ExpiryHonoured for hash and JSON: 3 savers x (1 obtain, 2 saves), '
         '2 x (2, 2), 2 keys x 3 savers with batches of 1-3 in every order, 1 key x 2 savers with exat zero/past/now/future and clock '
         '1..3 (thorough: deeper). Negative configs: ~= instead of ==, version not incremented, a field not written, one field map shared '
         'by a batch, zero time sent as expiry, passed expiry ignored; the hash repository as it is violates the unconditional '
         'FetchEqualsSaved (known finding). omdrv replays per repository 12960 single-save interleavings, 3360 + 936 batch behaviours '
         '(heterogeneous pointer fields, keys, staleness, expiry), 3564 expiry/clock behaviours and seeded simulations of everything mixed: '
         'outcome of every entity of every Save/SaveMulti, entity versions, then every key read back with Fetch, FetchCache and PEXPIRETIME '
         'and compared with the saved entity and the predicted document. OmTypes.tla enumerates the 303 supported (repository, place, type, '
         'boundary class) cells - time with ns and zone, float64 -0 / 17 digits / exponents, int64 and uint64 extremes, non-UTF-8 bytes, '
         'separators, nested structs and slices - each executed with 1-6 concrete values.',
    design_ref='DESIGN.md 4.6 Om.tla, 5 C40; design/bloomom.md (sections 3 and "Round 2")',
    note='Trusted: TLC; fakeredis + luamini executing the real script texts, RedisJSON emulated on encoding/json (root path, one numeric '
         'member; JSON.SET of the root and HSET keep the TTL; PEXPIREAT <= now deletes). The clock is virtual. Concurrency = order of atomic '
         'script executions; a batch is one pipeline on one connection. Entities compared field by field with nil and empty slices '
         'identified, times as instant + zone offset, floats bit by bit; JSON-encoded strings valid UTF-8, JSON-encoded floats finite. '
         'The concrete values of a boundary class are chosen by the driver (the class table and the prediction are in OmTypes.tla). FT.* '
         'index commands, Search and Remove are not exercised. Known finding: hash Save of nil *string/*int64/*bool over a stored value of '
         'the same key keeps the old value.'),
})
