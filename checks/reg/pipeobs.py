"""Proposed checks/registry.py entries of the pipe-observation family (C01 C33 C26 C27)."""

HOOK_COMMITS = ['8a0a92d']   # verif: export wrappers for the pipe observation harness (message view, queue type, builder)

_COMMON = ('PipeObs.tla is the observable specification of one auto-pipelined connection: its actions are exactly the trace alphabet '
           '(Call/Cancel/Ret/callbacks of the callers, SConn/SRecv/SRep/SPush/SCut/SClose of the fake server, Hold/Release/Quiesce of the '
           'driver), they only record, the properties are invariants. PipeScenario.tla drives the alphabet with an abstract pipeline client '
           'and environment (TLC: all interleavings of 2 callers, <=3 calls of <=2 commands / cached 5-stride / Receive, <=1-3 pushes, <=1 '
           'cancel, <=1 cut, reply hold/release), with one negative configuration per invariant, and prints the controllable part of every '
           'behaviour as a scenario script. harness/cmd/pipedrv runs the REAL client (rueidis.NewClient, ForceSingleClient, DialCtxFn -> '
           'fakeredis) under those scripts and under seeded random concurrency for 10 (quick) / 60 (thorough) configurations (ring and flow '
           'buffer, 2-slot and default queues, PipelineMultiplex -1/1/2, AlwaysPipelining, RESP2, DisableAutoPipelining, 64-byte read '
           'buffer); every recorded trace is validated by TLC against PipeTrace.tla with the invariants evaluated after every event. ')

CHECKS = {
 'C01': dict(
    level='model_checking',
    technique='TLA+ observable spec checked by TLC (exhaustive small model + negative configs) + TLC-generated scenario scripts and seeded random '
              'runs of the real client over fakeredis, every trace validated by TLC against the spec (trace validation)',
    text=_COMMON + 'C01: OwnRepliesInOrder (a returned non-error result i equals the server reply to command i of the call; replies are value trees '
         'derived from the command id, so misrouting / duplication is visible; the driver also compares directly), NoReplyFromFuture (the reply '
         'had been released by the server), BatchContiguousOnWire, NoSpuriousError, AllReturnedAtQuiesce (no reply lost: every call returns once '
         'everything was released). Calls: Do, DoMulti, DoCache, DoMultiCache, MGET and ToStaticTTL cached reads, blocking-tagged commands, '
         'Receive; contexts cancelled at random and scenario-dictated moments; pushes (invalidate, message, unknown kinds) inserted into the '
         'reply stream; writes of the client gated.',
    design_ref='DESIGN.md 3, 4.2, 5 C01; design/pipeobs.md',
    note='Trusted: TLC, fakeredis (incl. the event-before-frame ordering fix), the driver\'s canonical rendering of values. Bounded: the exhaustive '
         'part is the abstract client of PipeScenario.tla, not pipe.go (no refinement proof to a detailed Pipe.tla in this round); real runs '
         'perturb schedules (holds, gates, scripts, seeds) but do not enumerate them. DisableRetry on, no ConnLifetime, no deadlines.'),
 'C33': dict(
    level='model_checking',
    technique='as C01 for part (b); part (a): generation spec Builder.tla enumerated by TLC, real builders compared with the predicted token sequence (exploration)',
    text=_COMMON + 'C33 (b): ArgvImmutable: for every command id the server receives exactly the argv the caller built, once, also for abandoned '
         'calls; every other received command is a protocol command of the client. The c33 runs stop the client\'s writes (gated net.Conn), queue '
         'calls unwritten, abandon them, let the callers build and issue the next commands at once (a wrongly recycled CommandSlice is reused and '
         'overwritten) and resume the writes. (a): Builder.tla enumerates 638 cases: Arbitrary with every interleaving of <=3 Keys/Args segments and '
         '29 typed builder paths (SET EX/PX/EXAT/PXAT typed and raw, GETEX, SETEX, PSETEX, EXPIRE(+NX), PEXPIRE, EXPIREAT, PEXPIREAT, INCRBY, '
         'INCRBYFLOAT, HINCRBYFLOAT, ZADD, GETRANGE, LRANGE, SETRANGE, XADD(+MAXLEN ~ LIMIT)) over int64 boundaries, floats m*10^e incl. 1e21, '
         'durations below one unit, times; the specification computes the expected tokens (decimal expansion, truncating unit conversion).',
    design_ref='DESIGN.md 5 C33; design/pipeobs.md',
    note='Level of part (a) is exploration: a sample of 30 of the ~2000 generated builder methods; float inputs are limited to values whose shortest '
         'round-trip digits are the listed mantissa. Part (b) observes argv at the fake server only (what reaches the wire).'),
 'C26': dict(
    level='model_checking',
    technique='as C01',
    text=_COMMON + 'C26: PubSubOrder (every callback of a Receive is the next message push of its connection for its channels / patterns / shard '
         'channels: nothing skipped since its SUBSCRIBE was executed, nothing duplicated, nothing of another subscription, nothing after the '
         'unsubscribe push that ends it), ReceiveReturn (nil only when ended by the first unsubscribe push for one of its names with everything '
         'before delivered; context error only after its context ended; ErrClosing only after Close; another error only after its connection was '
         'lost), ReceiveEndsByItself, HookOrder / HookClosedOnce for SetPubSubHooks on dedicated sessions (OnMessage sees every message push in wire '
         'order; each channel handed out is closed exactly once - a double close crashes the driver process and is reported -, <=1 error and only '
         'after loss/Close), OwnRepliesInOrder for the regular commands interleaved on the same connection. Overlapping subscriptions, bursts '
         'above the 16-slot buffer, endings by context, client UNSUBSCRIBE, server-initiated unsubscribe push, cut; RESP2 (second connection).',
    design_ref='DESIGN.md 5 C26; design/pipeobs.md',
    note='The subs object of pubsub.go itself is covered separately (spec/pipe/Subs.tla, checks/subscommon.py of the main session, to be called from c26.py at '
         'merge time); here buffer-full blocking is exercised only through the real client. A Receive ended by its context may have seen any prefix: a client that loses the tail of a cancelled subscription is not detected.'),
 'C27': dict(
    level='model_checking',
    technique='as C01',
    text=_COMMON + 'C27: InvalidationLog (every OnInvalidations / SetOnInvalidations callback is the next invalidation push of some connection in wire '
         'order, nil for a flush, or the single nil of a lost connection; TLC resolves which connection), LossNilOnce (after quiescence open '
         'connections have delivered every push, lost ones exactly one nil), TrackingOffOnRelease (a dedicated session that installed an '
         'invalidation callback or subscribed is switched off - CLIENT TRACKING OFF / UNSUBSCRIBE received - before the connection serves another '
         'session and before release() returns). Cached reads with writes by another client, multi-key bursts, FLUSHALL, cut of a connection, '
         'PipelineMultiplex -1/1/2, successive dedicated sessions on a pool of one connection.',
    design_ref='DESIGN.md 5 C27; design/pipeobs.md',
    note='Not applicable to AlwaysRESP2 / DisableAutoPipelining configurations (no push delivery there by design). Close of the whole client is not '
         'part of LossNilOnce.'),
}
