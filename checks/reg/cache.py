"""Entries for checks/registry.py (family: server-assisted client-side caching end to end, C06 C09 C11)."""

# library-side commit of this family (in the sandbox repository): cache.wait / cache.cancel hooks in pipe.go
HOOK_COMMITS = ['ac562bc']   # verif: cache.wait / cache.cancel hooks in pipe.DoCache, doCacheMGet and DoMultiCache

_COMMON = ('CacheProto.tla: one client (a mux with one wire at a time, each wire with its own store), a tracking server (version counter per key, '
           'tracking table, OPTIN/OPTOUT/BCAST), the frames of the connection in wire order (Redis order: the invalidation is queued at the '
           'write), the reader goroutine (invalidation -> Delete, cacheable reply -> Update for whatever flight is pending under the identity, '
           'hand-over after the last unit), the store as entry objects (pending/done/cancelled/closed; Delete keeps pending entries), callers '
           '(DoCache, DoMultiCache, DoCache on MGET with the rewrite to the missing keys and the positional refill), Cancel as a separate '
           'later step, transaction aborts, context cancellation at every step, cut / store Close / wire replacement by the mux, expiry. ')
_BIND = ('Binding: TLC-generated behaviours (AtomicCall generation configs, -simulate and exhaustive) are forced through the real client over '
         'fakeredis by harness/cmd/cachedrv (reply gates, barrier pushes, the cache.wait / cache.cancel hooks) and every observable is compared '
         'with the outcome the specification predicts (transactions received by the server, frames on the wire, value / embedded key / '
         'version / hit flag / error class per position); every recorded run and seeded free-running histories are validated against '
         'CacheTrace.tla (silent steps for what cannot be logged, all invariants evaluated at every step, acceptance by POSTCONDITION). ')
_TRUST = ('Trusted: TLC, fakeredis as a model of Redis 7 tracking and MULTI/EXEC, the event order of the merged log (dispatcher mutex / '
          'before-call / after-return / callback after taking the dispatcher mutex), the barrier argument (a push queued behind frame n is '
          'seen after n was processed); the Redis 6 wire shape is scripted by the driver (fakeredis extension ExecSplit / Untrack), not '
          'produced by a Redis 6. Bounded: 2-3 callers, 1-3 keys, versions <= 3, <= 1 cut, <= 1 expiry step in TLC; traces are '
          'validated for a single wire only (multiplexed and cluster clients are judged by the predicted results).')

CHECKS = {
 'C06': dict(
    level='model_checking',
    technique='TLA+ protocol model checked by TLC + TLC-generated schedules replayed on the real client with the predicted outcome as oracle + trace validation',
    text=_COMMON + 'NoStaleHit (no value older than an invalidation the reader had processed before the call started; nothing from a store closed '
         'before the call started), Positional (every value is the reply to exactly that command) are checked exhaustively for 2 callers x <= 3 '
         'calls in OPTIN, OPTOUT (with uncached reads) and BCAST, with flush invalidations, cut/close/wire replacement and expiry; negative configs: '
         'flush invalidations skipped, an invalidation overtaking the reply before it. Round 2: several cacheable commands per key (a purge '
         'that stops at a pending entry; CachePurge.tla: 3 / 10 commands per key, 1-2 in flight, write / flush, 16 cases) and a Redis 6 server '
         '(LazyWrite / RepFrame.emb: invalidations embedded in the array reply of EXEC, applied before the Update; CacheR6.tla: 36 cases, '
         'replayed by cachedrv -mode redis6 against a scripted wire shape incl. two pushes in one reply and a plain GET pipelined behind every '
         'broken array for the routing of replies); negative configs: purge stops at a pending entry, embedded invalidation not applied. ' + _BIND +
         'Real runs: lru and NewSimpleCacheAdapter(map) stores x OPTIN / OPTOUT / BCAST(PREFIX) x GET / GETRANGE / JSON.GET / ToStaticTTL commands.',
    design_ref='DESIGN.md 4.3, 5 C06; design/cache.md',
    note=_TRUST),
 'C09': dict(
    level='model_checking',
    technique='TLA+ protocol model checked by TLC + TLC counterexample / generated schedules replayed on the real client (blocking hook) + trace validation',
    text=_COMMON + 'SingleFlight, FailedFlightNotCached, WaitersGetFlightOutcome, CancelledByOwner, NoLostWaiter, PendingHasOwner for 3 callers with a '
         'transaction abort and a cancellable owner; the model of the code as it is (Cancel keyed by (key, cmd)) violates CancelledByOwner / '
         'WaitersGetFlightOutcome / SingleFlight (DESIGN.md section 7 #16), the model with "cancel only your own flight" satisfies all of them. '
         + _BIND + 'The #16 behaviours of Gen_stale.cfg are reproduced on the real client by holding the aborted owner at the cache.cancel hook: '
         'the trace is rejected by the repaired specification and accepted by the specification of the code as it is (known finding). The '
         'literal reading "never two requests in flight" (SingleRequest) is violated through late replies of abandoned requests (second known '
         'finding, no wrong data). Round 2: a flight that stays pending for longer than the client TTL is still joined (Gen_pendexp '
         'behaviours with a real sleep longer than the TTL; negative config: Flight replaces such an entry).',
    design_ref='DESIGN.md 4.3, 5 C09, 7 #16; design/cache.md',
    note=_TRUST),
 'C11': dict(
    level='model_checking',
    technique='TLA+ protocol model checked by TLC + exhaustive TLC-enumerated case product replayed on the real client with the predicted outcome as oracle + trace validation',
    text=_COMMON + 'Positional / NoHole for DoMultiCache and DoCache(MGET) batches with duplicates, hits, waits on other callers and own duplicates, '
         'misses, aborts; negative config: a refill walk that does not skip resolved waits. CacheCases.tla enumerates the full product: every batch '
         'of <= 3 (quick) / <= 4 (thorough) entries over 3 keys up to key renaming x DoMultiCache / MGET x every key state in {hit, pending by '
         'another caller, miss, expired, (round 2) pending by another caller whose request fails - at most one key} x (round 2) the batch\'s '
         'own first transaction aborted or not; each case is executed on the real client: single wire (lru, adapter, MGetCache / JsonMGetCache helpers, '
         'JSON.GET / JSON.MGET, ToStaticTTL, BCAST, OPTOUT), two multiplexed wires (PipelineMultiplex 1) and a cluster of two scripted nodes '
         '(DoMultiCache / helper batches only: MGET shares identities with GET only on the wire of its first key).',
    design_ref='DESIGN.md 4.3, 5 C11; design/cache.md',
    note=_TRUST + ' Cluster!BatchOrder (redirections during a cached batch) belongs to the cluster family and is not covered here.'),
}
