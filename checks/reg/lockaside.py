"""Proposed entries for checks/registry.py (family lockaside: C34 rueidislock, C39 rueidisaside)."""

FIX_COMMITS = ['91dd4ef', '3667914', '809a483']   # rueidislock: cancel before delkey; retry timer after error-only tries; local gate hand-off

CHECKS = {
 'C34': dict(
    level='model_checking',
    technique='TLA+ spec of rueidislock checked by TLC + TLC behaviours / counterexamples replayed as fault scenarios against real '
              'lockers over a fake Redis + trace validation of the recorded runs against an observable TLA+ spec',
    text='Lock.tla (one action per protocol step of lock.go: sequential acquisition loop, background acquisition, per-key monitoring '
         'with timer / invalidation / context-done branches, the released and lost counters, cancel(), gate hand-off, WithContext wait '
         'loop; every Lua script one atomic step; the server side of OPTOUT/NOLOOP tracking) is model-checked exhaustively for 2 callers '
         '(quick) and 2-3 callers on 1-2 clients (thorough), majority 2 of 3 keys, with extend/acquire errors, third-party deletion, '
         'expiry, forced take-over, disconnects and cancelled waiters: MutualExclusion (unless the environment took a key), '
         'DoneBeforeRelease, NoLostWakeup (no parked WithContext on a free lock in a quiescent state), CancelAtMajorityLoss, '
         'ExtendsOwnKeyOnly, and under fairness LostMajority ~> context done and waiters ~> locked. Negative configs re-introduce the two '
         'repaired defects (delkey before cancel: DoneBeforeRelease with one error, MutualExclusion with two; parked waiter after '
         'error-only tries; no local hand-off after a failed try / departing waiter) and three mutations (extend without token comparison, cancel threshold off by one, invalidations not '
         'signalling the gate). Binding, hook-free: real rueidislock.NewLocker instances over one fakeredis per scenario (real clock, '
         'validity 400 ms, extend interval 100 ms); scenarios are TLC counterexamples of the negative configs and TLC simulation '
         'behaviours projected to their environment steps (API calls, releases, failing the next extend/acquire script of a locker with '
         'an error reply or a connection cut, delaying a delkey reply, DEL/expiry of a key, stalled or cut connections, cancelled '
         'waiters) plus seeded random ones. The server event sink logs every acquire/extend/delkey script with key, token and effect '
         'and reads the context handed out for that token right after a delkey took effect; API returns log which other handed-out '
         'contexts were still live. LockTrace.tla re-executes the script semantics on the reconstructed key state (a deviating script '
         'is a rejected trace) and evaluates MutualExclusion, DoneBeforeRelease, Prompt (context done within ExtendInterval + 1 s after '
         'the server shows the holder below the majority) and NoStuckWaiter per scenario. Round 2: causes of loss (CancelAtMajorityLoss over '
         'the per-cause monitoring states; MC_lock_lossgen enumerates every combination of delete / expiry / failed extend that crosses '
         'the majority with the predicted cancellation; LockTrace CancelAtKnownLoss: context done within 1.5 s and 20 driver heartbeats '
         'after the holder was told of a majority of losses), the value of the expiry (LockTime.tla: timed model of one key, key alive '
         'while extending; LockTrace ExtendsInTime: every extend carries an expiry within causal bounds [execution of the previous fresh '
         'script + interval + validity, arrival + validity], repeats only after an invalidation; slow-round-trip scenarios), connection '
         'loss of a parked waiter (Disconnect with the nil invalidation; counterexample of MC_lock_neg_nilinval replayed).',
    design_ref='DESIGN.md 4.6, 5 C34, 7 #13, A.4; design/lockaside.md',
    note='Trusted: TLC, fakeredis + luamini as the Redis double (tracking, invalidation on expiry, PXAT), the sink reading contexts under '
         'the dispatcher mutex. Bounded: TLC 2-3 callers, K=3; real runs approximate the order of the TLC behaviour they come from and '
         'depend on wall-clock timing (verdicts only from the recorded trace; timing-dependent verdicts must reproduce). Close() of a '
         'locker and FallbackSETPX are not modelled. Observation outside C34: without NOLOOP a holder re-runs the extend script in a '
         'tight loop (its own PEXPIREAT invalidates the key it re-reads) - seen on fakeredis, follows from Redis tracking semantics.'),
 'C39': dict(
    level='model_checking',
    technique='TLA+ spec of rueidisaside checked by TLC + TLC behaviours / counterexamples replayed as scenarios against real cache-aside '
              'clients over a fake Redis + trace validation against an observable TLA+ spec',
    text='Aside.tla (one action per server round trip / blocking point of Get: cached read, keepalive, SET NX GET lock, loader, setkey, '
         'delkey, liveness check of the holder, steal, wait, timeout; refresh loop; client side cache with server tracking and '
         'invalidation pushes, optionally asynchronous) is model-checked for 2-3 clients and 1-2 keys with Del, lock/value expiry, late '
         'refresh, client death and disconnects: NeverReturnsPlaceholder, ValueFromLoaderOrStore, LoaderOnceWhileHolderAlive (holder '
         'alive = its liveness key has existed continuously), LockStolenOnlyFromDead, DelOnlyOwn, NoOrphanWait, and under fairness '
         'GetsReturn and DeadLockReleased. Negative configs: placeholder returned on timeout, holder liveness not checked, delkey '
         'without comparison. Binding: real rueidisaside clients (UseLuaLock on/off, some behind NewTypedCacheAsideClient) over one '
         'fakeredis per scenario; scenarios from TLC counterexamples, TLC simulation and a seeded generator; the server sink logs every '
         'lock-protocol command with the key value before/after, the driver logs Get results and loader runs; AsideTrace.tla '
         're-executes the commands on the reconstructed store and evaluates the properties per scenario (dead-lock release with a '
         'wall-clock bound of ClientTTL + 1.2 s).',
    design_ref='DESIGN.md 4.6, 5 C39; design/lockaside.md',
    note='Trusted: TLC, fakeredis + luamini, the simulated client death (connections cut, dials refused). Bounded: one Get per client at a '
         'time in TLC; client-side cache TTL expiry abstracted away (it only causes additional reads). A reconnect makes the client drop '
         'its id and delete its liveness key, so a second loader after a holder\'s reconnect is by design and excused.'),
}

# round 2 (aside2): appended to the C39 entry
from importlib import util as _u
import os as _os
_C39_TEXT_APPEND = (
    ' Round 2: callers (goroutines) mapped to clients share c.id, c.waits, cache and connection; the registration of the client id '
    'is its own pair of steps (Keepalive writes a fresh id, KaAdopt makes it c.id or adopts the winner\'s), the refresh serves c.id '
    'only, an id nobody refreshes expires without excusing its holder: LockNamesRefreshedId (negatives BugNoAdopt). Gets without a '
    'loader at every state of the key (BeginNil; negative BugNilFastPath). Release of a dead holder\'s lock by two waiters (negative '
    'BugStealPlainDel, three clients). Binding: gates on the server double force "two callers register at once" and "two waiters saw '
    'the marker gone before either released"; a slow server clock tells a missing refresh from a late one; AsideTrace.tla checks '
    'LockNamesRefreshedId and HolderMarkerKeptAlive; DELs of cache keys that no user asked for are judged by what they remove (LibDel).')
_C39_NOTE_APPEND = (
    ' Round 2: LockNamesRefreshedId / HolderMarkerKeptAlive are evaluated in single-connection scenarios only (the default client '
    'has four connections and resets c.id once per lost connection, which the server cannot observe) and must reproduce in a re-run.')
CHECKS['C39'] = dict(CHECKS['C39'], text=CHECKS['C39']['text'] + _C39_TEXT_APPEND, note=CHECKS['C39'].get('note', '') + _C39_NOTE_APPEND)
