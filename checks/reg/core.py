"""Registry entries of the families built in the main session (pool, queue)."""

CHECKS = {
 'C02': dict(
    level='model_checking', technique='TLA+ specs of ring.go and flowbuffer.go checked by TLC (safety, deadlock freedom, liveness, negative configs) + traces of the real queues validated against the observable queue spec',
    text='Ring.tla (per-slot mutex, two condition variables, tickets, writer and reader loops, the reader keeping the slot mutex until '
         'FinishResult, the putter broadcasting without the lock) and FlowBuffer.tla (three bounded channels carrying N tokens) are checked '
         'exhaustively for 3-5 putters on 2-4 slots with more callers than slots: OwnReplies, NoDup, queue-order Fifo, ReaderOrder, token '
         'conservation, NoDeadlock and termination under fairness; negative configs (no Signal, no Broadcast, read1 not restored, token not '
         'returned, wrong order) are each caught. The real ring and flowBuffer are driven like pipe.go drives them (putters incl. batches and '
         'abandoned calls, one writer, one reader) with seeded yields at the hooks inside the queue code; every recorded step must be an action '
         'of QueueObs.tla (exactly-once hand-off, reader meets cells in wire order with the same ticket, result completes the enqueuer, nothing '
         'lost at the end) and a run that does not finish is a deadlock.',
    design_ref='DESIGN.md 4.1, 5 C02',
    note='Trusted: TLC; the driver calls the queue as _backgroundWrite/_backgroundRead do. TLC bounds: <=5 putters, <=4 slots; the uint32 '
         'ticket overflow is not modelled beyond ticket mod N. Real runs perturb, not control, the Go scheduler. Queue order for the ring is '
         'slot order (two callers whose tickets map to the same slot may fill it in either order).'),
 'C24': dict(
    level='model_checking', technique='TLA+ spec of pool.go checked by TLC + trace validation of hook-instrumented real pool runs + TLC counterexample schedules replayed with blocking hooks',
    text='Pool.tla (one action per critical section of pool.go) is model-checked exhaustively for 2-3 acquirers, caps 1-2, '
         'cancellation, broken/expired wires, idle cleanup and Close (Accounting, Bound, Exclusive, NoLeak, NoLostWakeup, liveness under '
         'fairness), with negative configs re-introducing the two repaired defects. The real pool is then driven with stub wires under seeded '
         'schedule perturbation; every hook event (emitted under the pool mutex, with size/idle/down) must be explained by PoolTrace.tla with '
         'all invariants evaluated at every step, and the TLC counterexample schedules are forced through the real Acquire.',
    design_ref='DESIGN.md 4.4, 5 C24',
    note='Trusted: TLC, the hook placement (under the pool mutex), stub wires standing for connections. Bounded: <=3 processes in TLC; '
         'real runs perturb but do not control the Go scheduler.'),
}

