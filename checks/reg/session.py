"""Proposed entries for checks/registry.py (family: connection sessions)."""

CHECKS = {
 'C47': dict(
    level='model_checking',
    technique='TLA+ transcription of pipe.go _newPipe (Setup.tla) model-checked by TLC over enumerated option records x server kinds x '
              'faults x user commands; every finished behaviour is printed as a CASE record (inputs + predicted per-connection command log, '
              'server-side session state, outcome) and replayed against the real client over fakeredis',
    text='Setup.tla has one action per protocol step of _newPipe (dial/AuthCredentialsFn, the pipelined RESP3 batch, one reply-loop iteration, '
         'the proto<3 decision, the RESP2 batch and its loop, post-setup traffic, Close of a failed connection) plus an explicit server model '
         '(session state per connection, reply class per command, NOAUTH after command lookup). Option record: credentials none/password/user+password, '
         'static or AuthCredentialsFn, ClientName, SelectDB, tracking default/custom/BCAST/DisableCache, ReplicaOnly, NO-TOUCH, NO-EVICT, ClientSetInfo '
         'nil/2 entries/other, AlwaysRESP2, EnableReplicaAZInfo with and without AZFromInfo, client kind single/standalone-with-redirect/cluster/sentinel '
         '(sentinel credentials and name, db 0); server kinds current / no HELLO / HELLO without RESP3; one fault per case: error reply or cut connection '
         'at any step of any connection, failing AuthCredentialsFn, HELLO reply announcing proto 2; user command GET / BLPOP (pool connection) / '
         'DoStream (stream-pool connection) / SUBSCRIBE (RESP2 Pub/Sub side connection). Invariants on every intermediate state: '
         'NoUserCommandBeforeSetup (with the required session state in force), ServedOnlyWhenConfigured, FallbackOnlyOnHelloRejected, NoFallbackWithCache, '
         'FailedStepFailsConnection, ToleratedOnly (READONLY, CLIENT SETINFO, HELLO 2 unknown), AuthLeadsResp2, CleanRunSucceeds. '
         'Quick: records within one field change of four base records + 6 seeded random records (about 6 300 cases, 34 000 states); thorough: two changes '
         '+ 150 random records. The driver compares, per connection, the exact command log the server received, the session state '
         '(user, proto, name, db, tracking mode, READONLY, NO-TOUCH, NO-EVICT, CAPA, lib info) and the outcome (NewClient error / ErrNoCache / command error / served).',
    design_ref='DESIGN.md 4.5, 5 C47; design/session.md',
    note='Trusted: TLC, fakeredis as the server (its behaviour is also the environment part of the specification), the intercept that injects the fault. '
         'Bounded: one fault per case; the option space is sampled by distance to four base records plus seeded random records, not exhausted; '
         'the sentinel connection is compared on its leading setup run only (its later traffic is concurrent); extra sentinel-side RESP2 Pub/Sub connections are not compared; '
         'the PING that Close pushes through a failed connection is treated as optional (1 s grace in pipe.Close).'),
 'C25': dict(
    level='model_checking',
    technique='TLA+ model of the holders of pooled connections (PoolSessions.tla) model-checked by TLC + monitors and TLC trace validation '
              '(SessionTrace.tla) of real dedicated-session runs over fakeredis',
    text='PoolSessions.tla: dedicated sessions (check/release with the recycle mark, Close, calls and second release after release), the four steps of mux.Store as separate '
         'actions (hook swap, CleanSubscriptions incl. its Close-on-outstanding-blocking-call and only-when-background branches, CLIENT TRACKING OFF, pool.Store), blocking callers, '
         'wire state = subscriptions / hooks / tracking / open MULTI / background loop / blocking call outstanding. Invariants SessionIsolated, Exclusive, RejectAfterRelease, '
         'MarkedWhenReleased, CleanOnReturn, NoLeak for 2 sessions + 1 blocking caller (quick: 1 command per session, pool size 1; thorough: 2 commands, pool sizes 1 and 2). '
         'Negative configs: release without the mark, mux.Store without CleanSubscriptions, without CLIENT TRACKING OFF; two configs document the known findings '
         '(connection returned inside MULTI; release panics when UNSUBSCRIBE is queued into an open MULTI). '
         'Real runs (single, standalone, sentinel, cluster clients; pool size 1 and 2): 2-3 sessions with WATCH/MULTI/EXEC, Receive, SetPubSubHooks, SetOnInvalidations + CLIENT TRACKING ON, '
         'timed-out BLPOP, Close, every method after release, 2 BLPOP callers and shared pipeline traffic; every command is tagged with its process. Monitors: no foreign tagged command on a connection '
         'between a holder\'s first command and its pool.Store; every late call returns ErrDedicatedClientRecycled and reaches no connection; at pool.Store the server-side connection has no subscriptions and tracking off; '
         'the hooks channel is closed. The merged event log (pool hook events under the pool mutex, server events under the dispatcher mutex, session events) must be explained step by step by SessionTrace.tla, '
         'which also requires the logged server state at Store to equal the specification\'s wire state and forbids silent clean-up steps where the specification sends commands.',
    design_ref='DESIGN.md 4.4, 5 C25; design/session.md',
    note='Trusted: TLC, fakeredis, hook placement in pool.go, attribution of commands by key tag (MULTI/EXEC/CLIENT TRACKING ON carry none and are attributed to the holder of their connection). '
         'Bounded: the Go scheduler is perturbed, not controlled; a release racing with an in-flight call of the same dedicated client (documented misuse) is not explored; '
         'scripts never clear an invalidation hook before release. Known findings (see known_findings.json): two consequences of a MULTI left open.'),
 'C29': dict(
    level='model_checking',
    technique='stream part of PoolSessions.tla model-checked by TLC; TLC-enumerated scenarios with predicted step results replayed against the real DoStream/DoMultiStream/WriteTo over fakeredis; seeded concurrent stream runs',
    text='Model: spool.Acquire with a live / ended context (placeholder) / context ending during connection making (dead wire), pipe.DoStream/DoMultiStream (ctx.Err() test, n replies outstanding), WriteTo with reply classes '
         'ok / nil / error reply / failing writer / connection cut inside the reply (n, e, clean flag, Close before Store when unclean, Store exactly once), WriteTo on a finished stream; two concurrent callers, pool size 1-2. '
         'Invariants StreamStoreExactlyOnce, UncleanClosedBeforeStore, Exclusive, NoLeak, StreamBookkeeping; negative configs: double Store, missing Close, the leak on the ctx.Err() path (repaired defect #12). '
         'Replay: every scenario of one caller (pool warm/cold x context position x 1-3 commands (thorough 4) x class per WriteTo, ok refined into empty / binary with CR LF 0x00 0xFF and frame look-alikes / 64 KiB-1 MiB / integer / double / simple string) '
         'with a scripted context whose Err() flips at the call index that hits the chosen window; checked per step: error class, bytes written equal the reply value the server reports, HasNext, number and kind of pool.Store hook events, '
         'connection closed when predicted; then a probe stream: reused connection vs new one as predicted, a probe still waiting after 5 s with BlockingPoolSize 1 is the violation stream-wire-leaked. '
         'Concurrent runs: 3 goroutines x 6 DoMultiStream through a pool of 1-2: exact bytes per stream, one connection per stream, no command of another stream before the Store event, exactly one Store per stream.',
    design_ref='DESIGN.md 4.4, 5 C29, 7 #12; design/session.md',
    note='Trusted: TLC, fakeredis (independent RESP codec; its SRep values are the byte oracle), pool hook events attributed by goroutine id. '
         'Bounded: RESP3 streamed (chunked) strings are not produced by the fake server; cut positions and writer limits are seeded samples; a truncated reply surfaces as io.EOF from WriteTo, which the specification only classifies as "error".'),
}

# round 2 (setup2): replaces the C47 entry above
CHECKS.update({
 'C47': dict(
    level='model_checking',
    technique='TLA+ transcription of pipe.go _newPipe (Setup.tla) model-checked by TLC over enumerated option records x server kinds x '
              'faults x user commands; every finished behaviour is printed as a CASE record (inputs + predicted per-connection command log, '
              'server-side session state, outcome) and replayed against the real client over fakeredis',
    text='Setup.tla has one action per protocol step of _newPipe (dial/AuthCredentialsFn, the pipelined RESP3 batch, one reply-loop iteration, '
         'the proto<3 decision, the RESP2 batch and its loop, post-setup traffic, Close of a failed connection) plus an explicit server model '
         '(session state per connection, reply class per command, NOAUTH after command lookup). Option record: static credentials none/password/user+password/user only AND the result class of AuthCredentialsFn '
         '(no provider / empty pair / password only / user+password / user only, answered per address; the server accepts exactly the pair the property designates: the provider result replaces the static pair as a whole), ClientName, SelectDB, tracking default/custom/BCAST/DisableCache, ReplicaOnly, NO-TOUCH, NO-EVICT, ClientSetInfo '
         'nil/2 entries/other, AlwaysRESP2, EnableReplicaAZInfo with and without AZFromInfo, client kind single/standalone-with-redirect/cluster/sentinel '
         '(sentinel credentials and name, db 0); server kinds current / no HELLO / HELLO without RESP3; one fault per case: error reply (texts ERR / NOPERM / NOAUTH / LOADING / READONLY / WRONGPASS / unknown command <itself> / unknown command HELLO aimed at other steps; '
         'the client model distinguishes only "HELLO is unknown" from "any other error") or cut connection at any step of any connection, failing AuthCredentialsFn, HELLO reply announcing proto 2; user command GET / BLPOP (pool connection) / '
         'DoStream (stream-pool connection) / SUBSCRIBE (RESP2 Pub/Sub side connection). Invariants on every intermediate state: '
         'NoUserCommandBeforeSetup (with the required session state in force), ServedOnlyWhenConfigured, FallbackOnlyOnHelloRejected, NoFallbackWithCache, '
         'FailedStepFailsConnection, ToleratedOnly (READONLY, CLIENT SETINFO, HELLO 2 unknown), AuthLeadsResp2, AuthAsSupplied (every AUTH / HELLO AUTH argument that reaches a server is the designated pair, never a mix), CleanRunSucceeds. '
         'Quick: records within one field change of four base records + 6 seeded random records (about 8 600 cases, 48 700 states); thorough: two changes '
         '+ 150 random records. The driver compares, per connection, the exact command log the server received, the session state '
         '(user, proto, name, db, tracking mode, READONLY, NO-TOUCH, NO-EVICT, CAPA, lib info) and the outcome (NewClient error / ErrNoCache / command error / served).',
    design_ref='DESIGN.md 4.5, 5 C47; design/session.md',
    note='Trusted: TLC, fakeredis as the server (its behaviour is also the environment part of the specification), the intercept that injects the fault. '
         'Bounded: one fault per case; the option space is sampled by distance to four base records plus seeded random records, not exhausted; '
         'the sentinel connection is compared on its leading setup run only (its later traffic is concurrent); extra sentinel-side RESP2 Pub/Sub connections are not compared; '
         'the PING that Close pushes through a failed connection is treated as optional (1 s grace in pipe.Close); '
         'error texts rotate over (step, record) outside the four base records (every (setup command, text) pair is checked to occur); MOVED/ASK/CLUSTERDOWN texts are not injected '
         '(the cluster client reacts to them outside connection setup), LOADING not in the cluster topology; known oddity excused by the invariants and shown by two MC_setup_known_hellotext configs: '
         'the code honours the text "unknown command HELLO" at every step of both lists (not aimed at AUTH).'),
})
