"""Proposed entries for checks/registry.py (family: client-side cache store, C10 and C07)."""

HOOK_COMMITS = ['f9c5aa4', '7e19308']   # verif: hooks in lru.go/cache.go; verif: verif_export_store.go

CHECKS = {
 'C10': dict(
    level='model_checking',
    technique='TLA+ spec of lru.go checked by TLC + TLC-generated behaviours replayed through the real lru with the predicted abstract '
              'state as oracle + random histories of the real lru validated by a trace spec',
    text='Lru.tla models the lru store as it is (list order, per-key move threshold, size accounting, eviction loop of Update, pending entries, '
         'Close, and the two/three critical sections of Flight/Flights with at most one call parked between them). TLC checks exhaustively '
         'SizeIsSumOfDone, SizeWithinMax, EvictedIsLruPrefix (incl. no more than necessary), PendingNeverEvicted, OrderPreserved, '
         'WaitersGetFlightOutcome for 2 keys x 2 commands with sizes {2,5} against max 6 and, with interleaving, 2 keys x 1 command; negative '
         'configs re-introduce the one-eviction loop, purge without size accounting and Delete of pending entries. LruGen.tla prints every '
         'transition of a depth-bounded state graph (3 keys x 2 commands, sizes {1,2,5}, max 6, canonical first-touch order of keys/commands) '
         'and of a fill-then-large-reply family; storedrv replays each on the real lru (payload lengths computed from the exported size '
         'constants so that real entry size = units x bytes), evaluates the property monitors on the real snapshot after every call and '
         'compares the snapshot (entries in list order, state, size, expiry, lru.size, hit counters) with TLC\'s prediction. The byte-sized '
         'scenario of the design (n small entries + one large against 2000 bytes) and seeded random histories with a Flight call held at a '
         'verif hook (every event explained by LruTrace.tla with all invariants and action properties evaluated) complete it.',
    design_ref='DESIGN.md 4.3, 5 C10, 7 #1; design/store.md',
    note='Trusted: TLC, the snapshot taken under the lru lock, ScaleHits (the 1024-hit move threshold is exercised as "every 2nd hit" by '
         'resetting the per-key counters below the threshold before each call; batches of at most 2 items). Bounded: exhaustive only up to '
         'depth 5 (quick) / 6 (thorough) for 3 keys x 2 commands; deeper states only by random walks (thorough) and random histories. '
         'Concurrency: one parked Flight call, everything else sequential (no data-race detection).'),
 'C07': dict(
    level='model_checking',
    technique='TLA+ specs of lru.go and the SimpleCache adapter checked by TLC + replay of TLC-generated behaviours on both real stores with a '
              'controlled clock + TLC-generated accessor cases + end-to-end observations of the real client over fakeredis judged by a TLA+ '
              'observation spec',
    text='Lru.tla / Adapter.tla: expiry fixed at the miss (now + client ttl), Update stores the earlier of that and the server expiry '
         '(now + PTTL at arrival; none for PTTL -1/-2), Flight hits only while expiry > now; checked exhaustively over client ttl {0,1,3} x '
         'server ttl {none,0,1,3} on a clock 1..4 (ExpiryIsMin, NoHitAtOrAfterExpiry, ExpiryStable / ValueStable, GetTTL), negative configs '
         'keep the later expiry / hit at the expiry instant. Every transition of depth-bounded graphs is replayed on the real lru (Flight, '
         'Flights, GetTTL, parked calls) and the real adapter with Flight\'s now argument driven by the model clock (1 tick = 1 h), comparing '
         'returned and stored expiries exactly; monitors on the real objects: hit returned at/after its expiry, stored expiry not the earlier '
         'of client and server expiry. CacheTtl.tla predicts CachePXAT/CachePTTL/CacheTTL for expiries around second boundaries. End to end: '
         'DoCache / DoMultiCache (default and static-TTL commands, lru and adapter store) against fakeredis with real time and TTLs of '
         '100-500 ms; CacheTtlObs.tla checks each result against sound bounds only (expiry within [t_call, t_return] + min(ttl, server part); '
         'no hit of the entry from a call started after the upper bound; accessors consistent with clock readings around them). '
         'CacheFill.tla models one DoCache / DoMultiCache / DoCache(MGET) call between store and server (wire composed per missed item, '
         'server answering each PTTL probe by the name it carries, reader applying answers >= 0; invariants EarlierOfBoth, ProbesNameKeys, '
         'ProbeShape; three negative configs) and generates every complete behaviour as a case: command shape (GET, HGET, EVAL_RO, '
         'EVALSHA_RO, FCALL_RO, MGET key) x call path x store x static tags x items already cached x server key state with PTTL answer '
         '-2, -1, 0, 1, 40, ttl, ttl+5000 scripted in fakeredis; the wire of the real client is compared token by token (which argument '
         'each probe names) and the observed expiries / later hits are judged by CacheTtlObs.tla with the exact answer.',
    design_ref='DESIGN.md 4.3, 5 C07; design/store.md (round 2)',
    note='Trusted: TLC, fakeredis as the server (its PTTL within 2 ms), the wall clock. The exact "earlier of" rule is decided on the store '
         'objects with a controlled clock; end to end only bounds of width (t_return - t_call) are decidable. JSON.MGET is not driven '
         'end to end here. The CacheFill cases use one connection (PipelineMultiplex -1) and scripted PTTL answers. Bounded as C10.'),
}
