"""Proposed entries for checks/registry.py (cluster family: C19, C20, C21-cluster part, C31)."""

HOOK_COMMITS = ['d3df0b5']      # verif: export wrappers for cluster topology parsing and the key slot function (no hooks in existing files)
FIX_COMMITS = ['76e0aeb']       # fix: cluster DoMulti/DoMultiCache must not re-send a command whose RetryDelay was negative (DESIGN 7 #14)

CHECKS = {
 'C19': dict(
    level='model_checking',
    technique='TLA+ spec of cluster.go routing checked by TLC + TLC-generated scenarios replayed into the real cluster client against a '
              'simulated cluster + trace validation of every run + TLC-enumerated topology replies fed to the real parser',
    text='Cluster.tla models the learned topology per connection object (wslots/rslots/conns), _refresh, _pick, do/doCache, the rounds of '
         'DoMulti/DoMultiCache with doresultfn, askingMulti, redirectOrNew and the MaxMovedRedirections budget, plus an environment of 4 '
         'primaries, 3 replicas and 4 representative slots (ownership, migrations/ASK, stale views giving MOVED chains to known, unknown and '
         'self-naming nodes, lagging reports, a dead node). TLC checks RedirectFollowed, AskingPrecedes, BoundedRedirects, ReachesOwner '
         'exhaustively for every single-command call x topology change x MaxMovedRedirections in {0,1,2} and prints each finished behaviour as a '
         'scenario with the predicted results; negative configs (ASK without ASKING, MOVED target ignored, budget off by one) break the expected '
         'invariant. The real client runs these scenarios and seeded random ones against harness/clustersim (one fakeredis server per node, '
         'CLUSTER SLOTS and CLUSTER SHARDS renderings with empty/?/hostname endpoints, unhealthy and tls-port noise); results are compared with '
         'the prediction and every recorded trace (per-node command events with the ASKING flag, topology replies, calls, results) must be '
         'explained by ClusterTrace.tla, which tracks the topology the client can have learned from the CLUSTER replies actually sent. '
         'ParseTotal: ClusterTopo.tla enumerates SLOTS/SHARDS replies from 14/13 well-formed and malformed entry templates (length <=2 quick, '
         '<=3 thorough, RESP3 maps and flattened RESP2 form, tls on/off) and parseEndpoint inputs with the group map the client must learn; the '
         'real decoder + parseSlots/parseShards/parseEndpoint are compared under recover.',
    design_ref='DESIGN.md 4.5, 5 C19; design/cluster.md',
    note='Trusted: TLC, fakeredis/clustersim as a stand-in for Redis Cluster (its rules are the environment half of Cluster.tla), the event '
         'abstraction of the simulated nodes. Bounded: one call at a time (only the background refresh is concurrent), 4 slots, 7 nodes, <=2 '
         'topology changes, chains <=3, TLS only in the parser cases. Replica order inside a group is not checked (not a contract).'),
 'C20': dict(
    level='model_checking',
    technique='same machinery as C19, batch calls',
    text='BatchOrder, TxContiguousOneNode, TxResentWhole and NoResendAfterDenied of Cluster.tla are checked exhaustively for batches of 3-5 '
         'members over 3 slots (interleaved so that grouping by node reorders them), DoMulti and DoMultiCache, one MULTI..EXEC block, MOVED / ASK '
         '/ LOADING on subsets of members, RetryDelay<0, every topology change; negative configs: results re-assembled by node order, transaction '
         're-sent without MULTI, denied member re-sent (the repaired defect #14). Scenarios (TLC-generated, sampled in the quick tier, and random '
         'batches <=5 members) run against the simulated cluster: result i must be the reply to command i (values embed node and request id), '
         'per-connection events must show each MULTI..EXEC block contiguous on one connection and re-sent whole with ASKING in front when '
         'ASK-redirected; traces validated by ClusterTrace.tla.',
    design_ref='DESIGN.md 4.5, 5 C20, 7 #14; design/cluster.md',
    note='doresultfn is modelled one sub-batch at a time (the interleaving of two goroutines appending to the same retry list is explored at '
         'sub-batch granularity). Connection expiry (ConnLifetime) recovery loops are not modelled.'),
 'C21': dict(
    level='model_checking',
    technique='same machinery as C19, replica routing (cluster client only)',
    text='ReplicaOnlyWhenOptedIn and OutOfRangeFallsBackToPrimary are checked for SendToReplicas predicates per command (opted in / not), '
         'ReadNodeSelector and ReplicaSelector answers in {-1, valid, >=len}, the default selector, ReplicaOnly, groups with 0-2 replicas, batches '
         'with mixed members and with MULTI/EXEC (which the code always sends to the primary); negative configs: predicate ignored, out-of-range '
         'index clamped. The real client is run with address-based selectors; the role of the node that logged each command comes from the '
         'simulated cluster; traces validated by ClusterTrace.tla.',
    design_ref='DESIGN.md 4.5, 5 C21; design/cluster.md',
    note='Cluster part only; standalone and sentinel routing belong to the Standalone/Sentinel specs. Random choices of the code (ReplicaOnly, '
         'default selector) are resolved nondeterministically by the trace spec.'),
 'C31': dict(
    level='model_checking',
    technique='TLC-enumerated helper cases with the expected map (ClusterHelpers.tla) run through the real helpers against fakeredis stores; '
              'cluster side rests on BatchOrder of Cluster.tla (negative config)',
    text='ClusterHelpers.tla states HelperMap for MGet, MGetCache, JsonMGet, JsonMGetCache, MSet, MSetNX, MDel, JsonMSet on a single and on a '
         'cluster client: key lists of length <=2 (quick) / <=3 (thorough) plus lists of 3-5 keys with duplicates over 4 keys in 3 slots, per-key '
         'state in {value, absent, wrong type, server error}; expected per-key entry, whole-call failure and store contents afterwards. The driver '
         'prepares the stores (single fakeredis server; simulated cluster with one store per node, MOVED/CROSSSLOT enforced), runs the real helper '
         'and compares map keys, every entry (values are key specific and read back from the store) and the store afterwards.',
    design_ref='DESIGN.md 5 C31; design/cluster.md',
    note='For this property TLC is case generator and oracle (input-space exploration); the model-checked part is BatchOrder. Standalone and '
         'sentinel clients share the single-client code path of helper.go and are not run. A command refused at queueing time inside the '
         'client-side-caching transaction makes MGetCache/JsonMGetCache fail as a whole (modelled as such).'),
}
