"""Proposed checks/registry.py entries of the data/accessors family (C15, C16)."""

HOOK_COMMITS = ['ae7adeb']          # verif: export wrappers only (verif_export_access.go); no hook call sites

CHECKS = {
 'C15': dict(
    level='exploration',
    technique='TLA+ module as exhaustive case generator and oracle (TLC enumerates reply shapes and error texts with the outcome class '
              'predicted per accessor) + replay of every case into the real decoder and, by reflection, into every accessor/classifier',
    text='Accessors.tla enumerates reply shapes as initial states: every RESP type as a leaf (incl. RESP2 nulls, streamed strings, '
         'attribute frames, a stray stream terminator), every aggregate kind (array, set, map, push and their streamed forms, so maps of '
         'odd length) over all element sequences of length 0..3 from {string, empty string, integer, nil, error}, aggregates of small '
         'aggregates (nested empties, odd maps, nil pairs), every one-point mutation (10 substitutions, drop first/last child, repeat a '
         'child, at every tree position) of a representative RESP2 and RESP3 reply of each structured helper (scores, streams, scan, '
         'LMPOP/ZMPOP, FT.SEARCH, FT.AGGREGATE with cursor, GEOSEARCH, JSON slices), a RedisResult carrying a transport error, and the '
         'error-text grammar {MOVED, ASK, REDIRECT, TRYAGAIN, LOADING, CLUSTERDOWN, NOSCRIPT, BUSYGROUP, READONLY, NOPERM, WRONGTYPE, '
         'lower case, empty} x {no field, slot only, trailing space, address only, slot+address, +extra field, empty address} x '
         '{IPv4, host name, empty host, bare IPv6, bracketed IPv6} x {"ERR " prefix} x {simple, blob error}. Per shape the module gives each '
         'of the 39 error-returning accessors one outcome class where the API documents it (nil -> Nil, error reply -> RedisError with the '
         'trimmed text, wrong type -> parse error, value, value-or-error, unspecified) and per error text the result of all nine '
         'RedisError classifiers (a redirect is ok only with a non-empty address, IPv6 addresses bracketed). accessdrv encodes each tree to '
         'RESP, decodes it with the real readNextMessage and applies every method of *RedisMessage, *RedisResult (reflection; 107 methods and functions in total '
         'incl. DecodeJSON, Cache*, String) plus DecodeSliceOfJSON and every *RedisError method (also on nested error elements) under '
         'recover; a panic, an outcome class outside the predicted one, a wrong error text or classifier result is a violation. '
         'Round 2, family comp: for every structured helper the module lists the components it must read (cursor, elements, member, score, '
         'entry id, field list, entry, stream, pair, values, location, distance, coordinates, numeric element, JSON document, RESP3 FT record) '
         'with the conversion that reads each, substitutes ONE component of a well-formed RESP2/RESP3 reply by each value that conversion '
         'cannot read (nil, error element, empty/one-element array, empty/odd map, integer, empty/non-numeric/negative string, double, bool) '
         'and predicts for the helpers reading it "an error, never a value, never a panic" (Nil / the component\'s RedisError where the '
         'conversion is applied to the component directly); invariant CompNeverValue, negative config MC_neg_complenient.',
    design_ref='DESIGN.md 4.7, 5 C15; design/access.md',
    note='Exploration over model-generated shape classes, not all reply trees: quick 5.4k shapes (0.58M accessor applications), thorough '
         'larger alphabets / depth. Trusted: TLC, the JSON transport, the encoder (harness/fakeredis codec + hand-written streamed/attribute '
         'framing), the outcome classification in the driver (V/N/R/P/E by IsRedisNil, *RedisError, IsParseErr). Accessors the module has no '
         'rule for, or methods with a signature the driver cannot call, end the check inconclusive (so API growth is noticed). Outcome '
         'classes are claimed for the top-level reply and, in family comp, for the listed components of the structured replies (components the code '
         'reads leniently with string()/intlen are not claimed to fail); other nested positions are checked for panics only.'),
 'C16': dict(
    level='exploration',
    technique='TLA+ module as exhaustive data generator and oracle (abstract data -> RESP2 and RESP3 reply trees Redis documents, expected Go '
              'value per accessor) + replay of every case into the real decoder and accessors with exact comparison',
    text='Accessors.tla defines 29 data classes (strings, status, integers, numeric strings, floats, booleans; lists of strings with nils, '
         'sets, integers, numeric strings, floats with nils, booleans; string / integer / numeric-string maps with repeated fields; ZSCORE '
         'pairs and lists; stream entries with repeated fields and nil field lists, XRANGE lists, XREAD with several streams; scan pages; '
         'LMPOP/ZMPOP; FT.SEARCH with every combination of WITHSCORES/NOCONTENT/WITHPAYLOADS; FT.AGGREGATE with and without cursor; '
         'GEOSEARCH for every combination of WITHDIST/WITHHASH/WITHCOORD; JSON documents and JSON slices with nils; arbitrary small RESP3 '
         'trees with attributes and streamed forms), Shape(class, data, 2|3) and Expect(class, data, proto): the exact Go result of each '
         'accessor that applies (field names of the Go result structs), plus Is* predicates, ToAny and ToArray for every tree. TLC enumerates '
         'all data within the bounds, checks the oracle invariants (RESP2 shapes use RESP2 types only, last value of a repeated field wins '
         '= sequential insertion, no two data of a class share a reply tree but not the result) and prints every case; accessdrv decodes '
         'each tree with the real decoder and compares every listed accessor on RedisMessage and RedisResult exactly (floats as n/2^k). '
         'Round 2, classes num/numint/numarr/numscan/nummap/numdbl: numbers at and beyond the boundaries of the Go types carried as decimal '
         'text with an abstract magnitude (0, 5, 2^63-1, 2^63, 2^63+1, 2^64-1, 2^64, 2^65, both signs) and syntactic form (decimal, "+5", '
         'leading/trailing blank, "0x10", "1e3", "1.5", empty, inf, -inf, nan, -nan, a word), as bulk string, integer reply, array element, '
         'SCAN cursor, hash value and RESP3 double; the module predicts value-exact (decimal text of the integer, s*2^e of the nearest '
         'double, inf/nan) or error per accessor from the mathematical range of the type; invariant NumRanges, negative config MC_neg_u64viai64.',
    design_ref='DESIGN.md 4.7, 5 C16; design/access.md',
    note='Bounded: lists/maps up to 3 (thorough 4) elements, 2 streams x 1-2 entries, 2 documents/rows/locations, 32-bit integers (TLC) except for the boundary classes of round 2 (texts), floats '
         'exactly representable with finite decimal text (rounding only at 2^63-1, 2^63+1 and 2^64-1; inf/nan in the num classes), RESP2 FT.SEARCH only with non-numeric document names (the '
         'negative config shows the layout is ambiguous otherwise). nil and empty Go maps/slices are not distinguished. The RESP2/RESP3 layouts '
         'are transcribed from the Redis / RediSearch documentation; no server is available to confirm them. Known finding: RESP2 '
         'FT.SEARCH WITHPAYLOADS is not readable by AsFtSearch.'),
}
