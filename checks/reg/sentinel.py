"""Proposed registry entries of the sentinel / standalone family (format of checks/registry.py).
C23 is complete here.  For C21 this family delivers the non-cluster part as checks/c21_nocluster.py: run(ctx), to be
called from the cluster family's checks/c21.py; C21_NONCLUSTER_TEXT / _NOTE are the paragraphs to merge into its entry."""

HOOK_COMMITS = ['c87215d']   # verif: hooks in sentinelClient._switchTarget (add-only vhook lines)

CHECKS = {
 'C23': dict(
    level='model_checking',
    technique='TLA+ model of the sentinel client (_refresh, listWatch, _switchTarget, the Pub/Sub callback) and of its environment '
              'checked by TLC (safety, negative configs, leads-to under fairness) + TLC-simulated environment scenarios, canonical and '
              'seeded random ones run against the real client on fakeredis sentinels/data nodes + validation of every recorded trace '
              '(server events and verif hooks) against SentinelTrace.tla',
    text='Sentinel.tla models 2 sentinels x 3 data nodes: sentinel views that are stale or wrong (any node as master, no usable replica, '
         'the master listed as replica), sentinels and nodes that crash and return, roles that flip at any point (also between the '
         'sentinel answer and the ROLE verification and between ROLE and the swap), +switch-master / +reboot / +slave events, the three '
         'client modes (default, ReplicaOnly, SendToReplicas incl. the two concurrent _switchTarget goroutines and stragglers), the '
         'single-flight refresh that absorbs requests. TLC checks TrafficOnlyToVerifiedRole, TrafficFollowsInstalled, '
         'NoTrafficToWrongRole, SwapOnlyVerified/Reported, SubscribedOrRefreshing, RefreshNotStuck exhaustively (1-2 environment steps '
         'quick, up to 3 thorough) and FollowsSwitch (after a clean failover + event the client moves and stays) under weak fairness; seven '
         'negative configs re-introduce defects (no ROLE check, old connection kept, closed connection still used, +switch-master '
         'ignored, lost subscription absorbed by the single-flight refresh, refresh run inside the Pub/Sub callback). '
         'The real rueidis.NewClient(Sentinel...) is driven on one fakeredis Network (shared event sequence): sentinels answer '
         'SENTINEL GET-MASTER-ADDR-BY-NAME / REPLICAS / SENTINELS in the shapes Redis Sentinel uses and publish events; environment '
         'steps come from TLC -simulate behaviours of Sentinel.tla (each step with the client step it followed, applied inside the '
         'answering server or hook), 19 canonical scenarios x 3 modes, and seeded random ones; user traffic (Do, DoMulti, DoCache, '
         'DoMultiCache, DoStream, DoMultiStream, Dedicated with mixed SendToReplicas values) runs throughout. Every trace (sentinel '
         'replies and pushes, ROLE answers, tagged user commands at the receiving node, the 11 hook points of _switchTarget, Call/Ret) '
         'must be accepted by SentinelTrace.tla with the SentinelCore invariants true after every event; each scenario ends with a '
         'clean failover whose +switch-master the client must follow within a bounded wait (FollowsSwitchObserved). '
         'Round 2: the sentinels monitor several master sets (SetNames: the client\'s name, a name it is a strict prefix of, a '
         'strict prefix of it, one it is a suffix of, a case variant, an unrelated one) and publish the events of all of them; an '
         'event is a report about the client\'s master only if Concerns(name) (equality with MasterSet) -- in the model and in '
         'trace validation (Push records carry the name); negative configs BugPrefixMatch / BugAnySet -> SwapOnlyReported; '
         'GenSpecF generates scenarios whose foreign events are tempting (name a node that is up, answers ROLE master and was '
         'never reported for the client\'s set); canonical scenario foreign-master-sets in the three modes.',
    design_ref='DESIGN.md 4.5, 5 C23; design/sentinel.md',
    note='Trusted: TLC; fakeredis as Redis/Sentinel double; placement of the add-only hooks (swap.begin before the stores, failure hooks '
         'after target.Close()). Verification is per address: the client (by design) re-dials an installed address without asking ROLE '
         'again, the specification says so. Bounded: 2 sentinels, 3 nodes, <= 4 environment steps per generated scenario; scenario '
         'schedules are steered by triggers, not fully controlled. Liveness on the real client is a bounded wait (2 publications, '
         'generous time-out scaled to machine load), reported only when the client is provably deaf or stuck. Found and fixed: 5f879d6, '
         'bcc1bc4 (closed mux kept serving), 8dcd13a (subscription lost for good), 070e237 (refresh inside the callback deadlocks).'),
}

C21_NONCLUSTER_TEXT = (
    'Non-cluster part (checks/c21_nocluster.py): Standalone.tla enumerates every standalone configuration x call -- 0-2 replicas, '
    'SendToReplicas set or not, ReadNodeSelector result in {none, -1, 0, 1, 2, 3}, EnableReplicaAZInfo, EnableRedirect, 8 API entry '
    'points, every SendToReplicas pattern of 1- and 2-command calls: 1062 cases -- with Impl (standalone.go) against Allowed (the '
    'property) under ReplicaOnlyWhenOptedIn, OutOfRangeFallsBackToPrimary, NoReplicaMeansPrimary; StandaloneRedirect.tla checks '
    'RedirectFollowed / ErrorOnlyWhenUnreachable over all 5-step behaviours of demote / promote / down / up / call; SentinelRoute.tla '
    'gives the class (master / replica connection) of every sentinel mode x API x pattern (66 cases); five negative configs (predicate '
    'ignored, batch routed by its first command, out-of-range index used, no-replica panic, REDIRECT returned). TLC prints every case '
    'and every redirect behaviour containing a followed redirect with the predicted targets; harness/cmd/sentineldrv applies all of '
    'them to the real standalone / sentinel clients on fakeredis nodes and compares the node that logged SRecv (and the caller-visible '
    'result for redirects). The routing classes are additionally evaluated by SentinelTrace.tla on traces of the sentinel client '
    'while it switches masters and replicas. Round 2: SentinelRoute.tla describes a call as a sequence of transmissions (Sends): with '
    'ConnLifetime the connection picked for a call can expire after k replies (the rest is sent again), a transport failure makes '
    'the retry handler send the call again; every transmission must stay in the class of the whole call '
    '(SentinelReplicaOnlyWhenOptedIn over all transmissions, WholeCallOneClass; negative config BugRepickRemainder); 220 further cases '
    '(3 modes x Do/DoMulti/DoCache/DoMultiCache x flag patterns incl. 3-command batches x expire/cut after k). The driver provokes the '
    'fault inside the data node (replies held from command k on, connection cut when the PING of pipe.Close() shows that the lifetime '
    'timer fired) on clients with ConnLifetime + AlwaysPipelining and judges every reception of every transmission.')
C21_NONCLUSTER_NOTE = (
    'A call that opted in but reached the primary is reported as divergence (inconclusive), not as a violation: the property only '
    'forbids replicas without opt-in. ReplicaOnly is exercised for the sentinel client (the standalone client has no such mode). '
    'Found and fixed: 7db1d7e (EnableRedirect + SendToReplicas=true without replicas panicked in pick()). The lifetime cases need a '
    'pipelined connection (AlwaysPipelining): the synchronous path fails a batch as a whole and never takes the lifetime recovery with '
    'a partly answered batch. checks/c21.py runs this part beside the cluster part.')

# checks/c21.py runs the non-cluster part beside the cluster part (round 2): its paragraphs belong to the C21 entry, which
# the cluster family owns (one entry per property)
try:
    from checks.reg import cluster as _cluster
    _e = _cluster.CHECKS['C21']
    if C21_NONCLUSTER_TEXT not in _e['text']:
        _e['technique'] += ('; non-cluster clients: TLC-enumerated routing cases (Standalone.tla, SentinelRoute.tla incl. calls re-sent after '
                            'ConnLifetime expiry / transport failure) and redirect behaviours (StandaloneRedirect.tla) applied to the real standalone '
                            'and sentinel clients on fakeredis, sentinel traces validated by SentinelTrace.tla')
        _e['text'] += ' ' + C21_NONCLUSTER_TEXT
        _e['note'] = _e['note'].replace('Cluster part only; standalone and sentinel routing belong to the Standalone/Sentinel specs. ', '') + ' ' + C21_NONCLUSTER_NOTE
        _e['design_ref'] += '; design/sentinel.md'
except Exception:
    pass
