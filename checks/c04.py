"""C04 - broken connections and Close never leave calls hanging."""
from checks import faultcommon as fc
LEVEL = 'model_checking'


def run(ctx):
    if getattr(ctx, 'replay', None):
        return fc.replay(ctx, lambda w: False, lambda w: w not in fc.C05_FAULT_WHATS)
    th = ctx.tier == 'thorough'
    fc.run_tlc_many(ctx, fc.pipe_model_jobs(th, 'c04'), threads=4)
    # the TLC counterexample schedule of the entry race (Do between incrWaits and the state load, Close) through a real pipe
    fc.entry_race(ctx, rounds=3 if th else 2)
    # break / Close scenarios enumerated by TLC (FaultGen.tla), judged by FaultTrace.tla
    cases = fc.gen_fault_cases(ctx)
    faults = ('cutall', 'cutnow', 'execcut', 'midreply', 'pingtimeout', 'close', 'dedclose', 'dialfail', 'dedbreak')
    plain = [c for c in cases if not fc._fault_opts(c)]
    sel = fc.select_fault_cases(plain, 1200 if th else 130, ctx.seed, faults=faults,
                                always=lambda c: c['fault'] in ('dedclose', 'dialfail'))
    # further ingredients: an unsolicited unsubscribe push before the break (the reader holds a call it has taken off the queue),
    # steady new traffic on a silently dead connection (the keep-alive ping must still fire), a dedicated client whose command
    # connection breaks while its Receive waits (RESP2: on the wire's second connection) and which is then released
    extra = [c for c in cases if fc._fault_opts(c) or c['fault'] == 'dedbreak']
    small = lambda c: c['fault'] == 'dedbreak' or (len(c['pend']) == 1 and c['pipe'] and not c['warm'])
    sel += fc.select_fault_cases(extra, 400 if th else 44, ctx.seed + 3, always=small)
    verdicts = fc.run_fault_scenarios(ctx, sel, 'ring')
    if th:
        verdicts += fc.run_fault_scenarios(ctx, fc.select_fault_cases(cases, 400, ctx.seed + 7, faults=faults), 'flowbuffer')
    fc.report_fault_verdicts(ctx, verdicts, lambda w: w not in fc.C05_FAULT_WHATS, cases)
    ctx.extra['scenarios_generated'] = len([c for c in cases if c['fault'] in faults])
    ctx.extra['scenarios_run'] = len(sel)
    ctx.exhaustive = False
    ctx.assumptions += [
        'a call that has not returned 12 s after its connection broke / Close() returned is a hang (the alternative is "never"); '
        'the scenario is run a second time before it is reported',
        'Pipe.tla: single-command and two-command calls, abstract FIFO queue (ring/flowbuffer internals are C02), no Pub/Sub state',
        'a silent server (fault pingtimeout) keeps every reply back; a connection on which a reply is kept back counts as dead from then on: '
        'every call pending on it must return (keep-alive ping, or the time-out of a call on the synchronous path), also while new '
        'short-lived calls keep arriving',
        'Close() with a blocking command pending on a pool connection is only required to return when the server answers (statement of C04)']
