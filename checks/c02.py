"""C02: Ring.tla / FlowBuffer.tla exhaustive (+ negative configs, liveness), real ring and flowBuffer driven by queuedrv,
traces validated against QueueObs (QueueTrace.tla)."""
import glob, os, re, shutil, tempfile
from lib import vlib
LEVEL = 'model_checking'


def validate(ctx, tracedir):
    for f in sorted(glob.glob(os.path.join(tracedir, 'queue-*.ndjson'))):
        n = sum(1 for _ in open(f))
        if n == 0:
            continue
        r = vlib.tlc('queue', 'QueueTrace', 'QueueTrace.cfg', workers=1, timeout=1200, env={'VERIF_TRACE': f})
        ctx.tlc_runs.append(dict(r.summary(), trace_events=n, trace=os.path.basename(f)))
        ctx.states += r.distinct
        ctx.transitions += r.generated
        if r.ok:
            continue
        name = os.path.basename(f).replace('.ndjson', '')
        if r.violated or 'Postcondition TraceAccepted' in r.output:
            what = 'trace of the real %s rejected by QueueTrace.tla: ' % name
            if r.violated:
                what += 'invariant %s violated' % r.violated
                sig = 'queue-trace-invariant-%s %s' % (r.violated, name)
            else:
                m2 = re.search(r'"REJECTED-AT",\s*(\d+),\s*\[(.*?)\]', r.output, re.S)
                evname = ''
                if m2:
                    m3 = re.search(r'ev \|-> "([^"]+)"', m2.group(2))
                    evname = m3.group(1) if m3 else ''
                    what += 'no action of QueueObs explains recorded event #%s: %s' % (m2.group(1), ' '.join(m2.group(2).split()))
                sig = 'queue-trace-rejected-at-%s %s' % (evname or 'unknown', name)
            keep = os.path.join(vlib.VERIF, 'replays', ctx.pid)
            os.makedirs(keep, exist_ok=True)
            dst = os.path.join(keep, os.path.basename(f))
            shutil.copy(f, dst)
            ctx.violation(sig, what + '\n' + r.output[-1200:], dict(trace=dst))
        else:
            ctx.inconclusive.append('queue trace validation failed to run: %s\n%s' % (r.error, r.output[-2000:]))


def validate_hooks(ctx, tracedir):
    """Hook-level traces of the real ring against the detailed Ring.tla (silent: Ticket, RSignal)."""
    tmpl = open(os.path.join(vlib.SPEC, 'queue', 'RingTrace.cfg.tmpl')).read()
    for f in sorted(glob.glob(os.path.join(tracedir, 'ringhooks-*.ndjson'))):
        n = sum(1 for _ in open(f))
        if n == 0:
            continue
        slots = re.search(r'ringhooks-(\d+)', f).group(1)
        cfgp = os.path.join(tracedir, 'RingTrace-%s.cfg' % slots)
        open(cfgp, 'w').write(tmpl.replace('%N%', slots))
        r = vlib.tlc('queue', 'RingTrace', os.path.basename(cfgp), workers=1, timeout=1500, files=[cfgp], env={'VERIF_TRACE': f})
        ctx.tlc_runs.append(dict(r.summary(), trace_events=n, trace=os.path.basename(f)))
        ctx.states += r.distinct
        ctx.transitions += r.generated
        if r.ok:
            continue
        if r.violated or 'Postcondition TraceAccepted' in r.output:
            what = 'hook trace of the real ring (%s slots) rejected by RingTrace.tla: ' % slots
            if r.violated:
                what += 'invariant %s violated' % r.violated
                sig = 'ring-trace-invariant-%s slots=%s' % (r.violated, slots)
            else:
                m2 = re.search(r'"REJECTED-AT",\s*(\d+),\s*\[(.*?)\]', r.output, re.S)
                evname = ''
                if m2:
                    m3 = re.search(r'ev \|-> "([^"]+)"', m2.group(2))
                    evname = m3.group(1) if m3 else ''
                    what += 'no action of Ring.tla explains recorded event #%s: %s' % (m2.group(1), ' '.join(m2.group(2).split()))
                sig = 'ring-trace-rejected-at-%s slots=%s' % (evname or 'unknown', slots)
            keep = os.path.join(vlib.VERIF, 'replays', ctx.pid)
            os.makedirs(keep, exist_ok=True)
            dst = os.path.join(keep, os.path.basename(f))
            shutil.copy(f, dst)
            ctx.violation(sig, what + '\n' + r.output[-1200:], dict(trace=dst))
        else:
            ctx.inconclusive.append('ring hook trace validation failed to run: %s\n%s' % (r.error, r.output[-2000:]))


def run(ctx):
    th = ctx.tier == 'thorough'
    for c in ['MC_ring_quick.cfg', 'MC_ring_n4.cfg'] + (['MC_ring_thorough.cfg'] if th else []):
        ctx.run_tlc('queue', 'Ring', c, workers=16, timeout=1800)
    ctx.run_tlc('queue', 'Ring', 'MC_ring_live.cfg', workers=8, timeout=900)
    ctx.run_tlc('queue', 'Ring', 'MC_ring_neg_NoSignal.cfg', expect_violation='NoDeadlock', workers=4, timeout=300)
    ctx.run_tlc('queue', 'Ring', 'MC_ring_neg_NoBcast.cfg', expect_violation='NoDeadlock', workers=4, timeout=300)
    ctx.run_tlc('queue', 'Ring', 'MC_ring_neg_NoRestore.cfg', expect_violation='Fifo', workers=4, timeout=300)
    for c in ['MC_fb_quick.cfg'] + (['MC_fb_thorough.cfg'] if th else []):
        ctx.run_tlc('queue', 'FlowBuffer', c, workers=16, timeout=1800)
    ctx.run_tlc('queue', 'FlowBuffer', 'MC_fb_live.cfg', workers=8, timeout=900)
    ctx.run_tlc('queue', 'FlowBuffer', 'MC_fb_neg_NoReturn.cfg', expect_violation='NoDeadlock', workers=4, timeout=300)
    ctx.run_tlc('queue', 'FlowBuffer', 'MC_fb_neg_WrongOrder.cfg', expect_violation='ReaderOrder', workers=4, timeout=300)
    binp = vlib.build('queuedrv')
    tracedir = tempfile.mkdtemp(prefix='verif-queue-', dir=vlib.SCRATCH_ROOT)
    try:
        ctx.run_driver(binp, ['-runs', '300' if th else '40', '-tracedir', tracedir], timeout=1800)
        validate(ctx, tracedir)
        validate_hooks(ctx, tracedir)
    finally:
        shutil.rmtree(tracedir, ignore_errors=True)
