"""C38: Limiter.tla exhaustive (limit 3 / limit 1 with three callers / two identifiers) + negative configs; TLC-generated
scenarios (who reads the clock when, whose script runs when, how far the clock advances) executed in real time against
the real rueidislimiter over fakeredis/luamini; every recorded script execution and result recomputed by LimiterTrace.tla
from real millisecond values, with the properties evaluated at every step."""
import os, random, shutil
from lib import vlib
from checks import addons1common as ac

LEVEL = 'model_checking'

NEG = [('IncrBeforeReset', 'AdmittedPerWindow'), ('AllowOneMore', 'AdmittedPerWindow'), ('NoZeroOnReset', 'RemainingExact'),
       ('Stale', 'ResetIdentifiesWindow')]
WINDOW_MS = 1150


def run(ctx):
    th = ctx.tier == 'thorough'
    # the pure model runs do not depend on the repository; the mutation self-test (proposed/mutations_addons1.py) skips them
    if not os.environ.get('VERIF_ADDONS1_SKIP_MODEL'):
        ctx.run_tlc('addons', 'Limiter', 'Limiter_MC_quick.cfg', workers=8, timeout=900)
        ctx.run_tlc('addons', 'Limiter', 'Limiter_MC_quick_l1.cfg', workers=8, timeout=900)
        ctx.run_tlc('addons', 'Limiter', 'Limiter_MC_quick_ids.cfg', workers=8, timeout=900)
        if th:
            ctx.run_tlc('addons', 'Limiter', 'Limiter_MC_thorough.cfg', workers=8, timeout=2400)
            ctx.run_tlc('addons', 'Limiter', 'Limiter_MC_thorough_l1.cfg', workers=8, timeout=2400)
        for b, inv in NEG:
            ctx.run_tlc('addons', 'Limiter', 'Limiter_MC_neg_%s.cfg' % b, expect_violation=inv, workers=4, timeout=600)

    binp = vlib.build('limiterdrv')
    d = ac.scratch()
    rnd = random.Random(ctx.seed)
    try:
        # limit 3, two callers, two calls: every scenario enumerated, a seeded sample (quick) or all of them executed
        c3, r3 = ac.gen_cases(ctx, 'LimiterGen', 'Limiter_Gen2_l3.cfg', timeout=1500)
        ctx.extra['scenarios_enumerated_limit3'] = len(c3)
        # limit 1, three callers, three calls: random behaviours of the same specification
        c1, _ = ac.gen_cases(ctx, 'LimiterGen', 'Limiter_Gen3_l1.cfg', simulate=(2500 if th else 120), depth=14, seed=ctx.seed,
                             timeout=1500)
        # limit 3, three calls incl. key expiry: random behaviours
        c3b, _ = ac.gen_cases(ctx, 'LimiterGen', 'Limiter_Gen_l3.cfg', simulate=(2500 if th else 120), depth=14, seed=ctx.seed + 7,
                              timeout=1500)
        n3, n1, n3b = (len(c3), 1000, 1000) if th else (130, 70, 60)
        pick = lambda cs, n: cs if len(cs) <= n else rnd.sample(cs, n)
        allc = pick(c3, n3) + pick(c1, n1) + pick(c3b, n3b)
        rnd.shuffle(allc)
        p = os.path.join(d, 'cases.ndjson')
        ac.write_cases(p, allc)
        rep = ctx.run_driver(binp, ['-cases', p, '-trace', os.path.join(d, 'lim'), '-parallel', '24'], timeout=3000)
        if rep:
            ctx.extra.update(rep.get('extra') or {})
        ctx.exhaustive = False   # a sample of the enumerated scenarios is executed in the quick tier; real time is not enumerable
        tmpl = open(os.path.join(vlib.SPEC, 'addons', 'Limiter_Trace.cfg.tmpl')).read()
        for limit in (1, 3):
            f = os.path.join(d, 'lim.limit-%d.ndjson' % limit)
            if os.path.exists(f):
                cfg = tmpl.replace('%LIMIT%', str(limit)).replace('%W%', str(WINDOW_MS))
                if not ac.validate_trace(ctx, 'LimiterTrace', cfg, f, 'limiter-limit-%d' % limit, 'limiter', timeout=1500):
                    ctx.traces = 0
    finally:
        shutil.rmtree(d, ignore_errors=True)
