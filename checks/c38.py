"""C38: Limiter.tla exhaustive (limit 3 / limit 1 with three callers / two identifiers / per-call options: limits below
and above the default, other windows, option lists, several identifiers with different limits) + negative configs;
TLC-generated scenarios (who reads the clock when with which option list, whose script runs when, how far the clock
advances) executed in real time against the real rueidislimiter over fakeredis/luamini; every recorded script execution
and result recomputed by LimiterTrace.tla from real millisecond values - the limit and window in force for a call are
derived by the specification from the options the call passed - with the properties evaluated at every step."""
import os, random, shutil
from lib import vlib
from checks import addons1common as ac

LEVEL = 'model_checking'

NEG = [('IncrBeforeReset', 'AdmittedPerWindow'), ('AllowOneMore', 'AdmittedPerWindow'), ('NoZeroOnReset', 'RemainingExact'),
       ('Stale', 'ResetIdentifiesWindow'),
       # per-call options
       ('VerdictFromDefault', 'AdmittedPerWindow'), ('VerdictFromDefault_order', 'AdmittedWithinCallLimit'),
       ('RemainingFromDefault', 'RemainingExact'),
       ('WindowFromDefault', 'ResetIsNowPlusWindow'), ('FirstOptionWins', 'AllowedRule')]
WINDOW_MS = 1150     # the default window W = 2 ticks in real time (limiterdrv: w ticks = w*500+150 ms)


def discriminating(case):
    """Stratification of the sample only (no verdict depends on it): does the scenario the specification predicts
    contain a call whose outcome differs between its own limit/window and the configured default?"""
    lim0, w0 = case['limit'], case['w']
    for s in case['steps']:
        if s['a'] != 'Ret':
            continue
        lo, hi = min(s['lim'], lim0), max(s['lim'], lim0)
        if lo != hi and (lo < s['cur'] <= hi or (s['n'] == 0 and lo <= s['cur'] < hi)):
            return True
        if s['wasreset'] and s['w'] != w0:
            return True
    return False


def run(ctx):
    th = ctx.tier == 'thorough'
    # the pure model runs do not depend on the repository; the mutation self-test (proposed/mutations_addons1.py) skips them
    if not os.environ.get('VERIF_ADDONS1_SKIP_MODEL'):
        ctx.run_tlc('addons', 'Limiter', 'Limiter_MC_quick.cfg', workers=8, timeout=900)
        ctx.run_tlc('addons', 'Limiter', 'Limiter_MC_quick_l1.cfg', workers=8, timeout=900)
        ctx.run_tlc('addons', 'Limiter', 'Limiter_MC_quick_ids.cfg', workers=8, timeout=900)
        ctx.run_tlc('addons', 'Limiter', 'Limiter_MC_quick_opts.cfg', workers=8, timeout=900)
        ctx.run_tlc('addons', 'Limiter', 'Limiter_MC_quick_opts_ids.cfg', workers=8, timeout=900)
        if th:
            ctx.run_tlc('addons', 'Limiter', 'Limiter_MC_thorough.cfg', workers=8, timeout=2400)
            ctx.run_tlc('addons', 'Limiter', 'Limiter_MC_thorough_l1.cfg', workers=8, timeout=2400)
            ctx.run_tlc('addons', 'Limiter', 'Limiter_MC_thorough_opts.cfg', workers=8, timeout=2400)
        for b, inv in NEG:
            ctx.run_tlc('addons', 'Limiter', 'Limiter_MC_neg_%s.cfg' % b, expect_violation=inv, workers=4, timeout=600)

    binp = vlib.build('limiterdrv')
    d = ac.scratch()
    rnd = random.Random(ctx.seed)
    try:
        # limit 3, two callers, two calls: every scenario enumerated, a seeded sample (quick) or all of them executed
        c3, r3 = ac.gen_cases(ctx, 'LimiterGen', 'Limiter_Gen2_l3.cfg', timeout=1500)
        ctx.extra['scenarios_enumerated_limit3'] = len(c3)
        nsim = 2500 if th else 120
        # limit 1, three callers, three calls: random behaviours of the same specification
        c1, _ = ac.gen_cases(ctx, 'LimiterGen', 'Limiter_Gen3_l1.cfg', simulate=nsim, depth=14, seed=ctx.seed, timeout=1500)
        # limit 3, three calls incl. key expiry: random behaviours
        c3b, _ = ac.gen_cases(ctx, 'LimiterGen', 'Limiter_Gen_l3.cfg', simulate=nsim, depth=14, seed=ctx.seed + 7, timeout=1500)
        # per-call options: default 3 with limits 1, 2, 4, 5 and windows of 1, 2, 3 ticks, lists of two options, three calls
        # on one identifier; four calls on two identifiers; (thorough) default 1 with larger per-call limits, three callers
        co, _ = ac.gen_cases(ctx, 'LimiterGen', 'Limiter_Gen3_opts.cfg', simulate=(4000 if th else 400), depth=14,
                             seed=ctx.seed + 11, timeout=1500)
        coi, _ = ac.gen_cases(ctx, 'LimiterGen', 'Limiter_Gen4_opts_ids.cfg', simulate=(2500 if th else 200), depth=18,
                              seed=ctx.seed + 13, timeout=1500)
        co1 = []
        if th:
            co1, _ = ac.gen_cases(ctx, 'LimiterGen', 'Limiter_Gen3_opts_l1.cfg', simulate=2500, depth=14, seed=ctx.seed + 17,
                                  timeout=1500)
        n3, n1, n3b, no, noi, no1 = (len(c3), 1000, 1000, 1500, 800, 800) if th else (80, 45, 45, 60, 30, 0)
        pick = lambda cs, n: cs if len(cs) <= n else rnd.sample(cs, n)

        def pick_opts(cs, n):
            # two thirds of the sample from the scenarios in which the per-call option decides an outcome
            dis = [c for c in cs if discriminating(c)]
            rest = [c for c in cs if not discriminating(c)]
            a = pick(dis, (2 * n + 2) // 3)
            return a + pick(rest, n - len(a))
        so, soi, so1 = pick_opts(co, no), pick_opts(coi, noi), pick_opts(co1, no1)
        ctx.extra['option_scenarios_generated'] = len(co) + len(coi) + len(co1)
        ctx.extra['option_scenarios_executed'] = len(so) + len(soi) + len(so1)
        ctx.extra['option_scenarios_executed_where_the_option_decides_an_outcome'] = sum(
            1 for c in so + soi + so1 if discriminating(c))
        allc = pick(c3, n3) + pick(c1, n1) + pick(c3b, n3b) + so + soi + so1
        rnd.shuffle(allc)
        p = os.path.join(d, 'cases.ndjson')
        ac.write_cases(p, allc)
        rep = ctx.run_driver(binp, ['-cases', p, '-trace', os.path.join(d, 'lim'), '-parallel', '24'], timeout=3000)
        if rep:
            ctx.extra.update(rep.get('extra') or {})
        ctx.exhaustive = False   # a sample of the enumerated scenarios is executed in the quick tier; real time is not enumerable
        tmpl = open(os.path.join(vlib.SPEC, 'addons', 'Limiter_Trace.cfg.tmpl')).read()
        for limit in (1, 3):
            f = os.path.join(d, 'lim.limit-%d.ndjson' % limit)
            if os.path.exists(f):
                cfg = tmpl.replace('%LIMIT%', str(limit)).replace('%W%', str(WINDOW_MS))
                if not ac.validate_trace(ctx, 'LimiterTrace', cfg, f, 'limiter-limit-%d' % limit, 'limiter', timeout=1500):
                    ctx.traces = 0
    finally:
        shutil.rmtree(d, ignore_errors=True)
