"""C47: connection setup applies the configured session settings.

Setup.tla (transcription of pipe.go _newPipe + newSentinelOpt + the clients' first connections) is model-checked over
the enumerated option records x server kinds x faults x user commands; the same TLC run prints one CASE record per
finished behaviour (inputs + predicted per-connection command log, session state, outcome) and sessiondrv replays
every record against the real client over fakeredis.  Negative configs re-introduce six plausible defects.

Round 2: option records carry static credentials AND the result class of AuthCredentialsFn (empty pair / password only /
user+password / user only, answered per address), the server model checks every AUTH against the one pair the property
allows (invariant AuthAsSupplied); injected error replies have a text (ERR, NOPERM, NOAUTH, LOADING, READONLY, WRONGPASS,
unknown command '<itself>', unknown command 'HELLO' at non-HELLO steps) whose class - "HELLO is unknown" or "any other
error" - is all the client model may look at.  Two "known" configs show the one oddity of the code that the invariants
excuse: the HELLO-unknown text is honoured at every step (no Redis sends it for another command)."""
import os, tempfile, threading
from lib import vlib

LEVEL = 'model_checking'

NEG = [('MC_setup_neg_DropSelectR2.cfg', 'NoUserCommandBeforeSetup'),
       ('MC_setup_neg_AuthLate.cfg', 'AuthLeadsResp2'),
       ('MC_setup_neg_TolerateNoEvict.cfg', 'FailedStepFailsConnection'),
       ('MC_setup_neg_FallbackAnyHelloErr.cfg', 'FallbackOnlyOnHelloRejected'),
       ('MC_setup_neg_MixCreds.cfg', 'AuthAsSupplied'),
       ('MC_setup_neg_NopermFallback.cfg', 'FallbackOnlyOnHelloRejected'),
       # known oddity (see Setup.tla OddHelloText): without the excuse the model of the code as it is breaks these
       ('MC_setup_known_hellotext_fallback.cfg', 'FallbackOnlyOnHelloRejected'),
       ('MC_setup_known_hellotext_skip.cfg', 'FailedStepFailsConnection')]


def text_coverage(cases):
    """(setup command, error text) pairs hit by an injected error reply, from the CASE records themselves."""
    cov = {}
    for c in cases:
        f = c['fault']
        if f['kind'] != 'err':
            continue
        log = c[f['slot']]['log']
        if f['step'] >= len(log):
            continue
        cmd = log[f['step']]
        k = cmd[0] + ('-' + cmd[1] if cmd[0] in ('CLIENT', 'HELLO') and len(cmd) > 1 else '')
        cov[(k, f['txt'])] = cov.get((k, f['txt']), 0) + 1
    return cov


def run(ctx):
    th = ctx.tier == 'thorough'
    binp = vlib.build('sessiondrv')
    # negative configs in the background (small: single topology, error faults only)
    def negs(part):
        for cfg, inv in part:
            ctx.run_tlc('client', 'Setup', cfg, expect_violation=inv, workers=2, timeout=1500)
    neg_threads = [threading.Thread(target=negs, args=(NEG[0::2],)), threading.Thread(target=negs, args=(NEG[1::2],))]
    for t in neg_threads:
        t.start()
    # model checking + case generation in one run: every invariant is evaluated on every state of every case and the
    # terminal state of each behaviour is printed (one println per CASE; the line count is cross-checked below)
    cfg = 'Gen_setup_thorough.cfg' if th else 'Gen_setup_quick.cfg'
    r = ctx.run_tlc('client', 'Setup', cfg, workers=4, timeout=3000 if th else 1500, collect_cases=True, seed=ctx.seed)
    for t in neg_threads:
        t.join()
    if not r.ok:
        return
    if sum(1 for l in r.output.splitlines() if '"CASE"' in l) != len(r.cases):
        ctx.inconclusive.append('some CASE lines of %s could not be parsed' % cfg)
        return
    ctx.exhaustive = True
    # the generator must really aim every error text at every kind of setup command and offer records that configure
    # static credentials together with a provider that leaves a field empty
    cov = text_coverage(r.cases)
    cmds = sorted({k for k, _ in cov})
    txts = sorted({t for _, t in cov})
    holes = [(k, t) for k in cmds for t in txts if (k, t) not in cov and not (t == 'unkhello' and (k.startswith('HELLO') or k == 'AUTH'))]
    mixed = sum(1 for c in r.cases if c['o']['cred'] != 'none' and c['o']['dcred'] in ('empty', 'pass', 'useronly'))
    ctx.extra['error_text_pairs'] = len(cov)
    ctx.extra['static_plus_partial_provider_cases'] = mixed
    if len(txts) < 8 or holes or mixed == 0:
        ctx.inconclusive.append('case generation lost coverage: texts=%s holes=%s static+partial-provider cases=%d' % (txts, holes[:10], mixed))
        return
    fd, path = tempfile.mkstemp(prefix='verif-setup-', suffix='.ndjson', dir=vlib.SCRATCH_ROOT)
    os.close(fd)
    try:
        vlib.write_ndjson(path, r.cases)
        rep = ctx.run_driver(binp, ['-mode', 'setup', '-cases', path, '-workers', '6'], timeout=3000 if th else 1500)
        if rep is not None and rep.get('evaluations') != len(r.cases):
            ctx.inconclusive.append('driver evaluated %s of %d cases' % (rep.get('evaluations'), len(r.cases)))
    finally:
        os.unlink(path)
    ctx.extra['cases'] = len(r.cases)
    ctx.notes.append('error replies: %d (setup command, text) pairs over %d texts; %d cases configure static credentials together with '
                     'a provider result that has an empty field' % (len(cov), len(txts), mixed))
    ctx.notes.append('known oddity (excused by the invariants, shown by MC_setup_known_hellotext_*.cfg): the code honours the text '
                     '"unknown command HELLO" at every step of both lists, not only as the answer to HELLO')
    ctx.notes.append('quick: option records within 1 single-field change of four base records plus 6 random records; thorough: within 2 changes plus 150 random records (seeded)')
