"""C47: connection setup applies the configured session settings.

Setup.tla (transcription of pipe.go _newPipe + newSentinelOpt + the clients' first connections) is model-checked over
the enumerated option records x server kinds x faults x user commands; the same TLC run prints one CASE record per
finished behaviour (inputs + predicted per-connection command log, session state, outcome) and sessiondrv replays
every record against the real client over fakeredis.  Negative configs re-introduce four plausible defects."""
import os, tempfile, threading
from lib import vlib

LEVEL = 'model_checking'

NEG = [('MC_setup_neg_DropSelectR2.cfg', 'NoUserCommandBeforeSetup'),
       ('MC_setup_neg_AuthLate.cfg', 'AuthLeadsResp2'),
       ('MC_setup_neg_TolerateNoEvict.cfg', 'FailedStepFailsConnection'),
       ('MC_setup_neg_FallbackAnyHelloErr.cfg', 'FallbackOnlyOnHelloRejected')]


def run(ctx):
    th = ctx.tier == 'thorough'
    binp = vlib.build('sessiondrv')
    # negative configs in the background (small: single topology, error faults only)
    def negs():
        for cfg, inv in NEG:
            ctx.run_tlc('client', 'Setup', cfg, expect_violation=inv, workers=2, timeout=900)
    neg_threads = [threading.Thread(target=negs)]
    neg_threads[0].start()
    # model checking + case generation in one run: every invariant is evaluated on every state of every case and the
    # terminal state of each behaviour is printed (one println per CASE; the line count is cross-checked below)
    cfg = 'Gen_setup_thorough.cfg' if th else 'Gen_setup_quick.cfg'
    r = ctx.run_tlc('client', 'Setup', cfg, workers=4, timeout=3000 if th else 900, collect_cases=True, seed=ctx.seed)
    for t in neg_threads:
        t.join()
    if not r.ok:
        return
    if sum(1 for l in r.output.splitlines() if '"CASE"' in l) != len(r.cases):
        ctx.inconclusive.append('some CASE lines of %s could not be parsed' % cfg)
        return
    ctx.exhaustive = True
    fd, path = tempfile.mkstemp(prefix='verif-setup-', suffix='.ndjson', dir=vlib.SCRATCH_ROOT)
    os.close(fd)
    try:
        vlib.write_ndjson(path, r.cases)
        rep = ctx.run_driver(binp, ['-mode', 'setup', '-cases', path, '-workers', '6'], timeout=3000 if th else 900)
        if rep is not None and rep.get('evaluations') != len(r.cases):
            ctx.inconclusive.append('driver evaluated %s of %d cases' % (rep.get('evaluations'), len(r.cases)))
    finally:
        os.unlink(path)
    ctx.extra['cases'] = len(r.cases)
    ctx.notes.append('quick: option records within 1 single-field change of four base records plus 6 random records; thorough: within 2 changes plus 150 random records (seeded)')
