"""C40 (om repositories): TLC helpers. Copies of the three small helpers of bloomcommon (raw_tlc / run_tlc / run_many) so that
the om check does not depend on the rueidisprob family's module."""
import re
from concurrent.futures import ThreadPoolExecutor
from lib import vlib

FAMILY = 'addons'


def raw_tlc(module, cfg, **kw):
    """vlib.tlc, plus recognition of 'Action property X is violated' (vlib's parser only knows the older wording)."""
    r = vlib.tlc(FAMILY, module, cfg, **kw)
    m = re.search(r'Action property (\S+) is violated', r.output)
    if m and r.violated is None:
        r.violated = m.group(1)
        if r.error and 'Action property' in r.error:
            r.error = None
        r.ok = False
    return r


def record(ctx, r, module, cfg, expect_violation=None):
    ctx.tlc_runs.append(r.summary())
    ctx.states += r.distinct
    ctx.transitions += r.generated
    if expect_violation is not None:
        if r.violated != expect_violation:
            ctx.inconclusive.append('negative config %s: expected violation of %s, got %s %s\n%s' % (
                cfg, expect_violation, r.violated, r.error or '', r.output[-1500:]))
    elif not r.ok:
        ctx.inconclusive.append('TLC %s %s: violated=%s error=%s\n%s' % (module, cfg, r.violated, r.error, r.output[-3000:]))
    return r


def run_tlc(ctx, module, cfg, expect_violation=None, **kw):
    return record(ctx, raw_tlc(module, cfg, **kw), module, cfg, expect_violation)


def run_many(ctx, jobs, par=4):
    """independent small TLC runs side by side (each is mostly JVM start-up); results recorded in job order"""
    with ThreadPoolExecutor(max_workers=par) as ex:
        futs = [ex.submit(raw_tlc, j['module'], j['cfg'], **j.get('kw', {})) for j in jobs]
        return [record(ctx, f.result(), j['module'], j['cfg'], j.get('expect')) for f, j in zip(futs, jobs)]
