"""C43: Hook.tla exhaustive + negative configs; every TLC-enumerated program replayed on the real
rueidishook.WithHook wrapper around a stub client tree with the specification's predicted hook/underlying logs."""
import os, shutil
from lib import vlib
from checks import addons1common as ac

LEVEL = 'model_checking'


def run(ctx):
    th = ctx.tier == 'thorough'
    # the pure model runs do not depend on the repository; the mutation self-test (proposed/mutations_addons1.py) skips them
    if not os.environ.get('VERIF_ADDONS1_SKIP_MODEL'):
        ctx.run_tlc('addons', 'Hook', 'Hook_MC_quick.cfg', workers=8, timeout=600)
        if th:
            ctx.run_tlc('addons', 'Hook', 'Hook_MC_thorough.cfg', workers=8, timeout=1500)
        ctx.run_tlc('addons', 'Hook', 'Hook_MC_neg_dedrecv.cfg', expect_violation='ExactlyOneHookCall', workers=4, timeout=300)
        ctx.run_tlc('addons', 'Hook', 'Hook_MC_neg_stream.cfg', expect_violation='ExactlyOneHookCall', workers=4, timeout=300)
        ctx.run_tlc('addons', 'Hook', 'Hook_MC_neg_nodes.cfg', expect_violation='DerivedWrapped', workers=4, timeout=300)
        # round 2: stacked hooks (WithHook of a hooked client) and the state of the caller's context at every call
        ctx.run_tlc('addons', 'Hook', 'Hook_MC_quick_r2.cfg', workers=4, timeout=900)
        ctx.run_tlc('addons', 'Hook', 'Hook_MC_neg_stack.cfg', expect_violation='ExactlyOneHookCall', workers=4, timeout=300)
        ctx.run_tlc('addons', 'Hook', 'Hook_MC_neg_ctx.cfg', expect_violation='ResultUnchanged', workers=4, timeout=300)

    binp = vlib.build('hookdrv')
    d = ac.scratch()
    try:
        allc = []
        complete = True
        # Hook_GenR2: every program of 3 operations (<= 2 calls) under two stacked hooks with live / cancelled / expired caller
        # contexts, one node address (these programs are also replayed over a REAL single client, see hookdrv)
        for cfg in (['Hook_Gen3.cfg', 'Hook_GenChains5.cfg', 'Hook_GenR2.cfg'] if th else
                    ['Hook_Gen3.cfg', 'Hook_GenChains4.cfg', 'Hook_GenR2.cfg']):
            cases, r = ac.gen_cases(ctx, 'Hook', cfg, timeout=1500)
            complete = complete and r.ok
            allc += cases
        # longer programs with calls anywhere: random behaviours of the same specification
        sim, r = ac.gen_cases(ctx, 'Hook', 'Hook_GenSim.cfg', simulate=(5000 if th else 300), depth=9, seed=ctx.seed,
                              timeout=900)
        allc += sim
        p = os.path.join(d, 'cases.ndjson')
        ac.write_cases(p, allc)
        rep = ctx.run_driver(binp, ['-cases', p], timeout=900)
        ctx.exhaustive = bool(complete and rep is not None and rep.get('evaluations') == len(allc))
        ctx.extra['programs_generated'] = len(allc)
        if rep:
            ctx.extra.update(rep.get('extra') or {})
    finally:
        shutil.rmtree(d, ignore_errors=True)
