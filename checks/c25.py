"""C25: dedicated clients are isolated and single-use.

PoolSessions.tla (holders of pooled connections: dedicated sessions with the recycle mark, the four steps of mux.Store,
blocking callers whose call succeeds, breaks the wire or is abandoned through its context with the command still in
flight) is model-checked exhaustively; negative configs re-introduce four defects; two further configs
document the known findings about a MULTI left open.  The real client then runs dedicated sessions (WATCH/MULTI/EXEC,
Receive, hooks, invalidation tracking, timed-out BLPOP, Close, every method after release) interleaved with blocking
callers (also BLPOPs abandoned through cancel-only and deadline contexts, Do and DoMulti) and shared-pipeline traffic over fakeredis for the single, standalone, sentinel and cluster clients; monitors evaluate the
property on the server-side history and TLC validates the merged event log against SessionTrace.tla."""
import shutil, tempfile
from lib import vlib
from checks import sessioncommon as sc

LEVEL = 'model_checking'


def run(ctx):
    th = ctx.tier == 'thorough'
    binp = vlib.build('sessiondrv')
    bg = sc.background(ctx, [('PoolSessions', 'MC_sessions_neg_nomark.cfg', 'MarkedWhenReleased'),
                             ('PoolSessions', 'MC_sessions_neg_skipclean.cfg', 'CleanOnReturn'),
                             ('PoolSessions', 'MC_sessions_neg_skiptrackoff.cfg', 'CleanOnReturn'),
                             ('PoolSessions', 'MC_sessions_neg_keepabandoned.cfg', 'NoForeignInFlight'),
                             ('PoolSessions', 'MC_sessions_known_opentx.cfg', 'NoOpenTxOnReturn'),
                             ('PoolSessions', 'MC_sessions_known_releasepanic.cfg', 'ReleaseNeverPanics')])
    r = ctx.run_tlc('pool', 'PoolSessions', 'MC_sessions_ded.cfg', workers=4, timeout=1500)
    ok = r.ok
    if th:
        for cfg in ('MC_sessions_ded_thorough.cfg', 'MC_sessions_ded_thorough2.cfg'):
            ok = ctx.run_tlc('pool', 'PoolSessions', cfg, workers=4, timeout=3000).ok and ok
    ctx.exhaustive = ok
    tracedir = tempfile.mkdtemp(prefix='verif-sess-', dir=vlib.SCRATCH_ROOT)
    try:
        ctx.run_driver(binp, ['-mode', 'dedicated', '-runs', '60' if th else '10', '-tracedir', tracedir], timeout=1800)
        sc.validate_session_trace(ctx, tracedir)
    finally:
        shutil.rmtree(tracedir, ignore_errors=True)
    bg.join()
    sc.apply_proposed_known(ctx)
