"""C09: concurrent cache misses on one connection share one request; failed / aborted requests wake their waiters with
the error and are not cached."""
import concurrent.futures
from checks import cachecommon as cc
LEVEL = 'model_checking'


def run(ctx):
    th = ctx.tier == 'thorough'
    with concurrent.futures.ThreadPoolExecutor(2) as ex:
        fm = ex.submit(models, ctx, th)
        real(ctx, th)
        fm.result()
    ctx.assumptions += cc.ASSUMPTIONS
    ctx.exhaustive = False


def models(ctx, th):
    jobs = [('MC_quick_c09.cfg', None),            # "cancel only your own flight": every invariant holds
            ('MC_quick_c09_asis.cfg', None),       # the code as it is: what still holds
            # the code as it is: DESIGN.md section 7 #16 at model level
            ('MC_neg_stalecancel.cfg', 'CancelledByOwner'), ('MC_neg_stalecancel_w.cfg', 'WaitersGetFlightOutcome'),
            ('MC_obs_latereply.cfg', 'SingleRequest'),
            # non-vacuity
            ('MC_neg_purge.cfg', 'NoLostWaiter'), ('MC_neg_cancelnowake.cfg', 'NoLostWaiter'),
            ('MC_neg_cachefailed.cfg', 'FailedFlightNotCached'),
            # round 2: a flight that has been pending for longer than the client TTL is still joined
            ('MC_quick_c09_exp.cfg', None), ('MC_neg_pendingexpires.cfg', 'NoLostWaiter')]
    if th:
        jobs += [('MC_thorough_c09.cfg', None), ('MC_neg_stalecancel_sf.cfg', 'SingleFlight'),
                 ('MC_neg_pendingexpires_sf.cfg', 'SingleFlight')]
    cc.model(ctx, jobs, workers=(6 if th else 2), par=(3 if th else 4), timeout=(3000 if th else 900))


def real(ctx, th):
    R = cc.Runner(ctx)
    try:
        n = 1500 if th else 200
        with concurrent.futures.ThreadPoolExecutor(4) as ex:
            fs = ex.submit(cc.generate, ctx, 'Gen_stale.cfg', 'stale')      # exhaustive: every final situation with a
            fl = ex.submit(cc.generate, ctx, 'Gen_late.cfg', 'late')        # stale Cancel / a second request
            fo = ex.submit(cc.generate, ctx, 'Gen_optin.cfg', 'gen-optin', simulate=n)
            # behaviours in which a call meets a flight that has been pending for longer than the client TTL
            fx = ex.submit(cc.generate, ctx, 'Gen_pendexp.cfg', 'pendexp', simulate=n)
            stale, late, opt, pendexp = fs.result(), fl.result(), fo.result(), fx.result()
        # failures, aborts, cancellations and waiters are what C09 is about
        def c09(c):
            calls = [s for s in c['steps'] if s['a'] == 'call']
            return any(s.get('fail') or 'wait' in s.get('slots', []) for s in calls) or any(s['a'] == 'ctx' for s in c['steps'])
        opt = [c for c in opt if c09(c)]
        if not th:
            opt, late, pendexp = opt[:60], late[:4], pendexp[:16]
        mr = None if th else 15
        plan = [
            (stale, 'stale', dict(store='lru', gate='1')),
            (stale, 'stale', dict(store='adapter', gate='1')),
            (late, 'late', dict(store='lru')),
            (late[:2], 'late', dict(store='adapter')),
            (opt, 'gen-optin', dict(store='lru', max_runs=mr)),
            (opt, 'gen-optin', dict(store='adapter', max_runs=mr)),
            (pendexp, 'pendexp', dict(store='lru', max_runs=mr)),
            (pendexp, 'pendexp', dict(store='adapter', max_runs=mr)),
        ]
        with concurrent.futures.ThreadPoolExecutor(4) as ex:
            list(ex.map(lambda p: R.scen(p[0], p[1], par=6, **p[2]), [p for p in plan if p[0]]))
        rr = 40 if th else 4
        rplan = [dict(tmode='optin', store='lru'), dict(tmode='optin', store='adapter')]
        if th:
            rplan += [dict(tmode='bcast', store='lru'), dict(tmode='optout', store='adapter'), dict(tmode='optin', store='lru', flavor='json')]
        with concurrent.futures.ThreadPoolExecutor(3) as ex:
            list(ex.map(lambda kw: R.random(rr, invs=cc.ALL_INVS + ' SingleRequest', **kw), rplan))
        # the late-reply family is validated with the literal reading of C09 as an additional invariant
        R.pending = [(p, g, f, (i + ' SingleRequest' if f == 'late' and 'SingleRequest' not in i else i)) for p, g, f, i in R.pending]
        R.validate(par=4)
    finally:
        R.close()
