"""C23 and the non-cluster part of C21: Sentinel.tla / Standalone.tla model checking (positive, negative and liveness
configs), TLC-generated scenarios and cases driven through the real sentinel and standalone clients by
harness/cmd/sentineldrv, traces validated against SentinelTrace.tla."""
import collections, glob, hashlib, json, os, re, shutil, tempfile, threading
from lib import vlib

FAMILY = 'client'


# ------------------------------------------------------------------------------------------------- TLC in parallel
def _tlc_retry(module, cfg, tries=2, **kw):
    """Another builder's `pkill tlc2.TLC` (or the OOM killer) can end a run: no verdict, no error text -> run again."""
    r = None
    for _ in range(tries):
        r = vlib.tlc(FAMILY, module, cfg, **kw)
        if r.finished or r.violated or (r.error and 'timeout' not in r.error):
            break
    return r


def run_tlc_many(ctx, jobs, parallel=6):
    """jobs: list of dict(module, cfg, expect=None, kw). Runs them on a few threads (JVM start dominates the small
    configs) and accounts for them exactly as Ctx.run_tlc does."""
    results = [None] * len(jobs)
    sem = threading.Semaphore(parallel)

    def work(i, j):
        with sem:
            results[i] = _tlc_retry(j['module'], j['cfg'], **j.get('kw', {}))

    ts = [threading.Thread(target=work, args=(i, j)) for i, j in enumerate(jobs)]
    [t.start() for t in ts]
    [t.join() for t in ts]
    for j, r in zip(jobs, results):
        ctx.tlc_runs.append(r.summary())
        ctx.states += r.distinct
        ctx.transitions += r.generated
        exp = j.get('expect')
        if exp is not None:
            if r.violated != exp:
                ctx.inconclusive.append('negative config %s: expected violation of %s, got %s %s' % (
                    j['cfg'], exp, r.violated, r.error or ''))
        elif not r.ok:
            ctx.inconclusive.append('TLC %s %s: violated=%s error=%s\n%s' % (
                j['module'], j['cfg'], r.violated, r.error, r.output[-2500:]))
    return results


# ------------------------------------------------------------------------------------------------- C23 model
def sentinel_model_jobs(thorough):
    w = dict(workers=4, timeout=1500)
    jobs = [dict(module='SentinelMC', cfg='Sentinel_MC_quick_%s.cfg' % m, kw=w) for m in 'mrb']
    if thorough:
        jobs += [dict(module='SentinelMC', cfg='Sentinel_MC_thorough_%s.cfg' % m, kw=dict(workers=8, timeout=2400)) for m in 'mrb']
        jobs.append(dict(module='SentinelMC', cfg='Sentinel_MC_live_b.cfg', kw=w))
    jobs.append(dict(module='SentinelMC', cfg='Sentinel_MC_live_m.cfg', kw=w))
    # non-vacuity: each re-introduced defect breaks the invariant / leads-to it is meant to break
    for cfg, inv in [('Sentinel_MC_neg_norole.cfg', 'TrafficOnlyToVerifiedRole'),
                     ('Sentinel_MC_neg_keepold.cfg', 'TrafficFollowsInstalled'),
                     ('Sentinel_MC_neg_noclose.cfg', 'NoTrafficToWrongRole'),
                     ('Sentinel_MC_neg_absorb.cfg', 'SubscribedOrRefreshing'),
                     ('Sentinel_MC_neg_inline.cfg', 'RefreshNotStuck'),
                     ('Sentinel_MC_neg_prefix.cfg', 'SwapOnlyReported'),     # master-set name compared by prefix
                     ('Sentinel_MC_neg_anyset.cfg', 'SwapOnlyReported'),     # master-set name not compared at all
                     ('Sentinel_MC_live_neg_ignore.cfg', 'FollowsSwitch'),
                     ('Sentinel_MC_live_neg_absorb.cfg', 'FollowsSwitch')]:
        jobs.append(dict(module='SentinelMC', cfg=cfg, expect=inv, kw=w))
    return jobs


# ------------------------------------------------------------------------------------------------- scenarios
def _pick_scenarios(cases, n, seed, shape_of=None, per_shape=2):
    """Deduplicate the printed behaviours and pick n of them, preferring many kinds of steps and anchored steps."""
    uniq = {}
    for c in cases:
        uniq[json.dumps(c, sort_keys=True)] = c

    def score(item):
        k, c = item
        ops = set(s['op'] for s in c['steps'])
        ats = set(s['at'] for s in c['steps']) - {'now'}
        h = hashlib.sha1(('%d|%s' % (seed, k)).encode()).hexdigest()
        return (-(len(ops) + len(ats)), h)

    out, per_shape, per_shape_max = [], collections.Counter(), per_shape
    for k, c in sorted(uniq.items(), key=score):
        shape = shape_of(c) if shape_of else tuple(sorted(s['op'] for s in c['steps']))
        if per_shape[shape] >= per_shape_max:
            continue
        per_shape[shape] += 1
        out.append(c)
        if len(out) >= n:
            break
    return out, len(uniq)


def _shape_foreign(c):
    """behaviours about other master sets: one per (channel, master-set name) of the foreign events they contain"""
    return tuple(sorted((s['y'], ''.join(s.get('set') or [])) for s in c['steps'] if s['op'] == 'pub' and s.get('set')))


def gen_scenarios(ctx, thorough, outpath):
    n = 40 if thorough else 10
    nf = 12 if thorough else 4
    jobs = [dict(module='SentinelGen', cfg='Sentinel_Gen_%s.cfg' % m,
                 kw=dict(simulate=60 if thorough else 15, depth=110, seed=int(ctx.seed) * 31 + i, collect_cases=True, timeout=600))
            for i, m in enumerate('mrb')]
    # round 2: events of other master sets monitored by the same sentinels (GenSpecF / GenDoneForeign)
    jobs += [dict(module='SentinelGen', cfg='Sentinel_Gen_f%s.cfg' % m, foreign=True,
                  kw=dict(simulate=40 if thorough else 12, depth=110, seed=int(ctx.seed) * 37 + 5 + i, collect_cases=True, timeout=600))
             for i, m in enumerate('mb')]
    results = run_tlc_many(ctx, jobs)
    scen, behaviours = [], 0
    for j, r in zip(jobs, results):
        if j.get('foreign'):
            picked, nu = _pick_scenarios(r.cases, nf, int(ctx.seed), shape_of=_shape_foreign, per_shape=1)
        else:
            picked, nu = _pick_scenarios(r.cases, n, int(ctx.seed))
        behaviours += nu
        scen += picked
    vlib.write_ndjson(outpath, scen)
    ctx.extra['tlc_generated_scenarios'] = dict(distinct_behaviours_printed=behaviours, replayed=len(scen))
    return len(scen)


# ------------------------------------------------------------------------------------------------- trace validation
DIVERGENCE_EVENTS = {'Begin', 'Dial', 'DialErr', 'RoleErr', 'WrongRole', 'SwapBegin', 'SwapEnd', 'Call', 'Ret'}


def _scenario_of(trace_file, line_no):
    """(name, events of the scenario that contains line_no)."""
    name, cur = '', []
    with open(trace_file) as f:
        for i, line in enumerate(f, 1):
            e = json.loads(line)
            if e.get('ev') == 'RESET':
                if i > line_no:
                    break
                name, cur = e.get('ch', ''), []
            cur.append(e)
    return name, cur


def validate_sentinel_traces(ctx, tracedir):
    """One TLC run per client mode.  SentinelTrace.tla goes on after a property violation and reports all of them
    (CASE line printed by its POSTCONDITION); a trace it cannot follow at all is cut at the offending scenario and
    the rest is validated again."""
    ts = [threading.Thread(target=_validate_mode, args=(ctx, tracedir, mode)) for mode in 'mrb']
    [t.start() for t in ts]
    [t.join() for t in ts]


def _validate_mode(ctx, tracedir, mode):
    tmpl = open(os.path.join(vlib.SPEC, FAMILY, 'SentinelTrace.cfg.tmpl')).read()
    keep = os.path.join(vlib.VERIF, 'replays', ctx.pid)
    for _once in (1,):
        f = os.path.join(tracedir, 'sentinel-%s.ndjson' % mode)
        if not os.path.exists(f):
            continue
        for attempt in range(4):
            cfgp = os.path.join(tracedir, 'SentinelTrace_%s.cfg' % mode)
            open(cfgp, 'w').write(tmpl.replace('%MODE%', mode))
            n = sum(1 for _ in open(f))
            r = _tlc_retry('SentinelTrace', os.path.basename(cfgp), workers=1, timeout=1200, files=[cfgp],
                           env={'VERIF_TRACE': f}, collect_cases=True)
            ctx.tlc_runs.append(dict(r.summary(), trace_events=n))
            ctx.states += r.distinct
            ctx.transitions += r.generated
            found = r.cases[-1].get('found', []) if r.cases else []
            seen = set()
            for v in found:
                name, evs = _scenario_of(f, v['pos'])
                note = ('-' + v.get('note', '')) if v['inv'] == 'FollowsSwitchObserved' else ''
                sig = 'sentinel-trace-invariant-%s%s mode=%s' % (v['inv'], note, mode)
                if (sig, name) in seen:
                    continue
                seen.add((sig, name))
                os.makedirs(keep, exist_ok=True)
                dst = os.path.join(keep, 'sentinel-%s-%s.ndjson' % (mode, re.sub(r'[^a-zA-Z0-9_-]', '_', name)[:40]))
                vlib.write_ndjson(dst, evs)
                ctx.violation(sig, 'real sentinel client (mode %s, scenario %s): %s of SentinelCore/SentinelTrace is false after recorded '
                              'event #%d (%s %s)' % (mode, name, v['inv'], v['pos'], v.get('ev'), v.get('note', '')),
                              dict(trace=dst, scenario=name, mode=mode, event=v['pos']))
            if r.ok:
                break
            m2 = re.search(r'"REJECTED-AT",\s*(\d+)', r.output)
            if not m2:
                ctx.inconclusive.append('trace validation failed to run (mode %s): violated=%s %s\n%s' % (mode, r.violated, r.error, r.output[-2000:]))
                break
            pos = int(m2.group(1))
            name, evs = _scenario_of(f, pos)
            evname = evs[pos - evs[0].get('_line', pos)]['ev'] if False else ''
            with open(f) as fh:
                for i, line in enumerate(fh, 1):
                    if i == pos:
                        evname = json.loads(line).get('ev', '')
            os.makedirs(keep, exist_ok=True)
            dst = os.path.join(keep, 'sentinel-%s-%s.ndjson' % (mode, re.sub(r'[^a-zA-Z0-9_-]', '_', name)[:40]))
            vlib.write_ndjson(dst, evs)
            if evname in DIVERGENCE_EVENTS or not evname:
                ctx.inconclusive.append('divergence: recorded event #%d (%s) of scenario %s (mode %s) has no matching action in '
                                        'SentinelTrace.tla (hook protocol changed?) trace=%s' % (pos, evname, name, mode, dst))
            else:
                ctx.violation('sentinel-trace-rejected-at-%s mode=%s' % (evname, mode),
                              'no action of SentinelTrace.tla explains recorded event #%d (%s) of scenario %s' % (pos, evname, name),
                              dict(trace=dst, scenario=name, mode=mode))
            rest = os.path.join(tracedir, 'sentinel-%s-rest%d.ndjson' % (mode, attempt))
            _drop_scenario(f, pos, rest)
            f = rest
        else:
            ctx.inconclusive.append('mode %s: more than 4 scenarios cannot be followed by SentinelTrace.tla' % mode)


def _tail_state(out):
    i = out.rfind('\nState ')
    s = out[i:i + 1800] if i >= 0 else out[-1800:]
    return '\n'.join(l for l in s.splitlines() if re.search(r'lastDel|lastSwap|lastExp|cands|denied|okInst|reported|State ', l))


def _drop_scenario(src, line_no, dst):
    blocks, cur = [], []
    with open(src) as f:
        for i, line in enumerate(f, 1):
            if json.loads(line).get('ev') == 'RESET' and cur:
                blocks.append(cur)
                cur = []
            cur.append((i, line))
        if cur:
            blocks.append(cur)
    with open(dst, 'w') as f:
        for b in blocks:
            if b[0][0] <= line_no <= b[-1][0]:
                continue
            for _, line in b:
                f.write(line)


def drive_sentinel(ctx, thorough, light=False):
    """light: only the routing-relevant canonical scenarios of the replica modes plus a few random ones (C21)."""
    binp = vlib.build('sentineldrv')
    tracedir = tempfile.mkdtemp(prefix='verif-sentinel-', dir=vlib.SCRATCH_ROOT)
    try:
        args = ['-mode', 'sentinel', '-tracedir', tracedir]
        if light:
            args += ['-modes', 'rb', '-canon', 'failover,replica-events,flip-after-role', '-random', '12' if thorough else '3', '-par', '4']
        else:
            scen = os.path.join(tracedir, 'scenarios.ndjson')
            gen_scenarios(ctx, thorough, scen)
            args += ['-scen', scen, '-random', '40' if thorough else '6', '-par', '6' if thorough else '4']
        ctx.run_driver(binp, args, timeout=1800)
        validate_sentinel_traces(ctx, tracedir)
    finally:
        shutil.rmtree(tracedir, ignore_errors=True)


# ------------------------------------------------------------------------------------------------- C21 (non-cluster)
def routing_model_jobs():
    w = dict(workers=2, timeout=600)
    jobs = [dict(module='Standalone', cfg='Standalone_MC.cfg', kw=w),
            dict(module='StandaloneRedirect', cfg='StandaloneRedirect_MC.cfg', kw=w)]
    for cfg, inv in [('Standalone_neg_pick.cfg', 'ReplicaOnlyWhenOptedIn'), ('Standalone_neg_batch.cfg', 'ReplicaOnlyWhenOptedIn'),
                     ('Standalone_neg_range.cfg', 'OutOfRangeFallsBackToPrimary'), ('Standalone_neg_norep.cfg', 'NoReplicaMeansPrimary')]:
        jobs.append(dict(module='Standalone', cfg=cfg, expect=inv, kw=w))
    jobs.append(dict(module='StandaloneRedirect', cfg='StandaloneRedirect_neg.cfg', expect='RedirectFollowed', kw=w))
    # round 2: the lifetime recovery of the sentinel client picks the connection again for the re-sent rest of a batch
    jobs.append(dict(module='SentinelRoute', cfg='SentinelRoute_neg_repick.cfg', expect='SentinelReplicaOnlyWhenOptedIn', kw=w))
    return jobs


def drive_routing(ctx, thorough):
    """TLC enumerates every configuration x call (Standalone.tla, SentinelRoute.tla) and every redirect behaviour
    (StandaloneRedirect.tla) with the predicted targets; the driver applies them to the real clients."""
    gen = [dict(module='Standalone', cfg='Standalone_Gen.cfg', kw=dict(workers=1, timeout=600, collect_cases=True)),
           dict(module='SentinelRoute', cfg='SentinelRoute_Gen.cfg', kw=dict(workers=1, timeout=600, collect_cases=True)),
           dict(module='StandaloneRedirect', cfg='StandaloneRedirect_Gen5.cfg' if thorough else 'StandaloneRedirect_Gen.cfg',
                kw=dict(workers=1, timeout=900, collect_cases=True))]
    results = run_tlc_many(ctx, gen)
    cases = [c for r in results for c in r.cases]
    if not all(r.ok for r in results):
        return
    binp = vlib.build('sentineldrv')
    d = tempfile.mkdtemp(prefix='verif-route-', dir=vlib.SCRATCH_ROOT)
    try:
        f = os.path.join(d, 'cases.ndjson')
        vlib.write_ndjson(f, cases)
        rep = ctx.run_driver(binp, ['-mode', 'standalone', '-cases', f], timeout=1800)
        if rep is not None:
            ctx.exhaustive = (rep.get('evaluations') == len(cases)) and not rep.get('inconclusive')
            ctx.extra['tlc_generated_cases'] = dict(standalone_route=len(results[0].cases), sentinel_route=len(results[1].cases),
                                                   redirect_behaviours=len(results[2].cases))
            ctx.extra['sentinel_lifetime_cases'] = rep.get('extra') or {}
    finally:
        shutil.rmtree(d, ignore_errors=True)
