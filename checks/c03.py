"""C03 - non-retryable commands execute at most once per call."""
from checks import faultcommon as fc
LEVEL = 'model_checking'


def run(ctx):
    if getattr(ctx, 'replay', None):
        return fc.replay(ctx, lambda w: w in fc.C03_WHATS, lambda w: False)
    th = ctx.tier == 'thorough'
    # model: the retry wrappers (AtMostOnceNonRetryable) and the expiry path of pipe.go that feeds them
    fc.run_tlc_many(ctx, fc.retry_model_jobs(th, 'c03') + fc.pipe_model_jobs(th, 'c03'), threads=4)
    # binding: TLC-generated outcome scripts (every fault point of every attempt, connection expiry, redirects) for
    # non-retryable commands through every client kind; the servers' execution log is judged by RetryTrace.tla
    cases = fc.gen_retry_cases(ctx, 40000 if th else 8000, ctx.seed)
    sel = fc.select_retry_cases(cases, 1500 if th else 220, ctx.seed, classes=('plain',))
    # a few retry-safe ones as a control: they may be executed twice, and the monitor must stay silent about them
    sel += fc.select_retry_cases(cases, 300 if th else 40, ctx.seed + 1, classes=('readonly', 'retryable'))
    verdicts, rep = fc.run_retry_scenarios(ctx, sel)
    fc.report_retry_verdicts(ctx, verdicts, lambda w: w in fc.C03_WHATS, sel)
    ctx.extra['scenarios_generated'] = len(cases)
    ctx.extra['scenarios_run'] = len(sel)
    ctx.exhaustive = False
    ctx.assumptions += [
        'fakeredis stands for the servers; an execution is an SExec event of the request id (MOVED/ASK/REDIRECT replies are not executions)',
        'one command per call (cluster batches: one member plus a sibling); MULTI/EXEC blocks re-sent from txIdx are not scripted',
        'Retry.tla scenarios are drawn by TLC simulation (seeded) and chosen by strata, not exhaustively']
