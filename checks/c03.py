"""C03 - non-retryable commands execute at most once per call."""
from checks import faultcommon as fc
LEVEL = 'model_checking'

# first outcomes of a script, most telling first (priority of the strata when the budget is short)
_EXECUTED = ('cut-after-exec', 'cut-mid-reply', 'expired-io', 'expired-sent')
_PRIO = {o: i for i, o in enumerate(_EXECUTED + ('LOADING', 'cut-before-exec', 'TRYAGAIN', 'CLUSTERDOWN', 'MOVED', 'ASK', 'REDIRECT'))}


def _batch_key(c):
    """batches / MULTI ... EXEC blocks with a non-retryable member: one per (wrapper, shape, member classes, first outcome)"""
    o = fc.first_outcome(c)
    if not fc.has_plain(c) or o not in _PRIO or c['disable']:
        return None
    # mixed batches first (a retry-safe neighbour must not pull the others into a re-send), then the all-plain ones
    return (_PRIO[o] + (0 if fc.mixed(c) else 20), c['kind'], c['shape'], c['class'], c['pclass'],
            c['path'] if o.startswith('expired') else '', o)


def _sync_expiry_key(c):
    """ConnLifetime expiry under a request in flight on the synchronous path (reply later than the 1 s close grace), for every
    wrapper, as the first outcome and after an earlier attempt"""
    if c['class'] != 'plain' or not any(st['o'] == 'expired-io' for st in c['script']):
        return None
    pos = [i for i, st in enumerate(c['script']) if st['o'] == 'expired-io'][0]
    return (min(pos, 1), c['kind'], c['disable'], c['ctxKind'] if pos == 0 else '')


def run(ctx):
    if getattr(ctx, 'replay', None):
        return fc.replay(ctx, lambda w: w in fc.C03_WHATS, lambda w: False)
    th = ctx.tier == 'thorough'
    # model: the retry wrappers (AtMostOnceNonRetryable; negative configs: whole-batch retry because of one retry-safe member,
    # block re-sent after a lost EXEC reply, errConnExpired from the synchronous path) and the expiry path of pipe.go that feeds them
    fc.run_tlc_many(ctx, fc.retry_model_jobs(th, 'c03') + fc.pipe_model_jobs(th, 'c03'), threads=4)
    # binding: TLC-generated outcome scripts (every fault point of every attempt, connection expiry in both connection modes,
    # redirects) for non-retryable commands through every client kind; the servers' execution log is judged by RetryTrace.tla
    cases = fc.gen_retry_cases(ctx, 40000 if th else 8000, ctx.seed)
    sel = fc.select_retry_cases(cases, 1500 if th else 200, ctx.seed, classes=('plain',))
    have = set(id(c) for c in sel)
    se, nse = fc.select_by_strata(cases, _sync_expiry_key, 200 if th else 24, ctx.seed, per=3 if th else 1)
    sel += [c for c in se if id(c) not in have]
    # a few retry-safe ones as a control: they may be executed twice, and the monitor must stay silent about them
    sel += fc.select_retry_cases(cases, 300 if th else 30, ctx.seed + 1, classes=('readonly', 'retryable'))
    # batches mixing command classes and MULTI ... EXEC blocks, on every wrapper
    bcases = fc.gen_retry_cases(ctx, 20000 if th else 4000, ctx.seed, 'Gen_batch.cfg')
    bsel, nb = fc.select_by_strata(bcases, _batch_key, 1200 if th else 150, ctx.seed, per=3 if th else 1)
    sel += bsel
    verdicts, rep = fc.run_retry_scenarios(ctx, sel)
    fc.report_retry_verdicts(ctx, verdicts, lambda w: w in fc.C03_WHATS, sel)
    ctx.extra['scenarios_generated'] = len(cases) + len(bcases)
    ctx.extra['scenarios_run'] = len(sel)
    ctx.extra['strata'] = dict(sync_expiry=nse, sync_expiry_run=len(se), batch=nb, batch_run=len(bsel))
    ctx.exhaustive = False
    ctx.assumptions += [
        'fakeredis stands for the servers; an execution is an SExec event of the request id (MOVED/ASK/REDIRECT replies are not executions; '
        'a member of a MULTI ... EXEC block is executed when EXEC runs it)',
        'calls are one command, a two-command DoMulti (every combination of member classes) or MULTI, two commands, EXEC; cluster batches: '
        'one member plus a read-only sibling, or one block; LOADING-like refusals and lifetime expiry inside a cluster block are not scripted',
        'the connection mode (synchronous path / pipelined) is observed through the hook pipe.sync, not assumed from the options',
        'Retry.tla scenarios are drawn by TLC simulation (seeded) and chosen by strata, not exhaustively']
