"""C12 - RESP decoding reproduces every well-formed reply (incl. split reads and streamTo)."""
from checks import respcommon
LEVEL = 'exploration'


def run(ctx):
    respcommon.run(ctx, 'c12', ['shapes', 'leaves', 'attr', 'long', 'push'], ['MC_neg_chunklen.cfg', 'MC_neg_null2.cfg'],
                   sampled=('shapes',) if ctx.tier == 'thorough' else ('shapes', 'attr'))
