"""C35/C36/C37: Bloom.tla exhaustive (all hash functions of a tiny size) + negative configs, configuration sweep of the
real constructors judged by BloomCfg.tla, TLC-generated histories (hash function = the one induced by the real
murmur3 index computation) replayed on the real filters by bloomdrv."""
import itertools, json, os, random, re, shutil, tempfile
from concurrent.futures import ThreadPoolExecutor
from lib import vlib

FAMILY = 'addons'
KIND = {'C35': 'bloom', 'C36': 'counting', 'C37': 'sliding'}
NAMES = ['a', 'b', 'c']


# ------------------------------------------------------------------------------------------------ TLC helper
def raw_tlc(module, cfg, **kw):
    """vlib.tlc, plus recognition of 'Action property X is violated' (vlib's parser only knows the older wording)."""
    r = vlib.tlc(FAMILY, module, cfg, **kw)
    m = re.search(r'Action property (\S+) is violated', r.output)
    if m and r.violated is None:
        r.violated = m.group(1)
        if r.error and 'Action property' in r.error:
            r.error = None
        r.ok = False
    return r


def run_tlc(ctx, module, cfg, expect_violation=None, **kw):
    return record(ctx, raw_tlc(module, cfg, **kw), module, cfg, expect_violation)


def run_many(ctx, jobs, par=4):
    """independent small TLC runs side by side (each is mostly JVM start-up); results recorded in job order"""
    with ThreadPoolExecutor(max_workers=par) as ex:
        futs = [ex.submit(raw_tlc, j['module'], j['cfg'], **j.get('kw', {})) for j in jobs]
        return [record(ctx, f.result(), j['module'], j['cfg'], j.get('expect')) for f, j in zip(futs, jobs)]


def record(ctx, r, module, cfg, expect_violation=None):
    ctx.tlc_runs.append(r.summary())
    ctx.states += r.distinct
    ctx.transitions += r.generated
    if expect_violation is not None:
        if r.violated != expect_violation:
            ctx.inconclusive.append('negative config %s: expected violation of %s, got %s %s\n%s' % (
                cfg, expect_violation, r.violated, r.error or '', r.output[-1500:]))
    elif not r.ok:
        ctx.inconclusive.append('TLC %s %s: violated=%s error=%s\n%s' % (module, cfg, r.violated, r.error, r.output[-3000:]))
    return r


MODEL = {
    'C35': dict(quick=['MC_bloom_quick.cfg', 'MC_bloom_quick_k1.cfg'],
                thorough=['MC_bloom_thorough.cfg', 'MC_bloom_thorough_k3.cfg'],
                neg=[('MC_bloom_neg_k0.cfg', 'NoFalseNegative'), ('MC_bloom_neg_addskip.cfg', 'NoFalseNegative'),
                     ('MC_bloom_neg_count.cfg', 'CountMonotone'), ('MC_bloom_neg_noreset.cfg', 'AnswersPerKey')]),
    'C36': dict(quick=['MC_counting_quick.cfg', 'MC_counting_quick_k1.cfg'],
                thorough=['MC_counting_thorough.cfg'],
                neg=[('MC_counting_neg_norollback.cfg', 'FailedRemoveChangesNothing'),
                     ('MC_counting_neg_unguarded.cfg', 'NoNegativeCounter')]),
    'C37': dict(quick=['MC_sliding_quick.cfg', 'MC_sliding_quick_excl.cfg'],
                thorough=['MC_sliding_thorough.cfg'],
                neg=[('MC_sliding_neg_both.cfg', 'PresentForHalfWindow'), ('MC_sliding_neg_current.cfg', 'PresentForHalfWindow')]),
}


def model(ctx, prop, thorough):
    m = MODEL[prop]
    ok = True
    for c in m['quick'] + (m['thorough'] if thorough else []):
        r = run_tlc(ctx, 'Bloom', c, workers=8, timeout=1500)
        ok = ok and r.ok
    run_many(ctx, [dict(module='Bloom', cfg=c, expect=inv, kw=dict(workers=2, timeout=300)) for c, inv in m['neg']])
    return ok


# ------------------------------------------------------------------------------------------------ configuration sweep
def sweep(ctx, prop, binp):
    kind = KIND[prop]
    r = run_tlc(ctx, 'BloomCfg', 'BloomCfg_grid_%s.cfg' % prop.lower(), workers=1, timeout=300, collect_cases=True)
    if not r.ok or not r.cases:
        return
    tmp = tempfile.mkdtemp(prefix='verif-bloomsweep-', dir=vlib.SCRATCH_ROOT)
    try:
        grid = os.path.join(tmp, 'grid.json')
        obs = os.path.join(tmp, 'obs.ndjson')
        json.dump(r.cases, open(grid, 'w'))
        rep = ctx.run_driver(binp, ['-mode', 'sweep', '-in', grid, '-obs', obs], timeout=900)
        if rep is None or not os.path.exists(obs):
            return
        nobs = sum(1 for _ in open(obs))
        c = run_tlc(ctx, 'BloomCfg', 'BloomCfg_check.cfg', workers=1, timeout=600, collect_cases=True, env={'VERIF_OBS': obs})
        if not c.ok:
            return
        if ('"CHECKED", %d' % nobs) not in c.output.replace('<<', '').replace('>>', ''):
            ctx.inconclusive.append('BloomCfg did not reach the end of the %d observations\n%s' % (nobs, c.output[-1500:]))
            return
        ctx.extra['sweep_configurations'] = nobs
        ctx.extra['sweep_accepted'] = sum(1 for l in open(obs) if json.loads(l)['accepted'])
        if c.cases:
            ex = ['%s(n=%d, rate=%s) size=%s hashIterations=%d' % (o['kind'], o['n'], o['rate'], o['size_s'], o['k']) for o in c.cases]
            ks = sorted({('0' if o['k'] == 0 else '>=1') for o in c.cases})
            ctx.violation('%s:config-sweep:obligation-unmet:hashIterations=%s' % (kind, ','.join(ks)),
                          'the constructor accepts %d of the %d swept configurations without meeting the obligation K >= 1 /\\ Size >= 1 '
                          'Bloom.tla relies on (BloomIface!Obligation, judged by TLC on the observed size/hashIterations), e.g. %s'
                          % (len(c.cases), nobs, '; '.join(ex[:10])), dict(unmet=c.cases[:50]))
    finally:
        shutil.rmtree(tmp, ignore_errors=True)


# ------------------------------------------------------------------------------------------------ induced hash functions
CANDIDATES = ['k%d' % i for i in range(40)] + ['', ' ', 'a\x00b', 'é', 'x' * 300]


def induce(ctx, binp, configs):
    tmp = tempfile.mkdtemp(prefix='verif-bloominduce-', dir=vlib.SCRATCH_ROOT)
    try:
        req = os.path.join(tmp, 'req.json')
        res = os.path.join(tmp, 'res.json')
        json.dump(dict(configs=configs, items=CANDIDATES), open(req, 'w'))
        rep = ctx.run_driver(binp, ['-mode', 'induce', '-in', req, '-res', res], timeout=300)
        if rep is None or not os.path.exists(res):
            raise vlib.Inconclusive('bloomdrv -mode induce produced nothing')
        return json.load(open(res))
    finally:
        shutil.rmtree(tmp, ignore_errors=True)


def features(idx, combo):
    """test-input selection only: which collision shapes does this choice of items exhibit?"""
    f = set()
    sets = [set(idx[c]) for c in combo]
    for c in combo:
        if len(set(idx[c])) < len(idx[c]):
            f.add('repeated-index')
    for (i, a), (j, b) in itertools.combinations(list(enumerate(sets)), 2):
        if a == b:
            f.add('same-index-set')
        elif a & b:
            f.add('shared-index')
        if idx[combo[i]] and idx[combo[j]] and idx[combo[i]][0] == idx[combo[j]][0] and a != b:
            f.add('same-first-index')
    for i, a in enumerate(sets):
        others = set().union(*[s for j, s in enumerate(sets) if j != i])
        if a <= others and all(a != s for j, s in enumerate(sets) if j != i):
            f.add('covered-by-others')
    return f


def pick_items(idx, n, rng, how_many):
    """a few n-tuples of candidate strings: the ones showing the most collision shapes first, then seeded random ones"""
    pool = CANDIDATES[:26]
    scored = []
    for combo in itertools.combinations(pool, n):
        scored.append((len(features(idx, combo)), combo))
    scored.sort(key=lambda t: (-t[0], t[1]))
    out, seen_f = [], []
    for sc, combo in scored:
        f = features(idx, combo)
        if f not in seen_f:
            seen_f.append(f)
            out.append(list(combo))
        if len(out) >= max(1, how_many - 1):
            break
    while len(out) < how_many:
        out.append(rng.sample(CANDIDATES, n))
    return out[:how_many]


def tla_str(s):
    return '"' + s + '"'


def gen_module(name, kind, size, k, hmap, keyseqs, q):
    """module fixing H, the key sequences and the query battery of one generation run"""
    h = '[' + ', '.join('%s |-> <<%s>>' % (nm, ', '.join(str(v) for v in hmap[nm])) for nm in hmap) + ']'
    ks = '{' + ', '.join('<<' + ', '.join(tla_str(x) for x in s) + '>>' for s in keyseqs) + '}'
    qq = '<<' + ', '.join(tla_str(x) for x in q) + '>>'
    return ('---- MODULE %s ----\nEXTENDS Bloom\nGenHSet == {%s}\nGenKeySeqs == %s\nGenQ == %s\n====\n' % (name, h, ks, qq))


def gen_cfg(kind, names, size, k, maxops, half, maxnow, maxtotal):
    return ('SPECIFICATION Spec\nCONSTANTS\n  Kind = "%s"\n  Items = {%s}\n  Size = %d\n  K = %d\n  HSet <- GenHSet\n'
            '  KeySeqs <- GenKeySeqs\n  Q <- GenQ\n  MaxOps = %d\n  Half = %d\n  MaxNow = %d\n  MaxTotal = %d\n'
            '  ExpireInclusive = TRUE\n  Defect = "none"\n  AllowBadConfig = FALSE\n  Emit = TRUE\nINVARIANT EmitCase\nCHECK_DEADLOCK FALSE\n'
            % (kind, ', '.join(tla_str(n) for n in names), size, k, maxops, half, maxnow, maxtotal))


def generate(ctx, prop, ind, items, keyseqs, maxops, **kw):
    g = gen_job(prop, ind, items, keyseqs, maxops, **kw)
    return gen_record(ctx, g)


def gen_record(ctx, g):
    ctx.tlc_runs.append(g['summary'])
    ctx.states += g['summary']['distinct']
    ctx.transitions += g['summary']['generated']
    if g['err']:
        ctx.inconclusive.append(g['err'])
    return g['hist'], g['exhaustive']


def gen_job(prop, ind, items, keyseqs, maxops, simulate=None, seed=None, half=2, maxnow=12, maxtotal=4, tag=''):
    """one TLC generation run for one induced configuration and one choice of real item strings -> list of histories
    (no access to the check context: several of these run side by side)"""
    kind = KIND[prop]
    names = NAMES[:len(items)]
    hmap = {nm: ind['idx'][it] for nm, it in zip(names, items)}
    tmp = tempfile.mkdtemp(prefix='verif-bloomgen-', dir=vlib.SCRATCH_ROOT)
    try:
        mod = 'BloomGen'
        open(os.path.join(tmp, mod + '.tla'), 'w').write(gen_module(mod, kind, ind['size'], ind['k'], hmap, keyseqs, names))
        cfgp = os.path.join(tmp, 'Gen.cfg')
        open(cfgp, 'w').write(gen_cfg(kind, names, ind['size'], ind['k'], maxops, half, maxnow, maxtotal))
        kw = dict(workers=1, timeout=900, collect_cases=True, files=[os.path.join(tmp, mod + '.tla'), cfgp])
        if simulate:
            kw.update(simulate=simulate, depth=maxops + 1, seed=seed)
        r = vlib.tlc(FAMILY, mod, 'Gen.cfg', **kw)
        summary = dict(r.summary(), purpose='history generation %s %s' % (tag, 'simulate' if simulate else 'exhaustive'), histories=len(r.cases))
        if not r.ok or not r.cases:
            return dict(hist=[], exhaustive=False, summary=summary,
                        err='history generation failed (%s): %s\n%s' % (tag, r.error, r.output[-2000:]))
        cfgd = dict(ind['config'])
        window = cfgd.get('window_ms', 0)
        out = []
        for i, c in enumerate(r.cases):
            if kind != 'counting':
                cfgd = dict(cfgd, ro=(i % 2 == 1))     # every other history uses the read-only Exists scripts (BITFIELD_RO)
            out.append(dict(id='%s-%d' % (tag, i), config=cfgd, tick_ms=(window // 2) // half if kind == 'sliding' else 0,
                            size=ind['size'], k=ind['k'], items=dict(zip(names, items)), q=names, steps=c['steps'],
                            src='simulate seed %s' % seed if simulate else 'exhaustive'))
        return dict(hist=out, exhaustive=not simulate, summary=summary, err=None)
    finally:
        shutil.rmtree(tmp, ignore_errors=True)


def seqs(names, maxlen):
    out = []
    for n in range(1, maxlen + 1):
        out += [list(t) for t in itertools.product(names, repeat=n)]
    return out


# (expected items, rate) pairs whose sizing is tiny (exhaustive generation) or typical (simulation); what the constructor
# makes of them is read back through the export, nothing below depends on the formulas
TINY = [(1, 0.3), (2, 0.45), (2, 0.27), (3, 0.2)]
NEAR1 = [(10, 0.9), (5, 0.8), (1000, 0.99)]          # the configurations of DESIGN.md section 7 #9
TYPICAL = [(50, 0.05), (100, 0.01), (1000, 0.001)]


def conform(ctx, prop, thorough, binp):
    kind = KIND[prop]
    rng = random.Random(ctx.seed * 7919 + 13)
    window = 2000
    configs = [dict(kind=kind, n=n, rate=r, window_ms=window) for n, r in TINY + NEAR1 + TYPICAL]
    inds = [i for i in induce(ctx, binp, configs)]
    usable = [i for i in inds if i['accepted'] and i['k'] >= 1 and i['size'] >= 1]
    skipped = [i for i in inds if i['accepted'] and not (i['k'] >= 1 and i['size'] >= 1)]
    if skipped:
        ctx.notes.append('history generation skipped %d accepted configuration(s) outside Bloom.tla\'s ASSUME (hashIterations = 0); the sweep reports them' % len(skipped))
    histories = []
    all_exhaustive = True
    tiny = [i for i in usable if i['size'] <= 8]
    rest = [i for i in usable if i['size'] > 8 and (kind != 'counting' or i['size'] <= (1000 if thorough else 400))]   # counters are a function over 0..Size-1 in TLC
    nitems = 2 if kind == 'sliding' else 3
    names = NAMES[:nitems]
    # --- exhaustive generation for the tiny sizes
    if kind == 'sliding':
        ex_depth, ex_seqs = 5, [[n] for n in names[:1]] + [names]          # Add/Exists of a, of <<a,b>>
        sim_depth, sim_n = 14, (400 if thorough else 120)
    elif kind == 'counting':
        ex_depth, ex_seqs = (4 if thorough else 3), seqs(names, 1) + [list(t) for t in itertools.permutations(names, 2)]
        sim_depth, sim_n = 10, (400 if thorough else 120)
    else:
        ex_depth, ex_seqs = (4 if thorough else 3), seqs(names, 1) + [list(t) for t in itertools.permutations(names, 2)] + [[names[0], names[0]]]
        sim_depth, sim_n = 10, (400 if thorough else 120)
    jobs = []
    for n_i, ind in enumerate(tiny[: (4 if thorough else (2 if kind == 'bloom' else 1))]):
        for items in pick_items(ind['idx'], nitems, rng, 2 if thorough else 1):
            jobs.append(dict(args=(prop, ind, items, ex_seqs, ex_depth), kw=dict(tag='%s-s%dk%d-ex' % (kind, ind['size'], ind['k']))))
    # --- simulation: longer histories, batches of up to 3 keys; quick: one tiny, one near-1 (if usable), two typical sizes
    near = [i for i in usable if (i['config']['n'], i['config']['rate']) in NEAR1]
    typical = [i for i in rest if (i['config']['n'], i['config']['rate']) in TYPICAL]
    if thorough:
        sims = [(i, 2) for i in tiny + rest]
    else:
        sims = [(i, 1) for i in (tiny[2:3] or tiny[:1]) + near[:1] + typical[:2]]
    for n_i, (ind, choices) in enumerate(sims):
        for t, items in enumerate(pick_items(ind['idx'], nitems, rng, choices)):
            jobs.append(dict(args=(prop, ind, items, seqs(names, 3 if nitems == 2 or ind['size'] > 8 else 2), sim_depth),
                             kw=dict(simulate=sim_n, seed=ctx.seed * 1000 + n_i * 10 + t, tag='%s-s%dk%d-sim' % (kind, ind['size'], ind['k']))))
    with ThreadPoolExecutor(max_workers=4) as ex:
        futs = [ex.submit(gen_job, *j['args'], **j['kw']) for j in jobs]
        for f in futs:
            hs, _ = gen_record(ctx, f.result())
            histories += hs
    if not histories:
        ctx.inconclusive.append('no history was generated')
        return
    tmp = tempfile.mkdtemp(prefix='verif-bloomhist-', dir=vlib.SCRATCH_ROOT)
    try:
        path = os.path.join(tmp, 'histories.ndjson')
        vlib.write_ndjson(path, histories)
        rep = ctx.run_driver(binp, ['-mode', 'replay', '-in', path], timeout=1800)
        if rep is not None:
            ctx.extra['histories_generated'] = len(histories)
            ctx.exhaustive = False      # exhaustive per tiny configuration and depth only; see design notes
    finally:
        shutil.rmtree(tmp, ignore_errors=True)


def run(ctx, prop):
    th = ctx.tier == 'thorough'
    binp = vlib.build('bloomdrv')
    if os.environ.get('VERIF_SKIP_MODEL') != '1':     # development aid for the mutation self-test: the model-checking stage does not read the repository
        model(ctx, prop, th)
    else:
        ctx.notes.append('VERIF_SKIP_MODEL=1: exhaustive model checking and negative configs were skipped in this run')
    sweep(ctx, prop, binp)
    conform(ctx, prop, th, binp)
    ctx.assumptions += [
        'fakeredis + luamini execute the real script texts of rueidisprob; they stand for a Redis server',
        'murmur3 and the float sizing formulas are given functions: the hash function of the generation runs is the one the real '
        'filter computes (read through rueidisprob/verif_export.go), the sizing is observed, neither is verified',
        'TLC explores all hash functions only for the tiny sizes named in the MC_*.cfg files',
    ]
    for n in ctx.notes:
        ctx.assumptions.append(n)
