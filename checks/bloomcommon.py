"""C35/C36/C37: Bloom.tla exhaustive (all hash functions of a tiny size) + negative configs, configuration sweep of the
real constructors judged by BloomCfg.tla, TLC-generated histories (hash function = the one induced by the real
murmur3 index computation) replayed on the real filters by bloomdrv."""
import itertools, json, os, random, re, shutil, tempfile
from concurrent.futures import ThreadPoolExecutor
from lib import vlib

FAMILY = 'addons'
KIND = {'C35': 'bloom', 'C36': 'counting', 'C37': 'sliding'}
NAMES = ['a', 'b', 'c']


# ------------------------------------------------------------------------------------------------ TLC helper
def raw_tlc(module, cfg, **kw):
    """vlib.tlc, plus recognition of 'Action property X is violated' (vlib's parser only knows the older wording)."""
    r = vlib.tlc(FAMILY, module, cfg, **kw)
    m = re.search(r'Action property (\S+) is violated', r.output)
    if m and r.violated is None:
        r.violated = m.group(1)
        if r.error and 'Action property' in r.error:
            r.error = None
        r.ok = False
    return r


def run_tlc(ctx, module, cfg, expect_violation=None, **kw):
    return record(ctx, raw_tlc(module, cfg, **kw), module, cfg, expect_violation)


def run_many(ctx, jobs, par=4):
    """independent small TLC runs side by side (each is mostly JVM start-up); results recorded in job order"""
    with ThreadPoolExecutor(max_workers=par) as ex:
        futs = [ex.submit(raw_tlc, j['module'], j['cfg'], **j.get('kw', {})) for j in jobs]
        return [record(ctx, f.result(), j['module'], j['cfg'], j.get('expect')) for f, j in zip(futs, jobs)]


def record(ctx, r, module, cfg, expect_violation=None):
    ctx.tlc_runs.append(r.summary())
    ctx.states += r.distinct
    ctx.transitions += r.generated
    if expect_violation is not None:
        if r.violated != expect_violation:
            ctx.inconclusive.append('negative config %s: expected violation of %s, got %s %s\n%s' % (
                cfg, expect_violation, r.violated, r.error or '', r.output[-1500:]))
    elif not r.ok:
        ctx.inconclusive.append('TLC %s %s: violated=%s error=%s\n%s' % (module, cfg, r.violated, r.error, r.output[-3000:]))
    return r


MODEL = {
    'C35': dict(quick=['MC_bloom_quick.cfg', 'MC_bloom_quick_k1.cfg'],
                thorough=['MC_bloom_thorough.cfg', 'MC_bloom_thorough_k3.cfg'],
                neg=[('MC_bloom_neg_k0.cfg', 'NoFalseNegative'), ('MC_bloom_neg_addskip.cfg', 'NoFalseNegative'),
                     ('MC_bloom_neg_count.cfg', 'CountMonotone'), ('MC_bloom_neg_noreset.cfg', 'AnswersPerKey'),
                     # round 2: error reply swallowed by AddMulti, repeated keys de-duplicated, batches cut regardless of key boundaries
                     ('MC_bloom_neg_swallow.cfg', 'AddNilMeansPresent'), ('MC_bloom_neg_dedup.cfg', 'AnswersPerKey'),
                     ('MC_bloom_neg_chunk.cfg', 'AnswersPerKey')]),
    'C36': dict(quick=['MC_counting_quick.cfg', 'MC_counting_quick_k1.cfg'],
                thorough=['MC_counting_thorough.cfg'],
                neg=[('MC_counting_neg_norollback.cfg', 'FailedRemoveChangesNothing'),
                     ('MC_counting_neg_unguarded.cfg', 'NoNegativeCounter'),
                     ('MC_counting_neg_rollbackall.cfg', 'FailedRemoveChangesNothing'),
                     ('MC_counting_neg_onceperslot.cfg', 'MinCountAtLeastNet'),
                     ('MC_counting_neg_swallow.cfg', 'AddNilMeansPresent')]),
    'C37': dict(quick=['MC_sliding_quick.cfg', 'MC_sliding_quick_excl.cfg'],
                thorough=['MC_sliding_thorough.cfg'],
                neg=[('MC_sliding_neg_both.cfg', 'PresentForHalfWindow'), ('MC_sliding_neg_current.cfg', 'PresentForHalfWindow'),
                     ('MC_sliding_neg_initany.cfg', 'PresentForHalfWindow'), ('MC_sliding_neg_ronext.cfg', 'SlidingAnswers'),
                     ('MC_sliding_neg_swallow.cfg', 'PresentForHalfWindow')]),
}


def model(ctx, prop, thorough):
    m = MODEL[prop]
    ok = True
    for c in m['quick'] + (m['thorough'] if thorough else []):
        r = run_tlc(ctx, 'Bloom', c, workers=8, timeout=1500)
        ok = ok and r.ok
    run_many(ctx, [dict(module='Bloom', cfg=c, expect=inv, kw=dict(workers=2, timeout=300)) for c, inv in m['neg']])
    return ok


# ------------------------------------------------------------------------------------------------ configuration sweep
def sweep(ctx, prop, binp):
    kind = KIND[prop]
    r = run_tlc(ctx, 'BloomCfg', 'BloomCfg_grid_%s.cfg' % prop.lower(), workers=1, timeout=300, collect_cases=True)
    if not r.ok or not r.cases:
        return
    tmp = tempfile.mkdtemp(prefix='verif-bloomsweep-', dir=vlib.SCRATCH_ROOT)
    try:
        grid = os.path.join(tmp, 'grid.json')
        obs = os.path.join(tmp, 'obs.ndjson')
        json.dump(r.cases, open(grid, 'w'))
        rep = ctx.run_driver(binp, ['-mode', 'sweep', '-in', grid, '-obs', obs], timeout=900)
        if rep is None or not os.path.exists(obs):
            return
        nobs = sum(1 for _ in open(obs))
        c = run_tlc(ctx, 'BloomCfg', 'BloomCfg_check.cfg', workers=1, timeout=600, collect_cases=True, env={'VERIF_OBS': obs})
        if not c.ok:
            return
        if ('"CHECKED", %d' % nobs) not in c.output.replace('<<', '').replace('>>', ''):
            ctx.inconclusive.append('BloomCfg did not reach the end of the %d observations\n%s' % (nobs, c.output[-1500:]))
            return
        ctx.extra['sweep_configurations'] = nobs
        ctx.extra['sweep_accepted'] = sum(1 for l in open(obs) if json.loads(l)['accepted'])
        if c.cases:
            ex = ['%s(n=%d, rate=%s) size=%s hashIterations=%d' % (o['kind'], o['n'], o['rate'], o['size_s'], o['k']) for o in c.cases]
            ks = sorted({('0' if o['k'] == 0 else '>=1') for o in c.cases})
            ctx.violation('%s:config-sweep:obligation-unmet:hashIterations=%s' % (kind, ','.join(ks)),
                          'the constructor accepts %d of the %d swept configurations without meeting the obligation K >= 1 /\\ Size >= 1 '
                          'Bloom.tla relies on (BloomIface!Obligation, judged by TLC on the observed size/hashIterations), e.g. %s'
                          % (len(c.cases), nobs, '; '.join(ex[:10])), dict(unmet=c.cases[:50]))
    finally:
        shutil.rmtree(tmp, ignore_errors=True)


# ------------------------------------------------------------------------------------------------ induced hash functions
CANDIDATES = ['k%d' % i for i in range(40)] + ['', ' ', 'a\x00b', 'é', 'x' * 300]


def induce(ctx, binp, configs):
    tmp = tempfile.mkdtemp(prefix='verif-bloominduce-', dir=vlib.SCRATCH_ROOT)
    try:
        req = os.path.join(tmp, 'req.json')
        res = os.path.join(tmp, 'res.json')
        json.dump(dict(configs=configs, items=CANDIDATES), open(req, 'w'))
        rep = ctx.run_driver(binp, ['-mode', 'induce', '-in', req, '-res', res], timeout=300)
        if rep is None or not os.path.exists(res):
            raise vlib.Inconclusive('bloomdrv -mode induce produced nothing')
        return json.load(open(res))
    finally:
        shutil.rmtree(tmp, ignore_errors=True)


def features(idx, combo):
    """test-input selection only: which collision shapes does this choice of items exhibit?"""
    f = set()
    sets = [set(idx[c]) for c in combo]
    for c in combo:
        if len(set(idx[c])) < len(idx[c]):
            f.add('repeated-index')
    for (i, a), (j, b) in itertools.combinations(list(enumerate(sets)), 2):
        if a == b:
            f.add('same-index-set')
        elif a & b:
            f.add('shared-index')
        if idx[combo[i]] and idx[combo[j]] and idx[combo[i]][0] == idx[combo[j]][0] and a != b:
            f.add('same-first-index')
    for i, a in enumerate(sets):
        others = set().union(*[s for j, s in enumerate(sets) if j != i])
        if a <= others and all(a != s for j, s in enumerate(sets) if j != i):
            f.add('covered-by-others')
    return f


def pick_items(idx, n, rng, how_many):
    """a few n-tuples of candidate strings: the ones showing the most collision shapes first, then seeded random ones"""
    pool = CANDIDATES[:26]
    scored = []
    for combo in itertools.combinations(pool, n):
        scored.append((len(features(idx, combo)), combo))
    scored.sort(key=lambda t: (-t[0], t[1]))
    out, seen_f = [], []
    for sc, combo in scored:
        f = features(idx, combo)
        if f not in seen_f:
            seen_f.append(f)
            out.append(list(combo))
        if len(out) >= max(1, how_many - 1):
            break
    while len(out) < how_many:
        out.append(rng.sample(CANDIDATES, n))
    return out[:how_many]


def tla_str(s):
    return '"' + s + '"'


def tla_seq(xs):
    return '<<' + ', '.join(tla_str(x) for x in xs) + '>>'


def gen_module(name, kind, size, k, hmap, keyseqs, q, qs=(), ops=None, faults=()):
    """module fixing H, the key sequences, the query batteries, the enabled operations and the reply classes of one generation run"""
    h = '[' + ', '.join('%s |-> <<%s>>' % (nm, ', '.join(str(v) for v in hmap[nm])) for nm in hmap) + ']'
    ks = '{' + ', '.join(tla_seq(s) for s in keyseqs) + '}'
    return ('---- MODULE %s ----\nEXTENDS Bloom\nGenHSet == {%s}\nGenKeySeqs == %s\nGenQ == %s\nGenQS == <<%s>>\nGenOps == %s\nGenFaults == {%s}\n====\n'
            % (name, h, ks, tla_seq(q), ', '.join(tla_seq(b) for b in qs),
               'AllOps' if ops is None else '{' + ', '.join(tla_str(o) for o in ops) + '}', ', '.join(tla_str(f) for f in faults)))


def gen_cfg(kind, names, size, k, maxops, half, maxnow, maxtotal):
    return ('SPECIFICATION Spec\nCONSTANTS\n  Kind = "%s"\n  Items = {%s}\n  Size = %d\n  K = %d\n  HSet <- GenHSet\n'
            '  KeySeqs <- GenKeySeqs\n  Q <- GenQ\n  MaxOps = %d\n  Half = %d\n  MaxNow = %d\n  MaxTotal = %d\n'
            '  ExpireInclusive = TRUE\n  Defect = "none"\n  AllowBadConfig = FALSE\n  Emit = TRUE\n'
            '  Faults <- GenFaults\n  QS <- GenQS\n  Ops <- GenOps\n  Big = FALSE\nINVARIANT EmitCase\nCHECK_DEADLOCK FALSE\n'
            % (kind, ', '.join(tla_str(n) for n in names), size, k, maxops, half, maxnow, maxtotal))


def generate(ctx, prop, ind, items, keyseqs, maxops, **kw):
    g = gen_job(prop, ind, items, keyseqs, maxops, **kw)
    return gen_record(ctx, g)


def gen_record(ctx, g):
    ctx.tlc_runs.append(g['summary'])
    ctx.states += g['summary']['distinct']
    ctx.transitions += g['summary']['generated']
    if g['err']:
        ctx.inconclusive.append(g['err'])
    return g['hist'], g['exhaustive']


ALL_FAULTS = ('errreply', 'lostbefore', 'lostafter')


def gen_job(prop, ind, items, keyseqs, maxops, simulate=None, seed=None, half=2, maxnow=None, maxtotal=4, tag='',
            qs=(), ops=None, faults=(), window=None):
    """one TLC generation run for one induced configuration and one choice of real item strings -> list of histories
    (no access to the check context: several of these run side by side)"""
    kind = KIND[prop]
    names = NAMES[:len(items)]
    hmap = {nm: ind['idx'][it] for nm, it in zip(names, items)}
    maxnow = maxnow or 6 * half
    tmp = tempfile.mkdtemp(prefix='verif-bloomgen-', dir=vlib.SCRATCH_ROOT)
    try:
        mod = 'BloomGen'
        open(os.path.join(tmp, mod + '.tla'), 'w').write(gen_module(mod, kind, ind['size'], ind['k'], hmap, keyseqs, names, qs, ops, faults))
        cfgp = os.path.join(tmp, 'Gen.cfg')
        open(cfgp, 'w').write(gen_cfg(kind, names, ind['size'], ind['k'], maxops, half, maxnow, maxtotal))
        kw = dict(workers=1, timeout=900, collect_cases=True, files=[os.path.join(tmp, mod + '.tla'), cfgp])
        if simulate:
            kw.update(simulate=simulate, depth=maxops + 1, seed=seed)
        r = vlib.tlc(FAMILY, mod, 'Gen.cfg', **kw)
        summary = dict(r.summary(), purpose='history generation %s %s' % (tag, 'simulate' if simulate else 'exhaustive'), histories=len(r.cases))
        if not r.ok or not r.cases:
            return dict(hist=[], exhaustive=False, summary=summary,
                        err='history generation failed (%s): %s\n%s' % (tag, r.error, r.output[-2000:]))
        cfgd = dict(ind['config'])
        if window and kind == 'sliding':
            cfgd['window_ms'] = window          # the sizing does not depend on the window; the tick is half a window / Half
        window = cfgd.get('window_ms', 0)
        out = []
        for i, c in enumerate(r.cases):
            if kind != 'counting':
                cfgd = dict(cfgd, ro=(i % 2 == 1))     # every other history uses the read-only Exists scripts (BITFIELD_RO)
            out.append(dict(id='%s-%d' % (tag, i), config=cfgd, tick_ms=(window // 2) // half if kind == 'sliding' else 0,
                            size=ind['size'], k=ind['k'], items=dict(zip(names, items)), q=names, qs=[list(b) for b in qs], steps=c['steps'],
                            src='simulate seed %s' % seed if simulate else 'exhaustive'))
        return dict(hist=out, exhaustive=not simulate, summary=summary, err=None)
    finally:
        shutil.rmtree(tmp, ignore_errors=True)


def seqs(names, maxlen):
    out = []
    for n in range(1, maxlen + 1):
        out += [list(t) for t in itertools.product(names, repeat=n)]
    return out


# (expected items, rate) pairs whose sizing is tiny (exhaustive generation) or typical (simulation); what the constructor
# makes of them is read back through the export, nothing below depends on the formulas
TINY = [(1, 0.3), (2, 0.45), (2, 0.27), (3, 0.2)]
NEAR1 = [(10, 0.9), (5, 0.8), (1000, 0.99)]          # the configurations of DESIGN.md section 7 #9
TYPICAL = [(50, 0.05), (100, 0.01), (1000, 0.001)]


def conform(ctx, prop, thorough, binp):
    kind = KIND[prop]
    rng = random.Random(ctx.seed * 7919 + 13)
    window = 2000
    configs = [dict(kind=kind, n=n, rate=r, window_ms=window) for n, r in TINY + NEAR1 + TYPICAL]
    inds = [i for i in induce(ctx, binp, configs)]
    usable = [i for i in inds if i['accepted'] and i['k'] >= 1 and i['size'] >= 1]
    skipped = [i for i in inds if i['accepted'] and not (i['k'] >= 1 and i['size'] >= 1)]
    if skipped:
        ctx.notes.append('history generation skipped %d accepted configuration(s) outside Bloom.tla\'s ASSUME (hashIterations = 0); the sweep reports them' % len(skipped))
    histories = []
    all_exhaustive = True
    tiny = [i for i in usable if i['size'] <= 8]
    rest = [i for i in usable if i['size'] > 8 and (kind != 'counting' or i['size'] <= (1000 if thorough else 400))]   # counters are a function over 0..Size-1 in TLC
    nitems = 2 if kind == 'sliding' else 3
    names = NAMES[:nitems]
    # --- exhaustive generation for the tiny sizes
    if kind == 'sliding':
        ex_depth, ex_seqs = 5, [[n] for n in names[:1]] + [names]          # Add/Exists of a, of <<a,b>>
        sim_depth, sim_n = 14, (400 if thorough else 120)
    elif kind == 'counting':
        ex_depth, ex_seqs = (4 if thorough else 3), seqs(names, 1) + [list(t) for t in itertools.permutations(names, 2)]
        sim_depth, sim_n = 10, (400 if thorough else 120)
    else:
        ex_depth, ex_seqs = (4 if thorough else 3), seqs(names, 1) + [list(t) for t in itertools.permutations(names, 2)] + [[names[0], names[0]]]
        sim_depth, sim_n = 10, (400 if thorough else 120)
    # --- round 2: batches queried as ONE call after every step (repeated keys; an absent/rarer key before a present one)
    if kind == 'bloom':
        qs = [[names[0], names[1], names[0], names[2], names[1]], [names[2], names[2]], [names[1], names[0], names[0], names[2]]]
    elif kind == 'counting':
        qs = [[names[2], names[0], names[1], names[0]], [names[1], names[1], names[2]], [names[0], names[2]]]
    else:
        qs = []           # Exists of the sliding filter is an action: repeated keys come with KeySeqs
    base_ops = None if kind != 'sliding' else ['AddMulti', 'ExistsMulti', 'Reset', 'Delete', 'Tick']
    jobs = []
    for n_i, ind in enumerate(tiny[: (4 if thorough else (2 if kind == 'bloom' else 1))]):
        for items in pick_items(ind['idx'], nitems, rng, 2 if thorough else 1):
            jobs.append(dict(args=(prop, ind, items, ex_seqs, ex_depth),
                             kw=dict(tag='%s-s%dk%d-ex' % (kind, ind['size'], ind['k']), qs=qs, ops=base_ops)))
    # --- round 2, directed exhaustive runs on the first tiny size
    if tiny:
        ind = tiny[0]
        items = pick_items(ind['idx'], nitems, rng, 1)[0]
        tagp = '%s-s%dk%d' % (kind, ind['size'], ind['k'])
        a, b = names[0], names[1]
        if kind == 'bloom':      # every reply class of the add script call
            jobs.append(dict(args=(prop, ind, items, [[a], [a, b]], 3),
                             kw=dict(tag=tagp + '-faults', qs=qs[:1], ops=['AddMulti', 'Reset'], faults=ALL_FAULTS)))
        elif kind == 'counting':  # reply classes of the add and remove script calls
            jobs.append(dict(args=(prop, ind, items, [[a], [b, a]], 3),
                             kw=dict(tag=tagp + '-faults', qs=qs[:1], ops=['AddMulti', 'RemoveMulti'], faults=('errreply', 'lostafter'))))
        else:
            # rotation period of a window that is no whole number of seconds (1500 ms, Half = 3 ticks of 250 ms)
            jobs.append(dict(args=(prop, ind, items, [[a]], 8 if thorough else 7),
                             kw=dict(tag=tagp + '-w1500', ops=['Tick', 'AddMulti', 'ExistsMulti'], half=3, window=1500)))
            # a second handle constructed for the same name at every point of a history
            jobs.append(dict(args=(prop, ind, items, [[a]], 7 if thorough else 6),
                             kw=dict(tag=tagp + '-newhandle', ops=['Tick', 'AddMulti', 'ExistsMulti', 'NewHandle'], half=2)))
            jobs.append(dict(args=(prop, ind, items, [[a]], 4),
                             kw=dict(tag=tagp + '-faults', ops=['Tick', 'AddMulti', 'ExistsMulti'], faults=('errreply', 'lostafter'), half=2)))
    # --- simulation: longer histories, batches of up to 3 keys; quick: one tiny, one near-1 (if usable), two typical sizes
    near = [i for i in usable if (i['config']['n'], i['config']['rate']) in NEAR1]
    typical = [i for i in rest if (i['config']['n'], i['config']['rate']) in TYPICAL]
    if thorough:
        sims = [(i, 2) for i in tiny + rest]
    else:
        sims = [(i, 1) for i in (tiny[2:3] or tiny[:1]) + near[:1] + typical[:2]]
    windows = [(2000, 2), (1500, 3), (2500, 5), (3000, 3), (61000, 2)]      # (window in ms, Half): tick = window / 2 / Half
    for n_i, (ind, choices) in enumerate(sims):
        for t, items in enumerate(pick_items(ind['idx'], nitems, rng, choices)):
            w, hf = windows[(n_i + t) % len(windows)]
            jobs.append(dict(args=(prop, ind, items, seqs(names, 3 if nitems == 2 or ind['size'] > 8 else 2), sim_depth),
                             kw=dict(simulate=sim_n, seed=ctx.seed * 1000 + n_i * 10 + t, qs=qs, half=hf, window=w,
                                     tag='%s-s%dk%d-sim%s' % (kind, ind['size'], ind['k'], ('-w%d' % w) if kind == 'sliding' else ''))))
    # one more simulation with every reply class of the script calls (TLC's simulator evaluates all successors of a state, so
    # the key sequences are kept short here)
    for ind, _ in sims[-1:]:
        items = pick_items(ind['idx'], nitems, rng, 1)[0]
        jobs.append(dict(args=(prop, ind, items, seqs(names, 2), sim_depth),
                         kw=dict(simulate=sim_n, seed=ctx.seed * 1000 + 777, qs=qs, faults=ALL_FAULTS,
                                 tag='%s-s%dk%d-simfaults' % (kind, ind['size'], ind['k']))))
    with ThreadPoolExecutor(max_workers=4) as ex:
        futs = [ex.submit(gen_job, *j['args'], **j['kw']) for j in jobs]
        for f in futs:
            hs, _ = gen_record(ctx, f.result())
            histories += hs
    if not histories:
        ctx.inconclusive.append('no history was generated')
        return
    tmp = tempfile.mkdtemp(prefix='verif-bloomhist-', dir=vlib.SCRATCH_ROOT)
    try:
        path = os.path.join(tmp, 'histories.ndjson')
        vlib.write_ndjson(path, histories)
        rep = ctx.run_driver(binp, ['-mode', 'replay', '-in', path], timeout=1800)
        if rep is not None:
            ctx.extra['histories_generated'] = len(histories)
            ctx.exhaustive = False      # exhaustive per tiny configuration and depth only; see design notes
    finally:
        shutil.rmtree(tmp, ignore_errors=True)


# ------------------------------------------------------------------------------------------------ large batches (C35)
BIG_RATES = [0.1, 0.03, 0.015, 0.01, 0.001]     # hashIterations 3, 5, 6, 7, 10 by the constructor's own sizing (read back, not assumed)


def big_module(path):
    return ('---- MODULE BloomBigGen ----\nEXTENDS Bloom\nJ == JsonDeserialize("%s")\nGenItems == 1..Len(J.idx)\nGenHSet == {J.idx}\n'
            'GenKeySeqs == {J.add}\nGenQS == <<J.q1, J.q2>>\n====\n' % path)


def big_cfg(size, k):
    return ('SPECIFICATION Spec\nCONSTANTS\n  Kind = "bloom"\n  Items <- GenItems\n  Size = %d\n  K = %d\n  HSet <- GenHSet\n'
            '  KeySeqs <- GenKeySeqs\n  Q <- NoQ\n  MaxOps = 1\n  Half = 0\n  MaxNow = 0\n  MaxTotal = 0\n'
            '  ExpireInclusive = TRUE\n  Defect = "none"\n  AllowBadConfig = FALSE\n  Emit = TRUE\n'
            '  Faults <- NoFaults\n  QS <- GenQS\n  Ops = {"AddMulti"}\n  Big = TRUE\nINVARIANT EmitCase\nCHECK_DEADLOCK FALSE\n' % (size, k))


def big_job(ind, items, nkeys, ro, tag):
    """TLC (Bloom.tla, Big = TRUE, H = the real index function of `nkeys` item strings): AddMulti of every other key as one
    call, then the per-position answers and obligations of two ExistsMulti batches over all keys"""
    tmp = tempfile.mkdtemp(prefix='verif-bloombig-', dir=vlib.SCRATCH_ROOT)
    try:
        add = list(range(1, nkeys + 1, 2))
        q1 = list(range(1, nkeys + 1))                                 # added and never-added keys alternate
        q2 = list(range(nkeys, 0, -1)) + add[:7]                       # reverse order, a few repeated keys at the end
        data = os.path.join(tmp, 'big.json')
        json.dump(dict(idx=[ind['idx'][it] for it in items[:nkeys]], add=add, q1=q1, q2=q2), open(data, 'w'))
        modp, cfgp = os.path.join(tmp, 'BloomBigGen.tla'), os.path.join(tmp, 'Big.cfg')
        open(modp, 'w').write(big_module(data))
        open(cfgp, 'w').write(big_cfg(ind['size'], ind['k']))
        r = vlib.tlc(FAMILY, 'BloomBigGen', 'Big.cfg', workers=1, timeout=900, collect_cases=True, files=[modp, cfgp])
        summary = dict(r.summary(), purpose='large batch %s: %d keys, K=%d' % (tag, nkeys, ind['k']), histories=len(r.cases))
        if not r.ok or len(r.cases) != 1:
            return dict(case=None, summary=summary, err='large-batch generation failed (%s): %s\n%s' % (tag, r.error, r.output[-2000:]))
        st = r.cases[0]['steps'][0]
        if st['keys'] != add or len(st['qsans']) != 2 or len(st['qsans'][0]) != len(q1) or len(st['qsans'][1]) != len(q2):
            return dict(case=None, summary=summary, err='large-batch generation (%s): unexpected shape of the emitted step' % tag)
        return dict(case=dict(id=tag, config=dict(ind['config'], ro=ro), size=ind['size'], k=ind['k'], items=items[:nkeys], add=add,
                              queries=[q1, q2], qsans=st['qsans'], qsmust=st['qsmust']), summary=summary, err=None)
    finally:
        shutil.rmtree(tmp, ignore_errors=True)


def big(ctx, prop, thorough, binp):
    """C35: one AddMulti / ExistsMulti call with more than 2^15 (thorough: 2^16) bit indexes, for hash counts that do not divide
    a power of two; the answers are compared position by position with the specification"""
    if prop != 'C35':
        return
    budget = 70000 if thorough else 33500
    tmp = tempfile.mkdtemp(prefix='verif-bloombigrun-', dir=vlib.SCRATCH_ROOT)
    try:
        items = ['i%d' % i for i in range(budget // 3 + 60)]
        req, res = os.path.join(tmp, 'req.json'), os.path.join(tmp, 'res.json')
        json.dump(dict(configs=[dict(kind='bloom', n=20000, rate=r, window_ms=0) for r in BIG_RATES], items=items), open(req, 'w'))
        rep = ctx.run_driver(binp, ['-mode', 'induce', '-in', req, '-res', res], timeout=600)
        if rep is None or not os.path.exists(res):
            ctx.inconclusive.append('bloomdrv -mode induce (large batches) produced nothing')
            return
        inds = [i for i in json.load(open(res)) if i['accepted'] and i['k'] >= 1]
        jobs = []
        for n_i, ind in enumerate(inds):
            nkeys = budget // ind['k'] + 41 + 2 * n_i
            jobs.append((ind, items, nkeys, n_i % 2 == 1, 'bloom-big-s%dk%d' % (ind['size'], ind['k'])))
        cases = []
        with ThreadPoolExecutor(max_workers=3) as ex:
            for g in ex.map(lambda j: big_job(*j), jobs):
                ctx.tlc_runs.append(g['summary'])
                ctx.states += g['summary']['distinct']
                ctx.transitions += g['summary']['generated']
                if g['err']:
                    ctx.inconclusive.append(g['err'])
                else:
                    cases.append(g['case'])
        if not cases:
            return
        path = os.path.join(tmp, 'big.json')
        json.dump(cases, open(path, 'w'))
        if ctx.run_driver(binp, ['-mode', 'big', '-in', path], timeout=1800) is not None:
            ctx.extra['large_batches'] = ['K=%d: AddMulti %d keys, ExistsMulti %d keys' % (c['k'], len(c['add']), len(c['queries'][0])) for c in cases]
    finally:
        shutil.rmtree(tmp, ignore_errors=True)


def run(ctx, prop):
    th = ctx.tier == 'thorough'
    binp = vlib.build('bloomdrv')
    if os.environ.get('VERIF_SKIP_MODEL') != '1':     # development aid for the mutation self-test: the model-checking stage does not read the repository
        model(ctx, prop, th)
    else:
        ctx.notes.append('VERIF_SKIP_MODEL=1: exhaustive model checking and negative configs were skipped in this run')
    stages = [x for x in os.environ.get('VERIF_BLOOM_STAGES', 'sweep,conform,big').split(',') if x]   # development aid, like VERIF_SKIP_MODEL
    if 'sweep' in stages:
        sweep(ctx, prop, binp)
    if 'conform' in stages:
        conform(ctx, prop, th, binp)
    if 'big' in stages:
        big(ctx, prop, th, binp)
    if len(stages) < 3:
        ctx.notes.append('VERIF_BLOOM_STAGES=%s: the other conformance stages were skipped in this run' % ','.join(stages))
    ctx.assumptions += [
        'fakeredis + luamini execute the real script texts of rueidisprob; they stand for a Redis server',
        'murmur3 and the float sizing formulas are given functions: the hash function of the generation runs is the one the real '
        'filter computes (read through rueidisprob/verif_export.go), the sizing is observed, neither is verified',
        'TLC explores all hash functions only for the tiny sizes named in the MC_*.cfg files',
    ]
    for n in ctx.notes:
        ctx.assumptions.append(n)
