"""C41: TxPipe.tla exhaustive + negative configs; every TLC-enumerated program (Queue/Discard/Exec on Pipeline, TxPipeline,
Watch with and without conflict, stale WATCH) replayed on the real rueidiscompat adapter over fakeredis with the
specification's predicted wire batch, Cmder values, Exec error and store."""
import os, shutil
from lib import vlib
from checks import addons1common as ac

LEVEL = 'model_checking'

NEG = [('MultiAfter', 'WireExact'), ('Shift', 'Positional'), ('NoTxFailed', 'TxFailedReported'),
       ('DiscardKeeps', 'DiscardDrops'), ('WatchLeaks', 'NoSpuriousAbort')]


def run(ctx):
    th = ctx.tier == 'thorough'
    # the pure model runs do not depend on the repository; the mutation self-test (proposed/mutations_addons1.py) skips them
    if not os.environ.get('VERIF_ADDONS1_SKIP_MODEL'):
        ctx.run_tlc('addons', 'TxPipe', 'TxPipe_MC_quick.cfg', workers=8, timeout=600)
        if th:
            ctx.run_tlc('addons', 'TxPipe', 'TxPipe_MC_thorough.cfg', workers=8, timeout=1500)
        for b, inv in NEG:
            ctx.run_tlc('addons', 'TxPipe', 'TxPipe_MC_neg_%s.cfg' % b, expect_violation=inv, workers=2, timeout=300)

    binp = vlib.build('txpipedrv')
    d = ac.scratch()
    try:
        cases, r = ac.gen_cases(ctx, 'TxPipe', 'TxPipe_Gen3.cfg' if th else 'TxPipe_Gen2.cfg', timeout=1500)
        complete = r.ok
        # programs with up to 4 queued commands: random behaviours of the same specification
        sim, _ = ac.gen_cases(ctx, 'TxPipe', 'TxPipe_GenSim.cfg', simulate=(3000 if th else 250), depth=9, seed=ctx.seed,
                              timeout=900)
        allc = cases + sim
        p = os.path.join(d, 'cases.ndjson')
        ac.write_cases(p, allc)
        rep = ctx.run_driver(binp, ['-cases', p], timeout=1500)
        ctx.exhaustive = bool(complete and rep is not None and rep.get('evaluations') == len(allc))
        ctx.extra['programs_generated'] = len(allc)
    finally:
        shutil.rmtree(d, ignore_errors=True)
