"""Subscription registry (pubsub.go) part of C26/C04: Subs.tla (lock regions, channel operations, the allocation of
subscription ids and removal by id) exhaustive + negative configs + liveness, the real `subs` driven by subsdrv (Receives
that start after others ended while further ones are alive) with hook events validated against Subs.tla (SubsTrace.tla)."""
import concurrent.futures, os, re, shutil, tempfile, threading
from lib import vlib


def run(ctx):
    th = ctx.tier == 'thorough'
    # (module, cfg, expected violation, workers): the registry with two subscribers and messages; with three subscribers and
    # the id allocation (a subscription made after another one ended while a third is alive); liveness; negative configs
    jobs = [('MC_subs_quick.cfg', None, 6), ('MC_subs_ids.cfg', None, 6), ('MC_subs_live.cfg', None, 4),
            ('MC_subs_neg_NoDrainer.cfg', 'ReaderProgress', 2), ('MC_subs_neg_CloseKeepsMap.cfg', 'NoSendOnClosed', 2),
            ('MC_subs_neg_CntDecr.cfg', 'LiveSubscribersRegistered', 2)]
    if th:
        jobs += [('MC_subs_thorough.cfg', None, 8), ('MC_subs_ids_thorough.cfg', None, 8)]
    lock = threading.Lock()

    def one(j):
        cfg, exp, w = j
        r = vlib.tlc('pipe', 'MCSubs', cfg, workers=w, timeout=3000 if th else 1500)
        with lock:
            ctx.tlc_runs.append(r.summary())
            ctx.states += r.distinct
            ctx.transitions += r.generated
            if exp is not None:
                if r.violated != exp and r.violated != 'temporal':
                    ctx.inconclusive.append('negative config pipe/%s: expected violation of %s, got %s %s' % (cfg, exp, r.violated, r.error or ''))
            elif not r.ok:
                ctx.inconclusive.append('TLC pipe/MCSubs %s: violated=%s error=%s\n%s' % (cfg, r.violated, r.error, r.output[-3000:]))
    with concurrent.futures.ThreadPoolExecutor(max_workers=3) as ex:
        list(ex.map(one, jobs))
    binp = vlib.build('subsdrv')
    tracedir = tempfile.mkdtemp(prefix='verif-subs-', dir=vlib.SCRATCH_ROOT)
    try:
        ctx.run_driver(binp, ['-runs', '300' if th else '40', '-tracedir', tracedir], timeout=1800)
        f = os.path.join(tracedir, 'subs.ndjson')
        if os.path.exists(f) and os.path.getsize(f) > 0:
            n = sum(1 for _ in open(f))
            r = vlib.tlc('pipe', 'SubsTrace', 'SubsTrace.cfg', workers=1, timeout=1800, env={'VERIF_TRACE': f})
            ctx.tlc_runs.append(dict(r.summary(), trace_events=n))
            ctx.states += r.distinct
            ctx.transitions += r.generated
            if not r.ok:
                if r.violated or 'Postcondition TraceAccepted' in r.output:
                    what = 'trace of the real subscription registry rejected by SubsTrace.tla: '
                    if r.violated:
                        what += 'invariant %s violated' % r.violated
                        sig = 'subs-trace-invariant-' + r.violated
                    else:
                        m2 = re.search(r'"REJECTED-AT",\s*(\d+),\s*\[(.*?)\]', r.output, re.S)
                        evname = ''
                        if m2:
                            m3 = re.search(r'ev \|-> "([^"]+)"', m2.group(2))
                            evname = m3.group(1) if m3 else ''
                            what += 'no action of Subs.tla explains recorded event #%s: %s' % (m2.group(1), ' '.join(m2.group(2).split()))
                        sig = 'subs-trace-rejected-at-' + (evname or 'unknown')
                    keep = os.path.join(vlib.VERIF, 'replays', ctx.pid)
                    os.makedirs(keep, exist_ok=True)
                    dst = os.path.join(keep, 'subs.ndjson')
                    shutil.copy(f, dst)
                    ctx.violation(sig, what + '\n' + r.output[-1200:], dict(trace=dst))
                else:
                    ctx.inconclusive.append('subs trace validation failed to run: %s\n%s' % (r.error, r.output[-2000:]))
    finally:
        shutil.rmtree(tracedir, ignore_errors=True)
