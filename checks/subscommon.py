"""Subscription registry (pubsub.go) part of C26/C04: Subs.tla exhaustive + negative configs + liveness, the real `subs`
driven by subsdrv with hook events validated against Subs.tla (SubsTrace.tla)."""
import os, re, shutil, tempfile
from lib import vlib


def run(ctx):
    th = ctx.tier == 'thorough'
    ctx.run_tlc('pipe', 'MCSubs', 'MC_subs_quick.cfg', workers=16, timeout=1500)
    if th:
        ctx.run_tlc('pipe', 'MCSubs', 'MC_subs_thorough.cfg', workers=16, timeout=3000)
    ctx.run_tlc('pipe', 'MCSubs', 'MC_subs_live.cfg', workers=8, timeout=1500)
    ctx.run_tlc('pipe', 'MCSubs', 'MC_subs_neg_NoDrainer.cfg', expect_violation='ReaderProgress', workers=4, timeout=900)
    ctx.run_tlc('pipe', 'MCSubs', 'MC_subs_neg_CloseKeepsMap.cfg', expect_violation='NoSendOnClosed', workers=4, timeout=300)
    binp = vlib.build('subsdrv')
    tracedir = tempfile.mkdtemp(prefix='verif-subs-', dir=vlib.SCRATCH_ROOT)
    try:
        ctx.run_driver(binp, ['-runs', '300' if th else '40', '-tracedir', tracedir], timeout=1800)
        f = os.path.join(tracedir, 'subs.ndjson')
        if os.path.exists(f) and os.path.getsize(f) > 0:
            n = sum(1 for _ in open(f))
            r = vlib.tlc('pipe', 'SubsTrace', 'SubsTrace.cfg', workers=1, timeout=1800, env={'VERIF_TRACE': f})
            ctx.tlc_runs.append(dict(r.summary(), trace_events=n))
            ctx.states += r.distinct
            ctx.transitions += r.generated
            if not r.ok:
                if r.violated or 'Postcondition TraceAccepted' in r.output:
                    what = 'trace of the real subscription registry rejected by SubsTrace.tla: '
                    if r.violated:
                        what += 'invariant %s violated' % r.violated
                        sig = 'subs-trace-invariant-' + r.violated
                    else:
                        m2 = re.search(r'"REJECTED-AT",\s*(\d+),\s*\[(.*?)\]', r.output, re.S)
                        evname = ''
                        if m2:
                            m3 = re.search(r'ev \|-> "([^"]+)"', m2.group(2))
                            evname = m3.group(1) if m3 else ''
                            what += 'no action of Subs.tla explains recorded event #%s: %s' % (m2.group(1), ' '.join(m2.group(2).split()))
                        sig = 'subs-trace-rejected-at-' + (evname or 'unknown')
                    keep = os.path.join(vlib.VERIF, 'replays', ctx.pid)
                    os.makedirs(keep, exist_ok=True)
                    dst = os.path.join(keep, 'subs.ndjson')
                    shutil.copy(f, dst)
                    ctx.violation(sig, what + '\n' + r.output[-1200:], dict(trace=dst))
                else:
                    ctx.inconclusive.append('subs trace validation failed to run: %s\n%s' % (r.error, r.output[-2000:]))
    finally:
        shutil.rmtree(tracedir, ignore_errors=True)
