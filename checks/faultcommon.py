"""Shared parts of the failure / cancellation / retry family (C03, C04, C05, C28).

Model side:   spec/pipe/Pipe.tla (call path of pipe.go), spec/client/Retry.tla + RetryPolicy.tla (retry wrappers).
Binding side: harness/cmd/faultdrv drives the real client against fakeredis with TLC-generated scenarios
              (Retry.tla Gen.cfg by simulation, FaultGen.tla exhaustively); the recorded traces are judged by TLC with
              spec/client/RetryTrace.tla and spec/pipe/FaultTrace.tla, which print one VERDICT line per finding."""
import json, os, random, re, shutil, tempfile, threading
from concurrent.futures import ThreadPoolExecutor
from lib import vlib

_VERDICT_RE = re.compile(r'^<<"VERDICT", "(.*)">>\s*$')
_lock = threading.Lock()

# Until proposed/known_findings_faults.json is merged into known_findings.json (a shared file this family does not edit),
# the entries proposed there are honoured as well; after the merge the duplicates are harmless.
_orig_load_known = vlib.load_known


def _load_known_with_proposed():
    known = list(_orig_load_known())
    p = os.path.join(vlib.VERIF, 'proposed', 'known_findings_faults.json')
    if os.path.exists(p):
        have = set((k.get('property'), k.get('signature')) for k in known)
        for k in json.load(open(p)):
            if (k.get('property'), k.get('signature')) not in have:
                known.append(k)
    return known


vlib.load_known = _load_known_with_proposed


# ------------------------------------------------------------------------------------------------- TLC in parallel
def run_tlc_many(ctx, jobs, threads=4):
    """jobs: list of dict(family, module, cfg, expect=None, workers=, timeout=). Runs them concurrently."""
    def one(j):
        r = vlib.tlc(j['family'], j['module'], j['cfg'], workers=j.get('workers', 4), timeout=j.get('timeout', 900))
        with _lock:
            ctx.tlc_runs.append(r.summary())
            ctx.states += r.distinct
            ctx.transitions += r.generated
            exp = j.get('expect')
            if exp is not None:
                if r.violated != exp:
                    ctx.inconclusive.append('negative/as-is config %s/%s: expected violation of %s, got %s %s' % (
                        j['family'], j['cfg'], exp, r.violated, r.error or ''))
            elif not r.ok:
                ctx.inconclusive.append('TLC %s/%s %s: violated=%s error=%s\n%s' % (
                    j['family'], j['module'], j['cfg'], r.violated, r.error, r.output[-2500:]))
        return r
    with ThreadPoolExecutor(max_workers=threads) as ex:
        return list(ex.map(one, jobs))


_built = {}
_build_lock = threading.Lock()


def build(name):
    """vlib.build, once per check run (parts of a check run side by side: no rebuild under a running binary)"""
    with _build_lock:
        if name not in _built:
            _built[name] = vlib.build(name)
        return _built[name]


def parallel(ctx, *fns):
    """Runs the parts of a check side by side (TLC runs, driver runs and trace judgements are separate processes).  The
    context's counters are guarded by the module lock; an exception of a part is re-raised after all parts have ended."""
    if not getattr(ctx, '_locked_absorb', False):
        orig = ctx.absorb

        def absorb(rep):
            with _lock:
                orig(rep)
        ctx.absorb = absorb
        ctx._locked_absorb = True
    with ThreadPoolExecutor(max_workers=len(fns)) as ex:
        futs = [ex.submit(f) for f in fns]
        res, err = [], None
        for f in futs:
            try:
                res.append(f.result())
            except Exception as e:      # noqa
                err = err or e
                res.append(None)
    if err is not None:
        raise err
    return res


def J(family, module, cfg, expect=None, workers=4, timeout=900):
    return dict(family=family, module=module, cfg=cfg, expect=expect, workers=workers, timeout=timeout)


def pipe_model_jobs(thorough, part):
    """part: 'c04' | 'c05' | 'c03'"""
    jobs = []
    if part == 'c04':
        jobs += [J('fault', 'Pipe', 'MC_quick.cfg', workers=6),
                 J('fault', 'Pipe', 'MC_neg_entryrace.cfg', 'NoHang', 2), J('fault', 'Pipe', 'MC_neg_nodrain.cfg', 'NoHang', 2),
                 J('fault', 'Pipe', 'MC_neg_nodeferred.cfg', 'NoHang', 2), J('fault', 'Pipe', 'MC_neg_closekeeps.cfg', 'NoHang', 2),
                 J('fault', 'Pipe', 'MC_live_break.cfg', workers=4)]
        if thorough:
            jobs += [J('fault', 'Pipe', 'MC_thorough.cfg', workers=8, timeout=3000), J('fault', 'Pipe', 'MC_thorough3.cfg', workers=8, timeout=3000),
                     J('fault', 'Pipe', 'MC_live_close.cfg', workers=4, timeout=3000),
                     J('fault', 'Pipe', 'MC_live_neg_entryrace.cfg', 'BreakReturns', 2)]
    elif part == 'c05':
        jobs += [J('fault', 'Pipe', 'MC_quick_ctx.cfg', workers=4), J('fault', 'Pipe', 'MC_live_ctx.cfg', workers=4),
                 J('fault', 'Pipe', 'MC_live_ring.cfg', 'CtxDoneReturns', 2)]
        if thorough:
            jobs += [J('fault', 'Pipe', 'MC_thorough_all.cfg', workers=8, timeout=3000)]
    elif part == 'c03':
        jobs += [J('fault', 'Pipe', 'MC_quick_exp.cfg', workers=4), J('fault', 'Pipe', 'MC_expiry_asis.cfg', 'ExpiredOnlyIfNotExecuted', 2)]
    return jobs


def retry_model_jobs(thorough, part):
    # MC_quick: one command per call, both connection modes; MC_quick_batch: two-command batches and MULTI ... EXEC blocks
    jobs = [J('client', 'Retry', 'MC_quick.cfg', workers=4), J('client', 'Retry', 'MC_quick_batch.cfg', workers=4)]
    if part == 'c03':
        jobs += [J('client', 'Retry', 'MC_asis_expiry.cfg', 'AtMostOnceNonRetryable', 2),
                 J('client', 'Retry', 'MC_neg_batchany.cfg', 'AtMostOnceNonRetryable', 2),
                 J('client', 'Retry', 'MC_neg_txresend.cfg', 'AtMostOnceNonRetryable', 2),
                 J('client', 'Retry', 'MC_neg_syncexpired.cfg', 'AtMostOnceNonRetryable', 2)]
    else:
        jobs += [J('client', 'Retry', 'MC_quick_moved.cfg', workers=2),
                 J('client', 'Retry', 'MC_neg_batchsibling.cfg', 'InvWithinPolicy', 2),
                 J('client', 'Retry', 'MC_neg_ignoreretryable.cfg', 'InvRetryOnlyWhenSafe', 2),
                 J('client', 'Retry', 'MC_neg_errreply.cfg', 'PlainRepliesReturnedAsIs', 2),
                 J('client', 'Retry', 'MC_neg_afterctx.cfg', 'NoSpin', 2), J('client', 'Retry', 'MC_neg_afterclose.cfg', 'NoSpin', 2)]
    if thorough:
        jobs += [J('client', 'Retry', 'MC_thorough.cfg', workers=8, timeout=3000),
                 J('client', 'Retry', 'MC_thorough_batch.cfg', workers=6, timeout=3000)]   # 815 016 states
    return jobs


# ------------------------------------------------------------------------------------------------- trace judgement
def judge(ctx, family, module, cfg, trace_path):
    """Run the deterministic trace walker; returns (verdict dicts, ok). A trace that is not consumed is inconclusive."""
    n = sum(1 for _ in open(trace_path))
    r = vlib.tlc(family, module, cfg, workers=1, timeout=1500, env={'VERIF_TRACE': trace_path})
    with _lock:
        ctx.tlc_runs.append(dict(r.summary(), trace_events=n))
        ctx.states += r.distinct
        ctx.transitions += r.generated
    verdicts, seen = [], set()
    for line in r.output.splitlines():
        m = _VERDICT_RE.match(line)
        if m:
            s = m.group(1).replace('\\"', '"').replace('\\\\', '\\')
            if s in seen:
                continue
            seen.add(s)
            try:
                verdicts.append(json.loads(s))
            except Exception as ex:
                ctx.inconclusive.append('bad VERDICT line: %s' % ex)
    if not r.ok:
        ctx.inconclusive.append('trace validation %s/%s did not consume the trace: violated=%s error=%s\n%s' % (
            family, module, r.violated, r.error, r.output[-2000:]))
    return verdicts, r.ok


def scratch():
    return tempfile.mkdtemp(prefix='verif-faults-', dir=vlib.SCRATCH_ROOT)


# ------------------------------------------------------------------------------------------------- retry scenarios
def gen_retry_cases(ctx, walks, seed, cfg='Gen.cfg'):
    """cfg: Gen.cfg = one command per call (all client kinds, both connection modes); Gen_batch.cfg = batches and blocks"""
    r = vlib.tlc('client', 'Retry', cfg, workers=1, simulate=walks, depth=16, seed=seed, collect_cases=True, timeout=900)
    with _lock:
        ctx.tlc_runs.append(r.summary())
    if r.error or not r.cases:
        raise vlib.Inconclusive('scenario generation from Retry.tla failed: %s\n%s' % (r.error, r.output[-1500:]))
    uniq, seen = [], set()
    for c in r.cases:
        k = json.dumps(c, sort_keys=True)
        if k not in seen:
            seen.add(k)
            uniq.append(c)
    return uniq


def feasible(c):
    sc = c['script']
    for i, st in enumerate(sc):
        if st['o'] == 'expired-unsent' and i != 0:
            return False
        if st['o'].startswith('expired') and c['kind'] == 'clusterbatch':
            return False
        if st['o'] == 'expired-unsent' and c.get('shape', 'one') != 'one':
            return False
        if st['ctx'] and st['o'] != 'ctxdone' and c.get('shape', 'one') == 'tx':
            return False
        if st['sib'] and i > 0 and not sc[i - 1]['sib']:
            return False
        if st['sib'] and (st['o'].startswith('cut-') or st['o'].startswith('expired')):
            return False
    return True


def select_retry_cases(cases, n, seed, classes=None):
    """Stratified choice: one scenario per (kind, class, outcome/verdict script shape) first, then more at random."""
    rng = random.Random(seed)
    cases = [c for c in cases if feasible(c) and (classes is None or c['class'] in classes)]
    rng.shuffle(cases)
    strata = {}
    for c in cases:
        shape = tuple((s['o'], s['v'] != 'none' and s['v'] or '', s['sib'], s['soon'], s['ctx']) for s in c['script'])
        strata.setdefault((c['kind'], c['class'], c.get('shape', 'one'), c.get('pclass', ''), c.get('path', ''), shape[0],
                           len(shape) > 1 and shape[1][0] or ''), []).append(c)
    keys = sorted(strata.keys(), key=lambda k: (str(k)))
    rng.shuffle(keys)
    # slow scenarios (connection expiry, >= 1.5 s each) are capped so that the tier budget holds
    out, slow = [], 0
    slow_cap = max(16, n // 6)
    rounds = 0
    while len(out) < n and rounds < 50:
        progressed = False
        for k in keys:
            if rounds < len(strata[k]) and len(out) < n:
                c = strata[k][rounds]
                is_slow = any(s['o'].startswith('expired') for s in c['script'])
                if is_slow:
                    if slow >= slow_cap:
                        continue
                    slow += 1
                out.append(c)
                progressed = True
        rounds += 1
        if not progressed:
            break
    return out


def first_outcome(c):
    return c['script'][0]['o'] if c['script'] else ''


def select_by_strata(cases, key, n, seed, per=1):
    """One scenario (per) of every stratum key(c) (None: not wanted), strata in the order of their keys' first component
    (a priority), at most n in total.  Returns (selection, number of strata)."""
    rng = random.Random(seed)
    cs = [c for c in cases if feasible(c)]
    rng.shuffle(cs)
    strata = {}
    for c in cs:
        k = key(c)
        if k is not None:
            strata.setdefault(k, []).append(c)
    out = []
    for k in sorted(strata.keys(), key=lambda k: (k[0], rng.random())):
        for c in strata[k][:per]:
            if len(out) < n:
                out.append(c)
    return out, len(strata)


def has_plain(c):
    return c['class'] == 'plain' or (c.get('shape', 'one') != 'one' and c.get('pclass') == 'plain' and
                                     (c['shape'] == 'tx' or c['kind'] != 'clusterbatch'))


def mixed(c):
    """a batch whose members differ in retry-safety (the interesting ones for whole-batch re-sends)"""
    return c.get('shape', 'one') != 'one' and ((c['class'] == 'plain') != (c.get('pclass') == 'plain'))


def _retry_name(c):
    n = '%s/%s' % (c['kind'], c['class'])
    if c['disable']:
        n += '/noretry'
    if c['ctxKind'] != 'none':
        n += '/' + c['ctxKind']
    if c.get('shape', 'one') != 'one':
        n += '/%s:%s' % (c['shape'], c['pclass'])
    if c.get('path') == 'pipelined':
        n += '/pipelined'
    for st in c['script']:
        n += ' ' + st['o']
        if st['v'] != 'none':
            n += ':' + st['v']
        if st['soon']:
            n += '!soon'
        if st['sib']:
            n += '+sib'
        if st['ctx']:
            n += '+ctx'
        if st['closed']:
            n += '+closed'
    return n


def _where(v, outcome):
    """Qualifies a signature: the connection mode matters for what a lifetime expiry under a request in flight means
    (pipelined: errConnExpired, the known finding #10; synchronous path: an I/O error), the shape of the call for batches."""
    s = ''
    if str(outcome).startswith('expired'):
        s += ' path=%s' % v.get('path', 'none')
    if v.get('shape', 'one') not in ('one', ''):
        s += ' batch=%s:%s' % (v['shape'], v.get('mix', ''))
    return s


def retry_signature(v):
    what = v['what']
    if what == 'exec-twice':
        return 'exec-twice kind=%s class=%s cause=%s' % (v['kind'], v['class'], v['cause']) + _where(v, v['cause'])
    if what.startswith('resend-not-permitted'):
        s = '%s kind=%s class=%s prev=%s verdict=%s' % (what, v['kind'], v['class'], v['prev'], v['verdict']) + _where(v, v['prev'])
        if v.get('disable'):
            s += ' disableretry'
        if v.get('detail'):
            s += ' after=' + v['detail']
        if v.get('detail') == 'closed':
            # which redirections preceded the re-send made after Close (the scenario name lists the outcomes in order)
            red = [t.split(':')[0] for t in str(v.get('scn', '')).split(' ')[1:] if t.split(':')[0] in ('MOVED', 'ASK', 'REDIRECT')]
            if red:
                s += ' redirects=' + ','.join(red)
        return s
    if what == 'retry-spin-after-ctx-or-close':
        return '%s kind=%s class=%s after=%s' % (what, v['kind'], v['class'], v['detail'])
    if what == 'result-not-as-replied':
        return '%s kind=%s class=%s last=%s returned=%s' % (what, v['kind'], v['class'], v['prev'], v['detail']) + _where(v, '')
    return '%s kind=%s class=%s' % (what, v['kind'], v['class']) + _where(v, '')


C03_WHATS = ('exec-twice',)
C05_RETRY_WHATS = ('retry-spin-after-ctx-or-close', 'call-did-not-return')


def run_retry_scenarios(ctx, cases, par=12):
    """Returns (verdicts, report). Divergences from the specification's prediction are re-run once before they count."""
    binp = build('faultdrv')
    d = scratch()
    try:
        cp, tp = os.path.join(d, 'cases.ndjson'), os.path.join(d, 'retry-trace.ndjson')
        with open(cp, 'w') as f:
            for c in cases:
                f.write(json.dumps(c) + '\n')
        rep = ctx.run_driver(binp, ['-mode', 'retry', '-cases', cp, '-trace', tp, '-par', str(par)], timeout=1500)
        if rep is None or not os.path.exists(tp):
            return [], None
        if ctx.pid != 'C05':   # the back-off promptness monitor of the driver belongs to C05
            ctx.violations = [v for v in ctx.violations if not str(v.get('signature', '')).startswith('retry-backoff-ignores-deadline')]
        verdicts, _ = judge(ctx, 'client', 'RetryTrace', 'RetryTrace.cfg', tp)
        flagged = set(v['scn'] for v in verdicts)
        div = [x for x in ((rep.get('extra') or {}).get('divergences') or []) if x['scenario'] not in flagged]
        if div:
            # timing can make a scripted outcome miss its moment (expiry, heavy load): run those alone once more
            again = [cases[x['ord'] - 1] for x in div]
            cp2, tp2 = os.path.join(d, 'cases2.ndjson'), os.path.join(d, 'retry-trace2.ndjson')
            with open(cp2, 'w') as f:
                for c in again:
                    f.write(json.dumps(c) + '\n')
            fd, out2 = tempfile.mkstemp(prefix='verif-drv-', suffix='.json', dir=vlib.SCRATCH_ROOT)
            os.close(fd)
            import subprocess
            e = vlib.goenv()
            e['VERIF_SEED'] = str(ctx.seed)
            subprocess.run([binp, '-mode', 'retry', '-cases', cp2, '-trace', tp2, '-par', '2', '-out', out2], env=e,
                           stdout=subprocess.PIPE, stderr=subprocess.STDOUT, timeout=900)
            try:
                rep2 = json.load(open(out2))
            finally:
                os.unlink(out2)
            still = (rep2.get('extra') or {}).get('divergences') or []
            if os.path.exists(tp2):
                v2, _ = judge(ctx, 'client', 'RetryTrace', 'RetryTrace.cfg', tp2)
                verdicts += v2
                flagged2 = set(v['scn'] for v in v2)
                still = [x for x in still if x['scenario'] not in flagged2]
            for x in still[:5]:
                ctx.inconclusive.append('divergence (the real client did not do what Retry.tla predicts, no property monitor fired): '
                                        '%s: %s' % (x['scenario'], '; '.join(x['what'])))
        return verdicts, rep
    finally:
        shutil.rmtree(d, ignore_errors=True)


def report_retry_verdicts(ctx, verdicts, want, cases=()):
    """want(what) -> bool selects the verdict kinds that belong to the property being checked."""
    byname = {}
    for c in cases:
        byname.setdefault(_retry_name(c), c)
    for v in verdicts:
        if not want(v['what']):
            continue
        v = dict(v, scenario=byname.get(v['scn']), mode='retry')
        ctx.violation(retry_signature(v), 'RetryTrace.tla on the recorded run of scenario "%s": %s (client kind %s, command class %s, '
                      'previous attempt ended with %s, cause of this transmission %s, RetryDelay verdict %s, transmissions so far %d, '
                      'executions so far %d)' % (v['scn'], v['what'], v['kind'], v['class'], v['prev'], v.get('cause'), v['verdict'],
                                                 v['sends'], v['execs']), dict(verdict=v))


# ------------------------------------------------------------------------------------------------- fault scenarios
def gen_fault_cases(ctx):
    r = vlib.tlc('fault', 'FaultGen', 'FaultGen.cfg', workers=1, collect_cases=True, timeout=600)
    with _lock:
        ctx.tlc_runs.append(r.summary())
        ctx.states += r.distinct
        ctx.transitions += r.generated
    if not r.ok or not r.cases:
        raise vlib.Inconclusive('scenario generation from FaultGen.tla failed: %s\n%s' % (r.error, r.output[-1500:]))
    return r.cases


def select_fault_cases(cases, n, seed, faults=None, always=None):
    rng = random.Random(seed)
    cs = [c for c in cases if faults is None or c['fault'] in faults]
    rng.shuffle(cs)
    out = [c for c in cs if always and always(c)]
    strata = {}
    for c in cs:
        if always and always(c):
            continue
        strata.setdefault((c['fault'], tuple(sorted(c['pend'])), _fault_opts(c)), []).append(c)
    keys = sorted(strata.keys(), key=str)
    rng.shuffle(keys)
    i = 0
    while len(out) < n:
        progressed = False
        for k in keys:
            if i < len(strata[k]) and len(out) < n:
                out.append(strata[k][i])
                progressed = True
        i += 1
        if not progressed:
            break
    return out


NEW_WAITING_KINDS = ('poolwait', 'backoff', 'backoffm', 'hsblock', 'hsredial', 'hspool')


def select_ctx_cases(cases, n, seed, allow=None, always=None):
    """C05: first a cover of every (waiting call kind, context kind, pipelined?) combination the scenario space has, then more by
    strata.  allow(c) restricts the space (the waiting places that do not depend on the queue implementation run once)."""
    rng = random.Random(seed)
    cs = [c for c in cases if allow is None or allow(c)]
    rng.shuffle(cs)
    cs.sort(key=lambda c: len(c['pend']))          # small scenarios first: a finding names one call
    out, covered = [], set()
    for c in cs:
        if always and always(c):
            out.append(c)
            covered |= set((k, c['ctx'].get(k, 'none'), c['pipe']) for k in c['pend'])
    for c in cs:
        combos = set((k, c['ctx'].get(k, 'none'), c['pipe']) for k in c['pend'] if c['ctx'].get(k, 'none') != 'none')
        if combos - covered:
            out.append(c)
            covered |= combos
    have = set(id(c) for c in out)
    rest = [c for c in select_fault_cases(cs, n, seed) if id(c) not in have]
    return out + rest[:max(0, n - len(out))]


def fault_signature(v):
    what = v['what']
    opts = (' ' + v['opts']) if v.get('opts') else ''      # further ingredients of the scenario (push, traffic, resp2)
    if what in ('ctx-hang', 'ctx-not-prompt'):
        return '%s queue=%s callkind=%s ctx=%s waiting=%s' % (what, v['queue'], v['callkind'], v['ctx'], v['waiting']) + opts
    if what == 'after-close-error-not-ErrClosing':
        got = v['detail'].split(':')[0]
        return '%s fault=%s got=%s' % (what, v['fault'], got) + opts
    return '%s fault=%s callkind=%s queue=%s' % (what, v['fault'], v['callkind'], v['queue']) + opts


C05_FAULT_WHATS = ('ctx-hang', 'ctx-not-prompt', 'sent-with-done-context', 'done-context-not-reported')
TIMING_WHATS = ('ctx-hang', 'ctx-not-prompt', 'hang-after-break', 'hang-after-close',
                'error-without-cause')   # (a keep-alive ping that times out on an overloaded machine breaks the connection by itself)


def _drive_fault(ctx, binp, cases, queue, d, tag, par, absorb=True):
    cp, tp = os.path.join(d, 'fault-cases-%s.ndjson' % tag), os.path.join(d, 'fault-trace-%s.ndjson' % tag)
    with open(cp, 'w') as f:
        for c in cases:
            f.write(json.dumps(c) + '\n')
    env = {'RUEIDIS_QUEUE_TYPE': queue} if queue != 'ring' else {'RUEIDIS_QUEUE_TYPE': ''}
    rep = ctx.run_driver(binp, ['-mode', 'fault', '-cases', cp, '-trace', tp, '-par', str(par)], timeout=2400, env=env)
    if rep is None or not os.path.exists(tp):
        return []
    verdicts, _ = judge(ctx, 'fault', 'FaultTrace', 'FaultTrace.cfg', tp)
    return verdicts


def run_fault_scenarios(ctx, cases, queue='ring', par=16):
    """Returns verdicts; timing-dependent ones (hangs, lateness) must reproduce when their scenario is run again alone."""
    binp = build('faultdrv')
    d = scratch()
    try:
        verdicts = _drive_fault(ctx, binp, cases, queue, d, 'a', par)
        byname = {}
        for c in cases:
            byname.setdefault(_fault_name(c), c)
        # (listed known findings reproduce by construction; they are not run a second time)
        known = vlib.load_known()
        timing = [v for v in verdicts if v['what'] in TIMING_WHATS and vlib.match_known(known, ctx.pid, fault_signature(v)) is None]
        if timing:
            again = []
            for v in timing:
                c = byname.get(v['scn'])
                if c is not None and c not in again:
                    again.append(c)
            confirmed = set()
            if again:
                v2 = _drive_fault(ctx, binp, again, queue, d, 'b', 4)
                confirmed = set((v['scn'], v['what'], v['call']) for v in v2)
                # the same call of the same scenario must show the same problem again
            keep = []
            for v in verdicts:
                if v in timing and (v['scn'], v['what'], v['call']) not in confirmed:
                    # lateness may turn into a hang or vice versa; accept either form of the same call's problem
                    if not any(s == v['scn'] and c == v['call'] for (s, w, c) in confirmed):
                        ctx.notes.append('not reproduced on re-run, dropped: %s' % json.dumps(v))
                        continue
                keep.append(v)
            verdicts = keep
        return verdicts
    finally:
        shutil.rmtree(d, ignore_errors=True)


def _fault_name(c):
    parts = []
    for k in sorted(c['pend']):
        cx = c['ctx'].get(k, 'none')
        parts.append(k + '/' + cx if cx != 'none' else k)
    n = c['fault'] + ' ' + '+'.join(parts)
    if c['pipe']:
        n += ' pipelined'
    if c['warm']:
        n += ' warm'
    if c['small']:
        n += ' small-queue'
    if _fault_opts(c):
        n += ' ' + _fault_opts(c)
    return n


def _fault_opts(c):
    parts = []
    if c.get('push', 'none') not in ('none', ''):
        parts.append('push=' + c['push'])
    if c.get('traffic'):
        parts.append('traffic')
    if c.get('resp2'):
        parts.append('resp2')
    return ' '.join(parts)


def report_fault_verdicts(ctx, verdicts, want, cases=()):
    byname = {}
    for c in cases:
        byname.setdefault(_fault_name(c), c)
    for v in verdicts:
        if not want(v['what']):
            continue
        v = dict(v, scenario=byname.get(v['scn']), mode='fault')
        ctx.violation(fault_signature(v), 'FaultTrace.tla on the recorded run of scenario "%s" (queue %s): %s: call %s (%s, context %s, %s), '
                      'waiting for %s; %s' % (v['scn'], v['queue'], v['what'], v['call'], v['callkind'], v['ctx'], v['role'], v['waiting'],
                                              v['detail']), dict(verdict=v))


# ------------------------------------------------------------------------------------------------- entry race replay
def entry_race_schedule():
    """The schedule of TLC's NoHang counterexample in MC_neg_entryrace.cfg (the pinned commit's Do/Close race)."""
    r = vlib.tlc('fault', 'Pipe', 'MC_neg_entryrace.cfg', workers=1, timeout=600)
    acts = re.findall(r'^State \d+: <(\w+)(\([^)]*\))? line', r.output, re.M)
    toks = [a + (b or '') for a, b in acts]
    return ','.join(toks), r


def entry_race(ctx, rounds=2):
    sched, r = entry_race_schedule()
    with _lock:
        ctx.tlc_runs.append(r.summary())
    if r.violated != 'NoHang' or not sched:
        ctx.inconclusive.append('could not obtain the entry-race counterexample from TLC (violated=%s)' % r.violated)
        sched = ''
    binp = build('faultdrv')
    args = ['-mode', 'entryrace', '-rounds', str(rounds)]
    if sched:
        args += ['-schedule', sched]
    ctx.run_driver(binp, args, timeout=600)
    ctx.extra['entry_race_schedule'] = sched


# ------------------------------------------------------------------------------------------------- --replay
def replay(ctx, want_retry, want_fault):
    """bin/check Cxx --replay <file>: run the recorded scenario of a reported violation again and judge it again."""
    rec = json.load(open(ctx.replay))
    v = (rec.get('replay') or {}).get('verdict') or {}
    sc = v.get('scenario')
    if not sc:
        if 'schedule' in (rec.get('replay') or {}):
            binp = build('faultdrv')
            ctx.run_driver(binp, ['-mode', 'entryrace', '-rounds', '1', '-schedule', rec['replay']['schedule']], timeout=600)
            return
        raise vlib.Inconclusive('the replay file carries no scenario')
    if v.get('mode') == 'retry':
        verdicts, _ = run_retry_scenarios(ctx, [sc], par=1)
        report_retry_verdicts(ctx, verdicts, want_retry, [sc])
    else:
        verdicts = run_fault_scenarios(ctx, [sc], v.get('queue', 'ring'), par=1)
        report_fault_verdicts(ctx, verdicts, want_fault, [sc])
