"""C21 (cluster part) - commands reach replicas only when the caller opts in; out-of-range selector answers fall back to the primary."""
from checks import clustercommon as cc
LEVEL = 'model_checking'


def run(ctx):
    th = ctx.tier == 'thorough'
    cc.model(ctx, ['MC_cluster_repl2.cfg'] if th else [], {'MC_cluster_neg_pred.cfg': 'ReplicaOnlyWhenOptedIn', 'MC_cluster_neg_sel.cfg': 'OutOfRangeFallsBackToPrimary'})
    if th:
        cc.sim(ctx, ['Gen_cluster_repl.cfg'], 0, 250, modes='sendto,sendto,replicaonly,none', tracefiles=8)
    else:
        cc.sim(ctx, ['Gen_cluster_repl.cfg'], 110, 30, modes='sendto,sendto,replicaonly,none', tracefiles=4)
    ctx.assumptions += ['only the cluster client is covered here; the standalone and sentinel parts of C21 are checked by their own family']
    ctx.exhaustive = th      # the quick tier replays a seeded sample of the TLC-generated scenarios, the thorough tier all of them
