"""C21 - commands reach replicas only when the caller opts in; out-of-range selector answers fall back to the primary.
Cluster part: this file (cluster family).  Non-cluster part (standalone-with-replicas and sentinel clients, sentinel family):
checks/c21_nocluster.py, run beside the cluster part."""
import threading, traceback
from checks import clustercommon as cc
from checks import c21_nocluster
LEVEL = 'model_checking'


def _nocluster(ctx):
    try:
        c21_nocluster.run(ctx)
    except Exception:
        ctx.inconclusive.append('non-cluster part of C21 crashed:\n' + traceback.format_exc())


def run(ctx):
    th = ctx.tier == 'thorough'
    t = threading.Thread(target=_nocluster, args=(ctx,))
    t.start()
    try:
        cc.model(ctx, ['MC_cluster_repl2.cfg'] if th else [], {'MC_cluster_neg_pred.cfg': 'ReplicaOnlyWhenOptedIn', 'MC_cluster_neg_sel.cfg': 'OutOfRangeFallsBackToPrimary'})
        if th:
            cc.sim(ctx, ['Gen_cluster_repl.cfg'], 0, 250, modes='sendto,sendto,replicaonly,none', tracefiles=8)
        else:
            cc.sim(ctx, ['Gen_cluster_repl.cfg'], 110, 30, modes='sendto,sendto,replicaonly,none', tracefiles=4)
    finally:
        t.join()
    ctx.assumptions = [a for a in ctx.assumptions if 'cluster part of C21 is checked by' not in a]
    ctx.exhaustive = th      # the quick tier replays a seeded sample of the TLC-generated scenarios, the thorough tier all of them
