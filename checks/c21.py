"""C21 - commands reach replicas only when the caller opts in; out-of-range selector answers fall back to the primary.
Cluster part: this file (cluster family).  Non-cluster part (standalone-with-replicas and sentinel clients, sentinel family):
checks/c21_nocluster.py, run beside the cluster part."""
import threading, traceback
from checks import clustercommon as cc
from checks import c21_nocluster
LEVEL = 'model_checking'


def _nocluster(ctx):
    try:
        c21_nocluster.run(ctx)
    except Exception:
        ctx.inconclusive.append('non-cluster part of C21 crashed:\n' + traceback.format_exc())


def run(ctx):
    th = ctx.tier == 'thorough'
    t = threading.Thread(target=_nocluster, args=(ctx,))
    t.start()
    try:
        negs = {'MC_cluster_neg_pred.cfg': 'ReplicaOnlyWhenOptedIn', 'MC_cluster_neg_sel.cfg': 'OutOfRangeFallsBackToPrimary',
                # round 2: DoMultiStream that does not ask the predicate about commands without a key; a shard whose master is not
                # online kept with a replica as its primary
                'MC_cluster_neg_streamkeyless.cfg': 'ReplicaOnlyWhenOptedIn', 'MC_cluster_neg_promote.cfg': 'ReplicaOnlyWhenOptedIn'}
        # which node of a shard is the primary is decided by the topology parser: CLUSTER SHARDS replies (masters that are fail /
        # loading / "?" with online replicas, replicas listed first ...) -> real parser, compared with ClusterTopo.tla
        cc.cases(ctx, 'ClusterTopo', ['Topo_shards_thorough.cfg'] if th else ['Topo_shards_quick.cfg'], 'parse')
        # round 2: stream = DoStream / DoMultiStream and batches with commands that have no key; fail = a master reported as failed
        # while its replicas are online (the slot has no owner until a master is online again)
        gens = ['Gen_cluster_repl.cfg', 'Gen_cluster_stream.cfg', 'Gen_cluster_fail.cfg']
        if th:
            cc.sim(ctx, gens, 0, 250, modes='sendto,sendto,replicaonly,none', tracefiles=8, mc=['MC_cluster_repl2.cfg'], negs=negs)
        else:
            cc.sim(ctx, gens, {'Gen_cluster_repl.cfg': 80, 'Gen_cluster_stream.cfg': 0, 'Gen_cluster_fail.cfg': 40}, 30,
                   modes='sendto,sendto,replicaonly,none', tracefiles=8, negs=negs)
    finally:
        t.join()
    ctx.assumptions = [a for a in ctx.assumptions if 'cluster part of C21 is checked by' not in a]
    ctx.exhaustive = th      # the quick tier replays a seeded sample of the TLC-generated scenarios, the thorough tier all of them
