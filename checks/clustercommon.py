"""C19 / C20 / C21(cluster) / C31: Cluster.tla exhaustive + negative configs, TLC-generated scenarios and cases replayed into
the real client / parser / helpers by clusterdrv, recorded traces validated against ClusterTrace.tla."""
import glob, json, os, random, re, shutil, tempfile
from concurrent.futures import ThreadPoolExecutor
from lib import vlib

FAMILY = 'client'
WORKERS = 4


def _absorb(ctx, r, expect_violation=None, what=''):
    """What Ctx.run_tlc does with a result (the TLC runs themselves are made in parallel threads)."""
    ctx.tlc_runs.append(r.summary())
    ctx.states += r.distinct
    ctx.transitions += r.generated
    if expect_violation is not None:
        if r.violated != expect_violation:
            ctx.inconclusive.append('negative config %s: expected violation of %s, got %s %s' % (r.cfg, expect_violation, r.violated, r.error or ''))
    elif not r.ok:
        ctx.inconclusive.append('TLC %s %s %s: violated=%s error=%s\n%s' % (what, r.module, r.cfg, r.violated, r.error, r.output[-3000:]))


def _tlc_retry(module, cfg, **kw):
    r = vlib.tlc(FAMILY, module, cfg, **kw)
    if not r.ok and r.violated is None and r.generated == 0 and r.error is None:   # the JVM did not come up (seen under heavy load)
        r = vlib.tlc(FAMILY, module, cfg, **kw)
    return r


def model(ctx, cfgs, negs, module='MCCluster'):
    """cfgs: positive configs; negs: {cfg: invariant the re-introduced defect must break}. Runs in parallel (2 workers each)."""
    jobs = [(c, None) for c in cfgs] + list(negs.items())
    with ThreadPoolExecutor(max_workers=WORKERS) as ex:
        results = list(ex.map(lambda j: _tlc_retry(module, j[0], workers=2, timeout=1500), jobs))
    for (c, inv), r in zip(jobs, results):
        _absorb(ctx, r, inv)


def gen_cases(ctx, module, cfgs, limit, seed, path, mc=None, negs=None):
    """Run generation configs (-workers 1, in parallel), keep a seeded sample of `limit` cases per config (0 = all).
    mc / negs: exhaustive and negative configs of MCCluster that run in the same pool (they are independent of the generation runs)."""
    rng = random.Random(seed)
    n = 0
    side = [(c, None) for c in (mc or [])] + list((negs or {}).items())
    with ThreadPoolExecutor(max_workers=WORKERS + 2) as ex:
        fside = [ex.submit(_tlc_retry, 'MCCluster', j[0], workers=2, timeout=1500) for j in side]
        results = list(ex.map(lambda c: _tlc_retry(module, c, workers=1, timeout=1500, collect_cases=True), cfgs))
        for (c, inv), f in zip(side, fside):
            _absorb(ctx, f.result(), inv)
    with open(path, 'w') as f:
        for c, r in zip(cfgs, results):
            ctx.tlc_runs.append(dict(r.summary(), cases=len(r.cases)))
            ctx.states += r.distinct
            ctx.transitions += r.generated
            if not r.ok:
                ctx.inconclusive.append('generation %s/%s failed: violated=%s error=%s\n%s' % (module, c, r.violated, r.error, r.output[-2000:]))
                continue
            uniq, seen = [], set()
            for case in r.cases:
                k = json.dumps(case, sort_keys=True)
                if k not in seen:
                    seen.add(k)
                    uniq.append(case)
            lim = limit.get(c, 0) if isinstance(limit, dict) else limit
            if lim and len(uniq) > lim:
                uniq = rng.sample(uniq, lim)
            for case in uniq:
                f.write(json.dumps(case, separators=(',', ':')) + '\n')
                n += 1
    return n


def _validate_one(f):
    r = _tlc_retry('ClusterTrace', 'ClusterTrace.cfg', workers=1, timeout=1500, env={'VERIF_TRACE': f})
    return f, r


def validate_traces(ctx, tracedir):
    """One TLC run per trace file (run in parallel); a rejected trace is real-code behaviour the specification forbids."""
    files = sorted(glob.glob(os.path.join(tracedir, 'cluster-*.ndjson')))
    with ThreadPoolExecutor(max_workers=WORKERS + 2) as ex:
        results = list(ex.map(_validate_one, files))
    for f, r in results:
        n = sum(1 for _ in open(f))
        ctx.tlc_runs.append(dict(r.summary(), trace_events=n))
        ctx.states += r.distinct
        ctx.transitions += r.generated
        if r.ok:
            continue
        if r.violated or 'Postcondition TraceAccepted' in r.output or 'REJECTED-AT' in r.output:
            what = 'trace of the real cluster client rejected by ClusterTrace.tla: '
            detail = ''
            if r.violated:
                what += 'invariant %s violated on the recorded behaviour' % r.violated
                sig = 'cluster-trace-invariant-' + r.violated
            else:
                m2 = re.search(r'"REJECTED-AT",\s*(\d+),\s*\[(.*?)\]\s*>>', r.output, re.S)
                evname = ''
                if m2:
                    body = ' '.join(m2.group(2).split())
                    m3 = re.search(r'\bev \|-> "([^"]+)"', body)
                    evname = m3.group(1) if m3 else ''
                    if evname == 'X':
                        mo = re.search(r'\bop \|-> "([^"]+)"', body)
                        mr = re.search(r'\brep \|-> "([^"]+)"', body)
                        detail = '-%s-%s' % (mo.group(1) if mo else '', mr.group(1) if mr else '')
                        mn = re.search(r'\bnode \|-> "([^"]+)"', body)
                        if mn and mn.group(1) in ('a1', 'a2', 'b1'):
                            detail += '-on-replica'
                    elif evname == 'Ret':
                        # the result kinds the call returned, in input order (e.g. val,ask,ask)
                        kinds = [re.sub(r'[^A-Za-z]', '', k.split(':')[0])[:8] for k in re.findall(r'\bk \|-> "([^"]*)"', body)]
                        detail = '-' + ','.join(kinds[:8]) if kinds else ''
                    what += 'no action of the specification explains recorded event #%s (%s): %s' % (m2.group(1), evname, body[:700])
                else:
                    what += 'no action of the specification explains the next recorded event'
                sig = 'cluster-trace-rejected-at-' + (evname or 'unknown') + detail
            keep = os.path.join(vlib.VERIF, 'replays', ctx.pid)
            os.makedirs(keep, exist_ok=True)
            dst = os.path.join(keep, os.path.basename(f))
            shutil.copy(f, dst)
            ctx.violation(sig, what + '\n' + r.output[-1500:], dict(trace=dst))
        else:
            ctx.inconclusive.append('trace validation failed to run: %s\n%s' % (r.error, r.output[-2000:]))


def sim(ctx, gen_cfgs, gen_limit, nrandom, focus=None, modes=None, tracefiles=4, mc=None, negs=None):
    binp = vlib.build('clusterdrv')
    work = tempfile.mkdtemp(prefix='verif-cluster-', dir=vlib.SCRATCH_ROOT)
    try:
        scen = os.path.join(work, 'scen.ndjson')
        n = gen_cases(ctx, 'MCCluster', gen_cfgs, gen_limit, ctx.seed, scen, mc=mc, negs=negs) if gen_cfgs else 0
        args = ['-mode', 'sim', '-random', str(nrandom), '-tracedir', work, '-tracefiles', str(tracefiles), '-parallel', '6']
        if n:
            args += ['-scen', scen]
        if focus:
            args += ['-focus', focus]
        if modes:
            args += ['-modes', modes]
        ctx.run_driver(binp, args, timeout=1500)
        validate_traces(ctx, work)
    finally:
        shutil.rmtree(work, ignore_errors=True)


def cases(ctx, module, cfgs, mode, limit=0, extra_args=None):
    """spec -> code for pure case families (topology parsing, helpers)."""
    binp = vlib.build('clusterdrv')
    work = tempfile.mkdtemp(prefix='verif-cluster-', dir=vlib.SCRATCH_ROOT)
    try:
        path = os.path.join(work, 'cases.ndjson')
        n = gen_cases(ctx, module, cfgs, limit, ctx.seed, path)
        if n == 0:
            ctx.inconclusive.append('no cases generated by %s %s' % (module, cfgs))
            return
        ctx.run_driver(binp, ['-mode', mode, '-scen', path] + (extra_args or []), timeout=1500)
    finally:
        shutil.rmtree(work, ignore_errors=True)
