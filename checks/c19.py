"""C19 - cluster commands reach the node that owns their slot."""
from checks import clustercommon as cc
LEVEL = 'model_checking'


def run(ctx):
    th = ctx.tier == 'thorough'
    # (the exhaustive runs of the positive configurations are the Gen_* runs below: same state space, all invariants, and every
    # finished behaviour printed as a scenario)
    # design level: single commands x every topology change (moves to known / unknown / self-naming nodes, chains, migrations, a dead
    # node), MaxMovedRedirections 0/1/2; the three defects re-introduced in the model break the expected invariant
    negs = {'MC_cluster_neg_asking.cfg': 'AskingPrecedes', 'MC_cluster_neg_moved.cfg': 'RedirectFollowed', 'MC_cluster_neg_max.cfg': 'BoundedRedirects'}
    # ParseTotal: TLC-enumerated CLUSTER SLOTS / SHARDS replies -> real decoder -> real parser
    cc.cases(ctx, 'ClusterTopo', ['Topo_slots_thorough.cfg', 'Topo_shards_thorough.cfg', 'Topo_endpoint.cfg'] if th else
             ['Topo_slots_quick.cfg', 'Topo_shards_quick.cfg', 'Topo_endpoint.cfg'], 'parse')
    # real client against the simulated cluster: TLC-generated scenarios (results compared with the model's) + random ones,
    # every trace validated against ClusterTrace.tla.  Round 2: the redirect budget over MOVED -> retryable error -> MOVED
    # (budget), an ASK to a node the client has never heard of followed by more commands for the slot before the lazy refresh
    # (asknew), masters that own several slot ranges and a slot that is looked up by a refresh on pick (frag)
    gens = ['Gen_cluster_single.cfg', 'Gen_cluster_two.cfg', 'Gen_cluster_budget.cfg', 'Gen_cluster_asknew.cfg', 'Gen_cluster_frag.cfg']
    if th:
        cc.sim(ctx, gens, 0, 250, tracefiles=8, mc=['MC_cluster_two.cfg', 'MC_cluster_thorough.cfg'], negs=negs)
    else:
        cc.sim(ctx, gens, {'Gen_cluster_single.cfg': 60, 'Gen_cluster_two.cfg': 12, 'Gen_cluster_budget.cfg': 0, 'Gen_cluster_asknew.cfg': 24,
                           'Gen_cluster_frag.cfg': 0}, 24, focus='do,do,docache,multi', tracefiles=8, negs=negs)
    ctx.exhaustive = th      # the quick tier replays a seeded sample of the TLC-generated scenarios, the thorough tier all of them
