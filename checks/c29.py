"""C29: streaming reads deliver exact bytes and recycle connections.

The stream part of PoolSessions.tla (DoStream/DoMultiStream/WriteTo bookkeeping: n, e, clean flag, Store exactly once,
Close first when unclean, context ending before or inside pool.Acquire or between Acquire and the ctx.Err() test) is
model-checked with two concurrent stream callers; negative configs re-introduce a double Store, a missing Close and the
leak on the ctx.Err() path (DESIGN.md section 7 #12, repaired).  A generation config prints every scenario of one
caller (pool warm/cold x context position x number of commands x reply class per WriteTo) with the predicted result of
every step; sessiondrv replays them against the real client over fakeredis (bytes against what the server sent, pool
hook events for Store, a probe stream for reuse / leak) and adds seeded concurrent runs."""
import os, tempfile
from lib import vlib
from checks import sessioncommon as sc

LEVEL = 'model_checking'


def run(ctx):
    th = ctx.tier == 'thorough'
    binp = vlib.build('sessiondrv')
    bg = sc.background(ctx, [('PoolSessions', 'MC_sessions_neg_doublestore.cfg', 'StreamStoreExactlyOnce'),
                             ('PoolSessions', 'MC_sessions_neg_nocloseunclean.cfg', 'UncleanClosedBeforeStore'),
                             ('PoolSessions', 'MC_sessions_neg_ctxleak.cfg', 'StreamStoreExactlyOnce')])
    ok = ctx.run_tlc('pool', 'PoolSessions', 'MC_sessions_stream.cfg', workers=4, timeout=1500).ok
    if th:
        ok = ctx.run_tlc('pool', 'PoolSessions', 'MC_sessions_stream_thorough.cfg', workers=4, timeout=3000).ok and ok
    cfg = 'Gen_stream_thorough.cfg' if th else 'Gen_stream_quick.cfg'
    r = ctx.run_tlc('pool', 'PoolSessions', cfg, workers=1, timeout=3000, collect_cases=True)
    bg.join()
    if not r.ok:
        return
    ctx.exhaustive = ok
    fd, path = tempfile.mkstemp(prefix='verif-stream-', suffix='.ndjson', dir=vlib.SCRATCH_ROOT)
    os.close(fd)
    try:
        vlib.write_ndjson(path, r.cases)
        rep = ctx.run_driver(binp, ['-mode', 'stream', '-cases', path, '-runs', '30' if th else '6', '-workers', '6'], timeout=3000)
        if rep is not None and rep.get('evaluations', 0) < len(r.cases):
            ctx.inconclusive.append('driver evaluated %s of %d scenarios' % (rep.get('evaluations'), len(r.cases)))
    finally:
        os.unlink(path)
    ctx.extra['scenarios'] = len(r.cases)
    sc.apply_proposed_known(ctx)
