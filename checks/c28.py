"""C28 - retries happen only when safe and within policy."""
from checks import faultcommon as fc
LEVEL = 'model_checking'


def run(ctx):
    if getattr(ctx, 'replay', None):
        return fc.replay(ctx, lambda w: w not in fc.C03_WHATS, lambda w: False)
    th = ctx.tier == 'thorough'
    fc.run_tlc_many(ctx, fc.retry_model_jobs(th, 'c28'), threads=4)
    cases = fc.gen_retry_cases(ctx, 40000 if th else 8000, ctx.seed)
    sel = fc.select_retry_cases(cases, 3000 if th else 340, ctx.seed)
    # DoMulti: batches of every mix of command classes and MULTI ... EXEC blocks (whole-batch retry of the single-connection
    # wrappers, entry-by-entry retry and block redirection of the cluster wrapper)
    bcases = fc.gen_retry_cases(ctx, 20000 if th else 4000, ctx.seed, 'Gen_batch.cfg')
    sel += fc.select_retry_cases(bcases, 1500 if th else 160, ctx.seed + 2)
    verdicts, rep = fc.run_retry_scenarios(ctx, sel)
    fc.report_retry_verdicts(ctx, verdicts, lambda w: w not in fc.C03_WHATS, sel)
    ctx.extra['scenarios_generated'] = len(cases) + len(bcases)
    ctx.extra['scenarios_run'] = len(sel)
    ctx.exhaustive = False
    ctx.assumptions += [
        'fakeredis stands for the servers; a re-send is a second SRecv of the same request id; every member of a batch is judged on its own',
        'contexts are ended and Close() is called from inside the server intercept or the RetryDelay callback, which makes "before the '
        'decision" a causal fact of the trace; other placements are covered by the model only',
        'Retry.tla scenarios are drawn by TLC simulation (seeded) and chosen by strata, not exhaustively']
