"""C16 - typed reply accessors return exactly what the reply encodes (RESP2 and RESP3 reply shapes)."""
from checks import accesscommon
LEVEL = 'exploration'


def run(ctx):
    tier = 'thorough' if ctx.tier == 'thorough' else 'quick'
    # non-vacuity: first-value-wins breaks LastWins; numeric FT.SEARCH document names break Unambiguous
    accesscommon.negative(ctx, 'MC_neg_firstwins.cfg', 'LastWins')
    accesscommon.negative(ctx, 'MC_neg_ambiguous.cfg', 'Unambiguous')
    # round 2: the unsigned conversion predicted through the signed one (ParseInt and a cast) breaks NumRanges
    accesscommon.negative(ctx, 'MC_neg_u64viai64.cfg', 'NumRanges')
    r = accesscommon.generate(ctx, 'Gen_c16_%s.cfg' % tier)
    accesscommon.replay(ctx, r)
