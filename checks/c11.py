"""C11: DoMultiCache, MGetCache, JsonMGetCache and DoCache on MGET / JSON.MGET return results positionally."""
import concurrent.futures, json
from checks import cachecommon as cc
LEVEL = 'model_checking'


def run(ctx):
    th = ctx.tier == 'thorough'
    with concurrent.futures.ThreadPoolExecutor(2) as ex:
        fm = ex.submit(models, ctx, th)
        real(ctx, th)
        fm.result()
    ctx.assumptions += cc.ASSUMPTIONS


def models(ctx, th):
    jobs = [('MC_quick_c11.cfg', None), ('MC_neg_refill.cfg', 'Positional')]
    if th:
        jobs += [('MC_thorough_c11.cfg', None), ('MC_quick_c11_asis.cfg', None)]
    cc.model(ctx, jobs, workers=(6 if th else 3), par=2, timeout=(3000 if th else 900))


def product(ctx, cfg):
    """the exhaustive product of CacheCases.tla: one behaviour per (batch, kind, key states)"""
    r = cc._tlc_retry('CacheCases', cfg, workers=1, timeout=2400, collect_cases=True)
    ctx.tlc_runs.append(dict(r.summary(), cases=len(r.cases)))
    ctx.states += r.distinct
    ctx.transitions += r.generated
    if not r.ok:
        ctx.inconclusive.append('case generation cache/%s failed: %s\n%s' % (cfg, r.error, r.output[-1500:]))
    seen = {}
    for c in r.cases:
        seen.setdefault(json.dumps([c['batch'], c['kind'], c['state'], c.get('cfail', False)], sort_keys=True), c)
    out = []
    for c in seen.values():
        # round 2: 'f' = pending by another caller whose request fails; -cf = the batch's own first transaction is aborted
        out.append(dict(name='c11-%s-%s-%s%s' % (c['kind'], ''.join(k[1] for k in c['batch']),
                                               ''.join(('f' if c['state'][k] == 'pfail' else c['state'][k][0]) for k in sorted(c['state'])),
                                               '-cf' if c.get('cfail') else ''),
                        steps=c['steps'], failing=bool(c.get('cfail') or 'pfail' in c['state'].values())))
    ctx.exhaustive = bool(r.ok)
    return out


def real(ctx, th):
    R = cc.Runner(ctx)
    try:
        with concurrent.futures.ThreadPoolExecutor(2) as ex:
            fp = ex.submit(product, ctx, 'Cases_c11.cfg' if th else 'Cases_c11_quick.cfg')
            fh = ex.submit(cc.generate, ctx, 'Gen_c11_h.cfg', 'c11-h', simulate=(600 if th else 80))
            cases, hcases = fp.result(), [c for c in fh.result() if cc.interesting(c)]
        # the cases with a failing flight are replayed on the single-wire client with both stores (the failure is
        # injected into the next cacheable command the server receives, whatever the wire); the others everywhere
        allcases, cases = cases, [c for c in cases if not c.get('failing')]
        failing = [c for c in allcases if c.get('failing')]
        multi = [c for c in cases if all(s.get('kind') != 'mget' for s in c['steps'])]
        if not th:
            hcases = hcases[:40]
        mr = None if th else 20
        plan = [
            (cases, dict(store='lru', max_runs=mr)),
            (cases, dict(store='adapter', max_runs=mr)),
            (failing, dict(store='lru', max_runs=mr)),
            (failing, dict(store='adapter', max_runs=mr)),
            (multi, dict(store='lru', api='helper')),                       # MGetCache
            (cases, dict(store='lru', flavor='json')),                      # JSON.GET / JSON.MGET
            (multi, dict(store='adapter', flavor='json', api='helper')),    # JsonMGetCache
            (multi, dict(store='lru', client='mux')),                       # PipelineMultiplex 1: two wires
            (multi, dict(store='adapter', client='mux', api='helper')),
            (multi, dict(store='lru', client='cluster')),                   # two scripted nodes
            (multi, dict(store='lru', flavor='static')),                    # ToStaticTTL: [opt-in, cmd] wire, all-or-nothing
            (hcases, dict(store='lru', max_runs=(mr and 10))),                       # two cacheable commands per key
            (cases if th else cases[1::3], dict(store='adapter', tmode='optout')),
        ]
        if th:   # BCAST has its own product: every write is reported, the predicted frames differ
            plan.append((product(ctx, 'Cases_c11_bcast.cfg'), dict(store='lru', tmode='bcast')))
        # quick: the traces of the groups that name max_runs are validated (every run is compared with its prediction anyway)
        with concurrent.futures.ThreadPoolExecutor(3) as ex:
            list(ex.map(lambda p: R.scen(p[0], 'c11', par=12, validate=((th or 'max_runs' in p[1]) and p[1].get('api') != 'helper'),
                                         **p[1]), plan))
        R.validate(par=4)
    finally:
        R.close()
