"""C07 - cached replies expire at the earlier of client and server TTL (lru.go, cache.go adapter, message.go accessors,
and end to end through the real client over fakeredis): see checks/storecommon.py."""
from checks import storecommon
LEVEL = 'model_checking'


def run(ctx):
    storecommon.run(ctx, 'expiry')
