"""C07 - cached replies expire at the earlier of client and server TTL (lru.go, cache.go adapter, message.go accessors,
end to end through the real client over fakeredis, and the PTTL probe / reader rule between store and server
(CacheFill.tla cases with scripted PTTL answers)): see checks/storecommon.py."""
from checks import storecommon
LEVEL = 'model_checking'


def run(ctx):
    storecommon.run(ctx, 'expiry')
