"""C23: sentinel clients follow the current master.  (VERIF_SKIP_MODEL=1 skips the pure TLC runs: mutation self-tests only.)
Sentinel.tla (detailed model of _refresh / _switchTarget / the Pub/Sub callback and of the environment) is model-checked
with positive, negative and liveness configs; TLC-generated, canonical and seeded random scenarios are run against the
real sentinel client on fakeredis; every recorded trace is validated against SentinelTrace.tla (SentinelCore.tla)."""
import os, threading
from checks import sentinelcommon as sc
LEVEL = 'model_checking'


def run(ctx):
    th = ctx.tier == 'thorough'
    # the model runs do not depend on the real-code runs: overlap them (JVM start-up dominates the small configs)
    t = threading.Thread(target=sc.run_tlc_many, args=(ctx, [] if os.environ.get('VERIF_SKIP_MODEL') else sc.sentinel_model_jobs(th)), kwargs=dict(parallel=4))
    t.start()
    try:
        sc.drive_sentinel(ctx, th)
    finally:
        t.join()
