"""Non-cluster part of C21 (standalone-with-replicas and sentinel clients): commands reach replicas only when the
caller opted in.  checks/c21.py (cluster family) runs run(ctx) beside the cluster part; `bin/check C21_nocluster` runs it alone."""
import os, threading
from checks import sentinelcommon as sc
LEVEL = 'model_checking'


def run(ctx):
    th = ctx.tier == 'thorough'
    t = threading.Thread(target=sc.run_tlc_many, args=(ctx, [] if os.environ.get('VERIF_SKIP_MODEL') else sc.routing_model_jobs()), kwargs=dict(parallel=3))
    t.start()
    try:
        sc.drive_routing(ctx, th)
    finally:
        t.join()
    # the same routing rule while the sentinel client switches masters and replicas (SentinelTrace.tla computes the
    # class of every call from the SendToReplicas values the driver logged)
    sc.drive_sentinel(ctx, th, light=True)
    ctx.assumptions += ['cluster part of C21 is checked by the cluster family (checks/c21.py)']
