"""C46 Scanner: Scanner.tla state machine, every behaviour replayed on the real Scanner with a scripted next."""
from checks import purecommon as pc
LEVEL = 'model_checking'


def run(ctx):
    th = ctx.tier == 'thorough'
    # the generation run is the exhaustive model-checking run: all invariants are evaluated on every state and
    # every finished behaviour is printed
    # (two bounds: up to 2 (3) live pages of 0..3 elements, and up to 1 (2) live pages of 0..5 (0..6) elements)
    res = pc.run_tlc_jobs(ctx,
        pc.generate('Scanner', 'Scanner_thorough.cfg' if th else 'Scanner_quick.cfg', min_cases=1000),
        pc.generate('Scanner', 'Scanner_thorough_wide.cfg' if th else 'Scanner_quick_wide.cfg', min_cases=1000),
        pc.negative('Scanner', 'Scanner_neg_fetchafterstop.cfg', 'NoFetchAfterStop'),
        pc.negative('Scanner', 'Scanner_neg_stoponempty.cfg', 'Complete'),
        pc.negative('Scanner', 'Scanner_neg_ignorecursor.cfg', 'CursorChain'))
    if res[0] is None or res[1] is None:
        return
    cases = res[0] + res[1]
    rep = pc.drive(ctx, 'scanner', cases)
    ctx.exhaustive = rep is not None and rep.get('traces') == len(cases)
    ctx.assumptions += ['one iteration per Scanner; `next` is scripted by call index, the cursor it receives is recorded']
