"""C13 - RESP decoding rejects malformed input without panic, fatal error or unbounded allocation."""
from checks import respcommon
LEVEL = 'exploration'


def run(ctx):
    # mutations of base replies, nesting depth, and (as byte sequences a peer can send) the well-formed leaf / long cases;
    # 'alloc' (round 2): spec/data/RespAlloc.tla - an oversized declared length followed by a partially delivered body, with
    # the allocation the rule AllocBounded permits for the bytes received; its two negative configs re-introduce
    # "allocate the declared length on the header" and "extend to the declared length once the first window is full"
    tier = 'thorough' if ctx.tier == 'thorough' else 'quick'
    respcommon.run(ctx, 'c13', ['mut', 'deep', 'leaves', 'long', 'alloc'],
                   ['MC_neg_mapcount.cfg',
                    ('RespAlloc', 'Alloc_neg_growtodeclared.cfg', 'AllocBounded'),
                    ('RespAlloc', 'Alloc_neg_prealloc.cfg', 'AllocBounded'),
                    ('RespAlloc', 'Alloc_%s.cfg' % tier, None)])
