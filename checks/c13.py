"""C13 - RESP decoding rejects malformed input without panic, fatal error or unbounded allocation."""
from checks import respcommon
LEVEL = 'exploration'


def run(ctx):
    # mutations of base replies, nesting depth, and (as byte sequences a peer can send) the well-formed leaf / long cases
    respcommon.run(ctx, 'c13', ['mut', 'deep', 'leaves', 'long'], ['MC_neg_mapcount.cfg'])
