"""C12 / C13 / C14 / C17: spec/data/Resp.tla is the RESP grammar and the oracle, RespGen.tla enumerates the cases with TLC
(one state per case, printed as CASE records that carry the inputs and the predicted outcome), harness/cmd/respdrv expands
the tokens to bytes and applies them to the real reader / writer / cache serialization in child processes."""
import json, os, shutil, tempfile
from concurrent.futures import ThreadPoolExecutor
from lib import vlib

FAMILY, MODULE = 'data', 'RespGen'
TLC_TIMEOUT = 2400


def negatives(ctx, which):
    """The self-consistency invariant of the specification (reference decoder reads every encoding back to the expected
    tree) is not vacuous: each re-introduced specification defect breaks it."""
    for cfg in which:
        ctx.run_tlc(FAMILY, MODULE, cfg, expect_violation='RoundTrip', workers=2, timeout=TLC_TIMEOUT)


def generate(ctx, modes, out_path):
    """Run the generation configs of the given modes (in parallel, each with one worker as CASE output requires) and write
    all records to out_path. Every generation run also checks RoundTrip / MutantsRejected / CmdRoundTrip on its states."""
    tier = 'thorough' if ctx.tier == 'thorough' else 'quick'

    def one(mode):
        return mode, vlib.tlc(FAMILY, MODULE, 'Gen_%s_%s.cfg' % (mode, tier), workers=1, timeout=TLC_TIMEOUT, collect_cases=True,
                              seed=ctx.seed)  # -seed drives RandomSubset: the sampled part of the case set follows VERIF_SEED

    with ThreadPoolExecutor(max_workers=4) as ex:
        results = list(ex.map(one, modes))
    n = 0
    complete = True
    with open(out_path, 'w') as f:
        for mode, r in results:
            ctx.tlc_runs.append(dict(r.summary(), cases=len(r.cases)))
            ctx.states += r.distinct
            ctx.transitions += r.generated
            if not r.ok:
                complete = False
                ctx.inconclusive.append('TLC %s Gen_%s_%s.cfg: violated=%s error=%s\n%s' % (MODULE, mode, tier, r.violated, r.error, r.output[-2500:]))
            for c in r.cases:
                f.write(json.dumps(c, separators=(',', ':')) + '\n')
                n += 1
    return n, complete


def run(ctx, check, modes, negs, par=4, sampled=()):
    binp = vlib.build('respdrv')
    if not (os.environ.get('VERIF_RESP_CASES') and os.environ.get('VERIF_RESP_SKIP_NEG')):
        negatives(ctx, negs)
    tmp = tempfile.mkdtemp(prefix='verif-resp-', dir=vlib.SCRATCH_ROOT)
    try:
        path = os.path.join(tmp, 'cases.ndjson')
        # development aid (mutation self-tests): VERIF_RESP_CASES=<dir> keeps / reuses the TLC output per (check, tier, seed)
        cache = os.environ.get('VERIF_RESP_CASES')
        cached = cache and os.path.join(cache, '%s-%s-%d.ndjson' % (check, ctx.tier, ctx.seed))
        if cached and os.path.exists(cached):
            shutil.copy(cached, path)
            n, complete = sum(1 for _ in open(path)), False
            ctx.notes.append('cases reused from ' + cached)
        else:
            n, complete = generate(ctx, modes, path)
            if cached and complete:
                os.makedirs(cache, exist_ok=True)
                shutil.copy(path, cached)
        if n == 0:
            ctx.inconclusive.append('TLC generated no cases for %s' % check)
            return
        rep = ctx.run_driver(binp, ['-check', check, '-cases', path, '-par', str(par)], timeout=3000)
        # exhaustive within the stated bounds: TLC finished every generation run and every case was executed
        ctx.exhaustive = bool(not sampled and complete and rep and not rep.get('inconclusive') and rep.get('extra', {}).get('cases') == n)
        ctx.extra['cases_generated'] = n
        if sampled:
            ctx.extra['sampled'] = 'modes %s add a seeded random sample (TLC RandomSubset, -seed = VERIF_SEED) of the next larger tree set to the exhaustive part' % ', '.join(sampled)
        ctx.extra['bounds'] = 'see spec/data/RespGen.tla: Gen_<mode>_%s.cfg for modes %s' % (ctx.tier, ', '.join(modes))
    finally:
        shutil.rmtree(tmp, ignore_errors=True)
    ctx.assumptions += [
        'class coverage of a grammar model (type bytes, forms, payload classes, length classes), not all byte sequences',
        'TLC enumerates the cases; the expected outcome of every case is computed by the TLA+ operators Expected / StreamExpected / the mutation class / EncodeCmd',
    ]
