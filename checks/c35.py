"""C35: see checks/bloomcommon.py (Bloom.tla + BloomCfg.tla, bloomdrv)."""
from checks import bloomcommon
LEVEL = 'model_checking'


def run(ctx):
    bloomcommon.run(ctx, 'C35')
