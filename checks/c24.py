from checks import poolcommon
LEVEL = 'model_checking'

def run(ctx):
    th = ctx.tier == 'thorough'
    poolcommon.model(ctx, th)
    poolcommon.drive(ctx, th)
