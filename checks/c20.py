"""C20 - cluster batches keep order and transaction integrity (and the decision of DESIGN.md section 7 #14)."""
from checks import clustercommon as cc
LEVEL = 'model_checking'


def run(ctx):
    th = ctx.tier == 'thorough'
    negs = {'MC_cluster_neg_order.cfg': 'BatchOrder', 'MC_cluster_neg_txnomulti.cfg': 'TxResentWhole', 'MC_cluster_neg_denied.cfg': 'NoResendAfterDenied',
            # round 2: the transaction flag lost on the refresh-on-pick path / on the ASK sub-batch, a pooled retry object that keeps
            # the length of its ASK index list
            'MC_cluster_neg_refreshinit.cfg': 'TxResentWhole', 'MC_cluster_neg_askrun.cfg': 'TxResentWhole', 'MC_cluster_neg_pool.cfg': 'BatchOrder',
            # a block sent again after its replies were lost with the connection (doresultfn before fix 173cee7)
            'MC_cluster_neg_txloss.cfg': 'TxResentWhole'}
    # round 2: inittx = transactions whose slot is found by a refresh on pick and which are redirected in the same DoMulti;
    # hop = two-hop redirects (ASK -> MOVED by the ASK target, MOVED -> ASK); pool = two batches in a row on one client with
    # ASK-redirected members at several positions (the retry bookkeeping objects are pooled)
    gens = ['Gen_cluster_batch.cfg', 'Gen_cluster_tx.cfg', 'Gen_cluster_denied.cfg', 'Gen_cluster_inittx.cfg', 'Gen_cluster_hop.cfg', 'Gen_cluster_pool.cfg']
    if th:
        cc.sim(ctx, gens, 0, 250, focus='multi,multi,multicache', tracefiles=8, mc=['MC_cluster_thorough.cfg', 'MC_cluster_txloss.cfg'], negs=negs)
    else:
        cc.sim(ctx, gens, {'Gen_cluster_batch.cfg': 30, 'Gen_cluster_tx.cfg': 30, 'Gen_cluster_denied.cfg': 12, 'Gen_cluster_inittx.cfg': 30,
                           'Gen_cluster_hop.cfg': 30, 'Gen_cluster_pool.cfg': 40}, 24, focus='multi,multi,multicache', tracefiles=8, mc=['MC_cluster_txloss.cfg'], negs=negs)
    ctx.exhaustive = th      # the quick tier replays a seeded sample of the TLC-generated scenarios, the thorough tier all of them
