"""C20 - cluster batches keep order and transaction integrity (and the decision of DESIGN.md section 7 #14)."""
from checks import clustercommon as cc
LEVEL = 'model_checking'


def run(ctx):
    th = ctx.tier == 'thorough'
    cc.model(ctx, ['MC_cluster_thorough.cfg'] if th else [],
             {'MC_cluster_neg_order.cfg': 'BatchOrder', 'MC_cluster_neg_txnomulti.cfg': 'TxResentWhole', 'MC_cluster_neg_denied.cfg': 'NoResendAfterDenied'})
    gens = ['Gen_cluster_batch.cfg', 'Gen_cluster_tx.cfg', 'Gen_cluster_denied.cfg']
    if th:
        cc.sim(ctx, gens, 0, 250, focus='multi,multi,multicache', tracefiles=8)
    else:
        cc.sim(ctx, gens, {'Gen_cluster_batch.cfg': 40, 'Gen_cluster_tx.cfg': 40, 'Gen_cluster_denied.cfg': 12}, 24, focus='multi,multi,multicache', tracefiles=4)
    ctx.exhaustive = th      # the quick tier replays a seeded sample of the TLC-generated scenarios, the thorough tier all of them
