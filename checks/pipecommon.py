"""C01 / C33 / C26 / C27: the auto-pipelined connection as seen from outside.
PipeScenario.tla (exhaustive small model over the trace alphabet, negative configs, scenario generation),
harness/cmd/pipedrv (real client over fakeredis, traces), PipeTrace.tla (trace validation with the invariants of
PipeObs.tla), Builder.tla (C33 a).  See design/pipeobs.md."""
import concurrent.futures, glob, hashlib, json, os, random, re, shutil, tempfile
from lib import vlib

FAMILY = 'pipe'
ALL_INV = ('TypeOK OwnRepliesInOrder NoReplyFromFuture BatchContiguousOnWire NoSpuriousError AllReturnedAtQuiesce ArgvImmutable '
           'PubSubOrder ReceiveReturn ReceiveEndsByItself HookOrder HookClosedOnce InvalidationLog LossNilOnce TrackingOffOnRelease').split()

PROPS = {
    'C01': ['OwnRepliesInOrder', 'NoReplyFromFuture', 'BatchContiguousOnWire', 'NoSpuriousError', 'AllReturnedAtQuiesce'],
    'C33': ['ArgvImmutable', 'BatchContiguousOnWire'],
    'C26': ['PubSubOrder', 'ReceiveReturn', 'ReceiveEndsByItself', 'HookOrder', 'HookClosedOnce', 'OwnRepliesInOrder', 'AllReturnedAtQuiesce'],
    'C27': ['InvalidationLog', 'LossNilOnce', 'TrackingOffOnRelease'],
}


# ------------------------------------------------------------------------------------------------- TLC on the model
def tlc_jobs(ctx, jobs, par=3):
    """jobs: dicts(module, cfg, expect=None, workers=2, timeout=900). Runs them a few at a time (JVM start-up dominates on a
    loaded machine) and books them like Ctx.run_tlc."""
    def one(j):
        return j, vlib.tlc(FAMILY, j.get('module', 'PipeScenario'), j['cfg'], workers=j.get('workers', 2), timeout=j.get('timeout', 900))
    with concurrent.futures.ThreadPoolExecutor(max_workers=par) as ex:
        results = list(ex.map(one, jobs))
    for j, r in results:
        ctx.tlc_runs.append(r.summary())
        ctx.states += r.distinct
        ctx.transitions += r.generated
        exp = j.get('expect')
        if exp is not None:
            if r.violated != exp:
                ctx.inconclusive.append('negative config %s: expected violation of %s, got %s %s' % (j['cfg'], exp, r.violated, r.error or ''))
        elif not r.ok:
            ctx.inconclusive.append('TLC %s %s: violated=%s error=%s\n%s' % (j.get('module', 'PipeScenario'), j['cfg'], r.violated, r.error, r.output[-2500:]))
    return results


def scenarios(ctx, cfg, limit, flt=None):
    """Scenario scripts printed by PipeScenario.tla under a Gen*.cfg. The generation does not depend on the library, only on the
    specification: its output is cached under .build keyed by the hash of the modules and the config."""
    h = hashlib.sha256()
    for f in ['PipeObs.tla', 'PipeScenario.tla', cfg]:
        h.update(open(os.path.join(vlib.SPEC, FAMILY, f), 'rb').read())
    os.makedirs(vlib.BUILD, exist_ok=True)
    cache = os.path.join(vlib.BUILD, 'pipe-scen-%s-%s.json' % (cfg.replace('.cfg', ''), h.hexdigest()[:16]))
    if os.path.exists(cache):
        data = json.load(open(cache))
        ctx.tlc_runs.append(dict(data['summary'], cached=True))
    else:
        r = vlib.tlc(FAMILY, 'PipeScenario', cfg, workers=1, timeout=1500, collect_cases=True)
        if not r.ok:
            ctx.inconclusive.append('scenario generation %s failed: %s %s\n%s' % (cfg, r.violated, r.error, r.output[-1500:]))
            return []
        seen, scripts = set(), []
        for c in r.cases:
            k = json.dumps(c, sort_keys=True)
            if k not in seen:
                seen.add(k)
                scripts.append(c)
        data = dict(summary=r.summary(), scripts=scripts)
        json.dump(data, open(cache, 'w'))
        ctx.tlc_runs.append(r.summary())
        ctx.states += r.distinct
        ctx.transitions += r.generated
    scripts = [s for s in data['scripts'] if flt is None or flt(s)]
    ctx.extra.setdefault('scenario_scripts_generated', {})[cfg] = len(scripts)
    rng = random.Random(ctx.seed * 7919 + len(cfg))
    rng.shuffle(scripts)
    return scripts[:limit] if limit else scripts


# ------------------------------------------------------------------------------------------------- driver + trace validation
def hook_cases(ctx, cfg):
    """Call sequences on a dedicated client with the predictions of HookSeq.tla (depends on the specification only: cached)."""
    h = hashlib.sha256()
    for f in ['HookSeq.tla', cfg]:
        h.update(open(os.path.join(vlib.SPEC, FAMILY, f), 'rb').read())
    os.makedirs(vlib.BUILD, exist_ok=True)
    cache = os.path.join(vlib.BUILD, 'pipe-hookseq-%s-%s.json' % (cfg.replace('.cfg', ''), h.hexdigest()[:16]))
    if os.path.exists(cache):
        data = json.load(open(cache))
        ctx.tlc_runs.append(dict(data['summary'], cached=True))
    else:
        r = vlib.tlc(FAMILY, 'HookSeq', cfg, workers=1, timeout=1500, collect_cases=True)
        if not r.ok or not r.cases:
            ctx.inconclusive.append('HookSeq.tla generation %s failed: %s %s\n%s' % (cfg, r.violated, r.error, r.output[-1500:]))
            return []
        data = dict(summary=r.summary(), cases=r.cases)
        json.dump(data, open(cache, 'w'))
        ctx.tlc_runs.append(r.summary())
        ctx.states += r.distinct
        ctx.transitions += r.generated
    ctx.extra['hookseq_cases'] = len(data['cases'])
    return data['cases']


def drive(ctx, modes, runs, cfgs, scripts, tracedir, hookcases=None):
    binp = vlib.build('pipedrv')
    args = ['-modes', ','.join(modes), '-runs', str(runs), '-cfgs', cfgs, '-tracedir', tracedir]
    if hookcases:
        hp = os.path.join(tracedir, 'hookcases.json')
        vlib.write_ndjson(hp, hookcases)
        args += ['-hookcases', hp]
    if scripts:
        sp = os.path.join(tracedir, 'scenarios.json')
        with open(sp, 'w') as f:
            for s in scripts:
                f.write(json.dumps(s) + '\n')
        args += ['-scenarios', sp]
    return ctx.run_driver(binp, args, timeout=3000)


def _trace_cfg(props, path):
    tmpl = open(os.path.join(vlib.SPEC, FAMILY, 'Trace.cfg.tmpl')).read()
    open(path, 'w').write(tmpl.replace('%PROPS%', ', '.join('"%s"' % p for p in ['TypeOK'] + props)))


_VIOL = re.compile(r'<<\s*"VIOLATED",\s*\{([^}]*)\},\s*(\d+),', re.S)
_REJ = re.compile(r'<<\s*"REJECTED-AT",\s*(\d+),', re.S)


def _context(events, pos):
    """mode, event kind and call kind around trace position pos (1-based)."""
    i = pos - 1
    if i < 0 or i >= len(events):
        return 'unknown', 'unknown', '', []
    start = max([j for j in range(i + 1) if events[j]['ev'] == 'RESET'] or [0])
    mode = events[start].get('kind', '').split('/')[-1]
    e = events[i]
    ckind = ''
    if e['ev'] in ('Ret', 'RecvCb', 'Cancel'):
        for x in events[start:i]:
            if x['ev'] == 'Call' and x['c'] == e['c']:
                ckind = x['kind']
    elif e['ev'] == 'SRecv':
        ckind = (e['cmds'][0] or ['?'])[0]
    return mode, e['ev'], ckind, events[start:i + 1]


def _early_unsubscribe(run, whole=None):
    """The last event of `run` is the Ret (nil) of a Receive (`whole`: the complete run, `run` is its prefix up to that
    Ret).  True when an unsubscribe push for one of its channels was
    queued by the server after the Receive was called but before the server received its SUBSCRIBE: pipe.go registers
    the subscriber before the command is written and treats every unsubscribe notification of the channel alike, so the
    older notification ends the newer Receive (known finding, see known_findings.json)."""
    ret = run[-1]
    c = ret.get('c')
    call = next((k for k, e in enumerate(run) if e['ev'] == 'Call' and e.get('c') == c), None)
    if call is None:
        return False
    cid = (run[call].get('ids') or [''])[0]
    chans = set((run[call].get('cmds') or [[]])[0][1:])
    recv = next((k for k, e in enumerate(run) if e['ev'] == 'SRecv' and cid in (e.get('ids') or [])), len(run))
    def unsub(e):
        return e['ev'] == 'SPush' and e.get('kind', '').endswith('unsubscribe') and e.get('chan') in chans
    early = any(unsub(e) for e in run[call:recv])
    if not early:
        # the notification may even be older than the call, as long as the client's reader had not finished with it:
        # witnessed by an earlier Receive on that channel that returned only after this one was called
        for k, e in enumerate(run[:call]):
            if unsub(e):
                full = whole or run
                for c2 in set(x.get('c') for x in run[:call] if x['ev'] == 'Call' and x.get('kind') == 'sub' and x.get('c') != c):
                    # (the older Receive may return even later than this one: look at the whole run; one that never
                    # returned had not been ended by the push either when this one was called)
                    r2 = next((j for j, x in enumerate(full) if x['ev'] == 'Ret' and x.get('c') == c2), None)
                    if r2 is None or r2 > call:
                        early = True
    late = any(unsub(e) for e in run[recv:])
    return early and not late


def run_trace(ctx, path, props, timeout=2400):
    """Validate one ndjson file. Returns (ok, violated props, position, tlc result)."""
    d = tempfile.mkdtemp(prefix='verif-pipecfg-', dir=vlib.SCRATCH_ROOT)
    try:
        cfgp = os.path.join(d, 'Trace_run.cfg')
        _trace_cfg(props, cfgp)
        r = vlib.tlc(FAMILY, 'PipeTrace', 'Trace_run.cfg', workers=1, timeout=timeout, files=[cfgp], env={'VERIF_TRACE': path})
    finally:
        shutil.rmtree(d, ignore_errors=True)
    ctx.states += r.distinct
    ctx.transitions += r.generated
    if r.ok:
        # the postcondition holds: some resolution of the nondeterminism (which connection an invalidation callback
        # belongs to) explains the whole trace; VIOLATED lines of abandoned alternatives do not count
        return True, [], 0, r
    ms = list(_VIOL.finditer(r.output))
    if ms:
        m = max(ms, key=lambda x: int(x.group(2)))   # the alternative that got furthest
        names = sorted(re.findall(r'"(\w+)"', m.group(1)))
        return False, names, int(m.group(2)), r
    m = _REJ.search(r.output)
    if m:
        return False, [], int(m.group(1)), r
    return r.ok, [], 0, r


def validate(ctx, tracedir, props):
    """All traces of the run in one TLC batch. A violated invariant is behaviour of the real client that the specification forbids."""
    files = sorted(glob.glob(os.path.join(tracedir, 'pipe-*.ndjson')))
    if not files:
        ctx.inconclusive.append('the driver recorded no trace')
        return None
    allp = os.path.join(tracedir, 'all.ndjson')
    with open(allp, 'w') as out:
        for f in files:
            out.write(open(f).read())
    events = [json.loads(l) for l in open(allp)]
    all_events = events
    clean = True
    # A violating run is reported and removed, and the remaining runs are validated again, so that one violation
    # (in particular a known finding) does not hide what the other runs show.
    for _round in range(8):
        ok, names, pos, r = run_trace(ctx, allp, props)
        ctx.tlc_runs.append(dict(r.summary(), trace_events=len(events), runs=sum(1 for e in events if e['ev'] == 'RESET')))
        if ok:
            return all_events if clean else None
        if names:
            clean = False
            mode, ev, ckind, prefix = _context(events, pos)
            _i = pos - 1
            _start = max([j for j in range(_i + 1) if events[j]['ev'] == 'RESET'] or [0])
            _end = next((j for j in range(_i + 1, len(events)) if events[j]['ev'] == 'RESET'), len(events))
            whole = events[_start:_end]
            keep = os.path.join(vlib.VERIF, 'replays', ctx.pid)
            os.makedirs(keep, exist_ok=True)
            dst = os.path.join(keep, 'trace-%s-%s.ndjson' % (names[0], mode))
            vlib.write_ndjson(dst, prefix)
            for n in names:
                sig = 'pipe-trace:%s:ev=%s:kind=%s:mode=%s' % (n, ev, ckind, mode)
                if n == 'ReceiveReturn' and _early_unsubscribe(prefix, whole):
                    sig += ':race=unsubscribe-push-older-than-own-subscribe'
                ctx.violation(sig,
                              'the recorded behaviour of the real client violates %s of PipeObs.tla at record #%d (%s, run of mode %s): %s' % (
                                  n, pos, ev, mode, json.dumps(events[pos - 1])[:600]), dict(trace=dst, props=props))
            # drop the violating run and go on with the rest
            i = pos - 1
            start = max([j for j in range(i + 1) if events[j]['ev'] == 'RESET'] or [0])
            end = next((j for j in range(i + 1, len(events)) if events[j]['ev'] == 'RESET'), len(events))
            events = events[:start] + events[end:]
            if not any(e['ev'] == 'RESET' for e in events):
                return None
            vlib.write_ndjson(allp, events)
            continue
        if pos:
            mode, ev, ckind, _ = _context(events, pos)
            ctx.inconclusive.append('trace record #%d (%s, mode %s) is not accepted by any action of PipeTrace.tla (malformed or out-of-order log, '
                                    'not a verdict about the client): %s\n%s' % (pos, ev, mode, json.dumps(events[pos - 1])[:400], r.output[-800:]))
        else:
            ctx.inconclusive.append('trace validation did not run to the end: %s\n%s' % (r.error, r.output[-1500:]))
        return None
    return None


# ------------------------------------------------------------------------------------------------- negative traces
def _runs(events):
    out, cur = [], []
    for e in events:
        if e['ev'] == 'RESET' and cur:
            out.append(cur)
            cur = []
        cur.append(e)
    if cur:
        out.append(cur)
    return out


def _mut_swap_results(run):
    idx = [i for i, e in enumerate(run) if e['ev'] == 'Ret' and len(e['vals']) == 1 and e['vals'][0] not in ('', 'nil') and not e['vals'][0].startswith('!')]
    vals = {}
    for i in idx:
        vals.setdefault(run[i]['vals'][0], i)
    if len(vals) < 2:
        return None
    a, b = sorted(vals.values())[:2]
    run = [dict(e) for e in run]
    run[a]['vals'], run[b]['vals'] = run[b]['vals'], run[a]['vals']
    return run


def _mut_drop_ret(run):
    idx = [i for i, e in enumerate(run) if e['ev'] == 'Ret']
    return [e for i, e in enumerate(run) if i != idx[len(idx) // 2]] if idx else None


def _mut_argv(run):
    idx = [i for i, e in enumerate(run) if e['ev'] == 'SRecv' and e['ids'][0] and e['cmds'][0][0] == 'VTAG']
    if not idx:
        return None
    run = [json.loads(json.dumps(e)) for e in run]
    run[idx[len(idx) // 2]]['cmds'][0][2] = 'recycled'
    return run


def _mut_drop_callback(run):
    cbs = [i for i, e in enumerate(run) if e['ev'] == 'RecvCb']
    for n, i in enumerate(cbs):
        if any(run[j]['c'] == run[i]['c'] for j in cbs[n + 1:]):
            return [e for k, e in enumerate(run) if k != i]
    return None


def _mut_nil_return(run):
    subs = {e['c'] for e in run if e['ev'] == 'Call' and e['kind'] == 'sub'}
    if any(e['ev'] == 'SPush' and 'unsubscribe' in e['kind'] for e in run):
        return None
    for i, e in enumerate(run):
        if e['ev'] == 'Ret' and e['c'] in subs and e['vals'] == ['!ctx']:
            run = [dict(x) for x in run]
            run[i]['vals'] = ['nil']
            return run
    return None


def _mut_drop_loss_nil(run):
    if not any(e['ev'] == 'SCut' for e in run):
        return None
    q = [i for i, e in enumerate(run) if e['ev'] == 'Quiesce']
    idx = [i for i, e in enumerate(run) if e['ev'] == 'InvalCb' and e['vals'] == ['nil'] and q and i < q[0]]
    return [e for i, e in enumerate(run) if i != idx[-1]] if idx else None


def _mut_dup_inval(run):
    idx = [i for i, e in enumerate(run) if e['ev'] == 'InvalCb' and e['vals'] != ['nil']]
    if not idx:
        return None
    i = idx[0]
    return run[:i + 1] + [dict(run[i])] + run[i + 1:]


def _mut_tracking_on(run):
    for i, e in enumerate(run):
        if e['ev'] == 'SRecv' and e['cmds'][0] == ['CLIENT', 'TRACKING', 'OFF'] and any(x['ev'] == 'Call' and x['sess'] > 1 for x in run[i:]):
            run = [json.loads(json.dumps(x)) for x in run]
            run[i]['cmds'][0] = ['CLIENT', 'TRACKING', 'ON']
            return run
    return None


def _mut_hook_not_closed(run):
    idx = [i for i, e in enumerate(run) if e['ev'] == 'HookClosed']
    return [e for i, e in enumerate(run) if i != idx[-1]] if idx else None


MUTATIONS = {
    'swap-results': (_mut_swap_results, 'OwnRepliesInOrder'),
    'drop-return': (_mut_drop_ret, 'AllReturnedAtQuiesce'),
    'recycled-argv': (_mut_argv, 'ArgvImmutable'),
    'drop-callback': (_mut_drop_callback, 'PubSubOrder'),
    'nil-return-without-unsubscribe': (_mut_nil_return, 'ReceiveReturn'),
    'hook-channel-not-closed': (_mut_hook_not_closed, 'HookClosedOnce'),
    'drop-loss-nil': (_mut_drop_loss_nil, 'LossNilOnce'),
    'duplicate-invalidation': (_mut_dup_inval, 'InvalidationLog'),
    'tracking-left-on': (_mut_tracking_on, 'TrackingOffOnRelease'),
}


def negative_traces(ctx, events, names, props):
    """Non-vacuity of the trace path: a recorded (accepted) run is damaged the way a defect of the client would damage it and
    PipeTrace.tla must name the invariant. A miss is a defect of the machinery: inconclusive."""
    if not events:
        return
    runs = _runs(events)
    d = tempfile.mkdtemp(prefix='verif-pipeneg-', dir=vlib.SCRATCH_ROOT)
    try:
        jobs = []
        for name in names:
            fn, want = MUTATIONS[name]
            bad = None
            for run in runs:
                bad = fn(run)
                if bad:
                    break
            if not bad:
                ctx.notes.append('negative trace %s: no recorded run offers the needed events' % name)
                continue
            p = os.path.join(d, name + '.ndjson')
            vlib.write_ndjson(p, bad)
            jobs.append((name, want, p))

        def one(j):
            return j, run_trace(ctx, j[2], props, timeout=900)
        with concurrent.futures.ThreadPoolExecutor(max_workers=3) as ex:
            for (name, want, _), (ok, got, pos, r) in ex.map(one, jobs):
                ctx.tlc_runs.append(dict(r.summary(), negative_trace=name, reported=got))
                if want not in got:
                    ctx.inconclusive.append('negative trace %s: expected %s to be reported, got %s (accepted=%s)\n%s' % (name, want, got, ok, r.output[-600:]))
    finally:
        shutil.rmtree(d, ignore_errors=True)


ASSUMPTIONS = [
    'fakeredis stands for Redis; a reply frame answers the oldest received command that expects one; SUBSCRIBE-type commands are answered by push frames only',
    'the wire form of cached reads (CLIENT CACHING YES, MULTI, PTTL, cmd, EXEC / 2-stride for ToStaticTTL / MGET form) and the PING behind UNSUBSCRIBE are written into PipeObs.tla (Wire) as protocol facts',
    'schedules are perturbed (seeds, reply holds, write gates, TLC scenario scripts), not enumerated; DisableRetry is on, connection lifetime off',
]


def run_family(ctx, pid, mc, negs, gens, modes, neg_traces, runs_quick, runs_thorough, builder=False, hookseq=False):
    th = ctx.tier == 'thorough'
    jobs = [dict(cfg=c) for c in mc] + [dict(cfg=n[0], expect=n[1]) for n in negs if th or len(n) < 3]   # (cfg, inv, 'th'): thorough only
    hcases = []
    if hookseq:
        # the life cycle of the SetPubSubHooks channels over call sequences (HookSeq.tla): exhaustive model, the negative
        # configurations, and the generated sequences with their predictions for mode hookseq of the driver
        jobs += [dict(module='HookSeq', cfg='HookSeq_MC.cfg'),
                 dict(module='HookSeq', cfg='HookSeq_neg_keepparked.cfg', expect='NoDoubleClose'),
                 dict(module='HookSeq', cfg='HookSeq_neg_noclose.cfg', expect='OpenIsWanted')]
        if th:
            jobs += [dict(module='HookSeq', cfg='HookSeq_neg_keepparked2.cfg', expect='InstalledIsWanted'),
                     dict(module='HookSeq', cfg='HookSeq_MC_thorough.cfg')]
        hcases = hook_cases(ctx, 'HookSeq_Gen.cfg' if th else 'HookSeq_Gen_q.cfg')
    if th:
        jobs += [dict(cfg=c, workers=4, timeout=2400) for c in THOROUGH_MC.get(pid, [])]
    tlc_jobs(ctx, jobs)
    scripts = []
    for g in gens:
        cfg, nq, nt = g[:3]
        if th:
            cfg = cfg.replace('_q.cfg', '.cfg')
        scripts += scenarios(ctx, cfg, nt if th else nq, g[3] if len(g) > 3 else None)
    tracedir = tempfile.mkdtemp(prefix='verif-pipe-', dir=vlib.SCRATCH_ROOT)
    try:
        drive(ctx, modes + (['scenario'] if scripts else []) + (['hookseq'] if hcases else []), runs_thorough if th else runs_quick,
              'thorough' if th else 'quick', scripts, tracedir, hcases)
        events = validate(ctx, tracedir, PROPS[pid])
        negative_traces(ctx, events, neg_traces if th else neg_traces[:2], PROPS[pid])
    finally:
        shutil.rmtree(tracedir, ignore_errors=True)
    if builder:
        builder_cases(ctx)
    ctx.assumptions += ASSUMPTIONS
    ctx.exhaustive = False


THOROUGH_MC = {
    'C01': ['MC_thorough.cfg'],
    'C33': [],
    'C26': ['MC_thorough_pubsub.cfg'],
    'C27': [],
}


# ------------------------------------------------------------------------------------------------- C33 (a)
def builder_cases(ctx):
    r = vlib.tlc(FAMILY, 'Builder', 'Builder.cfg', workers=1, timeout=900, collect_cases=True)
    ctx.tlc_runs.append(r.summary())
    if not r.ok or not r.cases:
        ctx.inconclusive.append('Builder.tla generation failed: %s %s\n%s' % (r.violated, r.error, r.output[-1500:]))
        return
    d = tempfile.mkdtemp(prefix='verif-pipeb-', dir=vlib.SCRATCH_ROOT)
    try:
        p = os.path.join(d, 'cases.ndjson')
        vlib.write_ndjson(p, r.cases)
        ctx.run_driver(vlib.build('pipedrv'), ['-mode', 'builder', '-cases', p], timeout=600)
        ctx.extra['builder_cases'] = len(r.cases)
    finally:
        shutil.rmtree(d, ignore_errors=True)
