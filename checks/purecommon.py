"""Shared by C08 C18 C22 C44 C45 C46 (spec/data): TLC enumerates the cases and predicts the outcome, harness/cmd/puredrv
applies every case to the real code.  Verdicts only come from the driver (real code); a failing TLC run is inconclusive."""
import os, tempfile
from concurrent.futures import ThreadPoolExecutor
from lib import vlib

FAMILY = 'data'
JAVA = {'JAVA_TOOL_OPTIONS': (os.environ.get('JAVA_TOOL_OPTIONS', '') + ' -Xss16m').strip()}


# A TLC job is described first and run later, so that independent jobs (separate JVMs, mostly start-up time) can run
# side by side; the check context is only updated afterwards, sequentially.
def generate(module, cfg, timeout=2400, min_cases=1):
    """Generation config (-workers 1): result = list of CASE records, or None when TLC failed (inconclusive)."""
    return dict(kind='generate', module=module, cfg=cfg, timeout=timeout, min_cases=min_cases, workers=1)


def model(module, cfg, workers=4, timeout=2400):
    """Exhaustive positive config: must finish without error."""
    return dict(kind='model', module=module, cfg=cfg, timeout=timeout, workers=workers)


def negative(module, cfg, invariant, timeout=900):
    """Negative config: TLC must report `invariant` violated (non-vacuity)."""
    return dict(kind='negative', module=module, cfg=cfg, timeout=timeout, workers=2, invariant=invariant)


def _run(job):
    return vlib.tlc(FAMILY, job['module'], job['cfg'], workers=job['workers'], timeout=job['timeout'],
                    collect_cases=job['kind'] == 'generate', env=JAVA)


def run_tlc_jobs(ctx, *jobs):
    """Run the jobs (at most three JVMs at a time) and account for them in ctx; returns one result per job:
    the case list (generate; None on failure) or the TlcResult."""
    with ThreadPoolExecutor(max_workers=3) as ex:
        results = list(ex.map(_run, jobs))
    out = []
    for job, r in zip(jobs, results):
        summary = r.summary()
        if job['kind'] == 'generate':
            summary['cases'] = len(r.cases)
        ctx.tlc_runs.append(summary)
        ctx.states += r.distinct
        ctx.transitions += r.generated
        what = '%s %s' % (job['module'], job['cfg'])
        if job['kind'] == 'negative':
            if r.violated != job['invariant']:
                ctx.inconclusive.append('negative config %s: expected violation of %s, got %s %s' % (
                    what, job['invariant'], r.violated, r.error or ''))
            out.append(r)
        elif job['kind'] == 'model':
            if not r.ok:
                ctx.inconclusive.append('TLC %s: violated=%s error=%s\n%s' % (what, r.violated, r.error, r.output[-2500:]))
            out.append(r)
        else:
            if not r.ok or len(r.cases) < job['min_cases']:
                ctx.inconclusive.append('TLC %s: violated=%s error=%s cases=%d\n%s' % (
                    what, r.violated, r.error, len(r.cases), r.output[-2500:]))
                out.append(None)
            else:
                out.append(r.cases)
    return out


def drive(ctx, mode, cases, timeout=1800, extra=None):
    """Hand the cases to puredrv; returns the driver report."""
    binp = vlib.build('puredrv')
    fd, path = tempfile.mkstemp(prefix='verif-cases-', suffix='.ndjson', dir=vlib.SCRATCH_ROOT)
    os.close(fd)
    try:
        vlib.write_ndjson(path, cases)
        rep = ctx.run_driver(binp, ['-mode', mode, '-cases', path] + (extra or []), timeout=timeout)
        if rep and rep.get('extra'):
            ctx.extra.update(rep['extra'])
        return rep
    finally:
        if os.path.exists(path):
            os.unlink(path)
