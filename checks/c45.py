"""C45 vector / binary helpers: Vector.tla -> VectorString32/64, ToVector32/64, BinaryString, JSON."""
from checks import purecommon as pc
LEVEL = 'exploration'


def run(ctx):
    th = ctx.tier == 'thorough'
    cases, _ = pc.run_tlc_jobs(ctx,
        pc.generate('Vector', 'Vector_thorough.cfg' if th else 'Vector_quick.cfg', min_cases=1000),
        pc.negative('Vector', 'Vector_neg_bigendian.cfg', 'KnownAnswers'))
    if cases is None:
        return
    pc.drive(ctx, 'vector', cases)
    ctx.exhaustive = False
    ctx.assumptions += ['bit transport only: floats are opaque 32/64-bit words, nothing numeric is claimed',
                        'ToVector32/64 is only applied to strings whose length is a multiple of the word size (the property is a round trip)']
